PROPS["C07"] = dict(
    level="exploration",
    rule=("stateful histories: configuration (scaler off in 82%, biequilibrium + persistent scaling in 18%, simplifier on/off) x initial "
          "SYNCMODE (only-real / auto / manual) x start LP (0..4 x 0..4, loaded through the real or the rational interface) x 2..36 "
          "(quick) / 2..60 (thorough) operations over BOTH modification interfaces: addRow(s)/addCol(s) (incl. implicitly created "
          "columns/rows), changeRow/Col, changeLhs/Rhs/Range/Lower/Upper/Bounds/Obj (single and vector forms), changeElement, "
          "removeRow/Col (single, perm array, index list with/without perm, range), clearLP - each as *Real, *Rational (objects) and, "
          "where it exists, the GMP mpq_t form (all 19 GMP entry points incl. changeRhsRational(mpq_t*, size) with a prefix) - plus "
          "OBJSENSE / OBJ_OFFSET changes, SYNCMODE switches (all 9 transitions), syncLPReal/syncLPRational, exact solves "
          "(SOLVEMODE_RATIONAL, ITERLIMIT 40) and float solves. Values: small integers, dyadics, zeros, +-1e100 (infinity), beyond "
          "infinity (1e200), 10^100 (finite by a hair), non-representable rationals (1/3, 1/10, 22/7, big numerators), denormal scale "
          "(2^-1060, 2^-1074, 1e-300, 5*2^-1076) and below (2^-1100), values around the floating-point zero tolerance 1e-16, huge "
          "(1e60, 2^200). Two exact reference LPs (vf::Q) are kept: what the rational LP must hold (rational arguments verbatim, double "
          "arguments as their exact binary value) and what the real LP holds. After EVERY operation, through public getters only "
          "(numRows/Cols[Rational], lhs/rhs/lower/upper/obj/maxObj[Rational], row/colVectorRational, coefReal, OBJSENSE, OBJ_OFFSET): "
          "auto mode: rational LP == model exactly, each real number is the double image of the rational one (exact if representable, "
          "else one of the two neighbouring doubles: SoPlex converts with boost convert_to<double> = round to nearest, one path with "
          "mpq_get_d = truncation; |q| >= 1e100 <-> |d| >= 1e100), range types (guarded observer hook) == FREE/LOWER/UPPER/BOXED/FIXED "
          "of the model's rational bounds; manual mode: each LP == its own model exactly, syncLPReal establishes the image relation, "
          "syncLPRational the exact copy; only-real mode: real LP exact, and right after an exact solve the rational LP == exact copy of "
          "the real LP with matching range types. Final probe (35%): the objective offset inside both LPs, read off the exact and the "
          "float objective value of a trivial LP. areLPsInSync() is counted, not judged. "
          "non-trivial = >= 1 executed rational-interface (objects or GMP) modification AND >= 1 executed real-interface modification "
          "AND >= 1 comparison of both LPs (auto mode, or manual mode right after a sync) with m,n >= 1; distinct = distinct case text."),
    assumptions=["preconditions taken from the asserts in soplex.hpp/spxlpbase.h: rational interface only while SYNCMODE != ONLYREAL, "
                 "lower <= upper and lhs <= rhs in every LP a call writes to, GMP addRows/addCols without implicit creation, MANUAL -> "
                 "AUTO and exact solves in manual mode only on synchronised LPs, no solves of zero-dimensional LPs",
                 "the real LP's own zero tolerance is not judged: changeElementReal / a real-LP write of changeElement with 0 < |v| <= 1e-16 "
                 "and changeRange(i,l,r) with 0 < |r-l| <= 1e-16 (SPxSolverBase::changeRange stores rhs := lhs) are not issued; counted as "
                 "excluded.changeElement_below_real_zero_tolerance.* / excluded.changeRange_sides_within_real_zero_tolerance",
                 "under persistent scaling (18% of the configurations) operations with numbers beyond ~1e+-30 and solves of LPs with such "
                 "numbers are not issued (scaled storage over/underflows or crosses the 1e100 threshold; C09 territory)",
                 "the order of survivors after removals without perm output is adopted from the LP (content match), single removals follow "
                 "the documented move-last-into-hole rule, perm outputs must be injections onto 0..n'-1",
                 "TIMELIMIT 20 s is set as a safety net only (never binding at these sizes); solver statuses are counted, not judged"],
    min_nontrivial=dict(quick=40000, thorough=200000),
    stages=[dict(name="main", target="c07", flavour="plain",
                 quick=dict(cases=20000, maxsize=100), thorough=dict(cases=60000, maxsize=100))],
)
