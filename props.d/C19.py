PROPS["C19"] = dict(
    level="exploration",
    rule=("one case = one container kind + a sequence of 1..60 operations (scaled by size), every operation total "
          "(arguments reduced modulo the current state, documented preconditions respected by construction): "
          "DataSet<int>, ClassSet<T>, SVSetBase<double|Rational>, LPRowSetBase/LPColSetBase<double|Rational>, NameSet, "
          "DataHashTable (colliding hash), IdxSet, DIdxSet, DataArray/ClassArray/Array, IdList/IsList, SPxQuicksort/"
          "SPxQuicksortPart/SPxShellsort, and SVector/DSVector/SSVector/Vector/UnitVector (double with dyadic data, "
          "Rational) incl. assign2product*/setup_and_assign/assignPWproduct4setup; after EVERY operation the real "
          "container is compared with a std:: model (num, dense numbering, key<->number bijection, keys of live "
          "elements stable, has()/number() of removed keys, reported permutations, documented renumbering, contents, "
          "name lookups, no duplicate indices, nonzero memory regions disjoint, exact dense arithmetic in GMP "
          "rationals, element construction/destruction balance for ClassArray/Array). non-trivial = containers: a "
          "removal followed by an insertion AND a capacity growth (max()/memMax()/element move) while elements are "
          "live; vectors: an operation on two operands of different kinds with overlapping supports; sorter: more "
          "than 25 elements (quicksort path); distinct = distinct case text (FNV-1a)."),
    assumptions=["std::map/std::vector/GMP arithmetic are correct",
                 "renumbering that the headers do not document is never assumed: it is read back through key(i) and "
                 "only checked to be a bijection onto the live elements",
                 "double data are n/1024 with |x| < 4096 (operations leaving that range are skipped), so all sums and "
                 "products are exact in binary64 in any order and the comparison is ==",
                 "sparse-sparse and semisparse-semisparse scalar products are driven with index-sorted operands "
                 "(undocumented precondition of the merge loops, respected by all in-tree callers)",
                 "VectorBase::minAbs() is not driven: it does not compile (SOPLEX_MIN_element undeclared)"],
    min_nontrivial=dict(quick=4000, thorough=300000),
    stages=[dict(name="main", target="c19", flavour="plain",
                 quick=dict(cases=15000, maxsize=70), thorough=dict(cases=125000, maxsize=100)),
            dict(name="asan", target="c19", flavour="asan", leaks=True,
                 quick=dict(cases=60, maxsize=70, shards=8), thorough=dict(cases=3000, maxsize=100))],
)
