# C14  Basis files and state files restore exactly what was saved   (harness/c14.cpp)
PROPS["C14"] = dict(
    level="exploration",
    rule=("planted LPs (optimal / infeasible / unbounded / both; m,n <= 10 quick, <= 14 thorough; 30% presolve-rich, 30% with "
          "power-of-two factors) with fixed, free, boxed and one-sided columns, equality, ranged, one-sided and free rows, extra "
          "free rows / columns fixed at 0 / an empty free column; names: none, both, rows only, columns only - random names of "
          "1..14 characters (letters, digits, '_'), the default names permuted, default names of the other kind (row 'x3', column "
          "'C1'), mixtures; x {standard, CPLEX-compatible flag}; basis from optimize() under a random configuration (representation, "
          "algorithm, simplifier, 7 scalers, starter, pricer, ratio tester, polishing, ...), from optimize() with ITERLIMIT 0..6, "
          "from setBasis with a generated valid status assignment (exactly m BASIC, 0..min(m,n) basic columns, nonbasic statuses "
          "consistent with the bounds incl. ON_LOWER/ON_UPPER/FIXED on lower == upper and ZERO on free variables), or solve + "
          "setBasis. Stage A (every case): writeBasisFile -> the file is parsed by an independent reader of the documented BAS format "
          "(record per basic column / nonbasic row, UL for columns at upper, XU/XL by side; with the CPLEX flag XU only for ranged "
          "rows) -> FRESH object with the same LP (50% with the writer's configuration) -> readBasisFile (same names / none) -> "
          "getBasis == getBasis of the writer before writing. Stage B (55%): writeStateReal / writeStateRational (20%) with "
          "writeZeroObjective -> FRESH object: loadSettingsFile, readFile, readBasisFile (names from readFile, or none) -> LP == exact "
          "reference model by name (MPS: max -> min -c, LP format: ranged row -> _1/_2; offset = parameter OBJ_OFFSET), statuses "
          "equal, every bool/int/real parameter and the seed equal (3-12 non-default parameters incl. tolerances, epsilons, time "
          "limit, refactor parameters with <= 4 or with 17 significant digits), then both objects are solved without iteration limit: "
          "status classes compatible, optimal values equal (1e-6 relative; MPS of a maximisation: 2*offset - z). non-trivial = m,n >= 2, "
          ">= 1 basic column and >= 1 nonbasic variable ON_UPPER / FIXED / ZERO in the written basis, stage A compared; distinct = case text."),
    assumptions=["valid basis = exactly m BASIC; ON_LOWER needs a finite lower bound, ON_UPPER a finite upper bound, FIXED lower == upper "
                 "(SPxSolverBase::isBasisValid / SPxBasisBase::isDescValid), ZERO a free variable (VarStatus docs); the basis need not be "
                 "nonsingular. Statuses returned by solves that violate this (known C08 postsolve-fixed-label) are counted, not compared",
                 "lower == upper (columns and rows): ON_LOWER, ON_UPPER and FIXED are the same point; the reader initialises such columns with "
                 "P_FIXED, maps XU/XL on an equality row to P_FIXED and loadDesc() rewrites every nonbasic status of such a variable to "
                 "P_FIXED - accepted and counted (compare.*.normalised_fixed); no other equivalence is accepted",
                 "real parameters: saveSettingsFile prints 9 significant digits (SPxOut::setScientific(file), the earlier setScientific(file, 16) "
                 "is overridden): values that 9 digits reproduce must come back exactly, 17-digit values within 5e-9 relative (counted as observation), as in C15",
                 "CPLEX-compatible flag = 'XU only for ranged rows' (condition in SPxBasisBase::writeBasis and in the second branch of "
                 "SoPlexBase::writeBasisFile; the flag has no other documentation)",
                 "re-solve: LP, statuses and parameters were verified equal before; a different answer of the two objects is attributed to the "
                 "solver (C01/C02/C04) only if fresh objects without simplifier agree on the same files; answers that agree with each other but "
                 "not with the planted class (warm start from a basis with a nonbasic free row) are counted, not judged",
                 "the writer branch for an LP held outside the solver (_isRealLPLoaded false) cannot be reached through optimize() in this tree: "
                 "every solve path reloads the LP (_loadRealLP); the class counter writer_path.unloaded shows whether it was hit"],
    min_nontrivial=dict(quick=15000, thorough=400000),
    stages=[dict(name="main", target="c14", flavour="plain",
                 quick=dict(cases=9000, maxsize=70), thorough=dict(cases=80000, maxsize=100)),
            # the same search under ASan + UBSan (name sets, MPSInput line buffer, file streams)
            dict(name="asan", target="c14", flavour="asan",
                 quick=dict(cases=300, maxsize=60, shards=8), thorough=dict(cases=6000, maxsize=100))],
)
