# C12  LP/MPS files round-trip to an equivalent LP; numeric literals are read exactly   (harness/c12.cpp)
PROPS["C12"] = dict(
    level="exploration",
    rule=("(rt) planted LPs (optimal / infeasible / unbounded / both; m,n <= 10) post-processed with free rows, empty rows, "
          "empty columns, zero objective, default or generated user names, integer markers, x {LP,MPS} x {real writeFile, "
          "rational writeFileRational} x writeZeroObjective x unscale flag (real; scaler + persistent scaling + one solve "
          "before writing); the file is read into a fresh object and compared with the exact reference model by name modulo "
          "the documented normalisations (offset = OBJ_OFFSET parameter, MPS max -> min -c, LP format splits ranged rows into "
          "_1/_2, unwritten default-bound columns, real MPS %.15f), then both LPs are solved (exactly for rational) and "
          "status class / optimum compared with each other and the planted optimum. non-trivial = >= 2 columns and a ranged "
          "row or non-default bound. (lit) every string of the literal grammar over {+,-,0,1,7,9,.,e,E,/} up to length 7 "
          "(247172 strings, one shard, 32 index chunks) plus random literals up to 40 digits / exponents up to +-400: "
          "ratFromString, and the literal as coefficient / right-hand side / bound of LP-format and MPS files in rational "
          "mode == the exact value from our own parser (mpz x 10^e, p/q), in real mode == the correctly rounded double "
          "(mpfr, subnormals included); rejection is fine, acceptance with another value is the violation. non-trivial = "
          "fraction part, exponent or p/q. (dual) writeDualFileReal of planted-optimal LPs -> read -> solve: sense is the "
          "opposite, optimal value + offset == planted optimum within 1e-6 relative. non-trivial = m,n >= 2. "
          "distinct = distinct case text (FNV-1a)."),
    assumptions=["GMP/MPFR arithmetic and glibc are correct; the 60-line literal parser in c12.cpp is correct",
                 "planted class / optimum is correct by construction (gen_lp.hpp); positive rational row/column factors keep it",
                 "floating-point solve comparisons use 1e-6 relative; a disagreement that disappears with SIMPLIFIER=0 in fresh "
                 "objects is attributed to the solver (C01/C02), not to the files",
                 "exact solves report objective values without OBJ_OFFSET, so rational variants use offset 0"],
    min_nontrivial=dict(quick=10000, thorough=150000),
    stages=[
        dict(name="rt", target="c12", flavour="plain", x=dict(mode="rt"),
             quick=dict(cases=1500, maxsize=70), thorough=dict(cases=5000, maxsize=100)),
        dict(name="litexh", target="c12", flavour="plain", x=dict(mode="lit", exh="1", chunks="32"),
             quick=dict(cases=32, maxsize=70, shards=1), thorough=dict(cases=32, maxsize=100, shards=1)),
        dict(name="lit", target="c12", flavour="plain", x=dict(mode="lit"),
             quick=dict(cases=500, maxsize=70), thorough=dict(cases=8000, maxsize=100)),
        dict(name="dual", target="c12", flavour="plain", x=dict(mode="dual"),
             quick=dict(cases=800, maxsize=70), thorough=dict(cases=5000, maxsize=100)),
    ],
)
