PROPS["C11"] = dict(
    level="exploration",
    rule=("(lu) soplex::SLUFactorRational standalone on rational matrices of dimension 1..40 with entries p/q of widely varying "
          "bit length (small integers, small non-dyadic fractions, dyadic up to 2^-60, p/q up to 2^60/2^60, huge odd "
          "denominators), sparse and dense, families: regular, regular whose double rounding is singular (two rows/columns "
          "differing by relative 2^-60..2^-80), exactly singular (zero row/column, dependent rows/columns with rational "
          "multipliers); status SINGULAR iff the exact determinant is 0; solveRight/solveLeft in the Vector and the "
          "SSVector/SVector forms and the 2-/3-rhs solveLeft compared with `==` against an exact Gauss-Jordan elimination in "
          "GMP rationals; statuses other than OK/SINGULAR are inconclusive. (basis) small LPs with rational data (planted LPs "
          "rescaled by rational row/column factors) loaded through the rational interface, SOLVEMODE_RATIONAL, SYNCMODE_AUTO, "
          "FEASTOL=OPTTOL=0; after the solve and after every changeElementRational / changeBoundsRational / changeRangeRational "
          "/ changeObjRational / addRowRational / addColRational / setBasis / clearBasis / re-solve: getBasisIndRational names "
          "the BASIC set of getBasis and, with B assembled from the harness's own exact model in that order (slack = unit "
          "vector), B*getBasisInverseColRational(c)==e_c, getBasisInverseRowRational(r)*B==e_r^T, "
          "B*getBasisInverseTimesVecRational(v)==v for all c, r and 1-3 sparse v. non-trivial = dimension >= 4 and at least "
          "one entry whose denominator is not a power of two (basis stage: and >= 1 successful query); distinct = case text."),
    assumptions=["GMP arithmetic and the exact elimination written in harness/c11.cpp are correct",
                 "no time limit is set, so TIME cannot occur; any non-OK non-SINGULAR status is counted as inconclusive",
                 "modified matrix entries are kept above 1e-9 in magnitude: changeElementRational drops |val| <= epsilon "
                 "from the rational LP (observation reported separately, it concerns the LP-modification property)"],
    min_nontrivial=dict(quick=3000, thorough=100000),
    stages=[dict(name="lu", target="c11", flavour="plain",
                 quick=dict(cases=6000, maxsize=100), thorough=dict(cases=20000, maxsize=100)),
            dict(name="basis", target="c11s", flavour="plain",
                 quick=dict(cases=3000, maxsize=100), thorough=dict(cases=8000, maxsize=100))],
)
