# C13  File readers survive arbitrary input without memory errors and fail cleanly.
# Coverage-guided byte-level fuzzing (libFuzzer + ASan/UBSan/LSan) of two targets:
#   fuzz_readers (T1, light): SPxLPBase<double|Rational>::readLPF / readMPS / read on a string stream
#   fuzz_soplex  (T2, whole object): SoPlex::readFile / readBasisFile / loadSettingsFile / parseSettingsString,
#                plain and gz files, real and rational read mode, followed by the fixed post-read sequence.
# One custom stage function does everything (replay of the committed corpus, the parallel campaign, artifact triage,
# evidence); the other stage entries only tell ./check which binary replays which file (name prefix <stage>__).
import hashlib as _hashlib
import os as _os
import re as _re
import shutil as _shutil
import signal as _signal
import subprocess as _subprocess
import sys as _sys
import time as _time
from concurrent.futures import ThreadPoolExecutor as _Pool

import vbuild as _vbuild

_VERIF = _os.path.dirname(_os.path.abspath(_vbuild.__file__))
_FUZZ = _os.path.join(_VERIF, "fuzz")
_DICT = _os.path.join(_FUZZ, "readers.dict")
# scratch of T2's input files during replays: inside the Runner's scratch directory (same process => same pid), which
# the driver removes at the end even when a replayed input kills the target before its own cleanup
_TMP = "/var/tmp/verif-run-C13-%d/tmp" % _os.getpid()
# one exit code for every ASan/LSan verdict (libFuzzer's own leak check exits 77, LSan's at-exit check would exit 1)
_ENV = dict(VF_TMP=_TMP, ASAN_OPTIONS="detect_leaks=1:abort_on_error=0:allocator_may_return_null=1:"
                                      "detect_stack_use_after_return=0:exitcode=77")


def _log(*a):
    print(*a, file=_sys.stderr, flush=True)


def _run(cmd, timeout, env):
    e = dict(_os.environ)
    e.update(env)
    try:
        p = _subprocess.Popen(cmd, stdout=_subprocess.PIPE, stderr=_subprocess.STDOUT, env=e, start_new_session=True)
        try:
            out, _ = p.communicate(timeout=timeout)
            return p.returncode, out.decode(errors="replace"), False
        except _subprocess.TimeoutExpired:
            _os.killpg(p.pid, _signal.SIGKILL)
            out, _ = p.communicate()
            return -9, out.decode(errors="replace"), True
    except OSError as x:
        return 127, str(x), False


def _seed(seed, *parts):
    h = _hashlib.sha256(("%d|" % seed + "|".join(str(p) for p in parts)).encode()).digest()
    return int.from_bytes(h[:4], "big") % 2000000000 + 1


def _signature(rc, out):
    """stable one-line class of a failing run"""
    m = _re.search(r"C13-VIOLATION: (.*)", out)
    if m:
        return "CHECK:" + _re.sub(r"\d+", "#", m.group(1))[:100]
    m = _re.search(r"(ERROR: \w+Sanitizer: [\w-]+)", out)
    if m:
        fr = _re.findall(r"#\d+ 0x[0-9a-f]+ in (\S+) (/repo/\S+?):(\d+)", out)
        return "SAN:" + m.group(1) + (" in %s %s" % (fr[0][0][:60], _os.path.basename(fr[0][1])) if fr else "")
    m = _re.search(r"(\S+:\d+):\d+: runtime error: ([^\n]{0,70})", out)
    if m:
        return "UBSAN:" + _os.path.basename(m.group(1)) + " " + _re.sub(r"0x[0-9a-f]+|\d{3,}", "#", m.group(2))
    if "ALARM: working on the last Unit" in out:
        return "TIMEOUT"
    return "RC:%d" % rc


_MPS_KW = ("NAME", "ROWS", "COLUMNS", "RHS", "RANGES", "BOUNDS", "ENDATA", "OBJSENSE", "OBJSEN", "OBJNAME")


def _nontrivial(target, data):
    """cheap classifier: did the unit reach at least the second section / keyword of its format?"""
    if len(data) < 2:
        return None
    sel = data[0]
    t = data[1:].split(b"\0")[0].decode("latin-1") if target == "fuzz_soplex" and (sel & 7) % 5 == 4 else data[1:].decode("latin-1")
    if target == "fuzz_readers":
        fmt = "mps" if (sel & 1) else "lp"
        if sel & 16:
            fmt = "mps" if t[:1] in ("*", "N") else "lp"
    else:
        r = (sel & 7) % 5
        fmt = ("lp", "mps", "bas", "set", "set")[r]
        if r < 2:
            fmt = "mps" if t[:1] in ("*", "N") else "lp"
    lines = t.split("\n")
    if fmt == "lp":
        st = 0
        for ln in lines:
            s = ln.split("\\")[0].strip().lower()
            if st == 0 and _re.match(r"(max(imize)?|min(imize)?)(\s|$)", s):
                st = 1
            elif st == 1 and _re.match(r"(subject\s+to|such\s+that|st|s\.t\.|lazy con)", s):
                return fmt
        return None
    if fmt == "mps":
        kws = [ln.split()[0] for ln in lines if ln[:1] not in (" ", "\t", "*", "") and ln.split()]
        kws = [k for k in kws if k in _MPS_KW]
        return fmt if kws[:1] == ["NAME"] and len(set(kws)) >= 2 and "ROWS" in kws else None
    if fmt == "bas":
        if not (lines and lines[0].startswith("NAME")):
            return None
        return fmt if any(_re.match(r"\s+(XU|XL|UL|LL)\s+\S+", ln) for ln in lines[1:]) else None
    return fmt if any(_re.match(r"\s*(bool|int|real|uint|rational)\s*:\s*[^\s=#]+\s*=\s*[^\s#]+", ln) for ln in lines) else None


def _escape(data, limit=300):
    return "".join(chr(b) if 32 <= b < 127 and b != 92 else ("\\n" if b == 10 else "\\x%02x" % b) for b in data[:limit])


def c13_run(runner, stage):
    t = stage[runner.tier]
    stages = {s["name"]: s for s in runner.spec["stages"]}
    bins = {"fuzz_soplex": runner.bin(stages["soplex"]), "fuzz_readers": runner.bin(stages["readers"])}
    stage_of = {"fuzz_soplex": stages["soplex"], "fuzz_readers": stages["readers"]}
    known = ",".join(k["key"] for k in runner.known)
    shm = "/dev/shm/verif-c13-%d" % _os.getpid()
    try:
        _os.makedirs(shm, exist_ok=True)
    except OSError:
        shm = _os.path.join(runner.scratch, "tmp")
        _os.makedirs(shm, exist_ok=True)
    env = runner.env(stages["soplex"])
    env.update(VF_KNOWN=known, VF_TMP=shm)
    found = []          # (target, path, signature, output tail)
    seen_sig = {}       # (target, signature) -> number of failing files with it
    extra = runner.cov.setdefault("extra", {})
    fz = extra.setdefault("fuzz", {})

    def classify_artifact(target, path, limit=60, tries=1):
        """runs the binary on one file; returns (rc, signature, out, timed_out)"""
        e = dict(env)
        e["VF_REPLAY_TIMEOUT"] = "3600"
        rc, out, to = _run([bins[target], "--replay", path], limit, e)
        return rc, ("TIMEOUT" if to else _signature(rc, out)), out, to

    try:
        # ---- (b) replay of the committed corpus: all units of a target in one process, singly only after a failure
        for target in ("fuzz_readers", "fuzz_soplex"):
            d = _os.path.join(_FUZZ, "corpus", target)
            files = sorted(_os.path.join(d, f) for f in _os.listdir(d)) if _os.path.isdir(d) else []
            if not files:
                continue
            rc, out, to = _run([bins[target]] + files + ["-timeout=20"], 600, env)
            runner.cov["replays_run"] += len(files)
            if rc != 0:
                for f in files:
                    rc1, sig, out1, to1 = classify_artifact(target, f)
                    if rc1 != 0 and (target, sig) not in seen_sig:
                        seen_sig[(target, sig)] = 1
                        found.append((target, f, sig, out1[-3000:]))
        # ---- (c) the campaign
        nproc, secs = t["procs"], int(_os.environ.get("VERIF_C13_SECS", t["secs"]))   # override: smoke tests of a tier
        n1 = max(2, (nproc // 3) & ~1)      # quick: 4 x T1 + 8 x T2; thorough: 4 x T1 + 12 x T2
        plan = [("fuzz_readers", i) for i in range(n1)] + [("fuzz_soplex", i) for i in range(nproc - n1)]
        deadline = _time.time() + secs
        _log("C13: corpus replay done, %d failing; starting %d x %d s" % (len(found), nproc, secs))

        def campaign(job):
            target, i = job
            d = _os.path.join(runner.scratch, "%s-%d" % (target, i))
            cd, ad = _os.path.join(d, "corpus"), _os.path.join(d, "art")
            _os.makedirs(cd)
            _os.makedirs(ad)
            if i % 2 == 0:      # half of the processes start from the committed seeds, half from nothing
                src = _os.path.join(_FUZZ, "corpus", target)
                for f in (_os.listdir(src) if _os.path.isdir(src) else []):
                    _shutil.copyfile(_os.path.join(src, f), _os.path.join(cd, f))
            res = dict(target=target, i=i, execs=0, cov=0, ft=0, restarts=0, dir=d, classes={}, logs=[])
            for attempt in range(6):
                left = int(deadline - _time.time())
                if left < 8 and attempt > 0:
                    break
                left = max(left, 5)
                e = dict(env)
                e["VF_STATS"] = _os.path.join(d, "stats-%d.txt" % attempt)
                cmd = [bins[target], cd, "-max_total_time=%d" % left, "-max_len=32768", "-timeout=10", "-rss_limit_mb=2048",
                       "-seed=%d" % _seed(runner.seed, "C13", target, i, attempt), "-dict=" + _DICT,
                       "-artifact_prefix=" + ad + "/", "-print_final_stats=1"]
                rc, out, to = _run(cmd, left + 180, e)
                res["logs"].append(out[-4000:])
                m = _re.search(r"stat::number_of_executed_units:\s*(\d+)", out)
                if m:
                    res["execs"] += int(m.group(1))
                else:       # died before the final statistics: take the last status line
                    mm = _re.findall(r"^#(\d+)\s", out, _re.M)
                    res["execs"] += int(mm[-1]) if mm else 0
                mm = _re.findall(r"cov: (\d+) ft: (\d+)", out)
                if mm:
                    res["cov"], res["ft"] = max(res["cov"], int(mm[-1][0])), max(res["ft"], int(mm[-1][1]))
                if _os.path.exists(e["VF_STATS"]):
                    for line in open(e["VF_STATS"]):
                        k, v = line.rsplit(" ", 1)
                        res["classes"][k] = res["classes"].get(k, 0) + int(v)
                if rc == 0 and not to:
                    break
                res["restarts"] += 1
            return res

        with _Pool(max_workers=len(plan)) as ex:
            results = list(ex.map(campaign, plan))
        _log("C13: campaign done (%s execs)" % sum(r["execs"] for r in results))
        # ---- (d) artifacts
        arts, timeouts = [], []
        for r in results:
            ad = _os.path.join(r["dir"], "art")
            for f in sorted(_os.listdir(ad)):
                p = _os.path.join(ad, f)
                if f.startswith("crash-") or f.startswith("leak-"):
                    arts.append((r["target"], p))
                elif f.startswith("timeout-"):
                    timeouts.append((r["target"], p))       # slow-unit-*, oom-*: ignored
        fz["artifacts"] = dict(crash_or_leak=len(arts), timeout=len(timeouts))
        arts.sort(key=lambda a: _os.path.getsize(a[1]))

        def first_look(a):
            return a, classify_artifact(a[0], a[1])
        with _Pool(max_workers=16) as ex:
            looks = list(ex.map(first_look, arts[:200]))
        for (target, p), (rc, sig, out, to) in looks:
            if rc == 0:
                runner.cov["flaky"] += 1
                _log("artifact did not reproduce: %s" % p)
                continue
            if (target, sig) not in seen_sig:
                seen_sig[(target, sig)] = 1
                found.append((target, p, sig, out[-3000:]))
            else:
                seen_sig[(target, sig)] += 1
        # timeout-* units: only a candidate if a standalone run is still running after 60 s, three times
        # (the smallest unit of each target, its three runs side by side)
        hang = {}
        for target, p in sorted(timeouts, key=lambda a: _os.path.getsize(a[1])):
            hang.setdefault(target, p)
        jobs = [(target, p) for target, p in hang.items() for _ in range(3)]
        with _Pool(max_workers=max(1, len(jobs))) as ex:
            hres = list(ex.map(lambda j: classify_artifact(j[0], j[1], limit=60), jobs))
        for target, p in hang.items():
            still = sum(1 for j, r in zip(jobs, hres) if j[0] == target and r[3])
            if still == 3:
                found.append((target, p, "TIMEOUT non-termination (still running after 60 s, 3 of 3 runs)", ""))
            else:
                fz["timeouts_not_reproduced"] = fz.get("timeouts_not_reproduced", 0) + 1
        fz["failure_signatures"] = {"%s %s" % k: v for k, v in seen_sig.items()}
        # ---- (e) evidence
        st_cov = dict(name="campaign", shards=len(plan), evaluations=0, nontrivial=0)
        per_target = {}
        sample_pool = []
        for r in results:
            runner.cov["shards"] += 1
            runner.cov["evaluations"] += r["execs"]
            st_cov["evaluations"] += r["execs"]
            pt = per_target.setdefault(r["target"], dict(processes=0, execs=0, cov=0, ft=0, restarts=0, corpus_units=0,
                                                         nontrivial_units=0, by_format={}))
            pt["processes"] += 1
            pt["execs"] += r["execs"]
            pt["cov"], pt["ft"] = max(pt["cov"], r["cov"]), max(pt["ft"], r["ft"])
            pt["restarts"] += r["restarts"]
            for k, v in r["classes"].items():
                kk = r["target"] + ":" + k
                runner.cov["classes"][kk] = runner.cov["classes"].get(kk, 0) + v
            cd = _os.path.join(r["dir"], "corpus")
            for f in _os.listdir(cd):
                data = open(_os.path.join(cd, f), "rb").read()
                pt["corpus_units"] += 1
                fmt = _nontrivial(r["target"], data)
                if fmt:
                    h = r["target"] + _hashlib.sha1(data).hexdigest()[:16]
                    if h not in runner.cov["hashes"]:
                        runner.cov["hashes"].add(h)
                        pt["nontrivial_units"] += 1
                        pt["by_format"][fmt] = pt["by_format"].get(fmt, 0) + 1
                        if len(data) < 400 and len(sample_pool) < 400:
                            sample_pool.append((r["target"], fmt, data))
        for k, pt in per_target.items():
            pt["execs_per_s"] = round(pt["execs"] / max(1, secs), 1)
        runner.cov["nontrivial"] += len(runner.cov["hashes"])
        st_cov["nontrivial"] = len(runner.cov["hashes"])
        runner.cov["stages"].append(st_cov)
        fz["targets"] = per_target
        fz["seconds_per_process"] = secs
        got = set()
        for target, fmt, data in sorted(sample_pool, key=lambda s: -len(s[2])):
            if (target, fmt) not in got and len(runner.cov["samples"]) < 8:
                got.add((target, fmt))
                runner.cov["samples"].append("%s[%s] %s" % (target, fmt, _escape(data)))
        # ---- valgrind (thorough): uninitialised reads on the smallest final corpus units of T2
        if t.get("valgrind"):
            vst = stages["valgrind"]
            vb = runner.bin(vst)
            units = {}
            for r in results:
                if r["target"] != "fuzz_soplex":
                    continue
                cd = _os.path.join(r["dir"], "corpus")
                for f in _os.listdir(cd):
                    units[f] = _os.path.join(cd, f)
            sel = sorted(units.values(), key=lambda p: (_os.path.getsize(p), p))[:t["valgrind"]]
            venv = dict(env)

            def vg(p):
                return p, _run([vb, "--replay", p, "--x", "vg=1", "--x", "known=" + known], 600, venv)
            with _Pool(max_workers=16) as ex:
                vres = list(ex.map(vg, sel))
            fz["valgrind_units"] = len(sel)
            vsig = set()
            for p, (rc, out, to) in vres:
                if to:
                    runner.cov["inconclusive"] += 1
                    continue
                if rc != 0:
                    m = _re.search(r"==\d+== ([A-Z][^\n]{0,80})\n==\d+==\s+at 0x[0-9A-F]+: (\S+)", out)
                    sig = "VALGRIND:" + (m.group(1) + " at " + m.group(2)[:60] if m else "rc=%d" % rc)
                    if sig not in vsig:
                        vsig.add(sig)
                        found.append(("valgrind", p, sig, out[-3000:]))
        # ---- hand the candidates to the driver's 3x confirmation (file name prefix selects the replaying stage)
        cdir = _os.path.join(runner.scratch, "candidates")
        _os.makedirs(cdir, exist_ok=True)
        for target, p, sig, out in found[:12]:
            stname = {"fuzz_soplex": "soplex", "fuzz_readers": "readers", "valgrind": "valgrind"}[target]
            h = _hashlib.sha256(open(p, "rb").read()).hexdigest()[:12]
            dst = _os.path.join(cdir, "%s__%s.bin" % (stname, h))
            _shutil.copyfile(p, dst)
            runner.candidates.append((stages[stname], dst, sig.split(":")[0], sig + "\n" + out))
    finally:
        _shutil.rmtree(shm, ignore_errors=True)


PROPS["C13"] = dict(
    level="exploration",
    rule=("byte strings = libFuzzer mutations (dictionary of LP/MPS/BAS/settings keywords, max_len 32768) of a seed corpus "
          "(one 3x3 LP in every dialect feature of both formats, a basis file, settings files, afiro.mps) and of the empty "
          "corpus, fed to readLPF/readMPS/read on streams (T1) and to SoPlex::readFile/readBasisFile/loadSettingsFile/"
          "parseSettingsString, plain and gz, READMODE real/rational, followed by the fixed post-read API sequence (T2); "
          "judged by ASan+UBSan+LSan, libFuzzer's 10 s timeout (confirmed with a 60 s standalone limit), and an own "
          "re-computation of the storage invariants. evaluations = executed units; non-trivial = final corpus unit whose "
          "text reaches at least the second section/keyword of its format (objective + constraint section; NAME + ROWS; "
          "NAME + a basis record; a complete type:name=value line); distinct = distinct unit bytes (each unit of a "
          "libFuzzer corpus has its own coverage signature, `ft` is reported per target)."),
    assumptions=["sanitizer and libFuzzer runtimes are correct; a hang is anything still running after 60 s on a <= 32 KB input",
                 "the post-read solves run with SIMPLIFIER off, ITERLIMIT 50, TIMELIMIT 2 (solver defects are not this property's "
                 "business; UBSan's enum check stops on SPxMainSM::unsimplify copying uninitialised VarStatus slots)",
                 "inputs matching an excluded known finding are completed/skipped by the decoder and counted (classes excluded_known.*)"],
    min_nontrivial=dict(quick=1500, thorough=6000),
    stages=[
        dict(name="soplex", kind="custom", replayable=True, target="fuzz_soplex", flavour="fuzz", leaks=True, replay_timeout=120,
             env=_ENV, fn=c13_run, quick=dict(procs=12, secs=45), thorough=dict(procs=16, secs=1200, valgrind=500)),
        dict(name="readers", kind="custom", replayable=True, target="fuzz_readers", flavour="fuzz", leaks=True, replay_timeout=120, env=_ENV),
        dict(name="valgrind", kind="custom", replayable=True, target="fuzz_soplex_sa", flavour="plain", x=dict(vg="1"),
             env=dict(VF_TMP=_TMP), replay_timeout=900),
    ],
)
