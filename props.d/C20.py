PROPS["C20"] = dict(
    level="exploration",
    rule=("sequences of C calls over all 56 SoPlex_* functions (valid arguments; every array a heap block of exactly the "
          "length passed; dense arrays of exact / shorter / longer size incl. implicit row/column creation as in "
          "tests/c_interface; nnonzeros exact and larger; zero non-zeros; rational num/den pairs with negative numerators, "
          "denominators 1, values up to LONG_MIN/LONG_MAX; int/bool/real parameter codes from the enums; LP, basis and "
          "settings files; interleaved solves in float / auto / rational mode and queries), each call mirrored on a twin "
          "C++ SoPlex object by the C++ call it wraps. After every call: object behind the handle == twin (dimensions, "
          "all data of the real and rational LP, all parameters, status, basis codes, solution/ray/Farkas vectors bitwise, "
          "objective); LP in the C object == exact model built from the input arrays; returned ints/doubles/arrays/strings "
          "== C++ getters (strings parsed as rationals); asan stage: no access outside the given lengths. "
          "non-trivial = >= 1 *Rational* entry point executed, >= 1 change*/remove* after the first add, >= 1 solve "
          "followed by a solution/status query; distinct = distinct case text."),
    assumptions=["two SoPlex objects in one process executing the same call sequence behave identically (deterministic code; "
                 "precision-boosting parameters are not drawn because the mpfr working precision is process-global)",
                 "SYNCMODE_MANUAL is not drawn (the C interface has no syncLP call)",
                 "a solve that crashes, throws or hangs in the C++ API as well (probed in a forked child) is outside the claim and "
                 "counted as unjudged.optimize_*; leak freedom is not claimed (detect_leaks=0)",
                 "rationals rounded into the real LP are accepted within one ulp; everything else is compared exactly"],
    min_nontrivial=dict(quick=2000, thorough=50000),
    stages=[dict(name="plain", target="c20", flavour="plain",
                 quick=dict(cases=400, maxsize=100), thorough=dict(cases=12000, maxsize=100)),
            dict(name="asan", target="c20", flavour="asan",
                 quick=dict(cases=120, maxsize=100), thorough=dict(cases=4000, maxsize=100))],
)
