PROPS["C15"] = dict(
    level="exploration",
    rule=("sequences of 1..40 parameter operations (typed setBool/Int/RealParam, parseSettingsString, hand-written and saved "
          "settings files, saveSettingsFile all/only-changed, resetSettings, setSettings from a second object, setRandomSeed) "
          "on an object with / without a small planted LP; values inside the range, on both boundaries, nextafter / +-1 outside, "
          "INT_MIN/INT_MAX, +-inf, NaN, non-enumerated in-range values; judged after EVERY operation against a model built from "
          "the library's static tables Settings::{bool,int,real}Param + the enumerators of soplex.h + the documented build "
          "exceptions (no PaPILO), against a twin object that received the typed calls, and against the case's LP; a final "
          "default solve observes sense/offset. non-trivial = >= 1 rejected set and >= 1 text-form set and >= 1 save/load/reset; "
          "sweep stage: every parameter x {lower-1|nextafter, lower, default, upper, upper+1|nextafter, lower-1, upper+1, "
          "INT_MIN, INT_MAX, holes, NaN, +-inf} on a fresh object, typed and as text (non-trivial = all points judged); "
          "distinct = distinct case text (FNV-1a)."),
    assumptions=["the static tables Settings::boolParam/intParam/realParam are the documented names, ranges and defaults",
                 "printed precision of saveSettingsFile = 9 significant digits (scientific, 8 digits): relative tolerance 5e-9",
                 "glibc strtod / printf(%.17g) round-trip doubles exactly",
                 "sense is observed through maxObjReal = sense * objReal, offset only through the objective value of a default solve"],
    min_nontrivial=dict(quick=8000, thorough=150000),
    stages=[dict(name="main", target="c15", flavour="plain",
                 quick=dict(cases=5000, maxsize=70), thorough=dict(cases=40000, maxsize=100)),
            dict(name="sweep", target="c15", flavour="plain", x=dict(sweep="1"),
                 quick=dict(cases=2, maxsize=70), thorough=dict(cases=6, maxsize=100))],
)
