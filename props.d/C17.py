PROPS["C17"] = dict(
    level="exploration",
    rule=("two parts, differential (object vs object, bit patterns; no SoPlex answer is judged by SoPlex). "
          "det (45%): planted LP (all four classes, power-of-two factors, 45% made degenerate: zero sides / zero bounds / tied costs) x "
          "genCfg parameter combination x seed, 12% in SOLVEMODE_RATIONAL + SYNCMODE_AUTO, 10% float solve with a rational LP present; "
          "object A and object B are built in raw memory pre-filled with different byte patterns (0x00/0xA5/0xFF/0x01), with unrelated "
          "heap traffic / a dummy solver between them; status, numIterations, basis, primal/slack/dual/redcost/ray/Farkas vectors, "
          "objective (bitwise) and the rational solution must agree; then A.clearBasis(); optimize() twice more: 2nd == 3rd, 1st == 2nd. "
          "copy (55%): A and a never-copied twin T run the same 0..3 operations (real-interface modifications, parameter changes, "
          "solve, setBasis, clearBasis, basis-inverse row); B = copy of A by copy constructor / assignment to a fresh object / assignment "
          "to a used object (other LP, other parameters, solved, rational LP present) / self assignment; B == A in every public getter "
          "(LP data, all int/bool/real parameters, basis, status, solution, rational LP and solution); one side gets 1..4 operations "
          "incl. solves and is destroyed in 45% (memory poisoned, in half of these recycled by a new solver); the other side must be "
          "bit-identical before/after and must continue (0..3 more operations + solve) exactly like T. "
          "non-trivial = det: >= 2 simplex iterations in both objects; copy: the source had a basis when copied and >= 1 operation "
          "followed on one side; distinct = distinct case text."),
    assumptions=["PRECISION_BOOSTING is off in exact cases (the mpfr working precision is process-global, as in C20); LIFTING is never drawn",
                 "a copy is required to continue bit-identically to a never-copied twin (sentence 1 of the statement applied to the copy): "
                 "hidden solver state that matters for later solves counts as state of the object",
                 "component names (get*Name) are observed but not compared between copy and source: they report a transient binding",
                 "zero-dimensional LPs are copied / compared / modified but not solved; rows are never made free by a modification "
                 "(C06/free-nonbasic-row); exceptions thrown by optimize() are outcomes that twins must share, not violations",
                 "asan stage: every case ends with __lsan_do_recoverable_leak_check(); a leak is a failure of that case"],
    min_nontrivial=dict(quick=8000, thorough=200000),
    stages=[dict(name="plain", target="c17", flavour="plain",
                 quick=dict(cases=6000, maxsize=90), thorough=dict(cases=60000, maxsize=100)),
            dict(name="asan", target="c17", flavour="asan", leaks=True,
                 quick=dict(cases=150, maxsize=80, shards=8), thorough=dict(cases=4000, maxsize=100))],
)
