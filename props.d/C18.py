PROPS["C18"] = dict(
    level="exploration",
    rule=("one case = T thread programs (T in 2..16; quick tier: cap 8 in 85% of the cases), each with its own planted LP (m,n <= 10; exact modes <= 6, "
          "50% with non-dyadic rational row factors), its own parameter combination (genCfg: representation, algorithm, update "
          "type/max, simplifier, 7 scalers, starter, 6 pricers, 4 ratio testers, polishing, hyper pricing, 4 bools, seed; exact "
          "modes: the parameters of the embedded float solver), a mode (float | exact | exact + precision boosting | pure "
          "precision boosting, optionally without reconstruction/rational factorization so that the boosting loop runs to the "
          "digit limit), verbosity 0..5 into a per-object string stream, timer off/user/wallclock, and 1..9 operations: solve, "
          "changeBounds/Obj/Range, add/remove row/column, solution + basis queries, LP read-back, INFTY read/set, statistics / "
          "status / settings / version printing, parseSettingsString, writeFile + readFile (LP and MPS format) into fresh "
          "objects, basis clear/set, copy construction + assignment, timer/seed/verbosity changes. Every case runs in a forked "
          "child process: every program alone (digest = labelled list of statuses, iteration/refinement/boost counts, bases, "
          "solution vectors bit for bit, rationals as strings, clock-free text), then all T programs concurrently in T threads "
          "released by one spin barrier, 3 times (12 times on replay), staggered by 0..3 generated warm-up solves, then alone "
          "again. 40% of the cases skip the first solo run, so the first SoPlex objects of the process are constructed "
          "concurrently. Oracle: every concurrent digest == the solo digest item by item (the two solo runs must agree); under "
          "the tsan flavour no ThreadSanitizer report (data race, use-after-free, signal) in the child's stderr; no crash. "
          "non-trivial = >= 2 threads whose programs each performed >= 1 solve with >= 1 simplex iteration in every concurrent "
          "repetition and all T digests were compared; distinct = distinct case text (FNV-1a)."),
    assumptions=["threads are the weak spot of PBT: the harness does not own the scheduler. Schedule independence comes from "
                 "ThreadSanitizer's happens-before analysis: an unsynchronised pair of accesses to the same memory executed in one "
                 "run is reported whatever the actual interleaving was (limits: 4 shadow cells per 8 bytes and a bounded per-thread "
                 "history; code outside the instrumented objects - GMP, MPFR, libstdc++.so, libc - is invisible)",
                 "defects that go through atomics or uninstrumented libc state (global multiprecision default precision, strtok) are "
                 "visible only when the interleaving manifests: they are found by the digest comparison, replays repeat the "
                 "concurrent phase 12 times and the driver's 3x confirmation decides",
                 "the barrier is a spinning atomic counter; threads share nothing but const program data and the library under test",
                 "wall clock is never part of the oracle: TIMELIMIT 120 s and a 600 s per-case watchdog only make a case inconclusive",
                 "all output goes to per-object string streams; concurrent printing of several objects to the default std::cout is "
                 "not driven (shared std::ios state outside the library)",
                 "SOPLEX_WITH_MPFR is defined in the generated config.h: precision boosting is compiled in (counter "
                 "boosting_not_compiled_in would say otherwise)"],
    min_nontrivial=dict(quick=2500, thorough=100000),
    # thread cap per case is chosen by the harness from the tier (quick: 8, in 15% of the cases 16; thorough: 16) because
    # the driver runs 16 shards in parallel; override with x=dict(maxthreads="N")
    stages=[dict(name="tsan", target="c18", flavour="tsan",
                 quick=dict(cases=100, maxsize=70), thorough=dict(cases=3000, maxsize=100)),
            dict(name="plain", target="c18", flavour="plain",
                 quick=dict(cases=400, maxsize=70), thorough=dict(cases=15000, maxsize=100))],
)
