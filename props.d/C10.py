PROPS["C10"] = dict(
    level="exploration",
    rule=("soplex::SLUFactor<double> driven standalone through the SLinSolver interface (load / solve* / change / status / "
          "stability) with the caller protocol of SPxBasisBase::change. Matrices of dimension 1..60: sparse / dense column-"
          "diagonally-dominant after random row+column permutations, permuted triangular, permuted identity + dense bump, "
          "forced row/column singletons, network bases (totally unimodular), optional power-of-two row/column factors "
          "2^-10..2^10 each; exactly singular variants (zero column/row, duplicate / integer-dependent column or row, cycle in "
          "a network basis); update type ETA/FOREST_TOMLIN x Markowitz {1e-4,0.01,0.1,0.9}; histories of up to ~24 operations: "
          "column replacements (constructed: dominant column, or M*u with dominant u_idx, so the reference stays well "
          "conditioned) driven by solveRight4update / solve2right4update / solve3right4update (dense+sparse) + change, ETA also "
          "change(idx,col,eta) with eta from solveRight; optional discarded solve4update; explicit refactorisations; 10 solve "
          "variants (3 right, 3 left, 2-/3-rhs left dense+sparse) with sparse and dense integer right-hand sides. Oracle: "
          "reference matrix kept exactly in GMP rationals; residual of the returned doubles computed exactly, "
          "|Mx-b|_inf <= 1e-9(|M|_inf|x|_inf+|b|_inf)+16*epsilon*|M|_inf (transposed for left solves); multi-rhs results agree "
          "with single solves within 1e-9 measured in column/row scale; set-up SSVector results list every nonzero once; "
          "structurally / exact-arithmetic singular => SINGULAR; constructed regular => OK (also after every refactorisation). "
          "non-trivial = a judged solve with >= 1 live update in the factorisation, or dimension >= 10 with a nucleus that "
          "survives the singleton passes; distinct = distinct case text."),
    assumptions=["GMP arithmetic and the 30-line exact residual / rank code in harness/c10.cpp are correct",
                 "the reference matrices are well conditioned by construction (column dominance margin >= 1 in the unscaled matrix)",
                 "singular matrices whose detection depends on rounding (general integer duplicate/dependent rows/columns) are "
                 "measured (counter singular.rounding_dependent.*), not judged; --x strict_singular=1 judges them",
                 "change(idx,col) with neither eta nor a prior solve4update (no in-tree caller) is only driven with --x noeta=1"],
    min_nontrivial=dict(quick=50000, thorough=1000000),
    stages=[dict(name="main", target="c10", flavour="plain",
                 quick=dict(cases=8000, maxsize=100), thorough=dict(cases=150000, maxsize=100))],
)
