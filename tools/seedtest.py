#!/usr/bin/env python3
"""seedtest.py <seeded-dir>... [--props C01,C02] [--tier quick] [--jobs N]

Runs the registered checks against a seeded (deliberately broken) copy of /repo without touching /repo:
a scratch git worktree under /tmp gets seeded/<id>/patch.diff applied, `./check Cxx <tier>` is run with
VERIF_REPO pointing at it, VERIF_CACHE / VERIF_OUTROOT pointing at scratch directories (so /verif/evidence stays the
clean-tree record), and seeded/<id>/result.json records which checks raised a VIOLATION.  Everything scratch is removed.
The properties to run default to meta.json["property"] (+ meta.json["also"] if present).
"""
import json, os, subprocess, sys, shutil, time, re

VERIF = os.path.dirname(os.path.dirname(os.path.abspath(__file__)))


def run_one(sd, props, tier, jobs):
    name = os.path.basename(os.path.normpath(sd))
    meta = json.load(open(os.path.join(sd, "meta.json")))
    if not props:
        props = [meta["property"]] + list(meta.get("also", []))
    wt = "/tmp/seedwt-%s-%d" % (name, os.getpid())
    scratch = "/var/tmp/seedrun-%s-%d" % (name, os.getpid())
    res = dict(seeded=name, tier=tier, checks={}, at=time.strftime("%Y-%m-%dT%H:%M:%SZ", time.gmtime()))
    try:
        subprocess.run(["git", "-C", "/repo", "worktree", "add", "--detach", wt, "HEAD", "-q"], check=True,
                       stdout=subprocess.DEVNULL, stderr=subprocess.DEVNULL)
        res["repo_head"] = subprocess.run(["git", "-C", "/repo", "rev-parse", "--short", "HEAD"], stdout=subprocess.PIPE).stdout.decode().strip()
        p = subprocess.run(["git", "-C", wt, "apply", os.path.abspath(os.path.join(sd, "patch.diff"))], stderr=subprocess.PIPE)
        if p.returncode != 0:
            res["error"] = "patch does not apply: " + p.stderr.decode()[-300:]
            return res
        env = dict(os.environ, VERIF_REPO=wt, VERIF_CACHE=os.path.join(scratch, "cache"), VERIF_OUTROOT=os.path.join(scratch, "out"),
                   VERIF_JOBS=str(jobs), VERIF_REPLAY_TIMEOUT="120", VERIF_STAGE_TIMEOUT="600")
        for pr in props:
            t0 = time.time()
            p = subprocess.run([os.path.join(VERIF, "check"), pr, tier], stdout=subprocess.PIPE, stderr=subprocess.STDOUT, env=env, cwd=VERIF)
            out = p.stdout.decode(errors="replace")
            viol = [l for l in out.splitlines() if l.startswith("VIOLATION")]
            msgs = sorted(set(re.sub(r"^.*?#\s*", "", l)[:160] for l in viol))
            res["checks"][pr] = dict(exit=p.returncode, violations=len(viol), messages=msgs[:6], wall_s=round(time.time() - t0),
                                     tail=out.splitlines()[-3:] if not viol else [])
        res["caught_by"] = [pr for pr, r in res["checks"].items() if r["violations"] > 0 and r["exit"] == 1]
        res["caught"] = bool(res["caught_by"])
    finally:
        subprocess.run(["git", "-C", "/repo", "worktree", "remove", "--force", wt], stdout=subprocess.DEVNULL, stderr=subprocess.DEVNULL)
        subprocess.run(["git", "-C", "/repo", "worktree", "prune"], stdout=subprocess.DEVNULL, stderr=subprocess.DEVNULL)
        shutil.rmtree(wt, ignore_errors=True)
        shutil.rmtree(scratch, ignore_errors=True)
    return res


def main():
    a = sys.argv[1:]
    props, tier, jobs, dirs = None, "quick", 16, []
    i = 0
    while i < len(a):
        if a[i] == "--props":
            props = a[i + 1].split(",")
            i += 2
        elif a[i] == "--tier":
            tier = a[i + 1]
            i += 2
        elif a[i] == "--jobs":
            jobs = int(a[i + 1])
            i += 2
        else:
            dirs.append(a[i])
            i += 1
    for sd in dirs:
        r = run_one(sd, props, tier, jobs)
        rp = os.path.join(sd, "result.json")
        old = {}
        if os.path.exists(rp):
            try:
                old = json.load(open(rp))
            except Exception:
                old = {}
        # keep results of checks not re-run this time
        merged = dict(old.get("checks", {}))
        merged.update(r.get("checks", {}))
        r["checks"] = merged
        r["caught_by"] = [pr for pr, x in merged.items() if x["violations"] > 0 and x["exit"] == 1]
        r["caught"] = bool(r["caught_by"])
        json.dump(r, open(rp, "w"), indent=1, sort_keys=True)
        print("%s: %s %s" % (r["seeded"], "CAUGHT by " + ",".join(r["caught_by"]) if r["caught"] else "MISSED", r.get("error", "")), flush=True)
        for pr, x in r["checks"].items():
            print("   %s exit=%d violations=%d %s" % (pr, x["exit"], x["violations"], "; ".join(x["messages"][:2])[:220]), flush=True)


if __name__ == "__main__":
    main()
