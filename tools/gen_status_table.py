#!/usr/bin/env python3
"""rewrites the block between <!-- STATUS-TABLE-BEGIN --> and <!-- STATUS-TABLE-END --> in DESIGN.md from evidence/*.json, props and known_findings.txt"""
import json, os, re, sys
V = os.path.dirname(os.path.dirname(os.path.abspath(__file__)))
sys.path.insert(0, V)
from props import PROPS
known, fixed = {}, {}
for l in open(os.path.join(V, "known_findings.txt")):
    m = re.match(r"known:\s+property=(\S+)\s+key=(\S+)", l)
    if m:
        known.setdefault(m.group(1), []).append(m.group(2))
    m = re.match(r"fixed:\s+property=(\S+)", l)
    if m:
        fixed[m.group(1)] = fixed.get(m.group(1), 0) + 1
rows = []
for p in sorted(PROPS):
    ep = os.path.join(V, "evidence", p + ".json")
    ev = json.load(open(ep)) if os.path.exists(ep) else None
    st = ", ".join("%s (%s)" % (s["name"], s.get("flavour", "plain")) for s in PROPS[p]["stages"])
    if ev:
        c = ev["coverage"]
        cov = "%s: %d cases, %d distinct non-trivial, %.0f s" % (ev["tier"], c["evaluations"], c["distinct_nontrivial"], ev["wall_s"])
    else:
        cov = "no evidence file"
    rows.append("| %s | %s | %s | %s | %d | %s |" % (p, PROPS[p]["level"], st, cov, fixed.get(p, 0), ", ".join(known.get(p, [])) or "-"))
txt = "| id | level | stages (flavour) | last run in /verif | fix commits | known findings (excluded, counted) |\n|---|---|---|---|---|---|\n" + "\n".join(rows)
p = os.path.join(V, "DESIGN.md")
s = open(p).read()
if "<!-- STATUS-TABLE-BEGIN -->" not in s:
    s = s.rstrip("\n") + "\n\n<!-- STATUS-TABLE-BEGIN -->\n<!-- STATUS-TABLE-END -->\n"
s = re.sub(r"<!-- STATUS-TABLE-BEGIN -->.*<!-- STATUS-TABLE-END -->", "<!-- STATUS-TABLE-BEGIN -->\n" + txt.replace("\\", "\\\\") + "\n<!-- STATUS-TABLE-END -->", s, flags=re.S)
open(p, "w").write(s)
print("status rows", len(rows))
