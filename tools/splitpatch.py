#!/usr/bin/env python3
"""splitpatch.py <patch> <outdir>: one file per hunk, named NN_<file>_<line>.patch, paths rewritten to a/src/... b/src/..."""
import sys, os, re
lines = open(sys.argv[1]).read().splitlines(keepends=True)
out = sys.argv[2]; os.makedirs(out, exist_ok=True)
hdr = None; cur = None; n = 0; files = []
def flush():
    global cur, n
    if cur:
        n += 1
        name = "%02d_%s_%s.patch" % (n, os.path.basename(hdr[2]).replace(".", "_"), re.search(r"@@ -(\d+)", cur[0]).group(1))
        open(os.path.join(out, name), "w").write("--- a/%s\n+++ b/%s\n" % (hdr[2], hdr[2]) + "".join(cur))
        print(name)
    cur = None
for l in lines:
    if l.startswith("diff "):
        flush(); continue
    if l.startswith("--- "):
        flush()
        p = l.split()[1]
        p = re.sub(r"^(/repo/|a/|\./)", "", p)
        if not p.startswith("src/"): p = "src/" + p.split("src/")[-1] if "src/" in p else "src/" + p
        hdr = [None, None, p]; continue
    if l.startswith("+++ "):
        continue
    if l.startswith("@@"):
        flush(); cur = [l]; continue
    if cur is not None:
        cur.append(l)
flush()
