"""manifest_text.py - wording of the MANIFEST entries (what each check claims and trusts)."""
HOOK_COMMITS = ["50cd013"]
PENDING = "check under construction in this session (harness not yet registered); see DESIGN.md section 4 for the planned oracle"
NOT_APPLICABLE = {p: PENDING for p in ["C03", "C04", "C05", "C06", "C07", "C09", "C10", "C11", "C12", "C13", "C14", "C15", "C16", "C17", "C18", "C19", "C20"]}
TEXT = {
 "C01": dict(
    technique="property-based testing (rapidcheck): LPs with planted primal-dual certificates x parameter combinations, exact GMP certificate oracle",
    level_text="Generated search: tens of thousands (quick) to millions (thorough) of LPs whose optimal primal-dual pair is planted by construction, each solved under a random combination of the algorithmic parameters; every OPTIMAL answer is re-verified in exact rational arithmetic (bounds, sides, linking, dual signs, objective, duality gap, planted optimum), every non-OPTIMAL answer on these LPs is a completeness failure. Exploration, not proof: sizes <= 40x40, sampled configurations.",
    level_note="trusted: GMP, the certificate oracle (harness/common/certs.hpp), the planted-LP generator, z3 5.1 as adjudicator for ill-posed verdict cases; tolerance kappa=10 x FEASTOL/OPTTOL; known findings listed in known_findings.txt are excluded from generation by construction"),
 "C02": dict(
    technique="property-based testing (rapidcheck): LPs planted infeasible / unbounded / both / optimal, exact Farkas and ray oracles",
    level_text="Generated search over LPs whose class is known by construction (Farkas margin >= 1, improving recession direction, block union of both, planted optimum) x parameter combinations x ensure-ray x simplifier; verdicts are compared with the planted class, offered Farkas vectors and rays are verified exactly (separation / recession + improvement). Exploration.",
    level_note="trusted: planted class by construction, exact oracles in certs.hpp; verdicts on ill-posed instances (zero-margin certificate or non-worsening ray, decided by z3) are counted, not judged"),
 "C08": dict(
    technique="property-based testing (rapidcheck) of SPxMainSM below SoPlex's repair loop; z3 and exact certificates as oracles",
    level_text="The simplifier is driven directly on presolve-rich planted LPs: verdicts against the planted class, reduced LP + offset against the planted optimum (z3, exact), postsolve of several optimal vertices of the reduced LP against the exact certificate oracle on the original LP, basis validity. Exploration; the dual side of postsolved vectors is currently recorded as a known finding at sub-claim level.",
    level_note="trusted: z3 5.1 on LPs <= 16x16, the certificate oracle; the reduced LP is solved by SoPlex (no simplifier/scaler) and that answer is certified before use"),
}
