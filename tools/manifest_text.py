"""manifest_text.py - wording of the MANIFEST entries (what each check claims and trusts)."""
HOOK_COMMITS = ["50cd013"]
PENDING = "check under construction in this session (harness not yet registered); see DESIGN.md section 4 for the planned oracle"
NOT_APPLICABLE = {p: PENDING for p in ["C18"]}
TEXT = {
 "C01": dict(
    technique="property-based testing (rapidcheck): LPs with planted primal-dual certificates x parameter combinations, exact GMP certificate oracle",
    level_text="Generated search: tens of thousands (quick) to millions (thorough) of LPs whose optimal primal-dual pair is planted by construction, each solved under a random combination of the algorithmic parameters; every OPTIMAL answer is re-verified in exact rational arithmetic (bounds, sides, linking, dual signs, objective, duality gap, planted optimum), every non-OPTIMAL answer on these LPs is a completeness failure. Exploration, not proof: sizes <= 40x40, sampled configurations.",
    level_note="trusted: GMP, the certificate oracle (harness/common/certs.hpp), the planted-LP generator, z3 5.1 as adjudicator for ill-posed verdict cases; tolerance kappa=10 x FEASTOL/OPTTOL; known findings listed in known_findings.txt are excluded from generation by construction"),
 "C02": dict(
    technique="property-based testing (rapidcheck): LPs planted infeasible / unbounded / both / optimal, exact Farkas and ray oracles",
    level_text="Generated search over LPs whose class is known by construction (Farkas margin >= 1, improving recession direction, block union of both, planted optimum) x parameter combinations x ensure-ray x simplifier; verdicts are compared with the planted class, offered Farkas vectors and rays are verified exactly (separation / recession + improvement). Exploration.",
    level_note="trusted: planted class by construction, exact oracles in certs.hpp; verdicts on ill-posed instances (zero-margin certificate or non-worsening ray, decided by z3) are counted, not judged"),
 "C08": dict(
    technique="property-based testing (rapidcheck) of SPxMainSM below SoPlex's repair loop; z3 and exact certificates as oracles",
    level_text="The simplifier is driven directly on presolve-rich planted LPs: verdicts against the planted class, reduced LP + offset against the planted optimum (z3, exact), postsolve of several optimal vertices of the reduced LP against the exact certificate oracle on the original LP, basis validity. Exploration; the dual side of postsolved vectors is currently recorded as a known finding at sub-claim level.",
    level_note="trusted: z3 5.1 on LPs <= 16x16, the certificate oracle; the reduced LP is solved by SoPlex (no simplifier/scaler) and that answer is certified before use"),
}

TEXT.update({
 "C04": dict(
    technique="property-based testing (rapidcheck) of API histories: basis validity / consistency / exact regularity after every step",
    level_text="Generated API histories (modifications, solves with every ending, setBasis/getBasis round trips, clearBasis) under random configurations; whenever hasBasis() is true the basis is checked: one basic variable per row, no nonbasic variable at an infinite bound, FIXED only for equal bounds, per-variable queries = array query = index query; bases returned by solves are checked to be nonsingular by exact rank computation over Q on the model's matrix; every solve is compared with a fresh solver given the final LP (warm start = cold start). Exploration.",
    level_note="trusted: the exact reference model, GMP, z3 5.1 for small LPs; known findings (getBasisInd between a modification and the next solve, nonbasic rows turned free) are excluded by construction"),
 "C06": dict(
    technique="model-based property testing (rapidcheck): real modification interface vs exact reference LP model, fresh-solver differential",
    level_text="Histories over ~35 modification entry points interleaved with solves; after every step every accessor is compared bit for bit with a 150-line reference model (documented renumbering only), cached solutions must be invalidated, every solve is certified (exact certificate oracle, z3 truth for small LPs) and compared with a fresh solver that is given the final LP in one go; a second stage runs the same interpreter under ASan/UBSan. Exploration.",
    level_note="trusted: reference model (harness/common/vf.hpp, hist_common.hpp), certificate oracle, z3 5.1; zero-dimensional solves are not judged"),
 "C09": dict(
    technique="model-based property testing (rapidcheck) with scaling-biased configurations; bit-exact accessor comparison",
    level_text="The history interpreter of C06 with a scaler and persistent scaling active in most cases: data added or changed while the LP is scaled must be stored consistently (bit-exact accessor comparison against the unscaled model, which is only possible because scale factors are powers of two), solutions/rays/Farkas vectors after scaled solves are certified in the unscaled space. Exploration; bare-scaler bitwise checks are not a separate stage.",
    level_note="trusted: as C06; whether the LP inside is scaled is observed through the guarded read-only hook"),
 "C10": dict(
    technique="property-based testing (rapidcheck) of SLUFactor<double> standalone against an exact GMP reference matrix",
    level_text="Matrices with constructed conditioning (and exactly singular ones) are loaded into SLUFactor, updated by column replacements under Forrest-Tomlin and product-form (caller protocol of SPxBasisBase::change), and every right/left solve variant is judged by its residual computed exactly from the returned doubles; multi-rhs variants must agree with single solves. Exploration.",
    level_note="trusted: GMP residual code in harness/c10.cpp; reference matrices are well conditioned by construction; rounding-dependent singular cases are measured, not judged"),
 "C11": dict(
    technique="property-based testing (rapidcheck): SLUFactorRational vs exact Gaussian elimination; rational basis queries vs exact model",
    level_text="Rational matrices (wide bit lengths, regular-but-double-singular, exactly singular) are factorised and solved; status SINGULAR iff exact determinant 0; all solves equal the exact solution. Solver bases after exact solves: getBasisIndRational / getBasisInverse{Row,Col,TimesVec}Rational are exact inverses of the basis matrix assembled from the model, also after modifications. Exploration.",
    level_note="trusted: own fraction elimination over GMP rationals; two known findings (stale cached factorisation after a silent basis replacement, out-of-sync dimensions after an UNBOUNDED rational solve) excluded"),
 "C12": dict(
    technique="property-based round-trip testing (rapidcheck) + exhaustive enumeration of the literal grammar to length 7",
    level_text="LPs x {LP,MPS} x {real,rational} x writer flags are written, read into a fresh object and compared by name with the model under the documented normalisations (then both solved); 247k grammar literals are enumerated exhaustively plus random long ones and compared with an own exact decimal parser (rational) / MPFR correctly rounded doubles (real); the dual writer is checked by optimal values. Exploration with an exhaustive sub-stage.",
    level_note="trusted: own literal parser, MPFR rounding, the normalisations cited in harness/c12.cpp; fraction literals in floating-point readers are a known finding"),
 "C15": dict(
    technique="stateful property-based testing (rapidcheck) + exhaustive boundary sweep of every parameter",
    level_text="Sequences of typed sets, text-form sets, save/load, reset, copy-settings on two objects with a model table read from the library's own static tables and enums; rejected values must change nothing (full observable snapshot incl. LP), text/file forms must equal typed calls, save-reset-load reproduces values; a sweep enumerates every parameter x {below, lower, default, upper, above, NaN, +-inf}. Exploration + enumeration.",
    level_note="trusted: the parameter tables themselves are the specification of ranges/defaults; PaPILO-only parameters are modelled as the source documents"),
 "C19": dict(
    technique="model-based property testing (rapidcheck) of 20 container/vector kinds against std:: models, also under ASan/UBSan/LSan",
    level_text="Operation sequences on DataSet, ClassSet, SVSet, LPRowSet/LPColSet, NameSet, DataHashTable, IdxSet/DIdxSet, DataArray/Array/ClassArray, IdList/IsList, Sorter and the vector classes (double with exact data, Rational) are mirrored on std:: models and compared after every operation (keys, dense numbering, permutations, contents, lifetimes, exact arithmetic); a second stage runs under sanitizers. Exploration.",
    level_note="trusted: std:: containers, GMP; preconditions documented in the headers are respected by construction; ClassSet element lifetime is a known finding"),
})

TEXT.update({
 "C03": dict(
    technique="property-based testing (rapidcheck): rational planted LPs x exact-solver option sets, certificate oracle at tolerance zero",
    level_text="Planted LPs with non-dyadic rational data are entered through the rational (or real) interface and solved exactly under default options, the shipped exact settings files and random settings of the 13 exact-solver booleans; every returned verdict is compared with the planted class and every returned rational vector/objective is verified with exact arithmetic (==). Exploration; the 'every LP is decided' sub-claim is a recorded known finding and counted only.",
    level_note="trusted: GMP, the certificate oracle, planted class by construction; deterministic iteration/refinement budgets, a 20 s TIMELIMIT only as watchdog (hits are inconclusive)"),
 "C13": dict(
    engine="libFuzzer",
    technique="coverage-guided fuzzing (libFuzzer + ASan/UBSan/LSan) of the LP/MPS/basis/settings readers with semantic post-read oracles; valgrind replay",
    level_text="Two libFuzzer targets (bare SPxLPBase readers for double/Rational; whole SoPlex object incl. basis and settings readers, gz files) run 12 processes x 45 s (quick) / 16 x 20 min (thorough) from seeded and empty corpora; after every successful read the LP storage is checked for self-consistency, after every failed read the object must still clear, reload and solve a known LP; crashes, sanitizer reports, leaks and 60 s hangs (re-run 3x) are violations; the thorough tier replays the corpus under valgrind for uninitialised reads. Exploration.",
    level_note="trusted: sanitizers, valgrind, the self-consistency checks in harness/fuzz_*.cpp; six reader defects are recorded as known findings and their input classes are filtered (counted)"),
 "C20": dict(
    technique="stateful property-based testing (rapidcheck): every C call mirrored on a C++ twin and on a model built from the input arrays; ASan stage",
    level_text="Sequences over all 56 SoPlex_* functions with exactly-sized heap arrays; after every call the object behind the handle, the C++ twin that received the wrapped call, and the reference model built from the input arrays must agree (LP data exact, parameters, statuses, solution arrays bitwise, returned strings parsed exactly); the asan stage detects reads/writes outside the given lengths. Exploration.",
    level_note="trusted: the C++ API as the specification of the wrappers, the reference model for the meaning of the dense arrays; leaks are observations, not violations"),
 "C16": dict(
    technique="property-based testing with exhaustive fault enumeration: every iteration limit 0..N, every log-line interrupt point, zero/tiny time limits, objective limits both sides, judged against the planted class and the exact certificate oracle, resume differential",
    level_text="For each generated LP x configuration the uninterrupted solve is measured and then a fresh solver is stopped at every iteration count k = 0..N, at every line of the iteration log (interrupt flag raised from inside the solver's output stream, so the stop point is deterministic), with TIMELIMIT 0 / 1e-9 and with objective limits on both sides of the planted optimum; each stopped state is judged (status, iteration count, basis validity, certificate if a verdict is claimed) and the same object is resumed with the limit lifted and must reach the uninterrupted result. A second stage does the same for exact solves (iteration, refinement, stalling-refinement limits). Enumeration is exhaustive per case over stop points, exploration over LPs and configurations.",
    level_note="trusted: planted class/optimum by construction, certificate oracle (certs.hpp); the interrupt is raised from the solver's own output stream (DISPLAYFREQ 1), so interrupt points are the points where the solver prints; the exact solver ignores the interrupt pointer (observation, see DESIGN.md)"),
 "C05": dict(
    technique="property-based testing (rapidcheck): basis queries judged against the basis matrix assembled from an exact reference model, every row/column index enumerated per case",
    level_text="For generated LPs x representation x scaler x persistent scaling x simplifier and bases obtained from solves of every status, iteration-limited solves and generated regular bases (exact rank test), the matrix B is built from the model by the reported basis indices and all rows and all columns of the inverse, the solve, multiply and transpose-multiply calls and the sparse index output are checked exactly (GMP) within a stated tolerance, in the unscaled and (through the read-only hook) the scaled space. Exploration over LPs/configurations, exhaustive over indices per case.",
    level_note="trusted: exact rank / matrix arithmetic in harness/common/dense.hpp; the scaled columns read through the guarded hook define B for unscale=false; rational counterparts are under C11"),
 "C07": dict(
    technique="stateful model-based property testing (rapidcheck): histories over the real, Rational and mpq_t interfaces x sync modes, two exact reference LPs, comparison after every operation",
    level_text="Histories of 2..60 operations drawn from all add/change/remove/clear entry points of the floating-point interface, the Rational-object interface and the 19 GMP array entry points, interleaved with sync-mode switches, explicit syncs, float and exact solves; values include +-infinity, beyond-infinity, 10^100, zeros, denormal-scale and non-representable rationals. Two exact models (what the rational LP must hold / what the real LP holds) are compared through public getters after every step: rational LP exact, real LP the double image (exact when representable, else one of the two neighbouring doubles), dimensions/sense/offset, and the range-type arrays read through the guarded hook. Exploration.",
    level_note="trusted: GMP, the two reference models in harness/common/c07_model.hpp; the objective offset inside the LPs has no getter and is judged through a final probe solve; the real LP's own 1e-16 zero tolerance is respected (such writes are not issued)"),
 "C14": dict(
    technique="property-based round-trip testing (rapidcheck): basis files and state files, independent BAS parser, fresh-object differential",
    level_text="LPs x bases (from solves of every status, iteration-limited solves, generated valid status assignments) x {user names, default names, crossed names} x CPLEX flag: writeBasisFile -> independent parser of the documented BAS format -> fresh object -> readBasisFile -> statuses equal; writeStateReal/Rational -> fresh object loads settings, LP and basis -> LP equal to the exact model by name under the documented MPS/LP normalisations, statuses equal, every parameter equal, both objects re-solved to the same status and optimum. Also under ASan/UBSan. Exploration.",
    level_note="trusted: own BAS parser and the normalisations cited in harness/c14.cpp; the writer branch for an LP held outside the solver is unreachable through the public API in this tree (counter writer_path.unloaded stays 0) and is therefore not exercised"),
 "C17": dict(
    technique="property-based testing (rapidcheck): twin-object and re-solve bitwise differential; copy/assign at generated history points with divergent continuations, destruction and memory poisoning; also under ASan/UBSan/LSan",
    level_text="Determinism: two objects built by placement-new over differently pre-filled memory, with heap traffic in between, are given the same LP, parameters and seed and must agree bitwise in status, iteration count, basis and all solution vectors (float and exact); the same object re-solved after clearBasis() must reproduce itself. Copies: an object A and a never-copied twin T run the same history; B is made by copy constructor / assignment to fresh / assignment to a used object / self-assignment at a generated point and must equal A in every getter; then one side is mutated, solved and (45%) destroyed with its memory poisoned and recycled, and the other side must stay bit-identical and continue like T. The asan stage ends every case with a leak check. Exploration.",
    level_note="trusted: bitwise comparison of public getters; 'continues like a never-copied twin' is a strict reading of 'equal and independent' (stated as assumption); four known findings (fresh-object basis state, generator not re-seeded per solve, quick-steep norms, factorisation dropped by the copy) are excluded by construction; copying while the real LP is outside the solver is unreachable in this tree"),
})
