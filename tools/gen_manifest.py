#!/usr/bin/env python3
"""gen_manifest.py - writes /verif/MANIFEST.json from props.py (+ tools/manifest_text.py for the per-property wording)."""
import json, os, sys, subprocess
V = os.path.dirname(os.path.dirname(os.path.abspath(__file__)))
sys.path.insert(0, V)
from props import PROPS
sys.path.insert(0, os.path.join(V, "tools"))
from manifest_text import TEXT, NOT_APPLICABLE, HOOK_COMMITS

ids = [json.loads(l)["id"] for l in open(os.path.join(V, "properties.jsonl"))]
checks = []
for pid in ids:
    if pid not in PROPS or pid not in TEXT:
        continue
    t = TEXT[pid]
    checks.append(dict(
        property_id=pid,
        quick_cmd="./check %s quick" % pid,
        thorough_cmd="./check %s thorough" % pid,
        evidence_file="/verif/evidence/%s.json" % pid,
        replay_cmd_template="./check %s --replay {path}" % pid,
        engine=t.get("engine", "rapidcheck"),
        level_claimed=dict(category=PROPS[pid]["level"], text=t["level_text"], design_ref="DESIGN.md section 4, " + pid),
        level_note=t["level_note"],
        technique=t["technique"],
    ))
na = [dict(property_id=p, reason=r) for p, r in NOT_APPLICABLE.items() if p not in [c["property_id"] for c in checks]]
m = dict(
    version=1,
    setup_cmd="python3 vbuild.py --all",
    hooks=dict(guard="SOPLEX_VERIF", enable="every harness is compiled by /verif/vbuild.py with -DSOPLEX_VERIF from /repo's working tree",
               baseline_off_cmd="cmake --build /repo/_build -j16 && ctest --test-dir /repo/_build -j8 --timeout 900",
               source_commits=HOOK_COMMITS, add_only=True),
    engines=[dict(name="rapidcheck", path="/usr/include/rapidcheck.h", serves_properties=[c["property_id"] for c in checks if c["engine"] == "rapidcheck"],
                  kind_free_text="property-based testing library (generation + shrinking), driven through harness/common/vf.hpp"),
             dict(name="libFuzzer", path="clang++ -fsanitize=fuzzer", serves_properties=[c["property_id"] for c in checks if c["engine"] == "libFuzzer"],
                  kind_free_text="coverage-guided byte-level fuzzing with ASan/UBSan and semantic oracles inside the target")],
    checks=checks,
    notes="driver: ./check Cxx quick|thorough (props.py, props.d/*.py); builds from /repo's working tree via vbuild.py (content-hash cache in .cache/); known findings in known_findings.txt; violations are copied to out/violations/Cxx/",
    not_applicable=na,
)
json.dump(m, open(os.path.join(V, "MANIFEST.json"), "w"), indent=1)
print("checks:", [c["property_id"] for c in checks], "not_applicable:", [n["property_id"] for n in na])
