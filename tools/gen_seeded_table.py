#!/usr/bin/env python3
"""rewrites the block between <!-- SEEDED-TABLE-BEGIN --> and <!-- SEEDED-TABLE-END --> in DESIGN.md from seeded/*/{meta,result}.json"""
import json, os, glob, re
V = os.path.dirname(os.path.dirname(os.path.abspath(__file__)))
rows, rev = [], []
for d in sorted(glob.glob(os.path.join(V, "seeded", "*"))):
    mp, rp = os.path.join(d, "meta.json"), os.path.join(d, "result.json")
    if not os.path.exists(mp):
        continue
    m = json.load(open(mp))
    r = json.load(open(rp)) if os.path.exists(rp) else None
    name = os.path.basename(d)
    title = (m.get("title") or "")[:110].replace("|", "/")
    if r is None:
        res, by = "not run", ""
    elif r.get("error"):
        res, by = "error: " + r["error"][:60], ""
    else:
        res = "caught" if r.get("caught") else "MISSED"
        by = ", ".join("%s (%d)" % (p, x["violations"]) for p, x in sorted(r["checks"].items()) if x["violations"]) or \
            ", ".join("%s: -" % p for p in sorted(r["checks"]))
    line = "| %s | %s | %s | %s | %s |" % (name, m.get("property", ""), title, res, by)
    (rev if m.get("kind") == "revert-of-fix" else rows).append((line, res))
def block(lines):
    return "| seeded change | aimed at | what it does | result (quick tier) | raised by (violations) |\n|---|---|---|---|---|\n" + "\n".join(l for l, _ in lines)
txt = "**Changes written by fresh sub-agents that saw only the property text (%d; caught %d, missed %d, not run %d)**\n\n%s\n\n" % (
    len(rows), sum(r == "caught" for _, r in rows), sum(r == "MISSED" for _, r in rows), sum(r == "not run" for _, r in rows), block(rows))
txt += "**Reverts of the fix commits (%d generated; run %d: caught %d, missed %d)**\n\n%s\n" % (
    len(rev), sum(r != "not run" for _, r in rev), sum(r == "caught" for _, r in rev), sum(r == "MISSED" for _, r in rev),
    block([x for x in rev if x[1] != "not run"]))
p = os.path.join(V, "DESIGN.md")
s = open(p).read()
s = re.sub(r"<!-- SEEDED-TABLE-BEGIN -->.*<!-- SEEDED-TABLE-END -->", "<!-- SEEDED-TABLE-BEGIN -->\n" + txt.replace("\\", "\\\\") + "\n<!-- SEEDED-TABLE-END -->", s, flags=re.S)
open(p, "w").write(s)
print("rows", len(rows), "reverts", len(rev))
