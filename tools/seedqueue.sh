#!/bin/bash
# seedqueue.sh <logfile> <seeded dirs...>: run seedtest.py sequentially, skipping directories that already have result.json for this repo head
log=$1; shift
for d in "$@"; do
  if [ -f "$d/result.json" ] && [ -z "$FORCE" ]; then continue; fi
  nice -n 5 python3 /verif/tools/seedtest.py "$d" >> "$log" 2>&1
done
echo "QUEUE DONE" >> "$log"
