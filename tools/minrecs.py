#!/usr/bin/env python3
"""minrecs.py <binary> <case> [out] - greedy minimisation of the 'rec' lines of a failing case (keeps failure class)."""
import subprocess, sys, re, os
b, f = sys.argv[1], sys.argv[2]
out = sys.argv[3] if len(sys.argv) > 3 else f + ".min"
lines = open(f).read().splitlines()
def cls(ls):
    open(out, "w").write("\n".join(ls) + "\n")
    p = subprocess.run([b, "--replay", out], stdout=subprocess.PIPE, stderr=subprocess.STDOUT)
    o = p.stdout.decode(errors="replace")
    if p.returncode == 0: return None
    m = re.search(r"^FAIL (.*)$", o, re.M)
    return re.sub(r"[-+]?\d[\d.eE+-]*", "#", m.group(1))[:60] if m else "rc%d" % p.returncode
base = cls(lines)
print("base class:", base)
i = 0
while i < len(lines):
    if lines[i].startswith("rec ") and not lines[i].startswith("rec x "):
        t = lines[:i] + lines[i+1:]
        if cls(t) == base:
            lines = t
            continue
    i += 1
cls(lines)
print("\n".join(l for l in lines if l.startswith("rec ")))
