#!/usr/bin/env python3
"""vbuild.py - builds the verification harnesses from /repo's *current working tree*.

Everything is keyed by content: key(lib) = sha256(all files under /repo/src, generated config.h,
flavour flags, inst.cpp); key(harness) = key(lib) + harness sources. A source edit in /repo changes
the key, so a check can never run stale code; an unchanged tree is a cache hit.

usage: vbuild.py <flavour>:<target> ...     prints the path of each built binary
       vbuild.py --all                      builds everything (used by MANIFEST.setup_cmd)
"""
import fcntl
import hashlib
import os
import re
import shutil
import subprocess
import sys
import time
from concurrent.futures import ThreadPoolExecutor

VERIF = os.path.dirname(os.path.abspath(__file__))
REPO = os.environ.get("VERIF_REPO", "/repo")
CACHE = os.environ.get("VERIF_CACHE", os.path.join(VERIF, ".cache"))
HARNESS = os.path.join(VERIF, "harness")
KEEP_PER_FLAVOUR = int(os.environ.get("VERIF_CACHE_KEEP", "2"))
KEEP_MIN_AGE_S = int(os.environ.get("VERIF_CACHE_MIN_AGE_S", "10800"))

COMMON = "-std=c++14 -g1 -DNDEBUG -ffp-contract=off -DSOPLEX_VERIF -w"
FLAVOURS = {
    # the code users run: RelWithDebInfo flags of the shipped build
    "plain": dict(cxx="g++", flags="-O2 " + COMMON, ld=""),
    # memory-error oracle (ASan + UBSan); -O1 keeps the heavy object at ~4 min
    "asan": dict(cxx="clang++",
                 flags="-O1 -fno-omit-frame-pointer -fsanitize=address,undefined "
                       "-fno-sanitize=float-divide-by-zero,float-cast-overflow,vptr,function,enum "
                       "-fno-sanitize-recover=undefined " + COMMON,
                 ld="-fsanitize=address,undefined"),
    # coverage-guided fuzzing of the whole object
    "fuzz": dict(cxx="clang++",
                 flags="-O1 -fno-omit-frame-pointer -fsanitize=fuzzer-no-link,address,undefined "
                       "-fno-sanitize=float-divide-by-zero,float-cast-overflow,vptr,function,enum "
                       "-fno-sanitize-recover=undefined " + COMMON,
                 ld="-fsanitize=fuzzer,address,undefined"),
    "tsan": dict(cxx="clang++", flags="-O1 -fsanitize=thread " + COMMON, ld="-fsanitize=thread"),
}
LIB_SOURCES = [
    "soplex/didxset.cpp", "soplex/idxset.cpp", "soplex/mpsinput.cpp", "soplex/nameset.cpp",
    "soplex/spxdefines.cpp", "soplex/spxgithash.cpp", "soplex/spxid.cpp", "soplex/spxout.cpp",
    "soplex/usertimer.cpp", "soplex/wallclocktimer.cpp", "soplex_interface.cpp",
]
LIBS = "-lgmpxx -lgmp -lmpfr -lz -lpthread"

# target -> (source relative to harness/, extra compile flags, extra link flags, needs heavy inst object)
TARGETS = {}


def target_files():
    fs = [os.path.join(HARNESS, "targets.txt")]
    d = os.path.join(HARNESS, "targets.d")
    if os.path.isdir(d):
        fs += sorted(os.path.join(d, f) for f in os.listdir(d) if f.endswith(".txt"))
    return fs


def _load_targets():
    """targets.txt, targets.d/*.txt: name | source | extra cflags | extra ldflags | inst(0/1)   # flavours: a b"""
    for path in target_files():
        for line in open(path):
            m = re.search(r"#\s*flavours:\s*(.*)$", line)
            line = line.split("#")[0].strip()
            if not line:
                continue
            f = [x.strip() for x in line.split("|")]
            TARGETS[f[0]] = dict(src=f[1], cflags=f[2], ldflags=f[3], inst=f[4] == "1",
                                 flavours=m.group(1).split() if m else [])


def sha(*parts):
    h = hashlib.sha256()
    for p in parts:
        h.update(p if isinstance(p, bytes) else p.encode())
        h.update(b"\0")
    return h.hexdigest()


def tree_hash(root, exts=None):
    h = hashlib.sha256()
    for d, dirs, files in sorted(os.walk(root)):
        dirs.sort()
        for f in sorted(files):
            if exts and not f.endswith(exts):
                continue
            p = os.path.join(d, f)
            h.update(os.path.relpath(p, root).encode())
            h.update(b"\0")
            with open(p, "rb") as fh:
                h.update(fh.read())
            h.update(b"\0")
    return h.hexdigest()


def config_h():
    cm = open(os.path.join(REPO, "CMakeLists.txt")).read()
    v = [re.search(r"set\(SOPLEX_VERSION_%s (\d+)\)" % k, cm) for k in ("MAJOR", "MINOR", "PATCH")]
    v = [m.group(1) if m else "0" for m in v]
    return ("#ifndef __SPXCONFIG_H__\n#define __SPXCONFIG_H__\n"
            "#define SOPLEX_BUILD_TYPE \"RelWithDebInfo\"\n"
            "#define SOPLEX_VERSION_MAJOR %s\n#define SOPLEX_VERSION_MINOR %s\n#define SOPLEX_VERSION_PATCH %s\n"
            "#define SOPLEX_WITH_BOOST\n#define SOPLEX_WITH_GMP\n#define SOPLEX_WITH_MPFR\n#define SOPLEX_WITH_ZLIB\n"
            "#endif\n" % tuple(v))


def run(cmd, log):
    t = time.time()
    p = subprocess.run(cmd, shell=True, stdout=subprocess.PIPE, stderr=subprocess.STDOUT)
    with open(log, "ab") as fh:
        fh.write(("$ %s\n" % cmd).encode())
        fh.write(p.stdout)
        fh.write(("# rc=%d %.1fs\n" % (p.returncode, time.time() - t)).encode())
    if p.returncode != 0:
        sys.stderr.write("vbuild: FAILED: %s\n%s\n" % (cmd, p.stdout.decode(errors="replace")[-6000:]))
        raise SystemExit(3)


class Lock:
    def __init__(self, path):
        self.path = path

    def __enter__(self):
        self.fh = open(self.path, "w")
        fcntl.flock(self.fh, fcntl.LOCK_EX)

    def __exit__(self, *a):
        fcntl.flock(self.fh, fcntl.LOCK_UN)
        self.fh.close()


_src_hash = None


def src_hash():
    global _src_hash
    if _src_hash is None:
        _src_hash = tree_hash(os.path.join(REPO, "src"))
    return _src_hash


def lib_dir(flavour):
    fl = FLAVOURS[flavour]
    inst = open(os.path.join(HARNESS, "inst.cpp"), "rb").read()
    key = sha(src_hash(), config_h(), fl["cxx"], fl["flags"], inst)[:20]
    return os.path.join(CACHE, "%s-%s" % (flavour, key))


def evict(flavour, keep_dir):
    try:
        ds = [os.path.join(CACHE, d) for d in os.listdir(CACHE) if d.startswith(flavour + "-")]
    except FileNotFoundError:
        return
    ds = [d for d in ds if os.path.isdir(d) and d != keep_dir]
    ds.sort(key=lambda d: os.path.getmtime(d), reverse=True)
    # never remove a directory that was used recently: another check may be running from it (its mtime is refreshed
    # every time a check resolves its binaries)
    now = time.time()
    for d in ds[max(0, KEEP_PER_FLAVOUR - 1):]:
        if now - os.path.getmtime(d) > KEEP_MIN_AGE_S:
            shutil.rmtree(d, ignore_errors=True)


def build_lib(flavour, need_inst):
    """returns (dir, [objects])"""
    fl = FLAVOURS[flavour]
    d = lib_dir(flavour)
    os.makedirs(os.path.join(d, "inc", "soplex"), exist_ok=True)
    os.makedirs(os.path.join(d, "bin"), exist_ok=True)
    os.utime(d, None)
    log = os.path.join(d, "build.log")
    with Lock(os.path.join(d, ".lock")):
        cfg = os.path.join(d, "inc", "soplex", "config.h")
        if not os.path.exists(cfg):
            open(cfg, "w").write(config_h())
        # cmake generates src/soplex/git_hash.cpp (git-ignored); a fresh checkout / worktree does not have it
        gh = os.path.join(d, "inc", "soplex", "git_hash.cpp")
        if not os.path.exists(os.path.join(REPO, "src", "soplex", "git_hash.cpp")) and not os.path.exists(gh):
            open(gh, "w").write('#define SPX_GITHASH "verif"\n')
        inc = "-I%s/inc -I%s/src -I%s" % (d, REPO, HARNESS)
        jobs = []
        light = os.path.join(d, "liblight.a")
        if not os.path.exists(light):
            for s in LIB_SOURCES:
                if s == "soplex_interface.cpp":
                    continue
                o = os.path.join(d, s.replace("/", "_") + ".o")
                jobs.append("%s %s %s -c %s/src/%s -o %s" % (fl["cxx"], fl["flags"], inc, REPO, s, o))
        insto = os.path.join(d, "inst.o")
        cio = os.path.join(d, "soplex_interface.o")
        if need_inst and not os.path.exists(insto):
            jobs.append("%s %s %s -c %s/inst.cpp -o %s.tmp && mv %s.tmp %s" % (fl["cxx"], fl["flags"], inc, HARNESS, insto, insto, insto))
        if need_inst == 2 and not os.path.exists(cio):
            jobs.append("%s %s %s -c %s/src/soplex_interface.cpp -o %s.tmp && mv %s.tmp %s" % (fl["cxx"], fl["flags"], inc, REPO, cio, cio, cio))
        if jobs:
            with ThreadPoolExecutor(max_workers=16) as ex:
                list(ex.map(lambda c: run(c, log), jobs))
        if not os.path.exists(light):
            objs = " ".join(os.path.join(d, s.replace("/", "_") + ".o") for s in LIB_SOURCES if s != "soplex_interface.cpp")
            run("ar rcs %s.tmp %s && mv %s.tmp %s" % (light, objs, light, light), log)
    evict(flavour, d)
    return d


def build_target(flavour, name):
    t = TARGETS[name]
    fl = FLAVOURS[flavour]
    need = 0
    if t["inst"]:
        need = 2 if "CIFACE" in t["cflags"] else 1
    d = build_lib(flavour, need)
    hk = sha(tree_hash(os.path.join(HARNESS, "common")), open(os.path.join(HARNESS, t["src"]), "rb").read(),
             t["cflags"], t["ldflags"])[:16]
    out = os.path.join(d, "bin", "%s-%s" % (name, hk))
    if os.path.exists(out):
        return out
    log = os.path.join(d, "build.log")
    with Lock(os.path.join(d, ".lock-" + name)):
        if os.path.exists(out):
            return out
        for old in os.listdir(os.path.join(d, "bin")):
            if old.startswith(name + "-"):
                os.unlink(os.path.join(d, "bin", old))
        inc = "-I%s/inc -I%s/src -I%s -I%s/common" % (d, REPO, HARNESS, HARNESS)
        o = out + ".o"
        run("%s %s %s %s -c %s/%s -o %s" % (fl["cxx"], fl["flags"], t["cflags"], inc, HARNESS, t["src"], o), log)
        objs = [o]
        if t["inst"]:
            objs.append(os.path.join(d, "inst.o"))
            if need == 2:
                objs.append(os.path.join(d, "soplex_interface.o"))
        run("%s %s %s -o %s.tmp %s %s/liblight.a %s %s && mv %s.tmp %s" %
            (fl["cxx"], fl["ld"], "", out, " ".join(objs), d, t["ldflags"], LIBS, out, out), log)
        os.unlink(o)
    return out


def main(argv):
    _load_targets()
    if argv and argv[0] == "--all":
        specs = [(f, n) for n, t in TARGETS.items() for f in t["flavours"]]
    else:
        specs = [tuple(a.split(":", 1)) for a in argv]
    # build the libs first (one per flavour, in parallel), then the harnesses in parallel
    flav_need = {}
    for f, n in specs:
        t = TARGETS[n]
        need = 0 if not t["inst"] else (2 if "CIFACE" in t["cflags"] else 1)
        flav_need[f] = max(flav_need.get(f, 0), need)
    with ThreadPoolExecutor(max_workers=4) as ex:
        list(ex.map(lambda kv: build_lib(kv[0], kv[1]), flav_need.items()))
    with ThreadPoolExecutor(max_workers=12) as ex:
        outs = list(ex.map(lambda s: build_target(s[0], s[1]), specs))
    for o in outs:
        print(o)


if __name__ == "__main__":
    main(sys.argv[1:])
