"""props.py - per-property check specification used by ./check (stages, budgets, non-triviality rules)."""

PROPS = {}

PROPS["C01"] = dict(
    level="exploration",
    rule=("LPs with a planted optimal primal-dual pair (exact integer/dyadic data, all row/bound types, forced "
          "empty/singleton/duplicate/parallel/dependent rows and columns, degenerate vertices, min/max, offset, optional "
          "power-of-two row/column factors) x parameter combinations (representation, algorithm, update type/max, "
          "simplifier, 7 scalers, starter, pricer, ratio tester, polishing, hyper pricing, 4 bools, seed, tolerances); "
          "judged by the exact GMP certificate oracle against the planted optimum. non-trivial = m,n >= 2, >= 1 "
          "explicit parameter, and >= 1 simplex iteration or simplifier on; distinct = distinct case text (FNV-1a)."),
    assumptions=["GMP arithmetic, the 200-line certificate oracle (harness/common/certs.hpp) and the planted-LP "
                 "generator are correct", "tolerance kappa=10 x FEASTOL/OPTTOL as fixed in DESIGN.md 3.5"],
    min_nontrivial=dict(quick=500, thorough=20000),
    stages=[dict(name="planted", target="solve", x=dict(prop="C01"),
                 quick=dict(cases=4000, maxsize=80), thorough=dict(cases=150000, maxsize=100))],
)

PROPS["C02"] = dict(
    level="exploration",
    rule=("LPs planted infeasible (Farkas margin >= 1) / unbounded (feasible point + improving recession direction) / "
          "both primal and dual infeasible / finite optimum, x parameter combinations x ensure-ray x simplifier; verdicts "
          "judged against the planted class, offered Farkas vectors and rays by exact separation / recession checks. "
          "non-trivial = m >= 2 and a verdict or certificate vector was produced; distinct = distinct case text."),
    assumptions=["planted class is correct by construction (gen_lp.hpp)", "oracle tolerances: 1e-9/1e-7 relative after max-norm normalisation"],
    min_nontrivial=dict(quick=500, thorough=20000),
    stages=[dict(name="planted", target="solve", x=dict(prop="C02"),
                 quick=dict(cases=3000, maxsize=80), thorough=dict(cases=150000, maxsize=100))],
)


# drop-in property specifications: props.d/*.py each define PROPS entries via  PROPS["Cxx"] = dict(...)
import glob as _glob
import os as _os
for _f in sorted(_glob.glob(_os.path.join(_os.path.dirname(_os.path.abspath(__file__)), "props.d", "*.py"))):
    exec(compile(open(_f).read(), _f, "exec"), {"PROPS": PROPS})

PROPS["C08"] = dict(
    level="exploration",
    rule=("presolve-structure-rich planted LPs (all four classes; empty/singleton/duplicate/parallel/dependent rows and "
          "columns, doubleton equations, fixed and free columns, optional power-of-two factors) x keep-bounds x seed x "
          "min-reduction; SPxMainSM is driven directly. Verdicts judged against the planted class (z3 adjudicates "
          "ill-posed instances), the reduced LP + offset against the planted class/optimum by z3 (exact, after an outward "
          "1e-9 relaxation), postsolve of up to 3 optimal vertices of the reduced LP by the exact certificate oracle on the "
          "ORIGINAL LP plus basis validity. non-trivial = m,n >= 2 and >= 2 rows/columns removed; distinct = case text."),
    assumptions=["z3 5.1.0 (library of the tooling venv) decides small rational LPs correctly",
                 "the reduced LP is solved by SoPlex without simplifier/scaler and its answer is itself certified before it is fed to postsolve"],
    min_nontrivial=dict(quick=3000, thorough=100000),
    stages=[dict(name="mainsm", target="c08", quick=dict(cases=4000, maxsize=80), thorough=dict(cases=40000, maxsize=100))],
)
