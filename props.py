"""props.py - per-property check specification used by ./check (stages, budgets, non-triviality rules)."""

PROPS = {}

PROPS["C01"] = dict(
    level="exploration",
    rule=("LPs with a planted optimal primal-dual pair (exact integer/dyadic data, all row/bound types, forced "
          "empty/singleton/duplicate/parallel/dependent rows and columns, degenerate vertices, min/max, offset, optional "
          "power-of-two row/column factors) x parameter combinations (representation, algorithm, update type/max, "
          "simplifier, 7 scalers, starter, pricer, ratio tester, polishing, hyper pricing, 4 bools, seed, tolerances); "
          "judged by the exact GMP certificate oracle against the planted optimum. non-trivial = m,n >= 2, >= 1 "
          "explicit parameter, and >= 1 simplex iteration or simplifier on; distinct = distinct case text (FNV-1a)."),
    assumptions=["GMP arithmetic, the 200-line certificate oracle (harness/common/certs.hpp) and the planted-LP "
                 "generator are correct", "tolerance kappa=10 x FEASTOL/OPTTOL as fixed in DESIGN.md 3.5"],
    min_nontrivial=dict(quick=500, thorough=20000),
    stages=[dict(name="planted", target="solve", x=dict(prop="C01"),
                 quick=dict(cases=12000, maxsize=80), thorough=dict(cases=150000, maxsize=100))],
)

PROPS["C02"] = dict(
    level="exploration",
    rule=("LPs planted infeasible (Farkas margin >= 1) / unbounded (feasible point + improving recession direction) / "
          "both primal and dual infeasible / finite optimum, x parameter combinations x ensure-ray x simplifier; verdicts "
          "judged against the planted class, offered Farkas vectors and rays by exact separation / recession checks. "
          "non-trivial = m >= 2 and a verdict or certificate vector was produced; distinct = distinct case text."),
    assumptions=["planted class is correct by construction (gen_lp.hpp)", "oracle tolerances: 1e-9/1e-7 relative after max-norm normalisation"],
    min_nontrivial=dict(quick=20000, thorough=20000),
    stages=[dict(name="planted", target="solve", x=dict(prop="C02"),
                 quick=dict(cases=12000, maxsize=80), thorough=dict(cases=150000, maxsize=100))],
)


# drop-in property specifications: props.d/*.py each define PROPS entries via  PROPS["Cxx"] = dict(...)
import glob as _glob
import os as _os
for _f in sorted(_glob.glob(_os.path.join(_os.path.dirname(_os.path.abspath(__file__)), "props.d", "*.py"))):
    exec(compile(open(_f).read(), _f, "exec"), {"PROPS": PROPS})

PROPS["C08"] = dict(
    level="exploration",
    rule=("presolve-structure-rich planted LPs (all four classes; empty/singleton/duplicate/parallel/dependent rows and "
          "columns, doubleton equations, fixed and free columns, optional power-of-two factors) x keep-bounds x seed x "
          "min-reduction; SPxMainSM is driven directly. Verdicts judged against the planted class (z3 adjudicates "
          "ill-posed instances), the reduced LP + offset against the planted class/optimum by z3 (exact, after an outward "
          "1e-9 relaxation), postsolve of up to 3 optimal vertices of the reduced LP by the exact certificate oracle on the "
          "ORIGINAL LP plus basis validity. non-trivial = m,n >= 2 and >= 2 rows/columns removed; distinct = case text."),
    assumptions=["z3 5.1.0 (library of the tooling venv) decides small rational LPs correctly",
                 "the reduced LP is solved by SoPlex without simplifier/scaler and its answer is itself certified before it is fed to postsolve"],
    min_nontrivial=dict(quick=3000, thorough=100000),
    stages=[dict(name="mainsm", target="c08", quick=dict(cases=4000, maxsize=80), thorough=dict(cases=40000, maxsize=100))],
)

_HIST_RULE = ("API histories: a start LP (planted generator, 10% empty) plus 1..30 (quick) / 1..60 (thorough) operations over the real "
              "modification interface - addRow(s)/addCol(s) incl. implicitly created columns/rows, changeRow/changeCol, "
              "changeLhs/Rhs/Range/Lower/Upper/Bounds/Obj (single and vector forms), changeElement, removeRow/Col (single, "
              "perm array, index list with and without perm output, range), clearLP, objective sense/offset - interleaved with "
              "optimize, getBasis/setBasis round trips and clearBasis, under a random configuration (representation, algorithm, "
              "simplifier, 7 scalers, persistent scaling, update type, pricer, ratio tester, seed). After EVERY step all accessors "
              "are compared bit-exactly with an exact reference model (data are integers x 2^k); after every solve: certificate "
              "oracle, z3 truth for LPs <= 10x10, Farkas/ray checks, comparison with a fresh solver given the final LP, basis "
              "validity / consistency across queries / exact regularity. ")
PROPS["C06"] = dict(
    level="exploration",
    rule=_HIST_RULE + "non-trivial = the history contains a removal after a solve, followed by another solve; distinct = case text.",
    assumptions=["the reference model implements only documented behaviour: single removal moves the last element into the hole "
                 "(dataset.h), multi-removals follow the reported permutation, implicitly created columns/rows have the default "
                 "LPCol/LPRow values", "zero-dimensional LPs are modified and compared but their solves are not judged"],
    min_nontrivial=dict(quick=2000, thorough=100000),
    stages=[dict(name="hist", target="hist", x=dict(prop="C06"), quick=dict(cases=3000, maxsize=80), thorough=dict(cases=40000, maxsize=100)),
            dict(name="asan", target="hist", flavour="asan", x=dict(prop="C06"), quick=dict(cases=60, maxsize=60, shards=8), thorough=dict(cases=2500, maxsize=100))],
)
PROPS["C09"] = dict(
    level="exploration",
    rule=_HIST_RULE + "Configurations are biased to a scaler with persistent scaling. non-trivial = a modification was executed while "
         "the LP inside the solver was persistently scaled (observed through the guarded hook) and >= 2 solves; distinct = case text.",
    assumptions=["part (d) of the C09 design (data added/changed under persistent scaling) and the accessor-invisibility claim; parts (a)-(c) "
                 "(bare scaler objects, file bytes) are covered by C01/C02 scaled variants and C12"],
    min_nontrivial=dict(quick=1500, thorough=80000),
    stages=[dict(name="hist", target="hist", x=dict(prop="C09"), quick=dict(cases=3000, maxsize=80), thorough=dict(cases=40000, maxsize=100))],
)
PROPS["C04"] = dict(
    level="exploration",
    rule=_HIST_RULE + "non-trivial = a checked basis has >= 1 basic column and >= 1 nonbasic row, or comes from a non-optimal "
         "termination; distinct = case text.",
    assumptions=["regularity is judged exactly (rank over Q of the basis matrix assembled from the model) for bases returned by solves"],
    min_nontrivial=dict(quick=4000, thorough=150000),
    stages=[dict(name="hist", target="hist", x=dict(prop="C04"), quick=dict(cases=3000, maxsize=80), thorough=dict(cases=40000, maxsize=100)),
            # exact solves (all exact-solver options incl. EQTRANS): the rational vectors must be exactly the basic solution of the
            # returned basis (every nonbasic variable exactly on the bound its status names, zero dual values on basic variables)
            dict(name="exactbasis", target="exact", x=dict(prop="C04"), quick=dict(cases=150, maxsize=70, timeout=2400), thorough=dict(cases=3000, maxsize=100))],
)

PROPS["C03"] = dict(
    level="exploration",
    rule=("LPs with planted certificates (optimal / infeasible / unbounded / both) whose data are made non-dyadic by exact rational "
          "row/column factors (1/3, 2/7, 3/1000 ..., 15% with ratios 1e+-6..12), entered through the rational interface (AUTO / "
          "MANUAL sync) or the real interface (ONLYREAL), solved with SOLVEMODE_RATIONAL and zero tolerances under default exact "
          "options, the two shipped exact settings files, 1-3 deviations or a uniform draw of the 13 exact-solver booleans x "
          "simplifier/scaler/representation/algorithm. Every returned OPTIMAL/INFEASIBLE/UNBOUNDED is checked against the planted "
          "class and its rational vectors with the certificate oracle at tolerance 0 (objective == c.x + offset exactly, Farkas "
          "and ray exact). non-trivial = non-dyadic data, m,n >= 2 and a verdict was returned; distinct = case text."),
    assumptions=["option sets with reconstruction and factorization both off, or with iterative refinement off outside the shipped file, "
                 "are judged on the verdict only (property quantifier)", "deterministic budgets ITERLIMIT 5000 / REFLIMIT 100; a 20 s "
                 "TIMELIMIT is a watchdog whose hits are counted as inconclusive"],
    min_nontrivial=dict(quick=300, thorough=20000),
    stages=[dict(name="exact", target="exact", quick=dict(cases=200, maxsize=70, timeout=2400), thorough=dict(cases=4000, maxsize=100))],
)

PROPS["C16"] = dict(
    level="fault_enumeration",
    rule=("fault enumeration: planted LP (optimal / infeasible / unbounded / both) x algorithm x representation x simplifier "
          "(x scaler, persistent scaling, seed); the reference solve gives N iterations; then a FRESH solver is stopped at EVERY "
          "iteration limit k = 0..N (<= 80 stratified when N > 80), at every output line k of the solve log (interrupt flag raised by "
          "a counting stream buffer, DISPLAYFREQ 1), with TIMELIMIT 0 and 1e-9, and with OBJLIMIT_LOWER / OBJLIMIT_UPPER at "
          "z +- 0.5, z +- (1 + 1e-3|z|). Oracle per stop point: status is the abort status of that limit or a verdict that equals the "
          "planted class (OPTIMAL additionally passes the exact certificate oracle), iterations <= k, the basis has exactly m basic "
          "variables and bound-consistent nonbasic statuses; ABORT_VALUE only if the planted optimum lies beyond the limit in the "
          "direction of optimisation; after lifting the limit the same object reaches the class of the uninterrupted solve and an "
          "optimum passing the certificate oracle against the planted value. Stage 'exact' does the same for SOLVEMODE_RATIONAL "
          "(iteration limit, REFLIMIT, STALLREFLIMIT 0..R+1, interrupt, TIMELIMIT 0) with the certificate oracle at tolerance 0. "
          "non-trivial = at least one stop point really aborted and N >= 1; distinct = case text. evaluations = LP x configuration "
          "cases; stop points are counted in classes stop.* / aborted.*"),
    assumptions=["interrupt and time limit both report ABORT_TIME (SPxSolverBase::solve sets ABORT_TIME when *interrupt is set)",
                 "the exact solver ignores the interrupt pointer (observed: 0 aborts in 1500 interrupt points); the stage still checks "
                 "that whatever it returns is true",
                 "reference solves that end without a verdict are C01/C03's business and are skipped here (counted)"],
    min_nontrivial=dict(quick=600, thorough=20000),
    stages=[dict(name="float", target="c16", quick=dict(cases=2500, maxsize=80), thorough=dict(cases=4000, maxsize=100)),
            dict(name="exact", target="c16", x=dict(mode="exact"), quick=dict(cases=120, maxsize=70, timeout=2400), thorough=dict(cases=300, maxsize=100))],
)

PROPS["C05"] = dict(
    level="exploration",
    rule=("planted LPs (all classes, 50% with power-of-two row/column factors) x representation {auto, column, row} x 7 scalers x "
          "persistent scaling x simplifier {off, on} x algorithm; the basis comes from a solve (any final status), a solve stopped "
          "by an iteration limit, setBasis with a generated regular basis (exact rank test), or a solve followed by such a setBasis "
          "(so that the LP inside is scaled). B is assembled from the MODEL by getBasisInd (column j / unit vector of row i) and "
          "every query is judged in exact arithmetic: B * invcol_k = e_k and invrow_k * B = e_k^T for EVERY k, solve(B v) = v, "
          "multBasis(v) = B v, multBasisTranspose(v) = B^T v (tolerance 1e-8 (1 + |B|max |z|max m)), the sparse index output lists "
          "exactly the nonzero positions. With unscale=false on a scaled LP B is assembled from the scaled columns the solver holds "
          "(read-only hook). non-trivial = m >= 2, B regular with >= 1 structural column and all five query kinds judged; "
          "distinct = case text."),
    assumptions=["a basis installed by setBasis is loaded lazily; the order of the basis members is the one getBasisInd reports after the "
                 "first inverse query", "sparse output: the caller passes a cleared coefficient array (the implementation writes only the "
                 "listed positions)", "singular bases returned by solves are skipped here (C04 judges them)",
                 "the rational counterparts are decided under C11"],
    min_nontrivial=dict(quick=2000, thorough=60000),
    stages=[dict(name="basisq", target="c05", quick=dict(cases=10000, maxsize=80), thorough=dict(cases=20000, maxsize=100)),
            dict(name="asan", target="c05", flavour="asan", quick=dict(cases=400, maxsize=60), thorough=dict(cases=2000, maxsize=100))],
)
