// c05.cpp - C05: basis-inverse and basis-multiply queries against the user's basis matrix B
//   B = columns named by getBasisInd (index j >= 0: column j of the model; index -1-i: unit vector of row i)
#include "spx.hpp"
#include "gen_lp.hpp"
#include "certs.hpp"
#include "dense.hpp"

using namespace vf;
using namespace soplex;

static void gen(Case& c)
{
   bool thorough = opts().tier == "thorough";
   GenOpt g;
   g.maxM = g.maxN = (int) opts().xi("maxdim", thorough ? 25 : 12);
   g.minM = 1;
   g.scaleExp = P(50) ? R(1, 8) : 0;
   g.structPct = 10;
   int cls = 1 + W({70, 12, 12, 6});
   genPlantedLP(g, cls, c.lp, c.pl);
   c.recs.push_back(Rec("int").add((int) SoPlex::REPRESENTATION).add(R(0, 2)));
   c.recs.push_back(Rec("int").add((int) SoPlex::SCALER).add(P(15) ? 0 : R(1, 6)));
   c.recs.push_back(Rec("bool").add((int) SoPlex::PERSISTENTSCALING).add(P(75) ? 1 : 0));
   c.recs.push_back(Rec("int").add((int) SoPlex::SIMPLIFIER).add(W({2, 1, 1}) == 0 ? 0 : (P(50) ? 1 : 3)));
   if(P(30)) c.recs.push_back(Rec("int").add((int) SoPlex::ALGORITHM).add(R(0, 1)));
   // source of the basis: 0 = solve, 1 = solve with iteration limit k, 2 = setBasis with a generated regular basis,
   // 3 = solve (so that the LP is scaled / presolved once) and then setBasis with a generated regular basis
   int src = W({45, 15, 20, 20});
   c.recs.push_back(Rec("src").add(src).add(R(0, 6)));
   // choices for the generated basis: a priority order of the m+n candidates
   if(src >= 2)
   {
      Rec r("order");
      int tot = c.lp.m() + c.lp.n();
      std::vector<int> ord(tot);
      for(int k = 0; k < tot; k++) ord[k] = k;
      for(int k = tot - 1; k > 0; k--) std::swap(ord[k], ord[R(0, k)]);
      for(int k : ord) r.add(k);
      c.recs.push_back(r);
   }
   // dense integer vectors for the solve / multiply checks
   Rec vr("vec");
   for(int i = 0; i < c.lp.m(); i++) vr.add(R(-4, 4));
   c.recs.push_back(vr);
   c.recs.push_back(Rec("unscale").add(P(80) ? 1 : 0));
}

static Q maxAbs(const std::vector<Q>& v)
{
   Q r = 0;
   for(auto& x : v) r = std::max(r, qabs(x));
   return r;
}

static Verdict run(const Case& c)
{
   Verdict v;
   Evidence& e = ev();
   SoPlex sp;
   quiet(sp);
   sp.setIntParam(SoPlex::ITERLIMIT, 50000);
   applyParams(sp, c);
   const LP& md = c.lp;
   int m = md.m(), n = md.n();
   loadReal(sp, md, 0);
   const Rec* sr = c.find("src");
   int src = sr ? (int) sr->i(0) : 0;
   if(src == 1) sp.setIntParam(SoPlex::ITERLIMIT, (int) sr->i(1));
   if(src != 2) sp.optimize();
   if(src >= 2)
   {
      // greedy regular basis from the priority order (exact rank test)
      const Rec* ord = c.find("order");
      std::vector<std::vector<Q>> chosen;
      std::vector<VarStatus> rs(m + 1), cs(n + 1);
      for(int i = 0; i < m; i++) rs[i] = isFin(md.lhs[i]) ? (md.lhs[i] == md.rhs[i] ? Solver::FIXED : Solver::ON_LOWER) : (isFin(md.rhs[i]) ? Solver::ON_UPPER : Solver::ZERO);
      for(int j = 0; j < n; j++) cs[j] = isFin(md.lo[j]) ? (md.lo[j] == md.up[j] ? Solver::FIXED : Solver::ON_LOWER) : (isFin(md.up[j]) ? Solver::ON_UPPER : Solver::ZERO);
      for(size_t k = 0; ord && k < ord->n() && (int) chosen.size() < m; k++)
      {
         int id = (int) ord->i(k);
         std::vector<Q> col(m, Q(0));
         if(id < m) col[id] = 1;
         else for(int i = 0; i < m; i++) col[i] = md.A[i][id - m];
         chosen.push_back(col);
         if(exactRank(chosen) != (int) chosen.size())
         {
            chosen.pop_back();
            continue;
         }
         if(id < m) rs[id] = Solver::BASIC;
         else cs[id - m] = Solver::BASIC;
      }
      if((int) chosen.size() != m) return v;   // cannot happen: the unit vectors alone have rank m
      sp.setBasis(rs.data(), cs.data());
      // free nonbasic rows are outside what the solver accepts as a start (see C06 known finding): query without a solve
   }
   e.count(std::string("src.") + std::to_string(src));
   e.count(std::string("status.") + statusName(sp.status()));
   if(!sp.hasBasis() || m == 0)
   {
      e.count("no_basis");
      return v;
   }
   std::vector<int> bind(m, 99999999), bind0(m, 99999999);
   sp.getBasisInd(bind0.data());
   {
      // a basis installed by setBasis is loaded lazily: the first query factorises it and fixes the order of the
      // basis members; B is defined by the index query made after that point (as after a solve)
      std::vector<double> tmp(m, 0.0);
      sp.getBasisInverseRowReal(0, tmp.data());
   }
   sp.getBasisInd(bind.data());
   if(bind != bind0) e.count("bind_order_changed_by_first_query");
   // assemble B from the model
   std::vector<std::vector<Q>> B(m, std::vector<Q>(m, Q(0)));   // B[i][k]: row i, basis position k
   std::set<int> seen;
   int structural = 0;
   for(int k = 0; k < m; k++)
   {
      int id = bind[k];
      if(id >= n || id < -m || seen.count(id))
      {
         v.fail("getBasisInd returned an invalid or repeated index");
         return v;
      }
      seen.insert(id);
      if(id >= 0)
      {
         structural++;
         for(int i = 0; i < m; i++) B[i][k] = md.A[i][id];
      }
      else B[-1 - id][k] = 1;
   }
   {
      std::vector<std::vector<Q>> cols(m, std::vector<Q>(m));
      for(int k = 0; k < m; k++) for(int i = 0; i < m; i++) cols[k][i] = B[i][k];
      if(exactRank(cols) != m)
      {
         if(src >= 2) v.fail("internal: generated basis singular");
         else e.count("singular_basis_skipped");   // judged by C04
         return v;
      }
   }
   Q bmax = 0;
   for(auto& r : B) bmax = std::max(bmax, maxAbs(r));
   bool unscale = c.geti("unscale", 1) != 0;
   bool scaledInside = SoPlexVerifAccess::isRealLPScaled(sp);
   if(!unscale && scaledInside)
   {
      // with unscale=false the queries refer to the scaled LP the solver holds: B~ has the scaled column j (read through
      // the read-only hook) for a structural member and the unit vector for a slack
      e.count("judged_in_scaled_space");
      for(int k = 0; k < m; k++)
      {
         int id = bind[k];
         if(id < 0) continue;
         for(int i = 0; i < m; i++) B[i][k] = 0;
         for(auto& en : SoPlexVerifAccess::internalColVector(sp, id)) B[en.first][k] = Q(en.second);
      }
      bmax = 0;
      for(auto& r : B) bmax = std::max(bmax, maxAbs(r));
   }
   std::string cfg = std::string("rep") + std::to_string(sp.intParam(SoPlex::REPRESENTATION)) + (scaledInside ? "/scaled" : "/unscaled");
   e.count("cfg." + cfg);
   auto tolFor = [&](const Q & zmax)
   {
      return Q(Q(1, 100000000) * (1 + bmax * zmax * m));
   };
   std::vector<double> coef(m);
   std::vector<int> inds(m);
   // inverse columns: B * col_k = e_k
   for(int k = 0; k < m; k++)
   {
      int ninds = -7;
      bool sparseAsked = (k % 2 == 0);
      // with sparse output only the listed positions are written (the implementation documents 'based on coef array'),
      // so the caller provides a cleared array
      std::fill(coef.begin(), coef.end(), 0.0);
      if(!sp.getBasisInverseColReal(k, coef.data(), sparseAsked ? inds.data() : nullptr, sparseAsked ? &ninds : nullptr, unscale))
      {
         v.fail("getBasisInverseColReal refused although hasBasis()");
         return v;
      }
      std::vector<Q> z(m);
      for(int i = 0; i < m; i++)
      {
         if(!std::isfinite(coef[i]))
         {
            v.fail("getBasisInverseColReal returned a non-finite number");
            return v;
         }
         z[i] = Q(coef[i]);
      }
      Q t = tolFor(maxAbs(z));
      for(int i = 0; i < m; i++)
      {
         Q s = 0;
         for(int q = 0; q < m; q++) if(B[i][q] != 0) s += B[i][q] * z[q];
         if(qabs(s - (i == k ? 1 : 0)) > t)
         {
            v.fail("getBasisInverseColReal: B * column " + std::string("does not give the unit vector (") + cfg + ")");
            return v;
         }
      }
      if(sparseAsked && ninds >= 0)
      {
         std::set<int> listed;
         for(int q = 0; q < ninds; q++)
         {
            if(inds[q] < 0 || inds[q] >= m || listed.count(inds[q]))
            {
               v.fail("getBasisInverseColReal: sparse index output invalid or repeated");
               return v;
            }
            listed.insert(inds[q]);
         }
         for(int i = 0; i < m; i++) if(!listed.count(i) && coef[i] != 0.0)
            {
               v.fail("getBasisInverseColReal: nonzero entry not listed in the sparse index output");
               return v;
            }
         e.count("sparse_output_checked");
      }
      else if(sparseAsked && ninds != -1)
      {
         v.fail("getBasisInverseColReal: ninds neither >= 0 nor -1");
         return v;
      }
   }
   e.count("inverse_cols_checked", m);
   // inverse rows: row_k * B = e_k^T
   for(int k = 0; k < m; k++)
   {
      int ninds = -7;
      bool sparseAsked = (k % 2 == 1);
      std::fill(coef.begin(), coef.end(), 0.0);
      if(!sp.getBasisInverseRowReal(k, coef.data(), sparseAsked ? inds.data() : nullptr, sparseAsked ? &ninds : nullptr, unscale))
      {
         v.fail("getBasisInverseRowReal refused although hasBasis()");
         return v;
      }
      std::vector<Q> z(m);
      for(int i = 0; i < m; i++)
      {
         if(!std::isfinite(coef[i]))
         {
            v.fail("getBasisInverseRowReal returned a non-finite number");
            return v;
         }
         z[i] = Q(coef[i]);
      }
      Q t = tolFor(maxAbs(z));
      for(int q = 0; q < m; q++)
      {
         Q s = 0;
         for(int i = 0; i < m; i++) if(B[i][q] != 0) s += z[i] * B[i][q];
         if(qabs(s - (q == k ? 1 : 0)) > t)
         {
            v.fail("getBasisInverseRowReal: row * B " + std::string("does not give the unit row (") + cfg + ")");
            return v;
         }
      }
      if(sparseAsked && ninds >= 0)
      {
         std::set<int> listed;
         for(int q = 0; q < ninds; q++)
         {
            if(inds[q] < 0 || inds[q] >= m || listed.count(inds[q]))
            {
               v.fail("getBasisInverseRowReal: sparse index output invalid or repeated");
               return v;
            }
            listed.insert(inds[q]);
         }
         for(int i = 0; i < m; i++) if(!listed.count(i) && coef[i] != 0.0)
            {
               v.fail("getBasisInverseRowReal: nonzero entry not listed in the sparse index output");
               return v;
            }
      }
   }
   e.count("inverse_rows_checked", m);
   // dense vector
   const Rec* vr = c.find("vec");
   std::vector<Q> vq(m, Q(1));
   for(int i = 0; vr && i < m && i < (int) vr->n(); i++) vq[i] = Q(vr->i(i));
   std::vector<Q> Bv(m, Q(0)), BTv(m, Q(0));
   for(int i = 0; i < m; i++) for(int k = 0; k < m; k++) if(B[i][k] != 0)
         {
            Bv[i] += B[i][k] * vq[k];
            BTv[k] += B[i][k] * vq[i];
         }
   // solve(B v) = v
   {
      std::vector<double> rhs(m), sol(m);
      for(int i = 0; i < m; i++) rhs[i] = Bv[i].get_d();
      if(!sp.getBasisInverseTimesVecReal(rhs.data(), sol.data(), unscale))
      {
         v.fail("getBasisInverseTimesVecReal refused although hasBasis()");
         return v;
      }
      Q t = Q(1, 1000000) * (1 + maxAbs(vq) + maxAbs(Bv));
      for(int k = 0; k < m; k++)
         if(!std::isfinite(sol[k]) || qabs(Q(sol[k]) - vq[k]) > t)
         {
            v.fail("getBasisInverseTimesVecReal(B v) != v (" + cfg + ")");
            return v;
         }
   }
   // multBasis(v) = B v
   {
      std::vector<double> w(m);
      for(int k = 0; k < m; k++) w[k] = vq[k].get_d();
      if(!sp.multBasis(w.data(), unscale))
      {
         v.fail("multBasis refused although hasBasis()");
         return v;
      }
      Q t = Q(1, 100000000) * (1 + bmax * maxAbs(vq) * m);
      if(getenv("VF_DUMP"))
      {
         fprintf(stderr, "bind:");
         for(int k : bind) fprintf(stderr, " %d", k);
         fprintf(stderr, "\nmultBasis:");
         for(double d : w) fprintf(stderr, " %g", d);
         fprintf(stderr, "\nexpected:");
         for(auto& q : Bv) fprintf(stderr, " %s", qstr(q).c_str());
         fprintf(stderr, "\n");
      }
      for(int i = 0; i < m; i++)
         if(!std::isfinite(w[i]) || qabs(Q(w[i]) - Bv[i]) > t)
         {
            v.fail("multBasis(v) != B v (" + cfg + ")");
            return v;
         }
   }
   {
      std::vector<double> w(m);
      for(int i = 0; i < m; i++) w[i] = vq[i].get_d();
      if(!sp.multBasisTranspose(w.data(), unscale))
      {
         v.fail("multBasisTranspose refused although hasBasis()");
         return v;
      }
      Q t = Q(1, 100000000) * (1 + bmax * maxAbs(vq) * m);
      for(int k = 0; k < m; k++)
         if(!std::isfinite(w[k]) || qabs(Q(w[k]) - BTv[k]) > t)
         {
            v.fail("multBasisTranspose(v) != B^T v (" + cfg + ")");
            return v;
         }
   }
   e.count("bases_checked");
   v.nontrivial = scaledInside || sp.intParam(SoPlex::REPRESENTATION) == SoPlex::REPRESENTATION_ROW || (m >= 5 && structural >= 2);
   return v;
}

int main(int argc, char** argv)
{
   return vfMain(argc, argv, "C05", gen, run);
}
