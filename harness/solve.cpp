// solve.cpp - C01 / C02: floating-point solves of LPs with planted certificates x parameter combinations,
// judged by the exact certificate oracles (certs.hpp).   --x prop=C01|C02
#include "spx.hpp"
#include "gen_lp.hpp"
#include "certs.hpp"
#include "z3ref.hpp"

using namespace vf;

static std::string propId = "C01";

static void gen(Case& c)
{
   GenOpt g;
   bool thorough = opts().tier == "thorough";
   g.maxM = g.maxN = (int) opts().xi("maxdim", thorough ? 40 : 20);
   g.scaleExp = P(30) ? R(1, 6) : 0;
   int cls = CL_OPT;
   if(propId == "C02") cls = 1 + W({20, 35, 30, 15});
   genPlantedLP(g, cls, c.lp, c.pl);
   genCfg(c);
   if(propId == "C02")
   {
      // ensure-ray and simplifier on/off are the configurations the statement names: draw them explicitly
      c.recs.push_back(Rec("bool").add((int) SoPlex::ENSURERAY).add(R(0, 1)));
      c.recs.push_back(Rec("int").add((int) SoPlex::SIMPLIFIER).add(W({1, 1, 1}) == 0 ? 0 : (P(50) ? 1 : 3)));
   }
   if(P(10))
   {
      static const char* tols[] = {"1/10000", "1/100000", "1/10000000", "1/100000000"};
      c.recs.push_back(Rec("real").add((int) SoPlex::FEASTOL).add(tols[R(0, 3)]));
      c.recs.push_back(Rec("real").add((int) SoPlex::OPTTOL).add(tols[R(0, 3)]));
   }
   c.recs.push_back(Rec("load").add(R(0, 1)));
   // known finding C01/polish-nonfast-rt: exclude exactly RATIOTESTER_TEXTBOOK / _HARRIS together with polishing != OFF
   if(knownKey("polish-nonfast-rt"))
   {
      bool textbook = false;
      for(auto& r : c.recs) if(r.tag == "int" && r.i(0) == SoPlex::RATIOTESTER && (r.i(1) == SoPlex::RATIOTESTER_TEXTBOOK || r.i(1) == SoPlex::RATIOTESTER_HARRIS)) textbook = true;
      if(textbook)
         for(auto& r : c.recs)
            if(r.tag == "int" && r.i(0) == SoPlex::SOLUTION_POLISHING && r.i(1) != SoPlex::POLISHING_OFF)
            {
               r.a[1] = "0";
               ev().count("excluded_known.polish-nonfast-rt");
            }
   }
   // known finding C01/harris-rt-singular: exclude exactly RATIOTESTER_HARRIS
   if(knownKey("harris-rt-singular"))
      for(auto& r : c.recs)
         if(r.tag == "int" && r.i(0) == SoPlex::RATIOTESTER && r.i(1) == SoPlex::RATIOTESTER_HARRIS)
         {
            r.a[1] = std::to_string((int) SoPlex::RATIOTESTER_FAST);
            ev().count("excluded_known.harris-rt-singular");
         }
   // known finding C01/starter-free-row: exclude exactly STARTER != OFF on LPs with a free row
   if(knownKey("starter-free-row"))
   {
      bool freeRow = false;
      for(int i = 0; i < c.lp.m(); i++) if(!isFin(c.lp.lhs[i]) && !isFin(c.lp.rhs[i])) freeRow = true;
      if(freeRow)
         for(auto& r : c.recs)
            if(r.tag == "int" && r.i(0) == SoPlex::STARTER && r.i(1) != SoPlex::STARTER_OFF)
            {
               r.a[1] = "0";
               ev().count("excluded_known.starter-free-row");
            }
   }
}

static Verdict run(const Case& c)
{
   Verdict v;
   Evidence& e = ev();
   if(!c.prop.empty()) propId = c.prop;
   SoPlex sp;
   quiet(sp);
   sp.setIntParam(SoPlex::ITERLIMIT, 50000);
   std::string err;
   if(!applyParams(sp, c, &err))
   {
      v.fail(err);
      return v;
   }
   loadReal(sp, c.lp, (int) c.geti("load"));
   Status st;
   try
   {
      st = sp.optimize();
   }
   catch(const soplex::SPxException& x)
   {
      v.fail(std::string("optimize threw: ") + x.what().c_str());
      return v;
   }
   RealSol r = snapshotReal(sp);
   int cls = c.pl.cls;
   e.count(std::string("class.") + className(cls));
   e.count(std::string("status.") + className(cls) + "." + statusName(st));
   countCfg(c);
   Tol t = Tol::real(sp.realParam(SoPlex::FEASTOL), sp.realParam(SoPlex::OPTTOL));
   bool nondefault = false;
   for(auto& rr : c.recs) if(rr.tag == "int" || rr.tag == "bool") nondefault = true;
   int iters = sp.numIterations();
   if(iters > 0) e.count("solves_with_iterations");

   if(st == Solver::OPTIMAL)
   {
      if(cls != CL_OPT && cls != CL_UNKNOWN)
      {
         v.fail(std::string("OPTIMAL returned for an LP without finite optimum (planted ") + className(cls) + ")");
         return v;
      }
      if(!(r.hasPrimal && r.hasDual && r.okP && r.okS && r.okY && r.okD))
      {
         v.fail("OPTIMAL but a solution getter refused");
         return v;
      }
      if(!allFinite(r.xd) || !allFinite(r.sd) || !allFinite(r.yd) || !allFinite(r.dd) || !std::isfinite(r.objd))
      {
         v.fail("OPTIMAL but a returned number is not finite");
         return v;
      }
      bool degen = false;
      std::string m = checkOptimalCert(c.lp, r.x, r.s, r.y, r.d, r.obj, t, &c.pl, nullptr, &degen);
      if(!m.empty())
      {
         v.fail("OPTIMAL certificate: " + m);
         return v;
      }
      if(degen) e.count("degenerate_optimum");
   }
   else if(cls == CL_OPT)
   {
      if(st == Solver::UNBOUNDED || st == Solver::INForUNBD)
      {
         // adjudication (DESIGN 3.5): boundedness claims are judged on well-posed LPs only. If the recession cone
         // contains a non-zero direction along which the objective is exactly constant, an arbitrarily small
         // perturbation of c makes the LP unbounded, so a floating-point UNBOUNDED verdict is counted, not judged.
         int ray = z3HasNonWorseningRay(c.lp);
         if(ray != 0)
         {
            e.count(ray == 1 ? "unjudged.illposed_boundedness" : "unjudged.z3_unknown");
            return v;
         }
      }
      if(st == Solver::INFEASIBLE || st == Solver::INForUNBD)
      {
         // same for feasibility: if a non-zero zero-margin certificate exists (implicit equalities, duplicate
         // equations), the LP lies on the boundary of infeasibility and the verdict is counted, not judged.
         int zm = z3HasZeroMarginCertificate(c.lp);
         if(zm != 0)
         {
            e.count(zm == 1 ? "unjudged.illposed_feasibility" : "unjudged.z3_unknown");
            return v;
         }
      }
      if(st == Solver::INFEASIBLE || st == Solver::UNBOUNDED || st == Solver::INForUNBD)
      {
         v.fail(std::string(statusName(st)) + " returned for an LP with a finite optimum");
         return v;
      }
      // known finding C01/textbook-rt-cycles: exactly RATIOTESTER_TEXTBOOK (no anti-cycling safeguard; documented in
      // spxdefaultrt.h as 'not intended for reliably solving LPs') ending in ABORT_ITER / ABORT_CYCLING on a degenerate LP
      if(knownKey("textbook-rt-cycles") && sp.intParam(SoPlex::RATIOTESTER) == SoPlex::RATIOTESTER_TEXTBOOK
            && (st == Solver::ABORT_ITER || st == Solver::ABORT_CYCLING))
      {
         e.count("excluded_known.textbook-rt-cycles");
         return v;
      }
      // completeness half of C01 (also reported under C02 runs, which share the claim's domain)
      v.fail(std::string("LP with finite optimum not solved to OPTIMAL: ") + statusName(st));
      return v;
   }
   else if(st == Solver::INFEASIBLE)
   {
      if(cls == CL_UNB)
      {
         int zm = z3HasZeroMarginCertificate(c.lp);
         if(zm != 0)
         {
            e.count(zm == 1 ? "unjudged.illposed_feasibility" : "unjudged.z3_unknown");
            return v;
         }
         v.fail("INFEASIBLE returned for an LP with a feasible point");
         return v;
      }
   }
   else if(st == Solver::UNBOUNDED || st == Solver::INForUNBD)
   {
      if(cls == CL_INF && st == Solver::UNBOUNDED) e.count("unjudged.UNBOUNDED_on_infeasible");
   }
   else
   {
      // neither a verdict nor optimal on an LP without optimum: nothing is claimed, count it
      e.count(std::string("unjudged.") + statusName(st));
   }
   // offered vectors
   if(r.hasFarkas)
   {
      e.count("farkas_offered");
      if(!r.okFarkas)
      {
         v.fail("hasDualFarkas() but getDualFarkas() refused");
         return v;
      }
      std::string m = checkFarkas(c.lp, r.fark, false);
      if(!m.empty())
      {
         // known finding C02/textbook-rt-invalid-farkas: exactly RATIOTESTER_TEXTBOOK (documented in spxdefaultrt.h as 'not
         // intended for reliably solving LPs') + an offered Farkas vector that is not a proof
         if(knownKey("textbook-rt-invalid-farkas") && sp.intParam(SoPlex::RATIOTESTER) == SoPlex::RATIOTESTER_TEXTBOOK)
         {
            e.count("excluded_known.textbook-rt-invalid-farkas");
            return v;
         }
         // known finding C02/rowrep-invalid-farkas: in ROW representation (chosen explicitly or by the automatic rule
         // (n+1) * 1.2 < m+1) infeasibility detected by the entering algorithm after a bound flip returns a Farkas vector
         // that is not a proof (seen with the default bound-flipping ratio test; the textbook case above is the same shape)
         bool rowRep = sp.intParam(SoPlex::REPRESENTATION) == SoPlex::REPRESENTATION_ROW
                       || (sp.intParam(SoPlex::REPRESENTATION) == SoPlex::REPRESENTATION_AUTO
                           && (c.lp.n() + 1) * sp.realParam(SoPlex::REPRESENTATION_SWITCH) < (c.lp.m() + 1));
         if(knownKey("rowrep-invalid-farkas") && rowRep)
         {
            e.count("excluded_known.rowrep-invalid-farkas");
            return v;
         }
         v.fail("Farkas: " + m);
         return v;
      }
   }
   if(r.hasRay)
   {
      e.count("ray_offered");
      if(!r.okRay)
      {
         v.fail("hasPrimalRay() but getPrimalRay() refused");
         return v;
      }
      std::string m = checkRay(c.lp, r.ray, false);
      if(!m.empty())
      {
         v.fail("primal ray: " + m);
         return v;
      }
   }
   if(sp.boolParam(SoPlex::ENSURERAY))
   {
      if(st == Solver::INFEASIBLE && !r.hasFarkas)
      {
         v.fail("ENSURERAY: INFEASIBLE without Farkas vector");
         return v;
      }
      if(st == Solver::UNBOUNDED && !r.hasRay)
      {
         v.fail("ENSURERAY: UNBOUNDED without primal ray");
         return v;
      }
   }
   if(st != Solver::OPTIMAL && sp.isPrimalFeasible() && r.hasPrimal && r.okP)
   {
      e.count("primal_feasible_claimed_nonoptimal");
      // neither C01 nor C02 states anything about the point stored with a non-OPTIMAL status: an infeasible point that
      // is labelled isPrimalFeasible() (seen after UNBOUNDED with the simplifier on) is recorded as an observation only
      std::string m = checkPrimalFeasible(c.lp, r.x, t);
      if(!m.empty()) e.count("observation.isPrimalFeasible_claim_false_on_" + std::string(statusName(st)));
   }
   if(propId == "C01")
      v.nontrivial = c.lp.m() >= 2 && c.lp.n() >= 2 && nondefault && (iters >= 1 || sp.intParam(SoPlex::SIMPLIFIER) != 0);
   else
      v.nontrivial = c.lp.m() >= 2 && (cls == CL_OPT || r.hasFarkas || r.hasRay || st == Solver::INFEASIBLE || st == Solver::UNBOUNDED || st == Solver::INForUNBD);
   return v;
}

int main(int argc, char** argv)
{
   for(int i = 1; i + 1 < argc; i++) if(std::string(argv[i]) == "--x" && std::string(argv[i + 1]).rfind("prop=", 0) == 0) propId = argv[i + 1] + 5;
   return vfMain(argc, argv, propId.c_str(), gen, run);
}
