// c08.cpp - C08: the internal simplifier (SPxMainSM) driven directly, below SoPlex's repair loops.
//   verdicts (INFEASIBLE / UNBOUNDED / DUAL_INFEASIBLE / VANISHED) judged against the planted class,
//   reduced LP + offset judged by z3 (exact), postsolve judged by the exact certificate oracle on the
//   ORIGINAL LP for several optimal vertices of the reduced LP.
#include "spx.hpp"
#include "gen_lp.hpp"
#include "certs.hpp"
#include "z3ref.hpp"

using namespace vf;
using namespace soplex;

static void gen(Case& c)
{
   GenOpt g;
   bool thorough = opts().tier == "thorough";
   g.maxM = g.maxN = (int) opts().xi("maxdim", thorough ? 25 : 14);
   g.presolveRich = true;
   g.structPct = 40;
   g.scaleExp = P(25) ? R(1, 4) : 0;
   int cls = 1 + W({55, 20, 17, 8});
   genPlantedLP(g, cls, c.lp, c.pl);
   c.recs.push_back(Rec("keepbounds").add(R(0, 1)));
   c.recs.push_back(Rec("seed").add(R(0, 1000)));
   c.recs.push_back(Rec("minred").add(P(30) ? "1/10000" : "0"));
}

static void toSPxLP(const LP& lp, SPxLPBase<double>& out)
{
   out.clear();
   out.changeSense(lp.sense == 1 ? SPxLPBase<double>::MAXIMIZE : SPxLPBase<double>::MINIMIZE);
   LPColSetBase<double> cs;
   DSVectorBase<double> empty(0);
   for(int j = 0; j < lp.n(); j++) cs.add(D(lp.obj[j]), D(lp.lo[j]), empty, D(lp.up[j]));
   out.addCols(cs);
   for(int i = 0; i < lp.m(); i++)
   {
      DSVectorBase<double> v(lp.n());
      for(int j = 0; j < lp.n(); j++) if(lp.A[i][j] != 0) v.add(j, D(lp.A[i][j]));
      out.addRow(LPRowBase<double>(D(lp.lhs[i]), v, D(lp.rhs[i])));
   }
}
static void fromSPxLP(const SPxLPBase<double>& in, LP& lp)
{
   lp.resize(in.nRows(), in.nCols());
   lp.sense = in.spxSense() == SPxLPBase<double>::MAXIMIZE ? 1 : -1;
   lp.offset = 0;
   for(int j = 0; j < in.nCols(); j++)
   {
      lp.lo[j] = qd(in.lower(j));
      lp.up[j] = qd(in.upper(j));
      lp.obj[j] = qd(in.obj(j));
   }
   for(int i = 0; i < in.nRows(); i++)
   {
      lp.lhs[i] = qd(in.lhs(i));
      lp.rhs[i] = qd(in.rhs(i));
      const SVectorBase<double>& r = in.rowVector(i);
      for(int k = 0; k < r.size(); k++) lp.A[i][r.index(k)] = qd(r.value(k));
   }
}
static const char* resName(int r)
{
   switch(r)
   {
   case SPxSimplifier<double>::OKAY: return "OKAY";
   case SPxSimplifier<double>::INFEASIBLE: return "INFEASIBLE";
   case SPxSimplifier<double>::DUAL_INFEASIBLE: return "DUAL_INFEASIBLE";
   case SPxSimplifier<double>::UNBOUNDED: return "UNBOUNDED";
   case SPxSimplifier<double>::VANISHED: return "VANISHED";
   }
   return "?";
}

// known finding C08/aggregation-cancellation-residue: floating-point aggregation turns coefficients that cancel exactly in
// rational arithmetic into ~1e-15 residues (changeElement drops only |a| <= 1e-16, and nearly parallel rows keep a 1e-16
// relative difference); an exactly rank-deficient infeasible system then becomes 'feasible' at |x| ~ 1e15. Signature:
// the discrepancy is realised only by points >= 1e9 x the largest datum of the LP.
static Q dataMagnitude(const LP& lp)
{
   Q big = 1;
   auto see = [&](const Q & q)
   {
      if(isFin(q) && qabs(q) > big) big = qabs(q);
   };
   for(int j = 0; j < lp.n(); j++)
   {
      see(lp.lo[j]);
      see(lp.up[j]);
      see(lp.obj[j]);
   }
   for(int i = 0; i < lp.m(); i++)
   {
      see(lp.lhs[i]);
      see(lp.rhs[i]);
      for(int j = 0; j < lp.n(); j++) see(lp.A[i][j]);
   }
   return big;
}
static std::string basisCheck(const LP& lp, const VarStatus* rows, const VarStatus* cols)
{
   int basic = 0;
   std::ostringstream e;
   for(int i = 0; i < lp.m(); i++)
   {
      if(rows[i] == Solver::BASIC) basic++;
      else if(rows[i] == Solver::ON_LOWER && !isFin(lp.lhs[i])) e << "row " << i << " ON_LOWER at infinite lhs; ";
      else if(rows[i] == Solver::ON_UPPER && !isFin(lp.rhs[i])) e << "row " << i << " ON_UPPER at infinite rhs; ";
      else if(rows[i] == Solver::FIXED && lp.lhs[i] != lp.rhs[i]) e << "row " << i << " FIXED with lhs != rhs; ";
      else if(rows[i] == Solver::UNDEFINED) e << "row " << i << " UNDEFINED; ";
   }
   for(int j = 0; j < lp.n(); j++)
   {
      if(cols[j] == Solver::BASIC) basic++;
      else if(cols[j] == Solver::ON_LOWER && !isFin(lp.lo[j])) e << "col " << j << " ON_LOWER at infinite lower; ";
      else if(cols[j] == Solver::ON_UPPER && !isFin(lp.up[j])) e << "col " << j << " ON_UPPER at infinite upper; ";
      else if(cols[j] == Solver::FIXED && lp.lo[j] != lp.up[j])
      {
         // known finding C08/postsolve-fixed-label
         if(knownKey("postsolve-fixed-label")) ev().count("excluded_known.postsolve-fixed-label");
         else e << "col " << j << " FIXED with lower != upper; ";
      }
      else if(cols[j] == Solver::UNDEFINED) e << "col " << j << " UNDEFINED; ";
   }
   if(basic != lp.m()) e << basic << " basic variables for " << lp.m() << " rows; ";
   return e.str();
}

// second signature of known finding C08/aggregation-cancellation-residue: the same presolve with the zero tolerance raised from
// 1e-16 to 1e-11 (so that a ~1e-15 cancellation residue is dropped instead of being used as a coefficient, e.g. a "row
// singleton" -3.6e-15 x <= 7.1e-15 turned into the bound x >= -2) reproduces the planted class and optimum
static bool residueOnly(const Case& c)
{
   const LP& lp = c.lp;
   int cls = c.pl.cls;
   SPxOut out;
   out.setVerbosity(SPxOut::ERROR);
   auto tol = std::make_shared<Tolerances>();
   tol->setEpsilon(1e-11);
   SPxMainSM<double> sm;
   sm.setOutstream(out);
   sm.setTolerances(tol);
   sm.setMinReduction(c.find("minred") ? c.find("minred")->q(0).get_d() : 1e-4);
   SPxLPBase<double> work;
   work.setOutstream(out);
   work.setTolerances(tol);
   toSPxLP(lp, work);
   SPxSimplifier<double>::Result res;
   try
   {
      res = sm.simplify(work, infinity, c.geti("keepbounds") != 0, (uint32_t) c.geti("seed"));
   }
   catch(const SPxException&)
   {
      return false;
   }
   auto near = [&](const Q & z)
   {
      return qabs(z - c.pl.z) <= Q(1, 1000000) * (1 + qabs(c.pl.z));
   };
   if(res == SPxSimplifier<double>::INFEASIBLE) return cls == CL_INF || cls == CL_INFUNB;
   if(res == SPxSimplifier<double>::UNBOUNDED || res == SPxSimplifier<double>::DUAL_INFEASIBLE) return cls == CL_UNB || cls == CL_INFUNB;
   if(res == SPxSimplifier<double>::VANISHED)
   {
      if(cls != CL_OPT) return false;
      int m = lp.m(), n = lp.n();
      VectorBase<double> x0(0), y0(0), s0(0), r0(0);
      std::vector<VarStatus> rs(m + 1, Solver::BASIC), cs(n + 1, Solver::ON_LOWER);
      try
      {
         sm.unsimplify(x0, y0, s0, r0, rs.data(), cs.data());
      }
      catch(const SPxException&)
      {
         return false;
      }
      return near(lp.objval(toQ(sm.unsimplifiedPrimal())));
   }
   LP red;
   fromSPxLP(work, red);
   if(red.m() > 16 || red.n() > 16) return false;
   Q delta(1, 1000000000);
   for(int j = 0; j < red.n(); j++)
   {
      if(isFin(red.lo[j])) red.lo[j] -= delta * (1 + qabs(red.lo[j]));
      if(isFin(red.up[j])) red.up[j] += delta * (1 + qabs(red.up[j]));
   }
   for(int i = 0; i < red.m(); i++)
   {
      if(isFin(red.lhs[i])) red.lhs[i] -= delta * (1 + qabs(red.lhs[i]));
      if(isFin(red.rhs[i])) red.rhs[i] += delta * (1 + qabs(red.rhs[i]));
   }
   Q zr;
   int rc = z3Classify(red, &zr);
   if(cls == CL_OPT) return rc == CL_OPT && near(zr + qd((double) sm.getObjoffset()) + lp.offset);
   if(cls == CL_INF || cls == CL_INFUNB) return rc == CL_INF;
   if(cls == CL_UNB) return rc == CL_UNB;
   return false;
}

static Verdict runInner(const Case& c)
{
   Verdict v;
   Evidence& e = ev();
   const LP& lp = c.lp;
   int cls = c.pl.cls;
   bool dump = getenv("VF_DUMP") != nullptr;
   SPxOut out;
   out.setVerbosity(SPxOut::ERROR);
   auto tol = std::make_shared<Tolerances>();
   SPxMainSM<double> sm;
   sm.setOutstream(out);
   sm.setTolerances(tol);
   sm.setMinReduction(c.find("minred") ? c.find("minred")->q(0).get_d() : 1e-4);
   SPxLPBase<double> work;
   work.setOutstream(out);
   work.setTolerances(tol);
   toSPxLP(lp, work);
   bool keep = c.geti("keepbounds") != 0;
   SPxSimplifier<double>::Result res;
   try
   {
      res = sm.simplify(work, infinity, keep, (uint32_t) c.geti("seed"));
   }
   catch(const SPxException& x)
   {
      v.fail(std::string("simplify threw: ") + x.what().c_str());
      return v;
   }
   e.count(std::string("result.") + className(cls) + "." + resName(res));
   std::set<std::string> kinds;
   for(auto& nm : SoPlexVerifAccess::histNames(sm)) kinds.insert(nm);
   for(auto& k : kinds) e.count("hist." + k);
   bool dualstats = opts().xi("dualstats", 0) != 0;
   // known finding C08/postsolve-dual-vectors: the dual side (y, r) of a postsolved solution is counted, not judged
   bool skipDual = knownKey("postsolve-dual-vectors");
   // judge the dual side (y, r: linking, signs, gap) of a postsolved solution; primal-side messages are returned as is
   auto dualSide = [](const std::string & m)
   {
      return m.rfind("redcost", 0) == 0 || m.rfind("dual", 0) == 0;
   };
   auto noteDual = [&](bool failed, const std::string& m = std::string())
   {
      if(failed)
      {
         std::string k;
         for(char ch : m) if(!(isdigit((unsigned char) ch) || ch == '.' || ch == '-')) k += ch;
         e.count("dualmsg." + k.substr(0, 50));
         if(getenv("VF_SAVEDUAL")) writeFile(std::string(getenv("VF_SAVEDUAL")) + "/d" + std::to_string(fnv(caseText(c)) % 100000) + ".case", caseText(c));
      }
      for(auto& k : kinds) e.count(std::string(failed ? "dualfail.kind." : "dualok.kind.") + k);
      e.count(failed ? "dualfail" : "dualok");
   };
   int removed = (lp.m() - work.nRows()) + (lp.n() - work.nCols());
   if(res == SPxSimplifier<double>::VANISHED) removed = lp.m() + lp.n();
   v.nontrivial = removed >= 2 && lp.m() >= 2 && lp.n() >= 2;
   Tol t = Tol::real();
   if(dump) fprintf(stderr, "simplify -> %s, reduced %d x %d, objoffset %.15g\n", resName(res), work.nRows(), work.nCols(), (double) sm.getObjoffset());

   if(res == SPxSimplifier<double>::INFEASIBLE)
   {
      if(cls == CL_OPT || cls == CL_UNB)
      {
         int zm = z3HasZeroMarginCertificate(lp);
         if(zm != 0)
         {
            e.count("unjudged.illposed_feasibility");
            return v;
         }
         v.fail("presolve verdict INFEASIBLE for an LP with a feasible point");
      }
      return v;
   }
   if(res == SPxSimplifier<double>::UNBOUNDED || res == SPxSimplifier<double>::DUAL_INFEASIBLE)
   {
      if(cls == CL_OPT || cls == CL_INF)
      {
         // CL_INF LPs are planted dual feasible (an optimal LP plus a contradicting row), so 'dual infeasible' is false too
         int ray = z3HasNonWorseningRay(lp);
         if(ray != 0)
         {
            e.count("unjudged.illposed_boundedness");
            return v;
         }
         v.fail(std::string("presolve verdict ") + resName(res) + " for an LP that is dual feasible (planted " + className(cls) + ")");
      }
      return v;
   }
   int m = lp.m(), n = lp.n();
   if(res == SPxSimplifier<double>::VANISHED)
   {
      if(cls != CL_OPT)
      {
         if(knownKey("aggregation-cancellation-residue"))
         {
            VectorBase<double> x0(0), y0(0), s0(0), r0(0);
            std::vector<VarStatus> rs(m + 1, Solver::BASIC), cs(n + 1, Solver::ON_LOWER);
            bool blow = false;
            try
            {
               sm.unsimplify(x0, y0, s0, r0, rs.data(), cs.data());
               Q box = Q(1000000000) * dataMagnitude(lp);
               for(auto& xq : toQ(sm.unsimplifiedPrimal())) if(qabs(xq) > box) blow = true;
            }
            catch(const SPxException&)
            {
            }
            if(blow)
            {
               e.count("excluded_known.aggregation-cancellation-residue");
               return v;
            }
         }
         v.fail(std::string("presolve solved the LP outright (VANISHED) but it has no finite optimum (planted ") + className(cls) + ")");
         return v;
      }
      VectorBase<double> x0(0), y0(0), s0(0), r0(0);
      std::vector<VarStatus> rs(m + 1, Solver::BASIC), cs(n + 1, Solver::ON_LOWER);
      try
      {
         sm.unsimplify(x0, y0, s0, r0, rs.data(), cs.data());
      }
      catch(const SPxException& x)
      {
         e.count("postsolve_refused");
         return v;
      }
      std::vector<Q> X = toQ(sm.unsimplifiedPrimal()), S = toQ(sm.unsimplifiedSlacks()), Y = toQ(sm.unsimplifiedDual()), Dv = toQ(sm.unsimplifiedRedCost());
      Q obj = lp.objval(X);
      std::string msg = checkOptimalCert(lp, X, S, Y, Dv, obj, t, &c.pl);
      if(dualstats) noteDual(!msg.empty() && dualSide(msg), msg);
      if(!msg.empty() && skipDual && dualSide(msg))
      {
         e.count("excluded_known.postsolve-dual-vectors");
         msg.clear();
      }
      if(!msg.empty() && !(dualstats && dualSide(msg)))
      {
         v.fail("postsolve after VANISHED: " + msg);
         return v;
      }
      std::vector<VarStatus> br(m), bc(n);
      sm.getBasis(br.data(), bc.data(), m, n);
      std::string b = basisCheck(lp, br.data(), bc.data());
      if(!b.empty()) v.fail("basis after VANISHED: " + b);
      e.count("postsolved_solutions");
      return v;
   }
   // OKAY: reduced LP
   LP red;
   fromSPxLP(work, red);
   Q objoff = qd((double) sm.getObjoffset());
   if(dump) fprintf(stderr, "%s", lpText(red).c_str());
   if(red.m() <= 16 && red.n() <= 16)
   {
      // the reduced LP carries rounding errors of the presolve arithmetic; exact reasoning about it is only
      // meaningful after relaxing every bound and side outward by 1e-9 (1 + |value|): a point that is feasible up to
      // rounding stays feasible, while an over- or under-constrained reduction still moves the optimum by O(1)
      // (the exact optimum of the ROUNDED reduced LP is not meaningful either: nearly parallel rows that differ by 1e-15
      // cut the feasible set down to a face; so the relaxed LP is always used and the objective tolerance is widened by the
      // measured sensitivity of the optimum to the relaxation, 3 |z(delta) - z(2 delta)|)
      auto relax = [&](const Q & delta)
      {
         LP rel = red;
         for(int j = 0; j < rel.n(); j++)
         {
            if(isFin(rel.lo[j])) rel.lo[j] -= delta * (1 + qabs(rel.lo[j]));
            if(isFin(rel.up[j])) rel.up[j] += delta * (1 + qabs(rel.up[j]));
         }
         for(int i = 0; i < rel.m(); i++)
         {
            if(isFin(rel.lhs[i])) rel.lhs[i] -= delta * (1 + qabs(rel.lhs[i]));
            if(isFin(rel.rhs[i])) rel.rhs[i] += delta * (1 + qabs(rel.rhs[i]));
         }
         return rel;
      };
      Q zr, sens = 0;
      Q delta(1, 1000000000);
      int rc = z3Classify(relax(delta), &zr);
      if(rc == CL_OPT)
      {
         Q z2;
         if(z3Classify(relax(2 * delta), &z2) == CL_OPT) sens = 3 * qabs(zr - z2);
      }
      // signature of known finding C08/aggregation-cancellation-residue: the discrepancy exists only at blow-up scale, i.e.
      // the relaxed reduced LP restricted to the box |x_j| <= 1e9 x (largest datum) agrees with the original LP
      auto blowupOnly = [&]()
      {
         LP b = relax(delta);
         Q box = Q(1000000000) * dataMagnitude(lp);
         for(int j = 0; j < b.n(); j++)
         {
            if(b.lo[j] < -box) b.lo[j] = -box;
            if(b.up[j] > box) b.up[j] = box;
         }
         Q zb;
         int rb = z3Classify(b, &zb);
         if(cls == CL_INF || cls == CL_INFUNB) return rb == CL_INF;
         if(cls == CL_OPT) return rb == CL_OPT && qabs(zb + objoff + lp.offset - c.pl.z) <= Q(1, 1000000) * (1 + qabs(c.pl.z)) + sens;
         return false;
      };
      e.count(std::string("reduced_class.") + className(rc));
      if(rc != CL_UNKNOWN)
      {
         bool illB = false, illF = false;
         auto bad = [&](const std::string & what)
         {
            if(knownKey("aggregation-cancellation-residue") && blowupOnly())
            {
               e.count("excluded_known.aggregation-cancellation-residue");
               return;
            }
            if(knownKey("aggregation-cancellation-residue") && residueOnly(c))
            {
               e.count("excluded_known.aggregation-cancellation-residue.gone_with_epsilon_1e-11");
               return;
            }
            v.fail("reduced LP " + what + " but the original LP is planted " + className(cls));
         };
         if(cls == CL_OPT)
         {
            if(rc == CL_INF)
            {
               illF = z3HasZeroMarginCertificate(lp) != 0;
               if(!illF) bad("is infeasible");
            }
            else if(rc == CL_UNB)
            {
               illB = z3HasNonWorseningRay(lp) != 0;
               if(!illB) bad("is unbounded");
            }
            else
            {
               Q diff = qabs(zr + objoff + lp.offset - c.pl.z);
               if(diff > Q(1, 1000000) * (1 + qabs(c.pl.z)) + sens && z3HasNonWorseningRay(lp) != 0)
               {
                  // the original LP has a recession direction of exactly zero cost: rounding an aggregated coefficient by 1e-16
                  // turns it into a (slightly) improving or worsening direction and the optimum of the rounded reduced LP moves
                  // by O(1) at |x| ~ 1e16; ill-posed in the same sense as an UNBOUNDED verdict on such an LP: counted
                  illB = true;
               }
               else if(diff > Q(1, 1000000) * (1 + qabs(c.pl.z)) + sens)
               {
                  // objective of the reduced problem may legitimately move only by rounding
                  bad("has optimum " + fmtd(zr + objoff + lp.offset) + " (expected " + fmtd(c.pl.z) + ")");
               }
            }
         }
         else if(cls == CL_INF || cls == CL_INFUNB)
         {
            if(rc == CL_OPT || (rc == CL_UNB && cls == CL_INF)) bad(std::string("is ") + className(rc));
         }
         else if(cls == CL_UNB)
         {
            if(rc == CL_OPT) bad("has a finite optimum");
            if(rc == CL_INF && z3HasZeroMarginCertificate(lp) == 0) bad("is infeasible");
         }
         if(illB || illF) e.count("unjudged.illposed");
         if(!v.ok) return v;
      }
   }
   if(cls != CL_OPT) return v;
   // postsolve: several optimal basic solutions of the reduced LP
   static const int cfgs[][3] = {{1, 1, 0}, {1, 0, 1}, {2, 1, 5}, {2, 0, 3}};   // representation, algorithm, pricer
   int nv = (int) opts().xi("vertices", 3);
   for(int k = 0; k < nv && k < 4; k++)
   {
      SoPlex sp;
      quiet(sp);
      sp.setIntParam(SoPlex::SIMPLIFIER, SoPlex::SIMPLIFIER_OFF);
      sp.setIntParam(SoPlex::SCALER, SoPlex::SCALER_OFF);
      sp.setIntParam(SoPlex::REPRESENTATION, cfgs[k][0]);
      sp.setIntParam(SoPlex::ALGORITHM, cfgs[k][1]);
      sp.setIntParam(SoPlex::PRICER, cfgs[k][2]);
      sp.setIntParam(SoPlex::ITERLIMIT, 20000);
      sp.setRandomSeed((unsigned)(c.geti("seed") + k));
      loadReal(sp, red, k & 1);
      if(sp.optimize() != Solver::OPTIMAL)
      {
         e.count(std::string("reduced_solve.") + statusName(sp.status()));
         continue;
      }
      int rm = red.m(), rn = red.n();
      VectorBase<double> x(rn), y(rm), s(rm), r(rn);
      sp.getPrimal(x);
      sp.getDual(y);
      sp.getSlacksReal(s);
      sp.getRedCost(r);
      // the reduced solve itself must be right before it is fed to postsolve (else it cannot be blamed on postsolve)
      {
         std::string pre = checkOptimalCert(red, toQ(x), toQ(s), toQ(y), toQ(r), Q(sp.objValueReal()), t, nullptr);
         if(!pre.empty())
         {
            e.count("reduced_solve.rejected_by_cert");
            continue;
         }
      }
      std::vector<VarStatus> rs(std::max(m, rm) + 1), cs(std::max(n, rn) + 1);
      sp.getBasis(rs.data(), cs.data());
      SPxMainSM<double> sm2(sm);
      sm2.setOutstream(out);
      sm2.setTolerances(tol);   // the copy constructor does not copy the tolerances pointer (SoPlexBase re-sets it as well)
      try
      {
         sm2.unsimplify(x, y, s, r, rs.data(), cs.data(), true);
      }
      catch(const SPxException& ex)
      {
         e.count("postsolve_refused");
         continue;
      }
      std::vector<Q> X = toQ(sm2.unsimplifiedPrimal()), S = toQ(sm2.unsimplifiedSlacks()), Y = toQ(sm2.unsimplifiedDual()), Dv = toQ(sm2.unsimplifiedRedCost());
      if((int) X.size() != n || (int) S.size() != m || (int) Y.size() != m || (int) Dv.size() != n)
      {
         v.fail("postsolved vectors have wrong dimension");
         return v;
      }
      Q obj = lp.objval(X);
      std::string msg = checkOptimalCert(lp, X, S, Y, Dv, obj, t, &c.pl);
      if(dualstats) noteDual(!msg.empty() && dualSide(msg), msg);
      if(!msg.empty() && skipDual && dualSide(msg))
      {
         e.count("excluded_known.postsolve-dual-vectors");
         msg.clear();
      }
      if(!msg.empty() && !(dualstats && dualSide(msg)))
      {
         v.fail("postsolve (vertex " + std::to_string(k) + "): " + msg);
         return v;
      }
      std::vector<VarStatus> br(m), bc(n);
      sm2.getBasis(br.data(), bc.data(), m, n);
      std::string b = basisCheck(lp, br.data(), bc.data());
      // known finding postsolve-basis-count: in about 1 of 40000 presolve-rich LPs the postsolved basis has m + 1 basic
      // variables (seen after a row singleton whose sides differ by rounding residues, and after a doubleton aggregation
      // next to a duplicate row); present on the unfixed tree as well. Signature: exactly this basis-count message
      if(!b.empty() && b.find("basic variables for") != std::string::npos && knownKey("postsolve-basis-count"))
      {
         e.count("excluded_known.postsolve-basis-count");
         continue;
      }
      if(!b.empty())
      {
         v.fail("postsolved basis (vertex " + std::to_string(k) + "): " + b);
         return v;
      }
      e.count("postsolved_solutions");
   }
   return v;
}

static Verdict run(const Case& c)
{
   Verdict v = runInner(c);
   if(!v.ok && opts().xi("dualstats", 0) != 0)
   {
      // statistics mode (not used by ./check): count failures by class instead of stopping
      std::string k;
      for(char ch : v.msg) if(!(isdigit((unsigned char) ch) || ch == '.' || ch == '-')) k += ch;
      ev().count("statfail." + k.substr(0, 60));
      Verdict ok;
      ok.nontrivial = v.nontrivial;
      return ok;
   }
   return v;
}

int main(int argc, char** argv)
{
   return vfMain(argc, argv, "C08", gen, run);
}
