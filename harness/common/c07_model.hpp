// c07_model.hpp - helpers of the C07 harness: exact value plumbing, the two reference LPs, readers of the SoPlex state
// through public getters only, GMP array wrappers.
#pragma once
#include "spx.hpp"
#include <cmath>
#include <cstdlib>

namespace c07
{
using namespace vf;
using soplex::SoPlex;
using soplex::Rational;

typedef std::vector<std::pair<int, Q>> Ent;

// verbatim text of a rational: "inf"/"-inf" only for exactly +-1e100 (the double), everything else digit by digit
inline std::string qs(const Q& q)
{
   if(q == QINF()) return "inf";
   if(q == -QINF()) return "-inf";
   return q.get_str();
}
inline Q qpow10(int e)
{
   mpz_class z;
   mpz_ui_pow_ui(z.get_mpz_t(), 10, (unsigned long) std::abs(e));
   return e >= 0 ? Q(z) : Q(mpz_class(1), z);
}
// the two doubles bracketing a finite rational (lo <= q <= hi, adjacent or equal); subnormals included
inline void bracket(const Q& q, double& lo, double& hi)
{
   double t = q.get_d();      // GMP truncates; verified and repaired below, so only "close" is relied upon
   if(!std::isfinite(t)) t = q > 0 ? 1.7976931348623157e308 : -1.7976931348623157e308;
   lo = t;
   while(Q(lo) > q) lo = std::nextafter(lo, -INFINITY);
   while(true)
   {
      double nx = std::nextafter(lo, INFINITY);
      if(std::isfinite(nx) && Q(nx) <= q) lo = nx;
      else break;
   }
   hi = (Q(lo) == q) ? lo : std::nextafter(lo, INFINITY);
}
inline double floorD(const Q& q)
{
   double lo, hi;
   bracket(q, lo, hi);
   return lo;
}
inline double ceilD(const Q& q)
{
   double lo, hi;
   bracket(q, lo, hi);
   return hi;
}
// the double a client passes for a drawn value (truncation of the rational text; exact for dyadic values)
inline double toD(const Q& q)
{
   if(q == QINF()) return 1e100;
   if(q == -QINF()) return -1e100;
   double lo, hi;
   bracket(q, lo, hi);
   return q >= 0 ? lo : hi;
}
// exact comparison of a stored double with a model value that IS a double (infinite model value: any d beyond 1e100)
inline bool eqd(double d, const Q& q)
{
   if(std::isnan(d)) return false;
   if(isPInf(q)) return d >= 1e100;
   if(isNInf(q)) return d <= -1e100;
   if(!std::isfinite(d)) return false;
   return Q(d) == q;
}
// 0 = not an image; 1 = exact; 2 = rounded down; 3 = rounded up; 4 = infinite
// Accepted rounding: Rational -> double in SoPlex is R(Rational) = boost convert_to<double> (round to nearest) on all paths but
// changeElementRational(mpq_t) (mpq_get_d, truncation); both neighbours of q are accepted, nothing else.
inline int imageKind(double d, const Q& q)
{
   if(std::isnan(d)) return 0;
   if(isPInf(q)) return d >= 1e100 ? 4 : 0;
   if(isNInf(q)) return d <= -1e100 ? 4 : 0;
   if(!std::isfinite(d)) return 0;
   double lo, hi;
   bracket(q, lo, hi);
   if(lo == hi) return d == lo ? 1 : 0;
   if(d == lo) return 2;
   if(d == hi) return 3;
   return 0;
}

// ------------------------------------------------------------------ model mutators (on either reference LP)
inline void mAddRow(LP& lp, const Q& l, const Q& r, const Ent& ent)
{
   int mx = -1;
   for(auto& x : ent) mx = std::max(mx, x.first);
   while(lp.n() <= mx) lp.addCol(Q(0), QINF(), Q(0));   // documented: missing columns are created (default LPCol: [0,inf), obj 0)
   lp.addRow(l, r);
   for(auto& x : ent) lp.A[lp.m() - 1][x.first] = x.second;
}
inline void mAddCol(LP& lp, const Q& ob, const Q& l, const Q& u, const Ent& ent)
{
   int mx = -1;
   for(auto& x : ent) mx = std::max(mx, x.first);
   while(lp.m() <= mx) lp.addRow(Q(0), QINF());        // default LPRow: 0 <= a.x < inf
   lp.addCol(l, u, ob);
   for(auto& x : ent) lp.A[x.first][lp.n() - 1] = x.second;
}
inline void mClear(LP& lp)
{
   lp.lo.clear();
   lp.up.clear();
   lp.obj.clear();
   lp.lhs.clear();
   lp.rhs.clear();
   lp.A.clear();
}
// FREE 0, LOWER 1, UPPER 2, BOXED 3, FIXED 4  (soplex.h RangeType; definition: SoPlexBase::_rangeTypeRational)
inline int classify(const Q& l, const Q& u)
{
   bool li = l <= -QINF(), ui = u >= QINF();
   if(li) return ui ? 0 : 2;
   if(ui) return 1;
   return l == u ? 4 : 3;
}

// ------------------------------------------------------------------ GMP arrays as a C client would pass them
struct MpqArr
{
   mpq_t* p;
   int n;
   explicit MpqArr(const std::vector<Q>& v) : n((int) v.size())
   {
      p = (mpq_t*) malloc(sizeof(mpq_t) * (size_t) std::max(1, n));
      for(int i = 0; i < std::max(1, n); i++) mpq_init(p[i]);
      for(int i = 0; i < n; i++) mpq_set(p[i], v[i].get_mpq_t());
   }
   explicit MpqArr(const Q& q) : MpqArr(std::vector<Q>(1, q)) {}
   ~MpqArr()
   {
      for(int i = 0; i < std::max(1, n); i++) mpq_clear(p[i]);
      free(p);
   }
   MpqArr(const MpqArr&) = delete;
   MpqArr& operator=(const MpqArr&) = delete;
   const mpq_t* get() const
   {
      return p;
   }
};

// ------------------------------------------------------------------ the SoPlex state through public getters
struct RealLP
{
   int m = 0, n = 0;
   std::vector<double> lhs, rhs, lo, up, obj;
   std::vector<std::vector<double>> A;
};
inline void readReal(SoPlex& sp, RealLP& r)
{
   r.m = sp.numRows();
   r.n = sp.numCols();
   r.lhs.resize(r.m);
   r.rhs.resize(r.m);
   r.lo.resize(r.n);
   r.up.resize(r.n);
   r.obj.resize(r.n);
   r.A.assign(r.m, std::vector<double>(r.n, 0.0));
   for(int i = 0; i < r.m; i++)
   {
      r.lhs[i] = sp.lhsReal(i);
      r.rhs[i] = sp.rhsReal(i);
      for(int j = 0; j < r.n; j++) r.A[i][j] = sp.coefReal(i, j);
   }
   for(int j = 0; j < r.n; j++)
   {
      r.lo[j] = sp.lowerReal(j);
      r.up[j] = sp.upperReal(j);
      r.obj[j] = sp.objReal(j);
   }
}
// rational LP through numRowsRational/numColsRational/lhsRational/rhsRational/lowerRational/upperRational/objRational/
// maxObjRational/rowVectorRational/colVectorRational; returns "" or a description of an internal inconsistency
inline std::string readRat(SoPlex& sp, LP& out, int sense, long* explicitZeros)
{
   int m = sp.numRowsRational(), n = sp.numColsRational();
   out.resize(m, n);
   for(int i = 0; i < m; i++)
   {
      out.lhs[i] = qr(sp.lhsRational(i));
      out.rhs[i] = qr(sp.rhsRational(i));
      const soplex::SVectorRational& r = sp.rowVectorRational(i);
      std::vector<char> seen(n, 0);
      for(int k = 0; k < r.size(); k++)
      {
         int j = r.index(k);
         if(j < 0 || j >= n) return "rowVectorRational(" + std::to_string(i) + ") holds a column index outside 0..numColsRational-1";
         if(seen[j]) return "rowVectorRational(" + std::to_string(i) + ") holds a column index twice";
         seen[j] = 1;
         out.A[i][j] = qr(r.value(k));
         if(out.A[i][j] == 0 && explicitZeros)(*explicitZeros)++;
      }
   }
   for(int j = 0; j < n; j++)
   {
      out.lo[j] = qr(sp.lowerRational(j));
      out.up[j] = qr(sp.upperRational(j));
      out.obj[j] = qr(sp.objRational(j));
      if(qr(sp.maxObjRational(j)) != Q(sense * out.obj[j]))
         return "maxObjRational(" + std::to_string(j) + ") is not objRational times the sense (+1 max, -1 min)";
      const soplex::SVectorRational& cvec = sp.colVectorRational(j);
      std::vector<Q> col(m, Q(0));
      std::vector<char> seen(m, 0);
      for(int k = 0; k < cvec.size(); k++)
      {
         int i = cvec.index(k);
         if(i < 0 || i >= m) return "colVectorRational(" + std::to_string(j) + ") holds a row index outside 0..numRowsRational-1";
         if(seen[i]) return "colVectorRational(" + std::to_string(j) + ") holds a row index twice";
         seen[i] = 1;
         col[i] = qr(cvec.value(k));
      }
      for(int i = 0; i < m; i++)
         if(col[i] != out.A[i][j])
            return "colVectorRational(" + std::to_string(j) + ") and rowVectorRational(" + std::to_string(i) + ") disagree on the coefficient";
   }
   return "";
}
inline std::string brief(const Q& q)
{
   std::string s = qs(q);
   if(s.size() > 40) s = s.substr(0, 18) + "..(" + std::to_string(s.size()) + " chars)";
   return s;
}
} // namespace c07
