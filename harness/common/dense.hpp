// dense.hpp - reference linear algebra: exact Gaussian elimination over Q (rank, solve) for small matrices.
#pragma once
#include "vf.hpp"

namespace vf
{
// rank of the matrix whose columns (or rows - rank is the same) are given
inline int exactRank(std::vector<std::vector<Q>> a)
{
   int rows = (int) a.size();
   if(rows == 0) return 0;
   int cols = (int) a[0].size();
   int rank = 0;
   for(int c = 0; c < cols && rank < rows; c++)
   {
      int p = -1;
      for(int r = rank; r < rows; r++) if(a[r][c] != 0)
         {
            p = r;
            break;
         }
      if(p < 0) continue;
      std::swap(a[p], a[rank]);
      for(int r = rank + 1; r < rows; r++)
      {
         if(a[r][c] == 0) continue;
         Q f = a[r][c] / a[rank][c];
         for(int k = c; k < cols; k++) if(a[rank][k] != 0) a[r][k] -= f * a[rank][k];
      }
      rank++;
   }
   return rank;
}
// solves M x = b exactly for a square matrix given by rows; returns false if singular
inline bool exactSolve(std::vector<std::vector<Q>> M, std::vector<Q> b, std::vector<Q>& x)
{
   int n = (int) M.size();
   for(int c = 0; c < n; c++)
   {
      int p = -1;
      for(int r = c; r < n; r++) if(M[r][c] != 0)
         {
            p = r;
            break;
         }
      if(p < 0) return false;
      std::swap(M[p], M[c]);
      std::swap(b[p], b[c]);
      for(int r = 0; r < n; r++)
      {
         if(r == c || M[r][c] == 0) continue;
         Q f = M[r][c] / M[c][c];
         for(int k = c; k < n; k++) if(M[c][k] != 0) M[r][k] -= f * M[c][k];
         b[r] -= f * b[c];
      }
   }
   x.assign(n, Q(0));
   for(int i = 0; i < n; i++) x[i] = b[i] / M[i][i];
   return true;
}
} // namespace vf
