// spx.hpp - glue between the reference model (vf::LP) and the SoPlex C++ API.
#pragma once
#include "soplex.h"
#include "vf.hpp"
#include <string>
#include <vector>

// read-only observer, befriended by SoPlexBase and SPxMainSM under -DSOPLEX_VERIF (hooks H1/H2). Never writes.
struct SoPlexVerifAccess
{
   template <class R>
   static std::vector<std::string> histNames(const soplex::SPxMainSM<R>& sm)
   {
      std::vector<std::string> v;
      for(int k = 0; k < sm.m_hist.size(); k++) v.push_back(sm.m_hist[k]->getName());
      return v;
   }
   template <class R> static int rowRangeType(const soplex::SoPlexBase<R>& sp, int i)
   {
      return (int) sp._rowTypes[i];
   }
   template <class R> static int colRangeType(const soplex::SoPlexBase<R>& sp, int j)
   {
      return (int) sp._colTypes[j];
   }
   template <class R> static int numRangeTypesRows(const soplex::SoPlexBase<R>& sp)
   {
      return sp._rowTypes.size();
   }
   template <class R> static int numRangeTypesCols(const soplex::SoPlexBase<R>& sp)
   {
      return sp._colTypes.size();
   }
   template <class R> static bool isRealLPLoaded(const soplex::SoPlexBase<R>& sp)
   {
      return sp._isRealLPLoaded;
   }
   template <class R> static bool isRealLPScaled(const soplex::SoPlexBase<R>& sp)
   {
      return sp._isRealLPScaled;
   }
   template <class R> static bool hasRationalLP(const soplex::SoPlexBase<R>& sp)
   {
      return sp._rationalLP != nullptr;
   }
   // algorithm type (ENTER / LEAVE) the floating-point solver is currently set to
   template <class R> static int solverType(const soplex::SoPlexBase<R>& sp)
   {
      return (int) sp._solver.type();
   }
   // column j of the LP as the solver object holds it (scaled values when isRealLPScaled)
   template <class R> static std::vector<std::pair<int, R>> internalColVector(const soplex::SoPlexBase<R>& sp, int j)
   {
      std::vector<std::pair<int, R>> v;
      const soplex::SVectorBase<R>& c = sp._realLP->colVector(j);
      for(int k = 0; k < c.size(); k++) v.push_back({c.index(k), c.value(k)});
      return v;
   }
};

#ifndef VF_NO_EXTERN_TEMPLATE
namespace soplex
{
extern template class SoPlexBase<double>;   // instantiated once in harness/inst.cpp
}
#endif

namespace vf
{
using soplex::SoPlex;
typedef soplex::SPxSolverBase<double> Solver;
typedef Solver::Status Status;
typedef Solver::VarStatus VarStatus;

inline Q qr(const soplex::Rational& r)
{
   return Q(mpq_class(r.backend().data()));
}
inline soplex::Rational rq(const Q& q)
{
   soplex::Rational r;
   mpq_set(r.backend().data(), q.get_mpq_t());
   return r;
}
inline const char* statusName(int s)
{
   switch(s)
   {
   case Solver::ERROR: return "ERROR";
   case Solver::NO_RATIOTESTER: return "NO_RATIOTESTER";
   case Solver::NO_PRICER: return "NO_PRICER";
   case Solver::NO_SOLVER: return "NO_SOLVER";
   case Solver::NOT_INIT: return "NOT_INIT";
   case Solver::ABORT_CYCLING: return "ABORT_CYCLING";
   case Solver::ABORT_TIME: return "ABORT_TIME";
   case Solver::ABORT_ITER: return "ABORT_ITER";
   case Solver::ABORT_VALUE: return "ABORT_VALUE";
   case Solver::SINGULAR: return "SINGULAR";
   case Solver::NO_PROBLEM: return "NO_PROBLEM";
   case Solver::REGULAR: return "REGULAR";
   case Solver::RUNNING: return "RUNNING";
   case Solver::UNKNOWN: return "UNKNOWN";
   case Solver::OPTIMAL: return "OPTIMAL";
   case Solver::UNBOUNDED: return "UNBOUNDED";
   case Solver::INFEASIBLE: return "INFEASIBLE";
   case Solver::INForUNBD: return "INForUNBD";
   case Solver::OPTIMAL_UNSCALED_VIOLATIONS: return "OPTIMAL_UNSCALED_VIOLATIONS";
   }
   return "?";
}

// double image of an exact number: exact if representable; infinities -> +-1e100 (SoPlex's infinity)
inline double D(const Q& q)
{
   return dq(q);
}

// ----- building the LP inside SoPlex through the real interface
// how: 0 rows first (columns created implicitly via addColsReal of empty cols then rows), 1 columns first
inline void loadReal(SoPlex& sp, const LP& lp, int how = 0)
{
   using namespace soplex;
   sp.setIntParam(SoPlex::OBJSENSE, lp.sense == 1 ? SoPlex::OBJSENSE_MAXIMIZE : SoPlex::OBJSENSE_MINIMIZE);
   sp.setRealParam(SoPlex::OBJ_OFFSET, D(lp.offset));
   int m = lp.m(), n = lp.n();
   if(how == 0)
   {
      LPColSetReal cs;
      DSVectorReal empty(0);
      for(int j = 0; j < n; j++) cs.add(D(lp.obj[j]), D(lp.lo[j]), empty, D(lp.up[j]));
      sp.addColsReal(cs);
      for(int i = 0; i < m; i++)
      {
         DSVectorReal v(n);
         for(int j = 0; j < n; j++) if(lp.A[i][j] != 0) v.add(j, D(lp.A[i][j]));
         sp.addRowReal(LPRowReal(D(lp.lhs[i]), v, D(lp.rhs[i])));
      }
   }
   else
   {
      LPRowSetReal rs;
      DSVectorReal empty(0);
      for(int i = 0; i < m; i++) rs.add(D(lp.lhs[i]), empty, D(lp.rhs[i]));
      sp.addRowsReal(rs);
      for(int j = 0; j < n; j++)
      {
         DSVectorReal v(m);
         for(int i = 0; i < m; i++) if(lp.A[i][j] != 0) v.add(i, D(lp.A[i][j]));
         sp.addColReal(LPColReal(D(lp.obj[j]), v, D(lp.up[j]), D(lp.lo[j])));
      }
   }
}

// ----- building the LP through the rational interface (exact data)
inline void loadRational(SoPlex& sp, const LP& lp, int how = 0)
{
   using namespace soplex;
   sp.setIntParam(SoPlex::OBJSENSE, lp.sense == 1 ? SoPlex::OBJSENSE_MAXIMIZE : SoPlex::OBJSENSE_MINIMIZE);
   int m = lp.m(), n = lp.n();
   if(how == 0)
   {
      for(int j = 0; j < n; j++)
      {
         DSVectorRational empty(0);
         sp.addColRational(LPColRational(rq(lp.obj[j]), empty, rq(lp.up[j]), rq(lp.lo[j])));
      }
      for(int i = 0; i < m; i++)
      {
         DSVectorRational v(n);
         for(int j = 0; j < n; j++) if(lp.A[i][j] != 0) v.add(j, rq(lp.A[i][j]));
         sp.addRowRational(LPRowRational(rq(lp.lhs[i]), v, rq(lp.rhs[i])));
      }
   }
   else
   {
      for(int i = 0; i < m; i++)
      {
         DSVectorRational empty(0);
         sp.addRowRational(LPRowRational(rq(lp.lhs[i]), empty, rq(lp.rhs[i])));
      }
      for(int j = 0; j < n; j++)
      {
         DSVectorRational v(m);
         for(int i = 0; i < m; i++) if(lp.A[i][j] != 0) v.add(i, rq(lp.A[i][j]));
         sp.addColRational(LPColRational(rq(lp.obj[j]), v, rq(lp.up[j]), rq(lp.lo[j])));
      }
   }
}

// ----- parameter records:  rec int <id> <v> | rec bool <id> <0/1> | rec real <id> <q> | rec seed <v>
inline bool applyParams(SoPlex& sp, const Case& c, std::string* err = nullptr)
{
   bool ok = true;
   for(auto& r : c.recs)
   {
      bool res = true;
      if(r.tag == "int") res = sp.setIntParam((SoPlex::IntParam) r.i(0), (int) r.i(1));
      else if(r.tag == "bool") res = sp.setBoolParam((SoPlex::BoolParam) r.i(0), r.i(1) != 0);
      else if(r.tag == "real") res = sp.setRealParam((SoPlex::RealParam) r.i(0), r.q(1).get_d());
      else if(r.tag == "seed") sp.setRandomSeed((unsigned) r.i(0));
      if(!res)
      {
         ok = false;
         if(err) *err = "parameter rejected: " + r.tag + " " + r.s(0) + " " + r.s(1);
      }
   }
   return ok;
}

// ----- G-cfg: algorithmic parameter combinations (float solve)
struct CfgDom
{
   int id;
   std::vector<int> vals;   // first value = default
};
inline const std::vector<CfgDom>& intDomain()
{
   static std::vector<CfgDom> d =
   {
      {SoPlex::REPRESENTATION, {0, 1, 2}},
      {SoPlex::ALGORITHM, {1, 0}},
      {SoPlex::FACTOR_UPDATE_TYPE, {1, 0}},
      {SoPlex::FACTOR_UPDATE_MAX, {0, 1, 5, 20}},
      {SoPlex::SIMPLIFIER, {1, 0, 3}},
      {SoPlex::SCALER, {2, 0, 1, 3, 4, 5, 6}},
      {SoPlex::STARTER, {0, 1, 2, 3}},
      {SoPlex::PRICER, {0, 1, 2, 3, 4, 5}},
      {SoPlex::RATIOTESTER, {3, 0, 1, 2}},
      {SoPlex::SOLUTION_POLISHING, {0, 1, 2}},
      {SoPlex::HYPER_PRICING, {1, 0, 2}},
   };
   return d;
}
inline const std::vector<int>& boolDomain()
{
   static std::vector<int> d = {SoPlex::PERSISTENTSCALING, SoPlex::FULLPERTURBATION, SoPlex::ROWBOUNDFLIPS, SoPlex::ENSURERAY};
   return d;
}
// mixture: 35% defaults with 1-3 deviations, 65% independent uniform (every pair of values has
// probability >= 1/49 per case, so all pairs occur within a few hundred cases)
inline void genCfg(Case& c, bool withSeed = true)
{
   auto& idom = intDomain();
   auto& bdom = boolDomain();
   int mode = W({35, 65});
   if(mode == 0)
   {
      int k = R(1, 3);
      for(int t = 0; t < k; t++)
      {
         int w = R(0, (int)(idom.size() + bdom.size()) - 1);
         if(w < (int) idom.size())
         {
            auto& d = idom[w];
            c.recs.push_back(Rec("int").add(d.id).add(d.vals[R(0, (int) d.vals.size() - 1)]));
         }
         else c.recs.push_back(Rec("bool").add(bdom[w - idom.size()]).add(R(0, 1)));
      }
   }
   else
   {
      for(auto& d : idom) c.recs.push_back(Rec("int").add(d.id).add(d.vals[R(0, (int) d.vals.size() - 1)]));
      for(int b : bdom) c.recs.push_back(Rec("bool").add(b).add(R(0, 1)));
   }
   if(withSeed && P(30)) c.recs.push_back(Rec("seed").add(R(0, 1000)));
}
inline void countCfg(const Case& c)
{
   for(auto& r : c.recs)
      if(r.tag == "int" || r.tag == "bool") ev().count("cfg." + r.tag + r.s(0) + "=" + r.s(1));
}

// ----- solution snapshot (floating point getters, converted to exact numbers)
struct RealSol
{
   int status = 0;
   bool hasPrimal = false, hasDual = false, okP = false, okS = false, okY = false, okD = false;
   std::vector<Q> x, s, y, d;
   std::vector<double> xd, sd, yd, dd;
   Q obj;
   double objd = 0;
   bool hasRay = false, okRay = false, hasFarkas = false, okFarkas = false;
   std::vector<Q> ray, fark;
};
inline std::vector<Q> toQ(const soplex::VectorReal& v)
{
   std::vector<Q> r(v.dim());
   for(int i = 0; i < v.dim(); i++) r[i] = std::isfinite(v[i]) ? Q(v[i]) : Q(0);
   return r;
}
inline std::vector<double> toD(const soplex::VectorReal& v)
{
   std::vector<double> r(v.dim());
   for(int i = 0; i < v.dim(); i++) r[i] = v[i];
   return r;
}
inline bool allFinite(const std::vector<double>& v)
{
   for(double d : v) if(!std::isfinite(d)) return false;
   return true;
}
inline RealSol snapshotReal(SoPlex& sp)
{
   using namespace soplex;
   RealSol r;
   r.status = sp.status();
   int m = sp.numRows(), n = sp.numCols();
   r.hasPrimal = sp.hasPrimal();
   r.hasDual = sp.hasDual();
   VectorReal x(n), s(m), y(m), d(n);
   if(r.hasPrimal)
   {
      r.okP = sp.getPrimal(x);
      r.okS = sp.getSlacksReal(s);
      r.x = toQ(x);
      r.s = toQ(s);
      r.xd = toD(x);
      r.sd = toD(s);
   }
   if(r.hasDual)
   {
      r.okY = sp.getDual(y);
      r.okD = sp.getRedCost(d);
      r.y = toQ(y);
      r.d = toQ(d);
      r.yd = toD(y);
      r.dd = toD(d);
   }
   r.objd = sp.objValueReal();
   r.obj = std::isfinite(r.objd) ? Q(r.objd) : Q(0);
   r.hasRay = sp.hasPrimalRay();
   if(r.hasRay)
   {
      VectorReal v(n);
      r.okRay = sp.getPrimalRay(v);
      r.ray = toQ(v);
   }
   r.hasFarkas = sp.hasDualFarkas();
   if(r.hasFarkas)
   {
      VectorReal v(m);
      r.okFarkas = sp.getDualFarkas(v);
      r.fark = toQ(v);
   }
   return r;
}
inline void quiet(SoPlex& sp)
{
   sp.setIntParam(SoPlex::VERBOSITY, SoPlex::VERBOSITY_ERROR);
}
} // namespace vf
