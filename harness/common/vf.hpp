// vf.hpp - shared verification-framework core (no SoPlex dependency).
//   * exact numbers (mpq_class), LP reference model, case text I/O (the replay file format)
//   * rapidcheck drawing helpers (every random choice goes through rapidcheck)
//   * evidence counters and the common main() (generate / replay modes)
#pragma once
#include <gmpxx.h>
#include <rapidcheck.h>

#include <algorithm>
#include <cmath>
#include <cstdint>
#include <cstdio>
#include <cstdlib>
#include <cstring>
#include <fstream>
#include <functional>
#include <iostream>
#include <map>
#include <set>
#include <sstream>
#include <string>
#include <vector>
#include <unistd.h>
#include <sys/stat.h>

namespace vf
{
typedef mpq_class Q;

// ------------------------------------------------------------------ numbers
inline const Q& QINF()
{
   static Q v(1e100);
   return v;
}
inline bool isPInf(const Q& q)
{
   return q >= QINF();
}
inline bool isNInf(const Q& q)
{
   return q <= -QINF();
}
inline bool isFin(const Q& q)
{
   return !isPInf(q) && !isNInf(q);
}
inline Q qabs(const Q& q)
{
   return q < 0 ? Q(-q) : q;
}
inline std::string qstr(const Q& q)
{
   if(isPInf(q)) return "inf";
   if(isNInf(q)) return "-inf";
   return q.get_str();
}
inline Q qparse(const std::string& s)
{
   if(s == "inf" || s == "+inf") return QINF();
   if(s == "-inf") return Q(-QINF());
   Q q(s);
   q.canonicalize();
   return q;
}
inline Q q2pow(int e)   // 2^e exactly
{
   Q r(1);
   if(e >= 0) mpq_mul_2exp(r.get_mpq_t(), r.get_mpq_t(), (unsigned long) e);
   else mpq_div_2exp(r.get_mpq_t(), r.get_mpq_t(), (unsigned long)(-e));
   return r;
}
inline Q qd(double d)   // exact binary value of a double; +-inf/huge -> +-1e100
{
   if(std::isnan(d)) return Q(0);
   if(d >= 1e100) return QINF();
   if(d <= -1e100) return Q(-QINF());
   return Q(d);
}
inline double dq(const Q& q)   // nearest-ish double (truncation, GMP); infinities -> +-1e100
{
   if(isPInf(q)) return 1e100;
   if(isNInf(q)) return -1e100;
   return q.get_d();
}
inline bool isDyadicDouble(const Q& q)   // exactly representable as double?
{
   return Q(q.get_d()) == q;
}

// ------------------------------------------------------------------ LP reference model
struct LP
{
   int sense = -1;                 // -1 minimise, +1 maximise  (SoPlex's OBJSENSE codes)
   Q offset = 0;
   std::vector<Q> lo, up, obj;     // per column
   std::vector<Q> lhs, rhs;        // per row
   std::vector<std::vector<Q>> A;  // dense m x n
   int m() const
   {
      return (int) lhs.size();
   }
   int n() const
   {
      return (int) lo.size();
   }
   void resize(int m_, int n_)
   {
      lo.assign(n_, Q(0));
      up.assign(n_, QINF());
      obj.assign(n_, Q(0));
      lhs.assign(m_, Q(-QINF()));
      rhs.assign(m_, QINF());
      A.assign(m_, std::vector<Q>(n_, Q(0)));
   }
   int nnz() const
   {
      int k = 0;
      for(auto& r : A) for(auto& v : r) if(v != 0) k++;
      return k;
   }
   Q act(int i, const std::vector<Q>& x) const
   {
      Q s = 0;
      for(int j = 0; j < n(); j++) if(A[i][j] != 0) s += A[i][j] * x[j];
      return s;
   }
   Q objval(const std::vector<Q>& x) const
   {
      Q s = offset;
      for(int j = 0; j < n(); j++) s += obj[j] * x[j];
      return s;
   }
   void addCol(const Q& l, const Q& u, const Q& c)
   {
      lo.push_back(l);
      up.push_back(u);
      obj.push_back(c);
      for(auto& r : A) r.push_back(Q(0));
   }
   void addRow(const Q& l, const Q& r)
   {
      lhs.push_back(l);
      rhs.push_back(r);
      A.push_back(std::vector<Q>(n(), Q(0)));
   }
   // apply a permutation as reported by a removal call: perm[i] = new index or <0 if removed
   void permuteRows(const std::vector<int>& perm)
   {
      int nm = 0;
      for(int p : perm) if(p >= 0) nm = std::max(nm, p + 1);
      std::vector<Q> l(nm), r(nm);
      std::vector<std::vector<Q>> a(nm);
      for(int i = 0; i < m(); i++) if(perm[i] >= 0)
         {
            l[perm[i]] = lhs[i];
            r[perm[i]] = rhs[i];
            a[perm[i]] = A[i];
         }
      lhs = l;
      rhs = r;
      A = a;
   }
   void permuteCols(const std::vector<int>& perm)
   {
      int nn = 0, on = n();
      for(int p : perm) if(p >= 0) nn = std::max(nn, p + 1);
      std::vector<Q> l(nn), u(nn), c(nn);
      for(int j = 0; j < on; j++) if(perm[j] >= 0)
         {
            l[perm[j]] = lo[j];
            u[perm[j]] = up[j];
            c[perm[j]] = obj[j];
         }
      for(auto& r : A)
      {
         std::vector<Q> nr(nn);
         for(int j = 0; j < on; j++) if(perm[j] >= 0) nr[perm[j]] = r[j];
         r = nr;
      }
      lo = l;
      up = u;
      obj = c;
   }
};

enum LPClass { CL_UNKNOWN = 0, CL_OPT = 1, CL_INF = 2, CL_UNB = 3, CL_INFUNB = 4 };
inline const char* className(int c)
{
   static const char* n[] = {"unknown", "optimal", "infeasible", "unbounded", "inf_and_dualinf"};
   return n[c];
}

struct Planted
{
   int cls = CL_UNKNOWN;
   Q z = 0;                        // optimal value incl. offset (CL_OPT)
   std::vector<Q> x, y, d;         // planted primal / dual / reduced costs (CL_OPT); x = feasible point (CL_UNB)
   std::vector<Q> ray;             // CL_UNB: improving recession direction
   std::vector<Q> fark;            // CL_INF: row multipliers of a Farkas proof
};

// a generic record: configuration settings, operations, anything a harness wants to replay
struct Rec
{
   std::string tag;
   std::vector<std::string> a;
   Rec() {}
   Rec(const std::string& t) : tag(t) {}
   Rec& add(const std::string& s)
   {
      a.push_back(s);
      return *this;
   }
   Rec& add(long v)
   {
      a.push_back(std::to_string(v));
      return *this;
   }
   Rec& add(int v)
   {
      a.push_back(std::to_string(v));
      return *this;
   }
   Rec& addq(const Q& q)
   {
      a.push_back(qstr(q));
      return *this;
   }
   long i(size_t k) const
   {
      return k < a.size() ? std::strtol(a[k].c_str(), nullptr, 10) : 0;
   }
   Q q(size_t k) const
   {
      return k < a.size() ? qparse(a[k]) : Q(0);
   }
   const std::string& s(size_t k) const
   {
      static std::string e;
      return k < a.size() ? a[k] : e;
   }
   size_t n() const
   {
      return a.size();
   }
};

struct Case
{
   std::string prop;
   LP lp;
   Planted pl;
   std::vector<Rec> recs;
   const Rec* find(const std::string& tag) const
   {
      for(auto& r : recs) if(r.tag == tag) return &r;
      return nullptr;
   }
   long geti(const std::string& tag, long def = 0) const
   {
      const Rec* r = find(tag);
      return r && r->n() ? r->i(0) : def;
   }
};

inline void writeVec(std::ostream& os, const char* tag, const std::vector<Q>& v)
{
   if(v.empty()) return;
   os << tag << " " << v.size();
   for(auto& q : v) os << " " << qstr(q);
   os << "\n";
}
inline std::string lpText(const LP& lp)
{
   std::ostringstream os;
   os << "lp " << lp.m() << " " << lp.n() << " " << lp.sense << " " << qstr(lp.offset) << "\n";
   for(int j = 0; j < lp.n(); j++)
      os << "c " << j << " " << qstr(lp.lo[j]) << " " << qstr(lp.up[j]) << " " << qstr(lp.obj[j]) << "\n";
   for(int i = 0; i < lp.m(); i++)
   {
      int k = 0;
      for(int j = 0; j < lp.n(); j++) if(lp.A[i][j] != 0) k++;
      os << "r " << i << " " << qstr(lp.lhs[i]) << " " << qstr(lp.rhs[i]) << " " << k;
      for(int j = 0; j < lp.n(); j++) if(lp.A[i][j] != 0) os << " " << j << " " << qstr(lp.A[i][j]);
      os << "\n";
   }
   return os.str();
}
inline std::string caseText(const Case& c)
{
   std::ostringstream os;
   os << "case " << c.prop << "\n" << lpText(c.lp);
   os << "planted " << c.pl.cls << " " << qstr(c.pl.z) << "\n";
   writeVec(os, "px", c.pl.x);
   writeVec(os, "py", c.pl.y);
   writeVec(os, "pd", c.pl.d);
   writeVec(os, "pray", c.pl.ray);
   writeVec(os, "pfark", c.pl.fark);
   for(auto& r : c.recs)
   {
      os << "rec " << r.tag;
      for(auto& s : r.a) os << " " << s;
      os << "\n";
   }
   os << "end\n";
   return os.str();
}
inline bool parseCase(const std::string& text, Case& c)
{
   std::istringstream is(text);
   std::string line;
   c = Case();
   auto readVec = [](std::istringstream & ls, std::vector<Q>& v)
   {
      size_t k;
      ls >> k;
      v.clear();
      std::string s;
      for(size_t t = 0; t < k && (ls >> s); t++) v.push_back(qparse(s));
   };
   while(std::getline(is, line))
   {
      std::istringstream ls(line);
      std::string t;
      if(!(ls >> t)) continue;
      if(t == "case") ls >> c.prop;
      else if(t == "lp")
      {
         int m, n;
         std::string off;
         ls >> m >> n >> c.lp.sense >> off;
         c.lp.resize(m, n);
         c.lp.offset = qparse(off);
      }
      else if(t == "c")
      {
         int j;
         std::string a, b, d;
         ls >> j >> a >> b >> d;
         if(j < 0 || j >= c.lp.n()) return false;
         c.lp.lo[j] = qparse(a);
         c.lp.up[j] = qparse(b);
         c.lp.obj[j] = qparse(d);
      }
      else if(t == "r")
      {
         int i, k;
         std::string a, b;
         ls >> i >> a >> b >> k;
         if(i < 0 || i >= c.lp.m()) return false;
         c.lp.lhs[i] = qparse(a);
         c.lp.rhs[i] = qparse(b);
         for(int e = 0; e < k; e++)
         {
            int j;
            std::string v;
            ls >> j >> v;
            if(j < 0 || j >= c.lp.n()) return false;
            c.lp.A[i][j] = qparse(v);
         }
      }
      else if(t == "planted")
      {
         std::string z;
         ls >> c.pl.cls >> z;
         c.pl.z = qparse(z);
      }
      else if(t == "px") readVec(ls, c.pl.x);
      else if(t == "py") readVec(ls, c.pl.y);
      else if(t == "pd") readVec(ls, c.pl.d);
      else if(t == "pray") readVec(ls, c.pl.ray);
      else if(t == "pfark") readVec(ls, c.pl.fark);
      else if(t == "rec")
      {
         Rec r;
         ls >> r.tag;
         std::string s;
         while(ls >> s) r.a.push_back(s);
         c.recs.push_back(r);
      }
      else if(t == "end") return true;
   }
   return true;
}

// ------------------------------------------------------------------ rapidcheck drawing helpers
// inclusive integer range; shrinks towards lo. resize() because inRange collapses at small sizes.
inline int R(int lo, int hi)
{
   if(hi <= lo) return lo;
   return *rc::gen::resize(100, rc::gen::inRange(lo, hi + 1));
}
// true with probability pct/100; shrinks towards false
inline bool P(int pct)
{
   return R(0, 99) >= 100 - pct;
}
// weighted index; shrinks towards index 0 (put the simplest alternative first)
inline int W(std::initializer_list<int> w)
{
   int tot = 0;
   for(int x : w) tot += x;
   int r = R(0, tot - 1), k = 0;
   for(int x : w)
   {
      if(r < x) return k;
      r -= x;
      k++;
   }
   return 0;
}
inline int curSize()
{
   return *rc::gen::withSize([](int s)
   {
      return rc::gen::just(s);
   });
}
// integer in [-a..a] without 0
inline int NZ(int a)
{
   int v = R(1, 2 * a);
   return v <= a ? v : -(v - a);
}

// ------------------------------------------------------------------ evidence
inline uint64_t fnv(const std::string& s)
{
   uint64_t h = 1469598103934665603ULL;
   for(unsigned char c : s)
   {
      h ^= c;
      h *= 1099511628211ULL;
   }
   return h;
}
inline std::string jsonEsc(const std::string& s)
{
   std::string o;
   for(unsigned char c : s)
   {
      if(c == '"') o += "\\\"";
      else if(c == '\\') o += "\\\\";
      else if(c == '\n') o += "\\n";
      else if(c == '\t') o += "\\t";
      else if(c < 32 || c > 126)
      {
         char b[8];
         snprintf(b, sizeof b, "\\u%04x", c);
         o += b;
      }
      else o += (char) c;
   }
   return o;
}
struct Evidence
{
   long evaluations = 0, shrinkRuns = 0, nontrivial = 0;
   std::map<std::string, long> cnt;
   std::set<uint64_t> ntHashes;
   std::vector<std::string> samples;
   std::string outPath;
   bool failed = false;
   void count(const std::string& k, long by = 1)
   {
      cnt[k] += by;
   }
   void flush() const
   {
      if(outPath.empty()) return;
      std::string tmp = outPath + ".tmp";
      {
         std::ofstream os(tmp);
         os << "{\"evaluations\":" << evaluations << ",\"shrink_runs\":" << shrinkRuns << ",\"nontrivial\":" << nontrivial
            << ",\"failed\":" << (failed ? "true" : "false") << ",\"classes\":{";
         bool first = true;
         for(auto& kv : cnt)
         {
            os << (first ? "" : ",") << "\"" << jsonEsc(kv.first) << "\":" << kv.second;
            first = false;
         }
         os << "},\"nontrivial_hashes\":[";
         first = true;
         for(auto h : ntHashes)
         {
            os << (first ? "" : ",") << "\"" << std::hex << h << std::dec << "\"";
            first = false;
         }
         os << "],\"samples\":[";
         first = true;
         for(auto& s : samples)
         {
            os << (first ? "" : ",") << "\"" << jsonEsc(s) << "\"";
            first = false;
         }
         os << "]}\n";
      }
      rename(tmp.c_str(), outPath.c_str());
   }
};
inline Evidence& ev()
{
   static Evidence e;
   return e;
}

struct Verdict
{
   bool ok = true;
   bool nontrivial = false;
   std::string msg;       // first failure
   void fail(const std::string& m)
   {
      if(ok)
      {
         ok = false;
         msg = m;
      }
   }
};

struct Opts
{
   std::string mode = "gen", dir = ".", replay, tier = "quick";
   long cases = 100, seed = 1, maxsize = 100;
   std::map<std::string, std::string> x;   // extra k=v options for the harness
   long xi(const std::string& k, long d) const
   {
      auto it = x.find(k);
      return it == x.end() ? d : std::strtol(it->second.c_str(), nullptr, 10);
   }
};
inline Opts& opts()
{
   static Opts o;
   return o;
}

// known-finding exclusion list: --x known=key1,key2 (set by ./check from known_findings.txt)
inline bool knownKey(const std::string& key)
{
   auto it = opts().x.find("known");
   if(it == opts().x.end()) return false;
   std::string s = "," + it->second + ",";
   return s.find("," + key + ",") != std::string::npos;
}

inline void writeFile(const std::string& p, const std::string& s)
{
   std::string tmp = p + ".tmp";
   {
      std::ofstream os(tmp);
      os << s;
   }
   rename(tmp.c_str(), p.c_str());
}
inline std::string readFileText(const std::string& p)
{
   std::ifstream is(p);
   std::stringstream ss;
   ss << is.rdbuf();
   return ss.str();
}

// gen: draws a case (rapidcheck context). run: executes one parsed case against the code under test.
inline int vfMain(int argc, char** argv, const char* prop,
                  std::function<void(Case&)> gen, std::function<Verdict(const Case&)> run)
{
   Opts& o = opts();
   for(int i = 1; i < argc; i++)
   {
      std::string a = argv[i];
      auto next = [&]()
      {
         return std::string(i + 1 < argc ? argv[++i] : "");
      };
      if(a == "--replay")
      {
         o.mode = "replay";
         o.replay = next();
      }
      else if(a == "--cases") o.cases = atol(next().c_str());
      else if(a == "--seed") o.seed = atol(next().c_str());
      else if(a == "--maxsize") o.maxsize = atol(next().c_str());
      else if(a == "--dir") o.dir = next();
      else if(a == "--tier") o.tier = next();
      else if(a == "--x")
      {
         std::string kv = next();
         size_t e = kv.find('=');
         if(e != std::string::npos) o.x[kv.substr(0, e)] = kv.substr(e + 1);
      }
   }
   if(o.mode == "replay")
   {
      Case c;
      if(!parseCase(readFileText(o.replay), c))
      {
         fprintf(stderr, "cannot parse %s\n", o.replay.c_str());
         return 2;
      }
      for(auto& r : c.recs) if(r.tag == "x" && r.n() >= 2 && !o.x.count(r.s(0))) o.x[r.s(0)] = r.s(1);
      Verdict v = run(c);
      if(!v.ok)
      {
         printf("FAIL %s\n", v.msg.c_str());
         return 1;
      }
      printf("PASS%s\n", v.nontrivial ? " (nontrivial)" : "");
      return 0;
   }
   mkdir(o.dir.c_str(), 0777);
   ev().outPath = o.dir + "/shard.json";
   std::string params = "seed=" + std::to_string(o.seed) + " max_success=" + std::to_string(o.cases) +
                        " max_size=" + std::to_string(o.maxsize);
   setenv("RC_PARAMS", params.c_str(), 1);
   std::string cur = o.dir + "/current.case", failing = o.dir + "/failing.case";
   unlink(failing.c_str());
   long sampleEvery = std::max(1L, o.cases / 6);
   bool ok = rc::check(prop, [&]()
   {
      Case c;
      c.prop = prop;
      gen(c);
      for(auto& kv : o.x) c.recs.push_back(Rec("x").add(kv.first).add(kv.second));
      std::string text = caseText(c);
      writeFile(cur, text);                       // crash-safe: the case is on disk before the code under test runs
      Case c2;
      parseCase(text, c2);
      Verdict v = run(c2);
      Evidence& e = ev();
      if(e.failed) e.shrinkRuns++;
      else
      {
         e.evaluations++;
         if(v.nontrivial)
         {
            e.nontrivial++;
            e.ntHashes.insert(fnv(text));
            if(e.samples.size() < 6 && (e.nontrivial % sampleEvery == 1 || sampleEvery == 1))
               e.samples.push_back(text.size() > 2000 ? text.substr(0, 2000) + "...[truncated]" : text);
         }
         if(e.evaluations % 200 == 0) e.flush();
      }
      if(!v.ok)
      {
         e.failed = true;
         writeFile(failing, text);
         writeFile(o.dir + "/failing.msg", v.msg + "\n");
         e.flush();
         RC_FAIL(v.msg);
      }
   });
   ev().flush();
   return ok ? 0 : 1;
}
} // namespace vf
