// hist_common.hpp - interpreter of API histories with an exact reference model (C06 / C04 / C09d / C17).
#pragma once
#include "spx.hpp"
#include "certs.hpp"
#include "z3ref.hpp"
#include "dense.hpp"

namespace vf
{
// configuration domain of the history harnesses: the parameters the properties name (representation, algorithm,
// simplifier, scaler, persistent scaling, update type) - the crash-basis starters, polishing and the Harris /
// textbook ratio tests are left to C01, where their known findings are recorded.
inline void genHistCfg(Case& c, const std::string& prop)
{
   using soplex::SoPlex;
   bool scalingBias = prop == "C09";
   if(P(70)) c.recs.push_back(Rec("int").add((int) SoPlex::REPRESENTATION).add(R(0, 2)));
   if(P(50)) c.recs.push_back(Rec("int").add((int) SoPlex::ALGORITHM).add(R(0, 1)));
   if(P(70)) c.recs.push_back(Rec("int").add((int) SoPlex::SIMPLIFIER).add(W({1, 1, 1}) == 0 ? 0 : (P(50) ? 1 : 3)));
   if(scalingBias || P(70)) c.recs.push_back(Rec("int").add((int) SoPlex::SCALER).add(scalingBias ? R(1, 6) : R(0, 6)));
   if(scalingBias || P(60)) c.recs.push_back(Rec("bool").add((int) SoPlex::PERSISTENTSCALING).add(scalingBias ? (P(80) ? 1 : 0) : R(0, 1)));
   if(P(30)) c.recs.push_back(Rec("int").add((int) SoPlex::FACTOR_UPDATE_TYPE).add(R(0, 1)));
   if(P(30)) c.recs.push_back(Rec("int").add((int) SoPlex::PRICER).add(R(0, 5)));
   if(P(20)) c.recs.push_back(Rec("int").add((int) SoPlex::RATIOTESTER).add(P(50) ? 2 : 3));
   if(P(20)) c.recs.push_back(Rec("seed").add(R(0, 1000)));
}

inline int statusClass(int st)
{
   switch(st)
   {
   case Solver::OPTIMAL: return CL_OPT;
   case Solver::INFEASIBLE: return CL_INF;
   case Solver::UNBOUNDED: return CL_UNB;
   case Solver::INForUNBD: return CL_INFUNB;
   }
   return CL_UNKNOWN;
}
inline bool classesAgree(int a, int b)
{
   if(a == b) return true;
   if(a == CL_INFUNB) return b == CL_INF || b == CL_UNB;
   if(b == CL_INFUNB) return a == CL_INF || a == CL_UNB;
   return false;
}

struct HistRunner
{
   const Case& c;
   std::string prop;
   soplex::SoPlex sp;
   LP md;                       // the reference model
   Verdict v;
   Evidence& e;
   int step = 0;
   bool everSolved = false, removalAfterSolve = false, solveAfterRemovalAfterSolve = false, modifiedWhileScaled = false;
   int nSolves = 0;
   bool modifiedSinceBasis = false, sawNontrivialBasis = false;
   Tol tol;

   HistRunner(const Case& cs, const std::string& p) : c(cs), prop(p), e(ev()) {}

   std::string where(const std::string& what)
   {
      return "step " + std::to_string(step) + " (" + what + "): ";
   }
   // ---------------------------------------------------------------- accessor comparison (bit exact)
   bool eqd(double d, const Q& q)
   {
      if(std::isnan(d)) return false;
      if(isPInf(q)) return d >= 1e100;
      if(isNInf(q)) return d <= -1e100;
      if(!std::isfinite(d)) return false;
      return Q(d) == q;
   }
   void compareAll(const std::string& what)
   {
      using namespace soplex;
      if(!v.ok) return;
      int m = md.m(), n = md.n();
      if(sp.numRows() != m || sp.numCols() != n)
      {
         v.fail(where(what) + "dimensions " + std::to_string(sp.numRows()) + "x" + std::to_string(sp.numCols()) + " but model " + std::to_string(m) + "x" + std::to_string(n));
         return;
      }
      if(sp.numNonzeros() != md.nnz())
      {
         v.fail(where(what) + "numNonzeros " + std::to_string(sp.numNonzeros()) + " but model " + std::to_string(md.nnz()));
         return;
      }
      int sense = sp.intParam(SoPlex::OBJSENSE) == SoPlex::OBJSENSE_MAXIMIZE ? 1 : -1;
      if(sense != md.sense)
      {
         v.fail(where(what) + "objective sense differs from the model");
         return;
      }
      if(!eqd(sp.realParam(SoPlex::OBJ_OFFSET), md.offset))
      {
         v.fail(where(what) + "objective offset differs from the model");
         return;
      }
      VectorReal lo(n), up(n), ob(n), lh(m), rh(m);
      sp.getLowerReal(lo);
      sp.getUpperReal(up);
      sp.getObjReal(ob);
      sp.getLhsReal(lh);
      sp.getRhsReal(rh);
      for(int j = 0; j < n; j++)
      {
         if(!eqd(sp.lowerReal(j), md.lo[j]) || !eqd(lo[j], md.lo[j]))
         {
            v.fail(where(what) + "lower bound of column " + std::to_string(j) + " is " + std::to_string(sp.lowerReal(j)) + " but model " + qstr(md.lo[j]));
            return;
         }
         if(!eqd(sp.upperReal(j), md.up[j]) || !eqd(up[j], md.up[j]))
         {
            v.fail(where(what) + "upper bound of column " + std::to_string(j) + " is " + std::to_string(sp.upperReal(j)) + " but model " + qstr(md.up[j]));
            return;
         }
         if(!eqd(sp.objReal(j), md.obj[j]) || !eqd(ob[j], md.obj[j]) || !eqd(sp.maxObjReal(j), Q(md.sense * md.obj[j])))
         {
            v.fail(where(what) + "objective of column " + std::to_string(j) + " is " + std::to_string(sp.objReal(j)) + " (maxObj " + std::to_string(sp.maxObjReal(j)) + ") but model " + qstr(md.obj[j]));
            return;
         }
         DSVectorReal col;
         sp.getColVectorReal(j, col);
         int cnt = 0;
         for(int i = 0; i < m; i++) if(md.A[i][j] != 0) cnt++;
         if(col.size() != cnt)
         {
            v.fail(where(what) + "column vector " + std::to_string(j) + " has " + std::to_string(col.size()) + " entries, model " + std::to_string(cnt));
            return;
         }
         for(int k = 0; k < col.size(); k++)
            if(col.index(k) < 0 || col.index(k) >= m || !eqd(col.value(k), md.A[col.index(k)][j]) || md.A[col.index(k)][j] == 0)
            {
               v.fail(where(what) + "column vector " + std::to_string(j) + " entry differs from the model");
               return;
            }
      }
      for(int i = 0; i < m; i++)
      {
         if(!eqd(sp.lhsReal(i), md.lhs[i]) || !eqd(lh[i], md.lhs[i]))
         {
            v.fail(where(what) + "lhs of row " + std::to_string(i) + " is " + std::to_string(sp.lhsReal(i)) + " but model " + qstr(md.lhs[i]));
            return;
         }
         if(!eqd(sp.rhsReal(i), md.rhs[i]) || !eqd(rh[i], md.rhs[i]))
         {
            v.fail(where(what) + "rhs of row " + std::to_string(i) + " is " + std::to_string(sp.rhsReal(i)) + " but model " + qstr(md.rhs[i]));
            return;
         }
         LPRowReal::Type ty = sp.rowTypeReal(i);
         LPRowReal::Type ex = isFin(md.lhs[i]) ? (isFin(md.rhs[i]) ? (md.lhs[i] == md.rhs[i] ? LPRowReal::EQUAL : LPRowReal::RANGE) : LPRowReal::GREATER_EQUAL)
                              : LPRowReal::LESS_EQUAL;
         // a free row is reported as LESS_EQUAL? the header documents RANGE for "lhs and rhs both given"; only judge the
         // three unambiguous cases
         if(isFin(md.lhs[i]) != isFin(md.rhs[i]) || (isFin(md.lhs[i]) && md.lhs[i] == md.rhs[i]))
            if(ty != ex)
            {
               v.fail(where(what) + "rowTypeReal(" + std::to_string(i) + ") = " + std::to_string((int) ty) + " but the sides say " + std::to_string((int) ex));
               return;
            }
         DSVectorReal row;
         sp.getRowVectorReal(i, row);
         int cnt = 0;
         for(int j = 0; j < n; j++) if(md.A[i][j] != 0) cnt++;
         if(row.size() != cnt)
         {
            v.fail(where(what) + "row vector " + std::to_string(i) + " has " + std::to_string(row.size()) + " entries, model " + std::to_string(cnt));
            return;
         }
         for(int k = 0; k < row.size(); k++)
            if(row.index(k) < 0 || row.index(k) >= n || !eqd(row.value(k), md.A[i][row.index(k)]) || md.A[i][row.index(k)] == 0)
            {
               v.fail(where(what) + "row vector " + std::to_string(i) + " entry differs from the model");
               return;
            }
         for(int j = 0; j < n; j++)
            if(!eqd(sp.coefReal(i, j), md.A[i][j]))
            {
               v.fail(where(what) + "coefReal(" + std::to_string(i) + "," + std::to_string(j) + ") = " + std::to_string(sp.coefReal(i, j)) + " but model " + qstr(md.A[i][j]));
               return;
            }
      }
   }
   void afterModification(const std::string& what)
   {
      if(!v.ok) return;
      if(SoPlexVerifAccess::isRealLPScaled(sp)) modifiedWhileScaled = true;
      if(everSolved)
      {
         if(sp.hasSol())
         {
            v.fail(where(what) + "hasSol() still true after a modification");
            return;
         }
         if(sp.status() != Solver::UNKNOWN && sp.status() != Solver::NO_PROBLEM)
         {
            v.fail(where(what) + std::string("status() still ") + statusName(sp.status()) + " after a modification");
            return;
         }
      }
   }
   // ---------------------------------------------------------------- basis validity (C04 (i),(ii))
   void checkBasis(const std::string& what)
   {
      if(!v.ok || !sp.hasBasis()) return;
      int m = md.m(), n = md.n();
      std::vector<VarStatus> rs(m + 1), cs(n + 1);
      sp.getBasis(rs.data(), cs.data());
      int basic = 0;
      std::ostringstream er;
      for(int i = 0; i < m; i++)
      {
         if(sp.basisRowStatus(i) != rs[i]) er << "basisRowStatus(" << i << ") != getBasis; ";
         if(rs[i] == Solver::BASIC) basic++;
         else if(rs[i] == Solver::ON_LOWER && !isFin(md.lhs[i])) er << "row " << i << " ON_LOWER at infinite lhs; ";
         else if(rs[i] == Solver::ON_UPPER && !isFin(md.rhs[i])) er << "row " << i << " ON_UPPER at infinite rhs; ";
         else if(rs[i] == Solver::FIXED && md.lhs[i] != md.rhs[i]) er << "row " << i << " FIXED with lhs != rhs; ";
         else if(rs[i] == Solver::UNDEFINED) er << "row " << i << " UNDEFINED; ";
      }
      for(int j = 0; j < n; j++)
      {
         if(sp.basisColStatus(j) != cs[j]) er << "basisColStatus(" << j << ") != getBasis; ";
         if(cs[j] == Solver::BASIC) basic++;
         else if(cs[j] == Solver::ON_LOWER && !isFin(md.lo[j])) er << "col " << j << " ON_LOWER at infinite lower; ";
         else if(cs[j] == Solver::ON_UPPER && !isFin(md.up[j])) er << "col " << j << " ON_UPPER at infinite upper; ";
         else if(cs[j] == Solver::FIXED && md.lo[j] != md.up[j]) er << "col " << j << " FIXED with lower != upper; ";
         else if(cs[j] == Solver::UNDEFINED) er << "col " << j << " UNDEFINED; ";
      }
      if(basic != m) er << basic << " basic variables for " << m << " rows; ";
      {
         bool basicCol = false, nonbasicRow = false;
         for(int j = 0; j < n; j++) if(cs[j] == Solver::BASIC) basicCol = true;
         for(int i = 0; i < m; i++) if(rs[i] != Solver::BASIC) nonbasicRow = true;
         if((basicCol && nonbasicRow) || (everSolved && sp.status() != Solver::OPTIMAL && sp.status() != Solver::UNKNOWN)) sawNontrivialBasis = true;
      }
      // known finding C04/getBasisInd-stale-after-modification: between a modification and the next solve/setBasis
      // the index query reads stale basis members; with the key active it is only asked on an unmodified basis
      if(er.str().empty() && m > 0 && knownKey("getBasisInd-stale-after-modification") && modifiedSinceBasis)
         e.count("excluded_known.getBasisInd-stale-after-modification");
      else if(er.str().empty() && m > 0)
      {
         std::vector<int> bind(m, 12345678);
         sp.getBasisInd(bind.data());
         std::set<int> fromInd(bind.begin(), bind.end()), fromStat;
         for(int i = 0; i < m; i++) if(rs[i] == Solver::BASIC) fromStat.insert(-1 - i);
         for(int j = 0; j < n; j++) if(cs[j] == Solver::BASIC) fromStat.insert(j);
         if(fromInd != fromStat) er << "getBasisInd names a different basic set than getBasis; ";
      }
      e.count("basis_checked");
      if(!er.str().empty()) v.fail(where(what) + "basis: " + er.str());
   }
   // exact regularity of the basis matrix assembled from the model (C04 (iii))
   void checkBasisRegular(const std::string& what)
   {
      if(!v.ok || !sp.hasBasis()) return;
      int m = md.m(), n = md.n();
      if(m == 0) return;
      std::vector<VarStatus> rs(m + 1), cs(n + 1);
      sp.getBasis(rs.data(), cs.data());
      std::vector<std::vector<Q>> B;
      for(int i = 0; i < m; i++) if(rs[i] == Solver::BASIC)
         {
            std::vector<Q> col(m, Q(0));
            col[i] = 1;
            B.push_back(col);
         }
      for(int j = 0; j < n; j++) if(cs[j] == Solver::BASIC)
         {
            std::vector<Q> col(m);
            for(int i = 0; i < m; i++) col[i] = md.A[i][j];
            B.push_back(col);
         }
      if((int) B.size() != m) return;   // reported by checkBasis
      e.count("basis_regularity_checked");
      if(exactRank(B) != m)
      {
         // known finding aggregation-cancellation-residue (root cause recorded under C08): presolve keeps a 1e-16 rounding
         // residue as a coefficient, the reduced LP is 'solved' at |x| ~ 1e15 and the postsolved basis contains exactly
         // parallel rows. Signature: simplifier on and a returned primal value >= 1e9 x the largest datum of the LP
         if(knownKey("aggregation-cancellation-residue") && sp.intParam(SoPlex::SIMPLIFIER) != SoPlex::SIMPLIFIER_OFF && sp.hasPrimal())
         {
            Q big = 1;
            auto see = [&](const Q & q)
            {
               if(isFin(q) && qabs(q) > big) big = qabs(q);
            };
            for(int j = 0; j < n; j++)
            {
               see(md.lo[j]);
               see(md.up[j]);
               see(md.obj[j]);
               for(int i = 0; i < m; i++) see(md.A[i][j]);
            }
            for(int i = 0; i < m; i++)
            {
               see(md.lhs[i]);
               see(md.rhs[i]);
            }
            soplex::VectorBase<double> x(n);
            sp.getPrimal(x);
            bool blow = false;
            for(int j = 0; j < n; j++) if(std::isfinite(x[j]) && std::fabs(x[j]) < 1e99 && Q(std::fabs(x[j])) > Q(1000000000) * big) blow = true;
            if(blow)
            {
               e.count("excluded_known.aggregation-cancellation-residue");
               return;
            }
         }
         // known finding postsolve-nonoptimal-basis-singular: with the simplifier on, a solve that ends INFEASIBLE / UNBOUNDED
         // postsolves the basis of the reduced LP although the postsolve steps are written for optimal bases; the basis
         // handed to the user can be exactly singular (hasBasis() true). Signature: simplifier on and status not OPTIMAL
         if(knownKey("postsolve-nonoptimal-basis-singular") && sp.intParam(SoPlex::SIMPLIFIER) != SoPlex::SIMPLIFIER_OFF
               && sp.status() != Solver::OPTIMAL)
         {
            e.count("excluded_known.postsolve-nonoptimal-basis-singular");
            return;
         }
         v.fail(where(what) + "the basis returned by a solve is singular (exact determinant 0)");
      }
   }

   // ---------------------------------------------------------------- solving
   void judgeSolve(const std::string& what)
   {
      using namespace soplex;
      if(!v.ok) return;
      Status st;
      try
      {
         st = sp.optimize();
      }
      catch(const SPxException& x)
      {
         v.fail(where(what) + std::string("optimize threw: ") + x.what().c_str());
         return;
      }
      nSolves++;
      everSolved = true;
      modifiedSinceBasis = false;
      if(md.m() == 0 || md.n() == 0)
      {
         // zero-dimensional LPs: nothing about solving them is claimed (DESIGN 3.4); the model comparison continues
         e.count("unjudged.zero_dimensional_solve");
         compareAll(what + "/after optimize");
         return;
      }
      if(removalAfterSolve) solveAfterRemovalAfterSolve = true;
      e.count(std::string("solve.") + statusName(st));
      compareAll(what + "/after optimize");
      if(!v.ok) return;
      RealSol r = snapshotReal(sp);
      int cl = statusClass(st);
      // independent truth for small LPs
      int truth = CL_UNKNOWN;
      Q zopt;
      if(md.m() <= 10 && md.n() <= 10 && md.m() > 0 && md.n() > 0) truth = z3Classify(md, &zopt);
      if(truth != CL_UNKNOWN) e.count(std::string("z3.") + className(truth));
      if(st == Solver::OPTIMAL)
      {
         if(!(r.hasPrimal && r.hasDual && r.okP && r.okS && r.okY && r.okD))
         {
            v.fail(where(what) + "OPTIMAL but a solution getter refused");
            return;
         }
         std::string msg = checkOptimalCert(md, r.x, r.s, r.y, r.d, r.obj, tol, nullptr, truth == CL_OPT ? &zopt : nullptr);
         if(!msg.empty())
         {
            v.fail(where(what) + "OPTIMAL certificate: " + msg);
            return;
         }
         if(truth == CL_INF || truth == CL_UNB)
         {
            v.fail(where(what) + std::string("OPTIMAL but the LP is ") + className(truth));
            return;
         }
      }
      else if(truth == CL_OPT)
      {
         bool ill = false;
         if(st == Solver::INFEASIBLE || st == Solver::INForUNBD) ill = z3HasZeroMarginCertificate(md) != 0;
         if(!ill && (st == Solver::UNBOUNDED || st == Solver::INForUNBD)) ill = z3HasNonWorseningRay(md) != 0;
         if(ill) e.count("unjudged.illposed");
         else
         {
            v.fail(where(what) + std::string(statusName(st)) + " returned for an LP with a finite optimum (z3)");
            return;
         }
      }
      else if(truth == CL_UNB && st == Solver::INFEASIBLE)
      {
         if(z3HasZeroMarginCertificate(md) == 0)
         {
            v.fail(where(what) + "INFEASIBLE returned for a feasible LP (z3)");
            return;
         }
         e.count("unjudged.illposed");
      }
      if(r.hasFarkas && r.okFarkas)
      {
         std::string msg = checkFarkas(md, r.fark, false);
         if(!msg.empty())
         {
            v.fail(where(what) + "Farkas: " + msg);
            return;
         }
      }
      if(r.hasRay && r.okRay)
      {
         std::string msg = checkRay(md, r.ray, false);
         if(!msg.empty())
         {
            v.fail(where(what) + "primal ray: " + msg);
            return;
         }
      }
      // fresh object with the same parameters, fed the model LP in one go
      SoPlex fresh;
      quiet(fresh);
      fresh.setIntParam(SoPlex::ITERLIMIT, 50000);
      applyParams(fresh, c);
      loadReal(fresh, md, 0);
      Status fs = fresh.optimize();
      int fc = statusClass(fs);
      if(cl != CL_UNKNOWN && fc != CL_UNKNOWN)
      {
         if(!classesAgree(cl, fc))
         {
            // two floating-point runs may legitimately disagree on ill-posed LPs only
            bool ill = z3HasZeroMarginCertificate(md) != 0 || z3HasNonWorseningRay(md) != 0;
            if(!ill)
            {
               v.fail(where(what) + std::string("modified object returns ") + statusName(st) + " but a fresh object given the same LP returns " + statusName(fs));
               return;
            }
            e.count("unjudged.illposed");
         }
         else if(cl == CL_OPT)
         {
            Q a = r.obj, b = Q(fresh.objValueReal());
            Q tolv = Q(1, 1000000) * (1 + qabs(a) + qabs(b));
            if(qabs(a - b) > tolv)
            {
               v.fail(where(what) + "optimal value " + fmtd(a) + " differs from the fresh object's " + fmtd(b));
               return;
            }
         }
         e.count("fresh_compared");
      }
      else if(cl != fc)
      {
         // one of the two did not reach a verdict (abort / singular ...): a completeness failure of one of them
         if(cl == CL_UNKNOWN && fc != CL_UNKNOWN)
         {
            v.fail(where(what) + std::string("modified object ends with ") + statusName(st) + " but a fresh object given the same LP returns " + statusName(fs));
            return;
         }
         e.count(std::string("unjudged.fresh_") + statusName(fs));
      }
      checkBasis(what);
      if(cl != CL_UNKNOWN) checkBasisRegular(what);
   }

   // ---------------------------------------------------------------- operations
   static soplex::DSVectorReal sv(const std::vector<std::pair<int, Q>>& ent)
   {
      soplex::DSVectorReal v((int) ent.size() + 1);
      for(auto& x : ent) v.add(x.first, D(x.second));
      return v;
   }
   // reads "k j v j v ..." starting at position p; returns entries and advances p
   static std::vector<std::pair<int, Q>> readSparse(const Rec& r, size_t& p)
   {
      int k = (int) r.i(p++);
      std::vector<std::pair<int, Q>> ent;
      for(int t = 0; t < k; t++)
      {
         int j = (int) r.i(p++);
         Q val = r.q(p++);
         ent.push_back({j, val});
      }
      return ent;
   }
   void modelAddRow(const Q& l, const Q& rr, const std::vector<std::pair<int, Q>>& ent)
   {
      int mx = -1;
      for(auto& x : ent) mx = std::max(mx, x.first);
      while(md.n() <= mx) md.addCol(Q(0), QINF(), Q(0));     // documented: missing columns are created (default LPCol)
      md.addRow(l, rr);
      for(auto& x : ent) md.A[md.m() - 1][x.first] = x.second;
   }
   void modelAddCol(const Q& ob, const Q& l, const Q& u, const std::vector<std::pair<int, Q>>& ent)
   {
      int mx = -1;
      for(auto& x : ent) mx = std::max(mx, x.first);
      while(md.m() <= mx) md.addRow(Q(0), QINF());   // documented: missing rows are created (default LPRow: 0 <= a x)
      md.addCol(l, u, ob);
      for(auto& x : ent) md.A[x.first][md.n() - 1] = x.second;
   }
   // match the model to SoPlex's numbering after a removal without reported permutation
   bool adoptOrderRows(const std::vector<int>& survivors)
   {
      // survivors: old indices that must remain; find for each new index which old row sits there
      int nm = (int) survivors.size();
      if(sp.numRows() != nm) return false;
      std::vector<int> perm(md.m(), -1);
      std::vector<bool> used(md.m(), false);
      for(int k = 0; k < nm; k++)
      {
         bool found = false;
         for(int o : survivors)
         {
            if(used[o]) continue;
            bool same = eqd(sp.lhsReal(k), md.lhs[o]) && eqd(sp.rhsReal(k), md.rhs[o]);
            for(int j = 0; same && j < md.n(); j++) same = eqd(sp.coefReal(k, j), md.A[o][j]);
            if(same)
            {
               used[o] = true;
               perm[o] = k;
               found = true;
               break;
            }
         }
         if(!found) return false;
      }
      md.permuteRows(perm);
      return true;
   }
   bool adoptOrderCols(const std::vector<int>& survivors)
   {
      int nn = (int) survivors.size();
      if(sp.numCols() != nn) return false;
      std::vector<int> perm(md.n(), -1);
      std::vector<bool> used(md.n(), false);
      for(int k = 0; k < nn; k++)
      {
         bool found = false;
         for(int o : survivors)
         {
            if(used[o]) continue;
            bool same = eqd(sp.lowerReal(k), md.lo[o]) && eqd(sp.upperReal(k), md.up[o]) && eqd(sp.objReal(k), md.obj[o]);
            for(int i = 0; same && i < md.m(); i++) same = eqd(sp.coefReal(i, k), md.A[i][o]);
            if(same)
            {
               used[o] = true;
               perm[o] = k;
               found = true;
               break;
            }
         }
         if(!found) return false;
      }
      md.permuteCols(perm);
      return true;
   }
   bool validPerm(const std::vector<int>& perm, const std::vector<bool>& removed, int nNew)
   {
      std::vector<bool> hit(nNew, false);
      for(size_t i = 0; i < perm.size(); i++)
      {
         if(removed[i])
         {
            if(perm[i] >= 0) return false;
         }
         else
         {
            if(perm[i] < 0 || perm[i] >= nNew || hit[perm[i]]) return false;
            hit[perm[i]] = true;
         }
      }
      return true;
   }
   void removeRows(const std::string& what, const std::vector<bool>& removed, std::function<void(int*)> call, bool usePerm)
   {
      int m = md.m();
      std::vector<int> perm(m + 1, 7777);
      std::vector<int> survivors;
      int nNew = 0;
      for(int i = 0; i < m; i++) if(!removed[i])
         {
            nNew++;
            survivors.push_back(i);
         }
      call(usePerm ? perm.data() : nullptr);
      if(usePerm)
      {
         perm.resize(m);
         if(!validPerm(perm, removed, nNew))
         {
            v.fail(where(what) + "reported row permutation is not an injection of the survivors onto 0..n'-1");
            return;
         }
         md.permuteRows(perm);
      }
      else if(!adoptOrderRows(survivors))
      {
         v.fail(where(what) + "rows after removal are not the surviving rows of the model");
         return;
      }
   }
   void removeCols(const std::string& what, const std::vector<bool>& removed, std::function<void(int*)> call, bool usePerm)
   {
      int n = md.n();
      std::vector<int> perm(n + 1, 7777);
      std::vector<int> survivors;
      int nNew = 0;
      for(int j = 0; j < n; j++) if(!removed[j])
         {
            nNew++;
            survivors.push_back(j);
         }
      call(usePerm ? perm.data() : nullptr);
      if(usePerm)
      {
         perm.resize(n);
         if(!validPerm(perm, removed, nNew))
         {
            v.fail(where(what) + "reported column permutation is not an injection of the survivors onto 0..n'-1");
            return;
         }
         md.permuteCols(perm);
      }
      else if(!adoptOrderCols(survivors))
      {
         v.fail(where(what) + "columns after removal are not the surviving columns of the model");
         return;
      }
   }

   // known finding C06/free-nonbasic-row: a row that is nonbasic in the current basis must not become a free row
   bool freesNonbasicRow(int i, const Q& l, const Q& rr)
   {
      if(!knownKey("free-nonbasic-row")) return false;
      if(isFin(l) || isFin(rr) || !sp.hasBasis()) return false;
      if(sp.basisRowStatus(i) == Solver::BASIC) return false;
      e.count("excluded_known.free-nonbasic-row");
      return true;
   }
   void apply(const Rec& r)
   {
      using namespace soplex;
      const std::string& op = r.s(0);
      e.count("op." + op);
      int m = md.m(), n = md.n();
      bool modifies = true;
      if(op == "addrow")
      {
         size_t p = 3;
         Q l = r.q(1), rr = r.q(2);
         auto ent = readSparse(r, p);
         sp.addRowReal(LPRowReal(D(l), sv(ent), D(rr)));
         modelAddRow(l, rr, ent);
      }
      else if(op == "addrows")
      {
         int k = (int) r.i(1);
         size_t p = 2;
         LPRowSetReal rs;
         std::vector<std::tuple<Q, Q, std::vector<std::pair<int, Q>>>> rows;
         for(int t = 0; t < k; t++)
         {
            Q l = r.q(p), rr = r.q(p + 1);
            p += 2;
            auto ent = readSparse(r, p);
            rs.add(D(l), sv(ent), D(rr));
            rows.push_back(std::make_tuple(l, rr, ent));
         }
         sp.addRowsReal(rs);
         for(auto& t : rows) modelAddRow(std::get<0>(t), std::get<1>(t), std::get<2>(t));
      }
      else if(op == "addcol")
      {
         size_t p = 4;
         Q ob = r.q(1), l = r.q(2), u = r.q(3);
         auto ent = readSparse(r, p);
         sp.addColReal(LPColReal(D(ob), sv(ent), D(u), D(l)));
         modelAddCol(ob, l, u, ent);
      }
      else if(op == "addcols")
      {
         int k = (int) r.i(1);
         size_t p = 2;
         LPColSetReal cs;
         std::vector<std::tuple<Q, Q, Q, std::vector<std::pair<int, Q>>>> cols;
         for(int t = 0; t < k; t++)
         {
            Q ob = r.q(p), l = r.q(p + 1), u = r.q(p + 2);
            p += 3;
            auto ent = readSparse(r, p);
            cs.add(D(ob), D(l), sv(ent), D(u));
            cols.push_back(std::make_tuple(ob, l, u, ent));
         }
         sp.addColsReal(cs);
         for(auto& t : cols) modelAddCol(std::get<0>(t), std::get<1>(t), std::get<2>(t), std::get<3>(t));
      }
      else if(op == "chgrow" && r.i(1) < m && !freesNonbasicRow((int) r.i(1), r.q(2), r.q(3)))
      {
         int i = (int) r.i(1);
         size_t p = 4;
         Q l = r.q(2), rr = r.q(3);
         auto ent = readSparse(r, p);
         std::vector<std::pair<int, Q>> e2;
         for(auto& x : ent) if(x.first < n) e2.push_back(x);
         sp.changeRowReal(i, LPRowReal(D(l), sv(e2), D(rr)));
         md.lhs[i] = l;
         md.rhs[i] = rr;
         for(int j = 0; j < n; j++) md.A[i][j] = 0;
         for(auto& x : e2) md.A[i][x.first] = x.second;
      }
      else if(op == "chgcol" && r.i(1) < n)
      {
         int j = (int) r.i(1);
         size_t p = 5;
         Q ob = r.q(2), l = r.q(3), u = r.q(4);
         auto ent = readSparse(r, p);
         std::vector<std::pair<int, Q>> e2;
         for(auto& x : ent) if(x.first < m) e2.push_back(x);
         sp.changeColReal(j, LPColReal(D(ob), sv(e2), D(u), D(l)));
         md.obj[j] = ob;
         md.lo[j] = l;
         md.up[j] = u;
         for(int i = 0; i < m; i++) md.A[i][j] = 0;
         for(auto& x : e2) md.A[x.first][j] = x.second;
      }
      else if(op == "chglhs" && r.i(1) < m && !freesNonbasicRow((int) r.i(1), isPInf(r.q(2)) ? Q(-QINF()) : r.q(2), md.rhs[r.i(1)]))
      {
         int i = (int) r.i(1);
         Q val = isPInf(r.q(2)) ? Q(-QINF()) : std::min(r.q(2), md.rhs[i]);
         sp.changeLhsReal(i, D(val));
         md.lhs[i] = val;
      }
      else if(op == "chglhsvec" && (int) r.n() - 1 == m && m > 0)
      {
         VectorReal vec(m);
         for(int i = 0; i < m; i++)
         {
            Q val = isPInf(r.q(1 + i)) ? Q(-QINF()) : std::min(r.q(1 + i), md.rhs[i]);
            if(freesNonbasicRow(i, val, md.rhs[i])) val = md.lhs[i];
            vec[i] = D(val);
            md.lhs[i] = val;
         }
         sp.changeLhsReal(vec);
      }
      else if(op == "chgrhs" && r.i(1) < m && !freesNonbasicRow((int) r.i(1), md.lhs[r.i(1)], isNInf(r.q(2)) ? QINF() : r.q(2)))
      {
         int i = (int) r.i(1);
         Q val = isNInf(r.q(2)) ? QINF() : std::max(r.q(2), md.lhs[i]);
         sp.changeRhsReal(i, D(val));
         md.rhs[i] = val;
      }
      else if(op == "chgrhsvec" && (int) r.n() - 1 == m && m > 0)
      {
         VectorReal vec(m);
         for(int i = 0; i < m; i++)
         {
            Q val = isNInf(r.q(1 + i)) ? QINF() : std::max(r.q(1 + i), md.lhs[i]);
            if(freesNonbasicRow(i, md.lhs[i], val)) val = md.rhs[i];
            vec[i] = D(val);
            md.rhs[i] = val;
         }
         sp.changeRhsReal(vec);
      }
      else if(op == "chgrange" && r.i(1) < m && !freesNonbasicRow((int) r.i(1), r.q(2), r.q(3)))
      {
         int i = (int) r.i(1);
         sp.changeRangeReal(i, D(r.q(2)), D(r.q(3)));
         md.lhs[i] = r.q(2);
         md.rhs[i] = r.q(3);
      }
      else if(op == "chgrangevec" && (int) r.n() - 1 == 2 * m && m > 0)
      {
         VectorReal a(m), b(m);
         for(int i = 0; i < m; i++)
         {
            if(!freesNonbasicRow(i, r.q(1 + 2 * i), r.q(2 + 2 * i)))
            {
               md.lhs[i] = r.q(1 + 2 * i);
               md.rhs[i] = r.q(2 + 2 * i);
            }
            a[i] = D(md.lhs[i]);
            b[i] = D(md.rhs[i]);
         }
         sp.changeRangeReal(a, b);
      }
      else if(op == "chglo" && r.i(1) < n)
      {
         int j = (int) r.i(1);
         Q val = isPInf(r.q(2)) ? Q(-QINF()) : std::min(r.q(2), md.up[j]);
         sp.changeLowerReal(j, D(val));
         md.lo[j] = val;
      }
      else if(op == "chglovec" && (int) r.n() - 1 == n && n > 0)
      {
         VectorReal vec(n);
         for(int j = 0; j < n; j++)
         {
            Q val = isPInf(r.q(1 + j)) ? Q(-QINF()) : std::min(r.q(1 + j), md.up[j]);
            vec[j] = D(val);
            md.lo[j] = val;
         }
         sp.changeLowerReal(vec);
      }
      else if(op == "chgup" && r.i(1) < n)
      {
         int j = (int) r.i(1);
         Q val = isNInf(r.q(2)) ? QINF() : std::max(r.q(2), md.lo[j]);
         sp.changeUpperReal(j, D(val));
         md.up[j] = val;
      }
      else if(op == "chgupvec" && (int) r.n() - 1 == n && n > 0)
      {
         VectorReal vec(n);
         for(int j = 0; j < n; j++)
         {
            Q val = isNInf(r.q(1 + j)) ? QINF() : std::max(r.q(1 + j), md.lo[j]);
            vec[j] = D(val);
            md.up[j] = val;
         }
         sp.changeUpperReal(vec);
      }
      else if(op == "chgbnd" && r.i(1) < n)
      {
         int j = (int) r.i(1);
         sp.changeBoundsReal(j, D(r.q(2)), D(r.q(3)));
         md.lo[j] = r.q(2);
         md.up[j] = r.q(3);
      }
      else if(op == "chgbndvec" && (int) r.n() - 1 == 2 * n && n > 0)
      {
         VectorReal a(n), b(n);
         for(int j = 0; j < n; j++)
         {
            md.lo[j] = r.q(1 + 2 * j);
            md.up[j] = r.q(2 + 2 * j);
            a[j] = D(md.lo[j]);
            b[j] = D(md.up[j]);
         }
         sp.changeBoundsReal(a, b);
      }
      else if(op == "chgobj" && r.i(1) < n)
      {
         int j = (int) r.i(1);
         sp.changeObjReal(j, D(r.q(2)));
         md.obj[j] = r.q(2);
      }
      else if(op == "chgobjvec" && (int) r.n() - 1 == n && n > 0)
      {
         VectorReal vec(n);
         for(int j = 0; j < n; j++)
         {
            md.obj[j] = r.q(1 + j);
            vec[j] = D(md.obj[j]);
         }
         sp.changeObjReal(vec);
      }
      else if(op == "chgel" && r.i(1) < m && r.i(2) < n)
      {
         sp.changeElementReal((int) r.i(1), (int) r.i(2), D(r.q(3)));
         md.A[r.i(1)][r.i(2)] = r.q(3);
      }
      else if(op == "rmrow" && r.i(1) < m)
      {
         int i = (int) r.i(1);
         sp.removeRowReal(i);
         // documented (dataset.h / svsetbase.h): the last element is moved into the position of the removed one
         std::vector<int> perm(m);
         for(int k = 0; k < m; k++) perm[k] = k;
         perm[i] = -1;
         if(i != m - 1) perm[m - 1] = i;
         md.permuteRows(perm);
         if(everSolved) removalAfterSolve = true;
      }
      else if(op == "rmrowsperm" && (int) r.n() - 1 == m && m > 0)
      {
         std::vector<bool> rem(m);
         for(int i = 0; i < m; i++) rem[i] = r.i(1 + i) != 0;
         removeRows(op, rem, [&](int* perm)
         {
            for(int i = 0; i < m; i++) perm[i] = rem[i] ? -1 : 0;
            sp.removeRowsReal(perm);
         }, true);
         if(everSolved) removalAfterSolve = true;
      }
      else if(op == "rmrowsidx" && m > 0)
      {
         int k = (int) r.i(2);
         std::vector<int> idx;
         std::vector<bool> rem(m, false);
         bool okIdx = true;
         for(int t = 0; t < k; t++)
         {
            int i = (int) r.i(3 + t);
            if(i >= m || rem[i]) okIdx = false;
            else
            {
               rem[i] = true;
               idx.push_back(i);
            }
         }
         if(okIdx && !idx.empty())
         {
            removeRows(op, rem, [&](int* perm)
            {
               sp.removeRowsReal(idx.data(), (int) idx.size(), perm);
            }, r.i(1) != 0);
            if(everSolved) removalAfterSolve = true;
         }
         else modifies = false;
      }
      else if(op == "rmrowrange" && r.i(3) < m)
      {
         int a = (int) r.i(2), b = (int) r.i(3);
         std::vector<bool> rem(m, false);
         for(int i = a; i <= b; i++) rem[i] = true;
         removeRows(op, rem, [&](int* perm)
         {
            sp.removeRowRangeReal(a, b, perm);
         }, r.i(1) != 0);
         if(everSolved) removalAfterSolve = true;
      }
      else if(op == "rmcol" && r.i(1) < n)
      {
         int j = (int) r.i(1);
         sp.removeColReal(j);
         std::vector<int> perm(n);
         for(int k = 0; k < n; k++) perm[k] = k;
         perm[j] = -1;
         if(j != n - 1) perm[n - 1] = j;
         md.permuteCols(perm);
         if(everSolved) removalAfterSolve = true;
      }
      else if(op == "rmcolsperm" && (int) r.n() - 1 == n && n > 0)
      {
         std::vector<bool> rem(n);
         for(int j = 0; j < n; j++) rem[j] = r.i(1 + j) != 0;
         removeCols(op, rem, [&](int* perm)
         {
            for(int j = 0; j < n; j++) perm[j] = rem[j] ? -1 : 0;
            sp.removeColsReal(perm);
         }, true);
         if(everSolved) removalAfterSolve = true;
      }
      else if(op == "rmcolsidx" && n > 0)
      {
         int k = (int) r.i(2);
         std::vector<int> idx;
         std::vector<bool> rem(n, false);
         bool okIdx = true;
         for(int t = 0; t < k; t++)
         {
            int j = (int) r.i(3 + t);
            if(j >= n || rem[j]) okIdx = false;
            else
            {
               rem[j] = true;
               idx.push_back(j);
            }
         }
         if(okIdx && !idx.empty())
         {
            removeCols(op, rem, [&](int* perm)
            {
               sp.removeColsReal(idx.data(), (int) idx.size(), perm);
            }, r.i(1) != 0);
            if(everSolved) removalAfterSolve = true;
         }
         else modifies = false;
      }
      else if(op == "rmcolrange" && r.i(3) < n)
      {
         int a = (int) r.i(2), b = (int) r.i(3);
         std::vector<bool> rem(n, false);
         for(int j = a; j <= b; j++) rem[j] = true;
         removeCols(op, rem, [&](int* perm)
         {
            sp.removeColRangeReal(a, b, perm);
         }, r.i(1) != 0);
         if(everSolved) removalAfterSolve = true;
      }
      else if(op == "clearlp")
      {
         sp.clearLPReal();
         int sense = md.sense;
         Q off = md.offset;
         md = LP();
         md.sense = sense;
         md.offset = off;
      }
      else if(op == "sense")
      {
         sp.setIntParam(SoPlex::OBJSENSE, r.i(1) == 1 ? SoPlex::OBJSENSE_MAXIMIZE : SoPlex::OBJSENSE_MINIMIZE);
         md.sense = (int) r.i(1);
      }
      else if(op == "offset")
      {
         // the offset is a parameter, not one of the modifications the property lists: no invalidation is claimed
         modifies = false;
         sp.setRealParam(SoPlex::OBJ_OFFSET, D(r.q(1)));
         md.offset = r.q(1);
      }
      else if(op == "solve")
      {
         modifies = false;
         judgeSolve(op);
      }
      else if(op == "basisrt")
      {
         modifies = false;
         if(sp.hasBasis())
         {
            std::vector<VarStatus> rs(m + 1), cs(n + 1), rs2(m + 1), cs2(n + 1);
            sp.getBasis(rs.data(), cs.data());
            sp.setBasis(rs.data(), cs.data());
            if(!sp.hasBasis()) v.fail(where(op) + "hasBasis() false after setBasis of the basis just read");
            else
            {
               sp.getBasis(rs2.data(), cs2.data());
               for(int i = 0; i < m && v.ok; i++) if(rs[i] != rs2[i] && !(rs2[i] == Solver::FIXED && md.lhs[i] == md.rhs[i])) v.fail(where(op) + "row status changed by setBasis/getBasis round trip");
               for(int j = 0; j < n && v.ok; j++) if(cs[j] != cs2[j] && !(cs2[j] == Solver::FIXED && md.lo[j] == md.up[j])) v.fail(where(op) + "column status changed by setBasis/getBasis round trip");
            }
            e.count("basis_roundtrip");
         }
      }
      else if(op == "clearbasis")
      {
         modifies = false;
         sp.clearBasis();
         if(sp.hasBasis()) v.fail(where(op) + "hasBasis() true after clearBasis()");
      }
      else
      {
         modifies = false;
         e.count("op.skipped");
      }
      if(getenv("VF_DUMPLP")) fprintf(stderr, "---- model after step %d\ncase X\n%splanted 0 0\nend\n", step, lpText(md).c_str());
      if(getenv("VF_TRACE"))
      {
         fprintf(stderr, "[%d] %s -> status %s hasBasis %d hasSol %d dims %dx%d", step, op.c_str(), statusName(sp.status()), (int) sp.hasBasis(), (int) sp.hasSol(), sp.numRows(), sp.numCols());
         if(sp.hasBasis())
         {
            std::vector<VarStatus> rs(sp.numRows() + 1), cs(sp.numCols() + 1);
            sp.getBasis(rs.data(), cs.data());
            fprintf(stderr, " rows:");
            for(int i = 0; i < sp.numRows(); i++) fprintf(stderr, " %d", (int) rs[i]);
            fprintf(stderr, " cols:");
            for(int j = 0; j < sp.numCols(); j++) fprintf(stderr, " %d", (int) cs[j]);
         }
         fprintf(stderr, "%s\n", v.ok ? "" : (" FAIL " + v.msg).c_str());
      }
      if(!v.ok) return;
      compareAll(op);
      if(modifies) modifiedSinceBasis = true;
      if(op == "solve" || op == "basisrt" || op == "clearbasis") modifiedSinceBasis = false;
      if(modifies) afterModification(op);
      checkBasis(op);
   }

   Verdict run()
   {
      using namespace soplex;
      quiet(sp);
      sp.setIntParam(SoPlex::ITERLIMIT, 50000);
      std::string err;
      if(!applyParams(sp, c, &err))
      {
         v.fail(err);
         return v;
      }
      tol = Tol::real(sp.realParam(SoPlex::FEASTOL), sp.realParam(SoPlex::OPTTOL));
      md = c.lp;
      loadReal(sp, md, 0);
      compareAll("load");
      for(auto& r : c.recs)
      {
         if(r.tag != "op") continue;
         step++;
         apply(r);
         if(!v.ok) return v;
      }
      if(modifiedWhileScaled) e.count("history.modified_while_scaled");
      if(prop == "C09") v.nontrivial = modifiedWhileScaled && nSolves >= 2;
      else if(prop == "C04") v.nontrivial = sawNontrivialBasis;
      else v.nontrivial = solveAfterRemovalAfterSolve;
      return v;
   }
};
} // namespace vf
