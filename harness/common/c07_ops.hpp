// c07_ops.hpp - the operation interpreter of the C07 harness (included by c07.cpp after struct Runner)
#pragma once

void Runner::apply(const Rec& r)
{
   const std::string& op = r.s(0);
   if(trace) fprintf(stderr, "[%d] %s mode=%s mq=%dx%d mr=%dx%d ratLP=%d (%d rows) scaled=%d\n", step, op.c_str(), modeName(mode), mq.m(), mq.n(), mr.m(), mr.n(),
                        (int) SoPlexVerifAccess::hasRationalLP(sp), SoPlexVerifAccess::hasRationalLP(sp) ? sp.numRowsRational() : -1, (int) SoPlexVerifAccess::isRealLPScaled(sp));
   if(op == "mode")
   {
      switchMode((int) r.i(1));
      if(v.ok && !stop) compare(op);
      return;
   }
   if(op == "sense")
   {
      int s = r.i(1) == 1 ? 1 : -1;
      sp.setIntParam(SoPlex::OBJSENSE, s == 1 ? SoPlex::OBJSENSE_MAXIMIZE : SoPlex::OBJSENSE_MINIMIZE);
      sense = s;
      e.count(std::string("op.sense.") + modeName(mode));
      compare(op);
      return;
   }
   if(op == "offset")
   {
      double d = toD(r.q(1));
      sp.setRealParam(SoPlex::OBJ_OFFSET, d);
      clearedWithOffset = false;   // setRealParam(.., init = true) writes the value into both LPs again, changed or not
      offset = Q(d);
      e.count(std::string("op.offset.") + modeName(mode));
      compare(op);
      return;
   }
   if(op == "syncreal")
   {
      if(mode == M_MANUAL && underSync()) return;
      e.count(std::string("op.syncLPReal.") + modeName(mode));
      sp.syncLPReal();          // documented: acts only in manual mode
      if(mode == M_MANUAL)
      {
         synced = true;
         lS[0] = rS[0];
         lS[1] = rS[1];
         compare(op, true);
      }
      else compare(op);
      return;
   }
   if(op == "syncrat")
   {
      if(mode == M_MANUAL && scaledCopy("syncLPRational")) return;
      e.count(std::string("op.syncLPRational.") + modeName(mode));
      sp.syncLPRational();
      if(mode == M_MANUAL)
      {
         mq = exactOf(mr);
         synced = true;
         rS[0] = lS[0];
         rS[1] = lS[1];
      }
      compare(op);
      return;
   }
   if(op == "xsolve" || op == "fsolve")
   {
      solve(op == "xsolve");
      return;
   }
   if(op == "probe")
   {
      probe((int) r.i(1));
      return;
   }
   int f = (int) r.i(1);
   if(f < 0 || f > 2) f = 0;
   if(f != IF_REAL && mode == M_ONLYREAL)
   {
      e.count("op.skipped_rational_interface_without_rational_lp");   // assert(_rationalLP != 0) in every rational modifier
      return;
   }
   if(SoPlexVerifAccess::isRealLPScaled(sp) && recExtreme(r))
   {
      e.count("excluded.extreme_value_on_persistently_scaled_lp");
      return;
   }
   applyMod(r, op, f);
   if(getenv("VF_DUMP"))
   {
      for(int i = 0; i < sp.numRows(); i++)
      {
         DSVectorReal rr;
         sp.getRowVectorReal(i, rr);
         fprintf(stderr, "   realrow %d [%g,%g]:", i, sp.lhsReal(i), sp.rhsReal(i));
         for(int k = 0; k < rr.size(); k++) fprintf(stderr, " (%d,%g)", rr.index(k), rr.value(k));
         fprintf(stderr, "\n");
      }
      for(int j = 0; j < sp.numCols(); j++)
      {
         DSVectorReal cc;
         sp.getColVectorReal(j, cc);
         fprintf(stderr, "   realcol %d:", j);
         for(int k = 0; k < cc.size(); k++) fprintf(stderr, " (%d,%g)", cc.index(k), cc.value(k));
         fprintf(stderr, "\n");
      }
   }
   if(!v.ok || stop) return;
   if(ratOnlyThenStop)
   {
      if(cmpRat(op + "/" + ifName(f), mq)) cmpTypes(op + "/" + ifName(f), mq);
      stop = true;
      return;
   }
   if(mode == M_MANUAL) synced = false;
   compare(op + "/" + ifName(f));
}

void Runner::applyMod(const Rec& r, const std::string& op, int f)
{
   LP& T = tgt(f);
   int m = T.m(), n = T.n();
   bool executed = true;
   Cur cu(r, 2);
   // left-hand side / lower bound of entity i as seen by the other LP in AUTO mode (for clamping real arguments)
   auto R_rhs = [&](int i)
   {
      return mode == M_AUTO ? mr.rhs[i] : T.rhs[i];
   };
   auto R_lhs = [&](int i)
   {
      return mode == M_AUTO ? mr.lhs[i] : T.lhs[i];
   };
   auto R_up = [&](int j)
   {
      return mode == M_AUTO ? mr.up[j] : T.up[j];
   };
   auto R_lo = [&](int j)
   {
      return mode == M_AUTO ? mr.lo[j] : T.lo[j];
   };

   if(op == "addrow")
   {
      int ext = (int) cu.i();
      Q l, u;
      readPair(cu, f, l, u);
      Ent ent = readSparse(cu, f, n, ext);
      if(underCreate(f, ent, n)) return;
      if(f == IF_REAL) sp.addRowReal(LPRowReal(dd(l), svR(ent), dd(u)));
      else if(f == IF_RAT) sp.addRowRational(LPRowRational(rq(l), svQ(ent), rq(u)));
      else
      {
         std::vector<Q> vals;
         std::vector<int> idx;
         for(auto& x : ent)
         {
            idx.push_back(x.first);
            vals.push_back(x.second);
         }
         idx.push_back(0);
         if(gmpZero(ent)) return;
         MpqArr L(l), U(u), V(vals);
         sp.addRowRational(L.get(), V.get(), idx.data(), (int) ent.size(), U.get());
      }
      mAddRow(T, l, u, ent);
   }
   else if(op == "addcol")
   {
      int ext = (int) cu.i();
      Q ob = cv(f, cu.q());
      Q l, u;
      readPair(cu, f, l, u);
      Ent ent = readSparse(cu, f, m, ext);
      if(underCreate(f, ent, m)) return;
      if(f == IF_REAL) sp.addColReal(LPColReal(dd(ob), svR(ent), dd(u), dd(l)));
      else if(f == IF_RAT) sp.addColRational(LPColRational(rq(ob), svQ(ent), rq(u), rq(l)));
      else
      {
         std::vector<Q> vals;
         std::vector<int> idx;
         for(auto& x : ent)
         {
            idx.push_back(x.first);
            vals.push_back(x.second);
         }
         idx.push_back(0);
         if(gmpZero(ent)) return;
         MpqArr O(ob), L(l), U(u), V(vals);
         sp.addColRational(O.get(), L.get(), V.get(), idx.data(), (int) ent.size(), U.get());
      }
      mAddCol(T, ob, l, u, ent);
   }
   else if(op == "addrows" || op == "addcols")
   {
      bool rows = op == "addrows";
      int ext = (int) cu.i(), k = (int) cu.i();
      if(f == IF_GMP) ext = 0;   // the GMP array forms assert indices < old dimension ("@todo" in spxlpbase.h)
      std::vector<Q> obs, ls, us;
      std::vector<Ent> ents;
      int dim = rows ? n : m;
      bool zeroEntry = false;
      for(int t = 0; t < k && cu.left() >= 3; t++)
      {
         Q ob = 0, l, u;
         if(!rows) ob = cv(f, cu.q());
         readPair(cu, f, l, u);
         Ent ent = readSparse(cu, f, dim, ext);
         if(ext > 0) for(auto& x : ent) dim = std::max(dim, x.first + 1);   // later members may address the implicitly created ones
         for(auto& x : ent) if(x.second == 0) zeroEntry = true;
         obs.push_back(ob);
         ls.push_back(l);
         us.push_back(u);
         ents.push_back(ent);
      }
      k = (int) ents.size();
      // known finding: addRowsRational(LPRowSetRational) / addColsRational(LPColSetRational) in auto mode with a coefficient that
      // underflows to 0.0: doAddRows/doAddCols of the real LP count the explicit zero but do not store it
      bool under = false;
      if(f == IF_RAT && mode == M_AUTO)
         for(auto& en : ents) for(auto& x : en) if(x.second != 0 && qabs(x.second) < q2pow(-1074)) under = true;
      if(under) e.count("signature.plural_rational_add_with_underflowing_coefficient");
      if(k == 0) executed = false;
      else if(under && knownKey(K_ADDUNDER))
      {
         e.count(std::string("excluded_known.") + K_ADDUNDER);
         executed = false;
      }
      else if(f == IF_GMP && zeroEntry && gmpZero(Ent(1, {0, Q(0)}))) executed = false;
      else
      {
         if(f == IF_REAL && rows)
         {
            LPRowSetReal rs;
            for(int t = 0; t < k; t++) rs.add(dd(ls[t]), svR(ents[t]), dd(us[t]));
            sp.addRowsReal(rs);
         }
         else if(f == IF_REAL)
         {
            LPColSetReal cs;
            for(int t = 0; t < k; t++) cs.add(dd(obs[t]), dd(ls[t]), svR(ents[t]), dd(us[t]));
            sp.addColsReal(cs);
         }
         else if(f == IF_RAT && rows)
         {
            LPRowSetRational rs;
            for(int t = 0; t < k; t++) rs.add(rq(ls[t]), svQ(ents[t]), rq(us[t]));
            sp.addRowsRational(rs);
         }
         else if(f == IF_RAT)
         {
            LPColSetRational cs;
            for(int t = 0; t < k; t++) cs.add(rq(obs[t]), rq(ls[t]), svQ(ents[t]), rq(us[t]));
            sp.addColsRational(cs);
         }
         else
         {
            std::vector<Q> vals;
            std::vector<int> idx, starts, lens;
            for(int t = 0; t < k; t++)
            {
               starts.push_back((int) vals.size());
               lens.push_back((int) ents[t].size());
               for(auto& x : ents[t])
               {
                  idx.push_back(x.first);
                  vals.push_back(x.second);
               }
            }
            int nv = (int) vals.size();
            idx.push_back(0);
            MpqArr O(obs), L(ls), U(us), V(vals);
            if(rows) sp.addRowsRational(L.get(), V.get(), idx.data(), starts.data(), lens.data(), k, nv, U.get());
            else sp.addColsRational(O.get(), L.get(), V.get(), idx.data(), starts.data(), lens.data(), k, nv, U.get());
         }
         for(int t = 0; t < k; t++)
         {
            if(rows) mAddRow(T, ls[t], us[t], ents[t]);
            else mAddCol(T, obs[t], ls[t], us[t], ents[t]);
         }
      }
   }
   else if(op == "chgrow" && m > 0)
   {
      int i = (int)(cu.i() % m);
      Q l, u;
      readPair(cu, f, l, u);
      Ent ent = readSparse(cu, f, n, 0);
      if(f == IF_REAL) sp.changeRowReal(i, LPRowReal(dd(l), svR(ent), dd(u)));
      else sp.changeRowRational(i, LPRowRational(rq(l), svQ(ent), rq(u)));
      T.lhs[i] = l;
      T.rhs[i] = u;
      for(int j = 0; j < n; j++) T.A[i][j] = 0;
      for(auto& x : ent) T.A[i][x.first] = x.second;
   }
   else if(op == "chgcol" && n > 0)
   {
      int j = (int)(cu.i() % n);
      Q ob = cv(f, cu.q());
      Q l, u;
      readPair(cu, f, l, u);
      Ent ent = readSparse(cu, f, m, 0);
      if(f == IF_REAL) sp.changeColReal(j, LPColReal(dd(ob), svR(ent), dd(u), dd(l)));
      else sp.changeColRational(j, LPColRational(rq(ob), svQ(ent), rq(u), rq(l)));
      T.obj[j] = ob;
      T.lo[j] = l;
      T.up[j] = u;
      for(int i = 0; i < m; i++) T.A[i][j] = 0;
      for(auto& x : ent) T.A[x.first][j] = x.second;
   }
   else if(op == "chglhs" && m > 0)
   {
      int i = (int)(cu.i() % m);
      Q val = fitLE(f, cv(f, cu.q()), T.rhs[i], R_rhs(i));
      if(f == IF_REAL) sp.changeLhsReal(i, dd(val));
      else if(f == IF_RAT) sp.changeLhsRational(i, rq(val));
      else
      {
         MpqArr a(val);
         sp.changeLhsRational(i, a.get());
      }
      T.lhs[i] = val;
   }
   else if(op == "chgrhs" && m > 0)
   {
      int i = (int)(cu.i() % m);
      Q val = fitGE(f, cv(f, cu.q()), T.lhs[i], R_lhs(i));
      if(f == IF_REAL) sp.changeRhsReal(i, dd(val));
      else sp.changeRhsRational(i, rq(val));
      T.rhs[i] = val;
   }
   else if((op == "chglhsv" || op == "chgrhsv") && m > 0)
   {
      bool lhs = op == "chglhsv";
      int sz = m;
      if(!lhs)
      {
         long raw = cu.i();
         if(f == IF_GMP && raw >= 0) sz = (int)(raw % (m + 1));
      }
      size_t base = cu.p, len = cu.left();
      if(len == 0) executed = false;
      else
      {
         std::vector<Q> vals(m);
         for(int i = 0; i < m; i++)
         {
            Q x = cv(f, r.q(base + i % len));
            vals[i] = lhs ? fitLE(f, x, T.rhs[i], R_rhs(i)) : fitGE(f, x, T.lhs[i], R_lhs(i));
         }
         if(f == IF_REAL)
         {
            VectorReal vec(m);
            for(int i = 0; i < m; i++) vec[i] = dd(vals[i]);
            if(lhs) sp.changeLhsReal(vec);
            else sp.changeRhsReal(vec);
         }
         else if(f == IF_RAT || lhs)
         {
            VectorRational vec(m);
            for(int i = 0; i < m; i++) vec[i] = rq(vals[i]);
            if(lhs) sp.changeLhsRational(vec);
            else sp.changeRhsRational(vec);
         }
         else
         {
            std::vector<Q> pre(vals.begin(), vals.begin() + sz);
            MpqArr a(pre);
            sp.changeRhsRational(a.get(), sz);
            e.count(sz == m ? "gmp_rhs_array.full" : "gmp_rhs_array.prefix");
         }
         for(int i = 0; i < (lhs ? m : sz); i++)(lhs ? T.lhs[i] : T.rhs[i]) = vals[i];
      }
   }
   else if(op == "chgrange" && m > 0)
   {
      int i = (int)(cu.i() % m);
      Q l, u;
      readPair(cu, f, l, u);
      bool snap = false;   // EQ(lhs, rhs, epsilon) as evaluated in double arithmetic on any admissible image of the two sides
      if(l != u && isFin(l) && isFin(u))
      {
         double L[2] = {floorD(l), ceilD(l)}, U[2] = {floorD(u), ceilD(u)};
         for(int a = 0; a < 2; a++) for(int b = 0; b < 2; b++) if(L[a] != U[b] && std::fabs(L[a] - U[b]) <= 1e-16) snap = true;
      }
      if(snap && (f == IF_REAL || mode == M_AUTO))
      {
         // SPxSolverBase::changeRange(i,lhs,rhs) stores rhs := lhs when |rhs - lhs| <= epsilon (the real LP's zero tolerance; the
         // vector form and changeRow do not): which doubles the real LP must hold is not stated, so the call is not issued
         e.count("excluded.changeRange_sides_within_real_zero_tolerance");
         e.count("op.skipped." + op);
         return;
      }
      if(f == IF_REAL) sp.changeRangeReal(i, dd(l), dd(u));
      else if(f == IF_RAT) sp.changeRangeRational(i, rq(l), rq(u));
      else
      {
         MpqArr a(l), b(u);
         sp.changeRangeRational(i, a.get(), b.get());
      }
      T.lhs[i] = l;
      T.rhs[i] = u;
   }
   else if(op == "chgrangev" && m > 0 && cu.left() >= 2)
   {
      size_t base = cu.p, np = cu.left() / 2;
      std::vector<Q> ls(m), us(m);
      for(int i = 0; i < m; i++)
      {
         ls[i] = cv(f, r.q(base + 2 * (i % np)));
         us[i] = cv(f, r.q(base + 2 * (i % np) + 1));
         if(ls[i] > us[i]) std::swap(ls[i], us[i]);
      }
      if(f == IF_REAL)
      {
         VectorReal a(m), b(m);
         for(int i = 0; i < m; i++)
         {
            a[i] = dd(ls[i]);
            b[i] = dd(us[i]);
         }
         sp.changeRangeReal(a, b);
      }
      else
      {
         VectorRational a(m), b(m);
         for(int i = 0; i < m; i++)
         {
            a[i] = rq(ls[i]);
            b[i] = rq(us[i]);
         }
         sp.changeRangeRational(a, b);
      }
      T.lhs = ls;
      T.rhs = us;
   }
   else if(op == "chglo" && n > 0)
   {
      int j = (int)(cu.i() % n);
      Q val = fitLE(f, cv(f, cu.q()), T.up[j], R_up(j));
      if(f == IF_REAL) sp.changeLowerReal(j, dd(val));
      else if(f == IF_RAT) sp.changeLowerRational(j, rq(val));
      else
      {
         MpqArr a(val);
         sp.changeLowerRational(j, a.get());
      }
      T.lo[j] = val;
   }
   else if(op == "chgup" && n > 0)
   {
      int j = (int)(cu.i() % n);
      Q val = fitGE(f, cv(f, cu.q()), T.lo[j], R_lo(j));
      if(f == IF_REAL) sp.changeUpperReal(j, dd(val));
      else if(f == IF_RAT) sp.changeUpperRational(j, rq(val));
      else
      {
         MpqArr a(val);
         sp.changeUpperRational(j, a.get());
      }
      T.up[j] = val;
   }
   else if((op == "chglov" || op == "chgupv" || op == "chgobjv") && n > 0 && cu.left() >= 1)
   {
      size_t base = cu.p, len = cu.left();
      std::vector<Q> vals(n);
      for(int j = 0; j < n; j++)
      {
         Q x = cv(f, r.q(base + j % len));
         vals[j] = op == "chglov" ? fitLE(f, x, T.up[j], R_up(j)) : op == "chgupv" ? fitGE(f, x, T.lo[j], R_lo(j)) : x;
      }
      if(f == IF_REAL)
      {
         VectorReal vec(n);
         for(int j = 0; j < n; j++) vec[j] = dd(vals[j]);
         if(op == "chglov") sp.changeLowerReal(vec);
         else if(op == "chgupv") sp.changeUpperReal(vec);
         else sp.changeObjReal(vec);
      }
      else
      {
         VectorRational vec(n);
         for(int j = 0; j < n; j++) vec[j] = rq(vals[j]);
         if(op == "chglov") sp.changeLowerRational(vec);
         else if(op == "chgupv") sp.changeUpperRational(vec);
         else sp.changeObjRational(vec);
      }
      (op == "chglov" ? T.lo : op == "chgupv" ? T.up : T.obj) = vals;
   }
   else if(op == "chgbnd" && n > 0)
   {
      int j = (int)(cu.i() % n);
      Q l, u;
      readPair(cu, f, l, u);
      if(f == IF_REAL) sp.changeBoundsReal(j, dd(l), dd(u));
      else if(f == IF_RAT) sp.changeBoundsRational(j, rq(l), rq(u));
      else
      {
         MpqArr a(l), b(u);
         sp.changeBoundsRational(j, a.get(), b.get());
      }
      T.lo[j] = l;
      T.up[j] = u;
   }
   else if(op == "chgbndv" && n > 0 && cu.left() >= 2)
   {
      size_t base = cu.p, np = cu.left() / 2;
      std::vector<Q> ls(n), us(n);
      for(int j = 0; j < n; j++)
      {
         ls[j] = cv(f, r.q(base + 2 * (j % np)));
         us[j] = cv(f, r.q(base + 2 * (j % np) + 1));
         if(ls[j] > us[j]) std::swap(ls[j], us[j]);
      }
      if(f == IF_REAL)
      {
         VectorReal a(n), b(n);
         for(int j = 0; j < n; j++)
         {
            a[j] = dd(ls[j]);
            b[j] = dd(us[j]);
         }
         sp.changeBoundsReal(a, b);
      }
      else
      {
         VectorRational a(n), b(n);
         for(int j = 0; j < n; j++)
         {
            a[j] = rq(ls[j]);
            b[j] = rq(us[j]);
         }
         sp.changeBoundsRational(a, b);
      }
      T.lo = ls;
      T.up = us;
   }
   else if(op == "chgobj" && n > 0)
   {
      int j = (int)(cu.i() % n);
      Q val = cv(f, cu.q());
      if(f == IF_REAL) sp.changeObjReal(j, dd(val));
      else if(f == IF_RAT) sp.changeObjRational(j, rq(val));
      else
      {
         MpqArr a(val);
         sp.changeObjRational(j, a.get());
      }
      T.obj[j] = val;
   }
   else if(op == "chgel" && m > 0 && n > 0)
   {
      int i = (int)(cu.i() % m), j = (int)(cu.i() % n);
      Q val = cv(f, cu.q());
      Q a = qabs(val);
      // known finding: SPxLPBase<Rational>::changeElement applies the floating-point zero tolerance (1e-16) to the exact value,
      // the GMP form tests mpq_get_d(val) != 0 (values below the subnormal range count as zero)
      // realDrops: a double image of the value is at or below the floating-point zero tolerance (EPSILON_ZERO = 1e-16).
      // SPxLPBase<double>::changeElement drops such values while addRow/changeRow keep them: which double the real LP must
      // hold for this call is not stated, so calls that write such a value into the real LP are not issued
      bool realDrops = a != 0 && floorD(a) <= 1e-16;
      bool sig = a != 0 && ((f == IF_RAT && a <= Q(1e-16)) || (f == IF_GMP && a < q2pow(-1074)));
      if(realDrops && f == IF_REAL)
      {
         e.count("excluded.changeElement_below_real_zero_tolerance.real");
         executed = false;
      }
      else if(sig && knownKey(K_ELEMEPS))
      {
         e.count(std::string("excluded_known.") + K_ELEMEPS);
         executed = false;
      }
      else
      {
         if(sig) e.count("signature.changeElementRational_tiny_value");
         if(f == IF_RAT) sp.changeElementRational(i, j, rq(val));
         else if(f == IF_GMP)
         {
            MpqArr x(val);
            sp.changeElementRational(i, j, x.get());
         }
         else sp.changeElementReal(i, j, dd(val));
         T.A[i][j] = val;
         if(realDrops && mode == M_AUTO)
         {
            // the rational LP must hold the value; the real LP may have dropped it: only the exact side is judged, then the history ends
            e.count(std::string("unjudged.real_side_after_changeElement_below_real_zero_tolerance.") + ifName(f));
            ratOnlyThenStop = true;
         }
      }
   }
   else if(op.compare(0, 5, "rmrow") == 0 && m > 0 && gmpStale(true, f)) executed = false;
   else if(op.compare(0, 5, "rmcol") == 0 && n > 0 && gmpStale(false, f)) executed = false;
   else if(op == "rmrow" && m > 0)
   {
      int i = (int)(cu.i() % m);
      if(f == IF_REAL) sp.removeRowReal(i);
      else sp.removeRowRational(i);
      std::vector<int> perm(m);
      for(int k = 0; k < m; k++) perm[k] = k;
      perm[i] = -1;
      if(i != m - 1) perm[m - 1] = i;     // documented (dataset.h): the last element moves into the hole
      T.permuteRows(perm);
   }
   else if(op == "rmcol" && n > 0)
   {
      int j = (int)(cu.i() % n);
      if(f == IF_REAL) sp.removeColReal(j);
      else sp.removeColRational(j);
      std::vector<int> perm(n);
      for(int k = 0; k < n; k++) perm[k] = k;
      perm[j] = -1;
      if(j != n - 1) perm[n - 1] = j;
      T.permuteCols(perm);
   }
   else if((op == "rmrowsperm" || op == "rmcolsperm") && cu.left() >= 1 && (op == "rmrowsperm" ? m : n) > 0)
   {
      bool rows = op == "rmrowsperm";
      int dim = rows ? m : n;
      size_t base = cu.p, len = cu.left();
      std::vector<bool> rem(dim);
      for(int i = 0; i < dim; i++) rem[i] = r.i(base + i % len) != 0;
      removal(op, f, rows, rem, true, [&](int* perm)
      {
         for(int i = 0; i < dim; i++) perm[i] = rem[i] ? -1 : 0;
         if(rows)
         {
            if(f == IF_REAL) sp.removeRowsReal(perm);
            else sp.removeRowsRational(perm);
         }
         else
         {
            if(f == IF_REAL) sp.removeColsReal(perm);
            else sp.removeColsRational(perm);
         }
      });
   }
   else if((op == "rmrowsidx" || op == "rmcolsidx") && (op == "rmrowsidx" ? m : n) > 0)
   {
      bool rows = op == "rmrowsidx";
      int dim = rows ? m : n;
      bool usePerm = cu.i() != 0;
      int k = (int) cu.i();
      std::vector<int> idx;
      std::vector<bool> rem(dim, false);
      for(int t = 0; t < k; t++)
      {
         int i = (int)(cu.i() % dim);
         if(rem[i]) continue;
         rem[i] = true;
         idx.push_back(i);
      }
      if(idx.empty()) executed = false;
      else removal(op, f, rows, rem, usePerm, [&](int* perm)
      {
         if(rows)
         {
            if(f == IF_REAL) sp.removeRowsReal(idx.data(), (int) idx.size(), perm);
            else sp.removeRowsRational(idx.data(), (int) idx.size(), perm);
         }
         else
         {
            if(f == IF_REAL) sp.removeColsReal(idx.data(), (int) idx.size(), perm);
            else sp.removeColsRational(idx.data(), (int) idx.size(), perm);
         }
      });
   }
   else if((op == "rmrowrange" || op == "rmcolrange") && (op == "rmrowrange" ? m : n) > 0)
   {
      bool rows = op == "rmrowrange";
      int dim = rows ? m : n;
      bool usePerm = cu.i() != 0;
      int a = (int)(cu.i() % dim), b = a + (int)(cu.i() % (dim - a));
      std::vector<bool> rem(dim, false);
      for(int i = a; i <= b; i++) rem[i] = true;
      removal(op, f, rows, rem, usePerm, [&](int* perm)
      {
         if(rows)
         {
            if(f == IF_REAL) sp.removeRowRangeReal(a, b, perm);
            else sp.removeRowRangeRational(a, b, perm);
         }
         else
         {
            if(f == IF_REAL) sp.removeColRangeReal(a, b, perm);
            else sp.removeColRangeRational(a, b, perm);
         }
      });
   }
   else if(op == "clearlp")
   {
      if(f == IF_REAL) sp.clearLPReal();
      else sp.clearLPRational();
      mClear(T);
      if(offset != 0) clearedWithOffset = true;   // known finding: SPxLPBase::clear() zeroes the offset inside the LP, OBJ_OFFSET keeps its value
   }
   else executed = false;

   if(!executed)
   {
      e.count("op.skipped." + op);
      return;
   }
   e.count("op." + op + "." + ifName(f) + "." + modeName(mode));
   {
      bool touchesRat = mode == M_AUTO || (mode == M_MANUAL && f != IF_REAL);
      bool rowAdd = op == "addrow" || op == "addrows", colAdd = op == "addcol" || op == "addcols";
      bool touchesReal = mode == M_AUTO || mode == M_ONLYREAL || (mode == M_MANUAL && f == IF_REAL);
      if(rowAdd || colAdd)
      {
         int k = rowAdd ? 0 : 1;
         if(touchesRat) rS[k] = f == IF_GMP;
         if(touchesReal) lS[k] = false;
      }
   }
   if(f == IF_REAL) sawRealMod = true;
   else sawRatMod = true;
}
