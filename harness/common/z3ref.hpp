// z3ref.hpp - z3 as an independent exact LP decision procedure (second opinion / adjudicator).
#pragma once
#include <z3++.h>
#include "vf.hpp"

namespace vf
{
inline z3::expr z3q(z3::context& c, const Q& q)
{
   return c.real_val(q.get_str().c_str());
}
inline Q z3val(z3::context& c, const z3::expr& e)
{
   return qparse(Z3_get_numeral_string(c, e));
}
inline void z3AddLP(z3::context& c, z3::optimize& o, const LP& lp, std::vector<z3::expr>& x)
{
   for(int j = 0; j < lp.n(); j++)
   {
      x.push_back(c.real_const(("x" + std::to_string(j)).c_str()));
      if(isFin(lp.lo[j])) o.add(x[j] >= z3q(c, lp.lo[j]));
      if(isFin(lp.up[j])) o.add(x[j] <= z3q(c, lp.up[j]));
   }
   for(int i = 0; i < lp.m(); i++)
   {
      z3::expr a = c.real_val(0);
      for(int j = 0; j < lp.n(); j++) if(lp.A[i][j] != 0) a = a + z3q(c, lp.A[i][j]) * x[j];
      if(isFin(lp.lhs[i])) o.add(a >= z3q(c, lp.lhs[i]));
      if(isFin(lp.rhs[i])) o.add(a <= z3q(c, lp.rhs[i]));
   }
}
// exact class (CL_OPT / CL_INF / CL_UNB) and optimal value of an LP; CL_UNKNOWN if z3 gives up
inline int z3Classify(const LP& lp, Q* opt)
{
   try
   {
      z3::context c;
      z3::optimize o(c);
      std::vector<z3::expr> x;
      z3AddLP(c, o, lp, x);
      z3::expr obj = z3q(c, lp.offset);
      for(int j = 0; j < lp.n(); j++) if(lp.obj[j] != 0) obj = obj + z3q(c, lp.obj[j]) * x[j];
      z3::optimize::handle h = lp.sense == 1 ? o.maximize(obj) : o.minimize(obj);
      z3::check_result r = o.check();
      if(r == z3::unsat) return CL_INF;
      if(r != z3::sat) return CL_UNKNOWN;
      z3::expr v = lp.sense == 1 ? o.upper(h) : o.lower(h);
      if(!v.is_numeral()) return CL_UNB;     // "oo" / "(* (- 1) oo)"
      if(opt) *opt = z3val(c, v);
      return CL_OPT;
   }
   catch(const z3::exception&)
   {
      return CL_UNKNOWN;
   }
}
// is there a non-zero direction r of the recession cone along which the objective does not get worse?
// (then boundedness of the LP is not robust: an arbitrarily small change of c makes it unbounded)
// returns 1 yes, 0 no, -1 unknown
inline int z3HasNonWorseningRay(const LP& lp)
{
   try
   {
      z3::context c;
      z3::solver s(c);
      std::vector<z3::expr> r;
      z3::expr_vector nz(c);
      for(int j = 0; j < lp.n(); j++)
      {
         r.push_back(c.real_const(("r" + std::to_string(j)).c_str()));
         if(isFin(lp.lo[j])) s.add(r[j] >= 0);
         if(isFin(lp.up[j])) s.add(r[j] <= 0);
         nz.push_back(r[j] != 0);
      }
      for(int i = 0; i < lp.m(); i++)
      {
         z3::expr a = c.real_val(0);
         bool any = false;
         for(int j = 0; j < lp.n(); j++) if(lp.A[i][j] != 0)
            {
               a = a + z3q(c, lp.A[i][j]) * r[j];
               any = true;
            }
         if(!any) continue;
         if(isFin(lp.lhs[i])) s.add(a >= 0);
         if(isFin(lp.rhs[i])) s.add(a <= 0);
      }
      z3::expr cr = c.real_val(0);
      for(int j = 0; j < lp.n(); j++) if(lp.obj[j] != 0) cr = cr + z3q(c, lp.obj[j]) * r[j];
      if(lp.sense == 1) s.add(cr >= 0);
      else s.add(cr <= 0);
      if(lp.n() == 0) return 0;
      s.add(z3::mk_or(nz));
      z3::check_result res = s.check();
      return res == z3::sat ? 1 : (res == z3::unsat ? 0 : -1);
   }
   catch(const z3::exception&)
   {
      return -1;
   }
}
// is there a non-zero multiplier vector (rows y, column bounds z) whose aggregated constraint is 0.x >= M with
// M >= 0?  For a feasible LP weak duality gives M <= 0, so this asks for a zero-margin certificate: the LP lies on
// the boundary of infeasibility (an arbitrarily small change of the data makes it infeasible; e.g. duplicate
// equations, an inequality that is tight on an equation).  returns 1 yes, 0 no (robustly feasible), -1 unknown
inline int z3HasZeroMarginCertificate(const LP& lp)
{
   try
   {
      z3::context c;
      z3::solver s(c);
      std::vector<z3::expr> y, z;
      z3::expr_vector nz(c);
      z3::expr M = c.real_val(0);
      for(int i = 0; i < lp.m(); i++)
      {
         y.push_back(c.real_const(("y" + std::to_string(i)).c_str()));
         if(!isFin(lp.lhs[i])) s.add(y[i] <= 0);
         if(!isFin(lp.rhs[i])) s.add(y[i] >= 0);
         z3::expr l = isFin(lp.lhs[i]) ? y[i] * z3q(c, lp.lhs[i]) : c.real_val(0);
         z3::expr r = isFin(lp.rhs[i]) ? y[i] * z3q(c, lp.rhs[i]) : c.real_val(0);
         M = M + z3::ite(y[i] >= 0, l, r);
         nz.push_back(y[i] != 0);
      }
      for(int j = 0; j < lp.n(); j++)
      {
         z.push_back(c.real_const(("z" + std::to_string(j)).c_str()));
         if(!isFin(lp.lo[j])) s.add(z[j] <= 0);
         if(!isFin(lp.up[j])) s.add(z[j] >= 0);
         z3::expr l = isFin(lp.lo[j]) ? z[j] * z3q(c, lp.lo[j]) : c.real_val(0);
         z3::expr r = isFin(lp.up[j]) ? z[j] * z3q(c, lp.up[j]) : c.real_val(0);
         M = M + z3::ite(z[j] >= 0, l, r);
         nz.push_back(z[j] != 0);
         z3::expr g = z[j];
         for(int i = 0; i < lp.m(); i++) if(lp.A[i][j] != 0) g = g + z3q(c, lp.A[i][j]) * y[i];
         s.add(g == 0);
      }
      if(nz.size() == 0) return 0;
      s.add(M >= 0);
      s.add(z3::mk_or(nz));
      z3::check_result res = s.check();
      return res == z3::sat ? 1 : (res == z3::unsat ? 0 : -1);
   }
   catch(const z3::exception&)
   {
      return -1;
   }
}
} // namespace vf
