// c07_gen.hpp - generator of C07 histories (sync-mode schedule + start LP + operations over both interfaces)
#pragma once
#include "c07_model.hpp"

namespace c07
{
enum { IF_REAL = 0, IF_RAT = 1, IF_GMP = 2 };
enum { M_ONLYREAL = 0, M_AUTO = 1, M_MANUAL = 2 };

// ------------------------------------------------------------------ values
inline Q sgn(const Q& q)
{
   return P(40) ? Q(-q) : q;
}
// finite value; classes: small int, dyadic, zero, non-representable, big numerator, tiny (denormal scale and below),
// around the floating-point zero tolerance 1e-16, huge finite
inline Q genFinite()
{
   switch(W({30, 14, 8, 14, 6, 10, 8, 10}))
   {
   case 0: return Q(R(-9, 9));
   case 1: return Q(NZ(31)) * q2pow(R(-6, 6));
   case 2: return Q(0);
   case 3:
   {
      static const char* t[] = {"1/3", "1/10", "7/9", "2/3", "22/7", "123456789/1000", "1/7", "5/6"};
      return sgn(Q(t[R(0, 7)]));
   }
   case 4:
   {
      static const char* t[] = {"12345678901234567890123/1000", "1208925819614629174706177/3", "10000000000000000000000000000000000000007/3",
                                "36893488147419103233/36893488147419103232"
                               };
      return sgn(Q(t[R(0, 3)]));
   }
   case 5:
      switch(R(0, 6))
      {
      case 0: return sgn(q2pow(-1060));
      case 1: return sgn(q2pow(-1074));
      case 2: return sgn(Q(3) * q2pow(-1070));
      case 3: return sgn(Q(1e-300));
      case 4: return sgn(qpow10(-300));
      case 5: return sgn(q2pow(-1100));           // below the smallest subnormal
      default: return sgn(Q(5) * q2pow(-1076));   // between two subnormals
      }
   case 6:
      switch(R(0, 5))
      {
      case 0: return sgn(qpow10(-17));
      case 1: return sgn(qpow10(-20));
      case 2: return sgn(q2pow(-60));
      case 3: return sgn(Q(1e-16));
      case 4: return sgn(Q(1e-17));
      default: return sgn(qpow10(-16));
      }
   default:
      switch(R(0, 4))
      {
      case 0: return sgn(qpow10(60));
      case 1: return sgn(q2pow(200));
      case 2: return sgn(qpow10(99));
      case 3: return sgn(qpow10(100));            // just below SoPlex's infinity (the double 1e100 is larger)
      default: return sgn(Q(3) * q2pow(150) + Q(1, 3));
      }
   }
}
inline Q genCoef()
{
   return genFinite();
}
// lower-type value (lower bound / left-hand side): -inf allowed; upper-type: +inf allowed
inline Q genLow()
{
   int k = W({62, 33, 5});
   if(k == 1) return Q(-QINF());
   if(k == 2) return Q(-qpow10(200));             // beyond infinity
   return genFinite();
}
inline Q genUpp()
{
   int k = W({62, 33, 5});
   if(k == 1) return QINF();
   if(k == 2) return qpow10(200);
   return genFinite();
}
inline void genPair(Q& l, Q& u)   // l <= u always (crossed bounds violate assert(lower <= upper) in _rangeType*)
{
   int k = W({38, 16, 15, 15, 10, 6});
   Q a = genFinite(), b = genFinite();
   if(a > b) std::swap(a, b);
   l = a;
   u = b;
   if(k == 1) u = l;
   else if(k == 2) l = P(12) ? Q(-qpow10(200)) : Q(-QINF());
   else if(k == 3) u = P(12) ? qpow10(200) : QINF();
   else if(k == 4)
   {
      l = P(20) ? Q(-qpow10(200)) : Q(-QINF());
      u = P(20) ? qpow10(200) : QINF();
   }
   else if(k == 5) u = l + q2pow(-1074);
}
inline void addPair(Rec& r)
{
   Q l, u;
   genPair(l, u);
   r.add(qs(l)).add(qs(u));
}
// k (rawIndex value)* ; indices are decoded modulo (dimension + ext) at run time, duplicates dropped
inline void addSparse(Rec& r, int dimHint)
{
   int k = R(0, std::min(5, dimHint + 1));
   r.add(k);
   for(int t = 0; t < k; t++) r.add(R(0, 11)).add(qs(P(8) ? Q(0) : genCoef()));
}

struct GenState
{
   int mode = M_ONLYREAL;
   int m = 0, n = 0;
   bool synced = false;
};
inline int genIface(const GenState& s)
{
   if(s.mode == M_ONLYREAL) return IF_REAL;
   return W({38, 34, 28});
}
inline int if2(int f)   // entry points without a GMP form
{
   return f == IF_GMP ? IF_RAT : f;
}

inline void genModification(Case& c, GenState& s)
{
   int f = genIface(s);
   Rec r("op");
   int growR = s.m >= 6 ? 1 : 8, growC = s.n >= 6 ? 1 : 8;
   if(s.m + s.n == 0)
   {
      growR = 30;
      growC = 30;
   }
   int needR = s.m > 0 ? 1 : 0, needC = s.n > 0 ? 1 : 0, needRC = needR && needC;
   int w = W({growR, growR / 2, growC, growC / 2,                                   // 0-3 add
              3 * needR, 3 * needC,                                                 // 4-5 chgrow chgcol
              4 * needR, 2 * needR, 4 * needR, 3 * needR, 4 * needR, 2 * needR,     // 6-11 lhs lhsv rhs rhsv range rangev
              4 * needC, 2 * needC, 4 * needC, 2 * needC, 4 * needC, 2 * needC,     // 12-17 lo lov up upv bnd bndv
              4 * needC, 2 * needC, 6 * needRC,                                     // 18-20 obj objv el
              2 * needR, 1 * needR, 1 * needR, 1 * needR,                           // 21-24 rmrow perm idx range
              2 * needC, 1 * needC, 1 * needC, 1 * needC,                           // 25-28 rmcol ...
              1                                                                     // 29 clearlp
             });
   switch(w)
   {
   case 0:
      r.add("addrow").add(f).add(P(12) ? R(1, 2) : 0);
      addPair(r);
      addSparse(r, s.n);
      s.m++;
      break;
   case 1:
   {
      int k = R(1, 3);
      r.add("addrows").add(f).add(f != IF_GMP && P(10) ? 1 : 0).add(k);
      for(int t = 0; t < k; t++)
      {
         addPair(r);
         addSparse(r, s.n);
      }
      s.m += k;
      break;
   }
   case 2:
      r.add("addcol").add(f).add(P(12) ? R(1, 2) : 0).add(qs(genCoef()));
      addPair(r);
      addSparse(r, s.m);
      s.n++;
      break;
   case 3:
   {
      int k = R(1, 3);
      r.add("addcols").add(f).add(f != IF_GMP && P(10) ? 1 : 0).add(k);
      for(int t = 0; t < k; t++)
      {
         r.add(qs(genCoef()));
         addPair(r);
         addSparse(r, s.m);
      }
      s.n += k;
      break;
   }
   case 4:
      r.add("chgrow").add(if2(f)).add(R(0, 11));
      addPair(r);
      addSparse(r, s.n);
      break;
   case 5:
      r.add("chgcol").add(if2(f)).add(R(0, 11)).add(qs(genCoef()));
      addPair(r);
      addSparse(r, s.m);
      break;
   case 6: r.add("chglhs").add(f).add(R(0, 11)).add(qs(genLow())); break;
   case 7:
      r.add("chglhsv").add(if2(f));
      for(int i = 0; i < std::max(1, s.m); i++) r.add(qs(genLow()));
      break;
   case 8: r.add("chgrhs").add(if2(f)).add(R(0, 11)).add(qs(genUpp())); break;
   case 9:
      r.add("chgrhsv").add(f).add(W({60, 40}) == 0 ? -1 : R(0, 7));   // GMP form: number of leading rows to change
      for(int i = 0; i < std::max(1, s.m); i++) r.add(qs(genUpp()));
      break;
   case 10:
      r.add("chgrange").add(f).add(R(0, 11));
      addPair(r);
      break;
   case 11:
      r.add("chgrangev").add(if2(f));
      for(int i = 0; i < std::max(1, s.m); i++) addPair(r);
      break;
   case 12: r.add("chglo").add(f).add(R(0, 11)).add(qs(genLow())); break;
   case 13:
      r.add("chglov").add(if2(f));
      for(int j = 0; j < std::max(1, s.n); j++) r.add(qs(genLow()));
      break;
   case 14: r.add("chgup").add(f).add(R(0, 11)).add(qs(genUpp())); break;
   case 15:
      r.add("chgupv").add(if2(f));
      for(int j = 0; j < std::max(1, s.n); j++) r.add(qs(genUpp()));
      break;
   case 16:
      r.add("chgbnd").add(f).add(R(0, 11));
      addPair(r);
      break;
   case 17:
      r.add("chgbndv").add(if2(f));
      for(int j = 0; j < std::max(1, s.n); j++) addPair(r);
      break;
   case 18: r.add("chgobj").add(f).add(R(0, 11)).add(qs(genCoef())); break;
   case 19:
      r.add("chgobjv").add(if2(f));
      for(int j = 0; j < std::max(1, s.n); j++) r.add(qs(genCoef()));
      break;
   case 20: r.add("chgel").add(f).add(R(0, 11)).add(R(0, 11)).add(qs(P(15) ? Q(0) : genCoef())); break;
   case 21:
      r.add("rmrow").add(if2(f)).add(R(0, 11));
      s.m--;
      break;
   case 22:
   {
      r.add("rmrowsperm").add(if2(f));
      int cnt = 0;
      for(int i = 0; i < std::max(1, s.m); i++)
      {
         int x = P(30) ? 1 : 0;
         r.add(x);
         cnt += x;
      }
      s.m = std::max(0, s.m - cnt);
      break;
   }
   case 23:
   {
      int k = R(1, 3);
      r.add("rmrowsidx").add(if2(f)).add(R(0, 1)).add(k);
      for(int t = 0; t < k; t++) r.add(R(0, 11));
      s.m = std::max(0, s.m - k);
      break;
   }
   case 24:
      r.add("rmrowrange").add(if2(f)).add(R(0, 1)).add(R(0, 11)).add(R(0, 2));
      s.m = std::max(0, s.m - 2);
      break;
   case 25:
      r.add("rmcol").add(if2(f)).add(R(0, 11));
      s.n--;
      break;
   case 26:
   {
      r.add("rmcolsperm").add(if2(f));
      int cnt = 0;
      for(int j = 0; j < std::max(1, s.n); j++)
      {
         int x = P(30) ? 1 : 0;
         r.add(x);
         cnt += x;
      }
      s.n = std::max(0, s.n - cnt);
      break;
   }
   case 27:
   {
      int k = R(1, 3);
      r.add("rmcolsidx").add(if2(f)).add(R(0, 1)).add(k);
      for(int t = 0; t < k; t++) r.add(R(0, 11));
      s.n = std::max(0, s.n - k);
      break;
   }
   case 28:
      r.add("rmcolrange").add(if2(f)).add(R(0, 1)).add(R(0, 11)).add(R(0, 2));
      s.n = std::max(0, s.n - 2);
      break;
   default:
      r.add("clearlp").add(if2(f));
      s.m = s.n = 0;
   }
   s.synced = false;
   c.recs.push_back(r);
}

inline Q genStartVal()   // start LP is loaded through either interface: values exactly representable, moderate
{
   int k = W({60, 25, 15});
   if(k == 0) return Q(R(-9, 9));
   if(k == 1) return Q(NZ(15)) * q2pow(R(-4, 4));
   return Q(0);
}
inline void genStartLP(LP& lp)
{
   int m = P(15) ? 0 : R(0, 4), n = P(15) ? 0 : R(0, 4);
   lp.resize(m, n);
   lp.sense = P(50) ? 1 : -1;
   lp.offset = P(30) ? Q(R(-8, 8)) : Q(0);
   for(int j = 0; j < n; j++)
   {
      Q a = genStartVal(), b = a + R(0, 5);
      int k = W({40, 25, 15, 10, 10});
      if(k == 1) b = QINF();
      else if(k == 2) a = -QINF();
      else if(k == 3) b = a;
      else if(k == 4)
      {
         a = -QINF();
         b = QINF();
      }
      lp.lo[j] = a;
      lp.up[j] = b;
      lp.obj[j] = genStartVal();
   }
   for(int i = 0; i < m; i++)
   {
      Q a = genStartVal(), b = a + R(0, 5);
      int k = W({30, 25, 20, 15, 10});
      if(k == 1) b = QINF();
      else if(k == 2) a = -QINF();
      else if(k == 3) b = a;
      else if(k == 4)
      {
         a = -QINF();
         b = QINF();
      }
      lp.lhs[i] = a;
      lp.rhs[i] = b;
      for(int j = 0; j < n; j++) if(P(55)) lp.A[i][j] = genStartVal();
   }
}

inline void genCase(Case& c)
{
   using soplex::SoPlex;
   bool thorough = opts().tier == "thorough";
   genStartLP(c.lp);
   GenState s;
   s.m = c.lp.m();
   s.n = c.lp.n();
   // configuration: scaling off in the main class (persistent scaling stores a scaled real LP: known finding and C09 territory)
   int scaled = W({82, 18});
   c.recs.push_back(Rec("int").add((int) SoPlex::SCALER).add(scaled ? 2 : (P(85) ? 0 : 2)));
   c.recs.push_back(Rec("bool").add((int) SoPlex::PERSISTENTSCALING).add(scaled ? 1 : 0));
   if(P(60)) c.recs.push_back(Rec("int").add((int) SoPlex::SIMPLIFIER).add(P(60) ? 0 : 1));
   s.mode = W({25, 50, 25});
   c.recs.push_back(Rec("mode0").add(s.mode));
   c.recs.push_back(Rec("load").add(s.mode == M_AUTO ? R(0, 3) : R(0, 1)));
   s.synced = false;
   int steps = R(2, std::max(4, std::min(thorough ? 60 : 36, 6 + curSize() / 2)));
   for(int t = 0; t < steps; t++)
   {
      int k = W({78, 7, s.mode == M_MANUAL ? 10 : 0, 3, 2, 3});
      if(k == 0) genModification(c, s);
      else if(k == 1)
      {
         int to = W({25, 45, 30});
         if(s.mode == M_MANUAL && to == M_AUTO && !s.synced && P(85))
         {
            c.recs.push_back(Rec("op").add(P(50) ? "syncreal" : "syncrat"));
            s.synced = true;
         }
         c.recs.push_back(Rec("op").add("mode").add(to));
         if(s.mode == M_AUTO && to == M_MANUAL) s.synced = true;
         else if(to == M_MANUAL) s.synced = false;
         s.mode = to;
      }
      else if(k == 2)
      {
         c.recs.push_back(Rec("op").add(P(50) ? "syncreal" : "syncrat"));
         s.synced = true;
      }
      else if(k == 3)
      {
         if(s.mode == M_MANUAL && !s.synced)
         {
            c.recs.push_back(Rec("op").add(P(50) ? "syncreal" : "syncrat"));
            s.synced = true;
         }
         c.recs.push_back(Rec("op").add("xsolve"));
      }
      else if(k == 4) c.recs.push_back(Rec("op").add("fsolve"));
      else
      {
         if(P(50)) c.recs.push_back(Rec("op").add("sense").add(P(50) ? 1 : -1));
         else c.recs.push_back(Rec("op").add("offset").add(qs(P(70) ? Q(R(-20, 20)) : Q(NZ(9)) * q2pow(R(-3, 3)))));
      }
   }
   if(P(35)) c.recs.push_back(Rec("op").add("probe").add(R(0, 1)));
}
} // namespace c07
