// gen_lp.hpp - LP generators with planted certificates (exact integer / dyadic data).
// All random choices are rapidcheck draws (vf::R / vf::P / vf::W), all constructions, no filtering.
#pragma once
#include "vf.hpp"

namespace vf
{
struct GenOpt
{
   int maxM = 12, maxN = 12;
   int structPct = 25;      // probability (per LP) of each special structure being forced
   int scaleExp = 0;        // row/column power-of-two factors drawn from [-scaleExp..scaleExp]
   int degeneratePct = 30;  // probability that a tight row/col gets a zero multiplier
   bool presolveRich = false;
   int minM = 1, minN = 1;
};

inline void drawDims(const GenOpt& g, int& m, int& n)
{
   // 40% small, 40% medium, 20% large (relative to the maxima), scaled by rapidcheck's size
   int sz = curSize();
   int capM = std::max(g.minM, std::min(g.maxM, g.minM + (g.maxM * (sz + 10)) / 100));
   int capN = std::max(g.minN, std::min(g.maxN, g.minN + (g.maxN * (sz + 10)) / 100));
   int band = W({40, 40, 20});
   auto pick = [&](int lo, int cap)
   {
      int a = std::max(lo, std::min(cap, 6)), b = std::max(a, std::min(cap, 20));
      if(band == 0) return R(lo, a);
      if(band == 1) return R(std::min(a, cap), b);
      return R(std::min(b, cap), cap);
   };
   m = pick(g.minM, capM);
   n = pick(g.minN, capN);
}

// the matrix: random sparse small integers plus forced structures
inline void drawMatrix(const GenOpt& g, LP& lp, int m, int n)
{
   lp.resize(m, n);
   int dens = R(15, 90);
   for(int i = 0; i < m; i++)
      for(int j = 0; j < n; j++)
         if(R(0, 99) < dens) lp.A[i][j] = NZ(9);
   int sp = g.presolveRich ? std::min(90, g.structPct * 2 + 20) : g.structPct;
   // empty row / empty column
   if(m >= 2 && P(sp / 2))
   {
      int i = R(0, m - 1);
      for(int j = 0; j < n; j++) lp.A[i][j] = 0;
   }
   if(n >= 2 && P(sp / 2))
   {
      int j = R(0, n - 1);
      for(int i = 0; i < m; i++) lp.A[i][j] = 0;
   }
   // singleton rows
   int ns = P(sp) ? R(1, std::max(1, m / 3)) : 0;
   for(int k = 0; k < ns; k++)
   {
      int i = R(0, m - 1), j = R(0, n - 1);
      for(int t = 0; t < n; t++) lp.A[i][t] = 0;
      lp.A[i][j] = NZ(9);
   }
   // singleton columns
   ns = P(sp) ? R(1, std::max(1, n / 3)) : 0;
   for(int k = 0; k < ns; k++)
   {
      int i = R(0, m - 1), j = R(0, n - 1);
      for(int t = 0; t < m; t++) lp.A[t][j] = 0;
      lp.A[i][j] = NZ(9);
   }
   // duplicate / parallel rows
   if(m >= 2 && P(sp))
   {
      int a = R(0, m - 1), b = R(0, m - 1), f = NZ(3);
      if(a != b) for(int j = 0; j < n; j++) lp.A[b][j] = lp.A[a][j] * f;
   }
   // duplicate / parallel columns
   if(n >= 2 && P(sp))
   {
      int a = R(0, n - 1), b = R(0, n - 1), f = NZ(3);
      if(a != b) for(int i = 0; i < m; i++) lp.A[i][b] = lp.A[i][a] * f;
   }
   // doubleton rows (become doubleton equations when the row type is drawn as equality)
   if(n >= 2 && P(sp))
   {
      int i = R(0, m - 1), a = R(0, n - 1), b = R(0, n - 1);
      if(a != b)
      {
         for(int t = 0; t < n; t++) lp.A[i][t] = 0;
         lp.A[i][a] = NZ(9);
         lp.A[i][b] = NZ(9);
      }
   }
   // dependent row: sum of two others
   if(m >= 3 && P(sp / 2))
   {
      int a = R(0, m - 1), b = R(0, m - 1), c = R(0, m - 1);
      if(a != b && b != c && a != c) for(int j = 0; j < n; j++) lp.A[c][j] = lp.A[a][j] + lp.A[b][j];
   }
}

// Finite optimum with planted primal-dual pair (complementary slackness holds exactly).
// colKind: 0 at lower, 1 at upper, 2 inside, 3 fixed, 4 free.  rowKind: 0 tight lhs, 1 tight rhs,
// 2 equality, 3 inside range, 4 one-sided slack, 5 free.
inline void plantOptimal(const GenOpt& g, LP& lp, Planted& pl)
{
   int m = lp.m(), n = lp.n();
   lp.sense = P(50) ? 1 : -1;
   lp.offset = P(50) ? Q(R(-20, 20)) : Q(0);
   int sg = lp.sense == -1 ? 1 : -1;     // multiplier sign factor: min-form duals = sg * duals
   pl.cls = CL_OPT;
   pl.x.assign(n, Q(0));
   pl.d.assign(n, Q(0));
   pl.y.assign(m, Q(0));
   for(int j = 0; j < n; j++)
   {
      Q x = R(-5, 5);
      pl.x[j] = x;
      int kind = W({30, 20, 25, 10, 15});
      bool zero = P(g.degeneratePct);
      switch(kind)
      {
      case 0:
         lp.lo[j] = x;
         lp.up[j] = P(50) ? QINF() : Q(x + R(1, 6));
         pl.d[j] = zero ? Q(0) : Q(sg * R(1, 9));
         break;
      case 1:
         lp.up[j] = x;
         lp.lo[j] = P(50) ? Q(-QINF()) : Q(x - R(1, 6));
         pl.d[j] = zero ? Q(0) : Q(-sg * R(1, 9));
         break;
      case 2:
         lp.lo[j] = P(35) ? Q(-QINF()) : Q(x - R(1, 6));
         lp.up[j] = P(35) ? QINF() : Q(x + R(1, 6));
         break;
      case 3:
         lp.lo[j] = lp.up[j] = x;
         pl.d[j] = zero ? Q(0) : Q(NZ(9));
         break;
      default:
         lp.lo[j] = -QINF();
         lp.up[j] = QINF();
      }
   }
   for(int i = 0; i < m; i++)
   {
      Q s = lp.act(i, pl.x);
      int kind = W({25, 25, 20, 10, 15, 5});
      bool zero = P(g.degeneratePct);
      switch(kind)
      {
      case 0:
         lp.lhs[i] = s;
         lp.rhs[i] = P(60) ? QINF() : Q(s + R(1, 9));
         pl.y[i] = zero ? Q(0) : Q(sg * R(1, 9));
         break;
      case 1:
         lp.rhs[i] = s;
         lp.lhs[i] = P(60) ? Q(-QINF()) : Q(s - R(1, 9));
         pl.y[i] = zero ? Q(0) : Q(-sg * R(1, 9));
         break;
      case 2:
         lp.lhs[i] = lp.rhs[i] = s;
         pl.y[i] = zero ? Q(0) : Q(NZ(9));
         break;
      case 3:
         lp.lhs[i] = s - R(1, 9);
         lp.rhs[i] = s + R(1, 9);
         break;
      case 4:
         if(P(50))
         {
            lp.lhs[i] = s - R(1, 9);
            lp.rhs[i] = QINF();
         }
         else
         {
            lp.lhs[i] = -QINF();
            lp.rhs[i] = s + R(1, 9);
         }
         break;
      default:
         lp.lhs[i] = -QINF();
         lp.rhs[i] = QINF();
      }
   }
   // c = A^T y + d
   for(int j = 0; j < n; j++)
   {
      Q c = pl.d[j];
      for(int i = 0; i < m; i++) if(lp.A[i][j] != 0) c += lp.A[i][j] * pl.y[i];
      lp.obj[j] = c;
   }
   pl.z = lp.objval(pl.x);
}

// Turn a planted-optimal LP into an infeasible one: add a row that contradicts a non-negative
// combination of existing "<=" facts (row sides and column bounds) by an integer margin >= 1.
inline void plantInfeasible(const GenOpt& g, LP& lp, Planted& pl)
{
   int m = lp.m(), n = lp.n();
   std::vector<Q> gvec(n, Q(0));
   Q beta = 0;
   std::vector<Q> w(m + 1, Q(0));
   int used = 0;
   for(int i = 0; i < m; i++)
   {
      if(!P(40)) continue;
      bool canR = isFin(lp.rhs[i]), canL = isFin(lp.lhs[i]);
      if(!canR && !canL) continue;
      int u = R(1, 3);
      bool useR = canR && (!canL || P(50));
      // a_i x <= rhs   (multiplier +u)   or   -a_i x <= -lhs   (multiplier -u on the row)
      for(int j = 0; j < n; j++) gvec[j] += (useR ? u : -u) * lp.A[i][j];
      beta += useR ? Q(u * lp.rhs[i]) : Q(-u * lp.lhs[i]);
      w[i] = useR ? -u : u;    // sign convention irrelevant for the oracle; kept for the record
      used++;
   }
   for(int j = 0; j < n; j++)
   {
      if(!P(30)) continue;
      bool canU = isFin(lp.up[j]), canL = isFin(lp.lo[j]);
      if(!canU && !canL) continue;
      int u = R(1, 3);
      bool useU = canU && (!canL || P(50));
      gvec[j] += useU ? u : -u;
      beta += useU ? Q(u * lp.up[j]) : Q(-u * lp.lo[j]);
      used++;
   }
   // every feasible x has gvec.x <= beta; new row demands gvec.x >= beta + margin
   // columns whose coefficient in gvec is non-zero but not covered: fine, the combination is exact.
   int pos = R(0, m);
   Q margin = R(1, 5);
   LP nl = lp;
   nl.lhs.insert(nl.lhs.begin() + pos, Q(beta + margin));
   nl.rhs.insert(nl.rhs.begin() + pos, P(50) ? QINF() : Q(beta + margin + R(0, 4)));
   nl.A.insert(nl.A.begin() + pos, gvec);
   w.insert(w.begin() + pos, Q(1));
   w.pop_back();
   w.resize(m + 1);
   lp = nl;
   pl.cls = CL_INF;
   pl.fark = w;
   pl.x.clear();
   pl.y.clear();
   pl.d.clear();
   (void) used;
   (void) g;
}

// Turn a planted-optimal LP into an unbounded one: keep x* feasible, open bounds/sides along an
// integer direction r and make the objective improve along r by >= 1.
inline void plantUnbounded(const GenOpt& g, LP& lp, Planted& pl)
{
   int m = lp.m(), n = lp.n();
   // 25%: unboundedness through a 'dual infeasibility gadget' that presolve can detect by itself: two column singletons
   // in one row, u >= 0 and w <= 0 with equal coefficients; moving u up and w down by the same amount keeps the row
   // activity and improves the objective (their costs bound the row's dual variable contradictorily)
   if(m >= 1 && P(25))
   {
      int i = R(0, m - 1);
      // each singleton alone must be held back (u by the row side it pushes against, w by its bound), so that only the
      // combination is a ray: alpha > 0 needs a finite rhs, alpha < 0 a finite lhs; w's cost pulls it towards its bound 0
      bool finR = isFin(lp.rhs[i]), finL = isFin(lp.lhs[i]);
      Q alpha = Q(R(1, 3));
      if(finR && finL) alpha = P(50) ? alpha : Q(-alpha);
      else if(finL) alpha = -alpha;
      Q cw = Q(lp.sense) * Q(R(1, 3)), cu = cw + Q(lp.sense) * Q(R(1, 3));
      lp.addCol(Q(0), QINF(), cu);
      lp.addCol(-QINF(), Q(0), cw);
      lp.A[i][n] = alpha;
      lp.A[i][n + 1] = alpha;
      pl.x.resize(n + 2, Q(0));
      pl.cls = CL_UNB;
      pl.ray.assign(n + 2, Q(0));
      pl.ray[n] = 1;
      pl.ray[n + 1] = -1;
      pl.y.clear();
      pl.d.clear();
      return;
   }
   std::vector<Q> r(n, Q(0));
   int k = R(1, std::min(n, 3));
   for(int t = 0; t < k; t++) r[R(0, n - 1)] = NZ(3);
   bool nz = false;
   for(auto& v : r) if(v != 0) nz = true;
   if(!nz) r[0] = 1;
   for(int j = 0; j < n; j++)
   {
      if(r[j] > 0) lp.up[j] = QINF();
      if(r[j] < 0) lp.lo[j] = -QINF();
   }
   for(int i = 0; i < m; i++)
   {
      Q t = lp.act(i, r);
      if(t > 0) lp.rhs[i] = QINF();
      if(t < 0) lp.lhs[i] = -QINF();
   }
   Q cr = 0;
   int js = -1;
   for(int j = 0; j < n; j++)
   {
      cr += lp.obj[j] * r[j];
      if(r[j] != 0 && js < 0) js = j;
   }
   // improving means sense * c.r >= 1; adjust one cost coefficient by an integer if necessary
   if(lp.sense * cr < 1)
   {
      Q need = 1 - lp.sense * cr;                      // > 0
      Q ar = qabs(r[js]);
      Q tq = need / ar;
      mpz_class t;
      mpz_cdiv_q(t.get_mpz_t(), tq.get_num_mpz_t(), tq.get_den_mpz_t());
      Q step = Q(t) + R(0, 3);
      lp.obj[js] += (r[js] > 0 ? Q(lp.sense) : Q(-lp.sense)) * step;
   }
   pl.cls = CL_UNB;
   pl.ray = r;
   pl.y.clear();
   pl.d.clear();   // pl.x stays: a feasible point
   (void) g;
}

// block-diagonal union (a first, then b); objective/sense of a; b's objective sign-adjusted to a's sense
inline LP blockUnion(const LP& a, const LP& b)
{
   LP u;
   u.sense = a.sense;
   u.offset = a.offset;
   u.resize(a.m() + b.m(), a.n() + b.n());
   for(int j = 0; j < a.n(); j++)
   {
      u.lo[j] = a.lo[j];
      u.up[j] = a.up[j];
      u.obj[j] = a.obj[j];
   }
   for(int j = 0; j < b.n(); j++)
   {
      u.lo[a.n() + j] = b.lo[j];
      u.up[a.n() + j] = b.up[j];
      u.obj[a.n() + j] = (a.sense == b.sense) ? b.obj[j] : Q(-b.obj[j]);
   }
   for(int i = 0; i < a.m(); i++)
   {
      u.lhs[i] = a.lhs[i];
      u.rhs[i] = a.rhs[i];
      for(int j = 0; j < a.n(); j++) u.A[i][j] = a.A[i][j];
   }
   for(int i = 0; i < b.m(); i++)
   {
      u.lhs[a.m() + i] = b.lhs[i];
      u.rhs[a.m() + i] = b.rhs[i];
      for(int j = 0; j < b.n(); j++) u.A[a.m() + i][a.n() + j] = b.A[i][j];
   }
   return u;
}

// exact power-of-two row / column scaling of LP and planted data
inline void applyPow2Scaling(LP& lp, Planted& pl, int maxExp)
{
   if(maxExp <= 0) return;
   int m = lp.m(), n = lp.n();
   std::vector<int> a(m), b(n);
   for(int i = 0; i < m; i++) a[i] = R(-maxExp, maxExp);
   for(int j = 0; j < n; j++) b[j] = R(-maxExp, maxExp);
   for(int i = 0; i < m; i++)
   {
      Q f = q2pow(a[i]);
      if(isFin(lp.lhs[i])) lp.lhs[i] *= f;
      if(isFin(lp.rhs[i])) lp.rhs[i] *= f;
      for(int j = 0; j < n; j++) if(lp.A[i][j] != 0) lp.A[i][j] *= f * q2pow(b[j]);
      if((int) pl.y.size() == m) pl.y[i] /= f;
      if((int) pl.fark.size() == m) pl.fark[i] /= f;
   }
   for(int j = 0; j < n; j++)
   {
      Q f = q2pow(b[j]);      // x'_j = x_j / f
      if(isFin(lp.lo[j])) lp.lo[j] /= f;
      if(isFin(lp.up[j])) lp.up[j] /= f;
      lp.obj[j] *= f;
      if((int) pl.x.size() == n) pl.x[j] /= f;
      if((int) pl.d.size() == n) pl.d[j] *= f;
      if((int) pl.ray.size() == n) pl.ray[j] /= f;
   }
}

// cls: CL_OPT / CL_INF / CL_UNB / CL_INFUNB
inline void genPlantedLP(const GenOpt& g, int cls, LP& lp, Planted& pl)
{
   int m, n;
   if(cls == CL_INFUNB)
   {
      GenOpt h = g;
      h.maxM = std::max(1, g.maxM / 2);
      h.maxN = std::max(1, g.maxN / 2);
      LP a, b;
      Planted pa, pb;
      drawDims(h, m, n);
      drawMatrix(h, a, m, n);
      plantOptimal(h, a, pa);
      plantInfeasible(h, a, pa);
      drawDims(h, m, n);
      drawMatrix(h, b, m, n);
      plantOptimal(h, b, pb);
      plantUnbounded(h, b, pb);
      bool aFirst = P(50);
      lp = aFirst ? blockUnion(a, b) : blockUnion(b, a);
      // keep the unbounded block's objective direction improving under the union's sense
      pl = Planted();
      pl.cls = CL_INFUNB;
      return;
   }
   drawDims(g, m, n);
   drawMatrix(g, lp, m, n);
   plantOptimal(g, lp, pl);
   if(cls == CL_INF) plantInfeasible(g, lp, pl);
   else if(cls == CL_UNB) plantUnbounded(g, lp, pl);
   applyPow2Scaling(lp, pl, g.scaleExp);
}
} // namespace vf
