// fuzz_c13.hpp - shared plumbing of the C13 byte-level targets (harness/fuzz_readers.cpp, harness/fuzz_soplex.cpp).
//   * command line: libFuzzer's own flags pass through; the framework's `--replay FILE --tier T --x k=v` is
//     rewritten to libFuzzer's "run this file" mode (LLVMFuzzerInitialize) or handled by the standalone main
//     (-DVF_STANDALONE: reads one file, calls LLVMFuzzerTestOneInput once; `--x vg=1` re-executes under valgrind).
//   * known-finding exclusions: `--x known=a,b` or environment VF_KNOWN=a,b.
//   * violation channel: one line "C13-VIOLATION: <reason>" on stderr, then __builtin_trap().
//   * counters: written to the file named by environment VF_STATS at normal process exit (one "name count" per line).
#pragma once
#include <cstdint>
#include <cstdio>
#include <cstdlib>
#include <cstring>
#include <map>
#include <set>
#include <string>
#include <vector>
#include <unistd.h>
#include <sstream>
#include "soplex/spxdefines.h"
#include "soplex/mpsinput.h"

namespace vfz
{
struct State
{
   std::set<std::string> known;
   std::map<std::string, long> counters;
   std::string statsFile;
   std::string replayFile;
   bool valgrind = false;
   bool inited = false;
};
inline State& st()
{
   static State* s = new State();   // intentionally immortal: used from atexit handlers
   return *s;
}
inline void count(const std::string& k, long n = 1)
{
   st().counters[k] += n;
   static const bool trace = getenv("VF_TRACE") != nullptr;   // triage aid: the sequence of counted events
   if(trace) fprintf(stderr, "[c13] %s\n", k.c_str());
}
inline bool known(const char* key)
{
   return st().known.count(key) != 0;
}
inline void addKnown(const char* list)
{
   std::string cur;
   for(const char* p = list;; p++)
   {
      if(*p == ',' || *p == '\0')
      {
         if(!cur.empty()) st().known.insert(cur);
         cur.clear();
         if(*p == '\0') break;
      }
      else cur += *p;
   }
}
inline void writeStats()
{
   if(st().statsFile.empty()) return;
   FILE* f = fopen(st().statsFile.c_str(), "w");
   if(!f) return;
   for(auto& kv : st().counters) fprintf(f, "%s %ld\n", kv.first.c_str(), kv.second);
   fclose(f);
}
[[noreturn]] inline void fail(const std::string& reason)
{
   fprintf(stderr, "C13-VIOLATION: %s\n", reason.c_str());
   fflush(stderr);
   __builtin_trap();
}
inline void initOnce()
{
   if(st().inited) return;
   st().inited = true;
   if(const char* k = getenv("VF_KNOWN")) addKnown(k);
   if(const char* s = getenv("VF_STATS"))
   {
      st().statsFile = s;
      atexit(writeStats);
   }
}
// removes the framework's options from argv (in place); returns the remaining arguments
inline std::vector<char*> stripArgs(int argc, char** argv)
{
   initOnce();
   std::vector<char*> out;
   out.push_back(argv[0]);
   for(int i = 1; i < argc; i++)
   {
      std::string a = argv[i];
      if(a == "--replay" && i + 1 < argc)
      {
         st().replayFile = argv[++i];
         out.push_back(argv[i]);
      }
      else if(a == "--tier" && i + 1 < argc) i++;
      else if(a == "--x" && i + 1 < argc)
      {
         std::string kv = argv[++i];
         if(kv.compare(0, 6, "known=") == 0) addKnown(kv.c_str() + 6);
         else if(kv == "vg=1") st().valgrind = true;
      }
      else out.push_back(argv[i]);
   }
   return out;
}

// ---- exclusion protocol for known finding `mps-eof-hang` (MPSInput::readLine never returns at end of file):
// input that will be parsed by MPSInput (MPS files, basis files) and does not end in an ENDATA line is completed
// by one, so that the parser can never reach end of file. A parser that stops earlier (syntax error, ENDATA)
// never sees the appended line, so exactly the hanging inputs change their meaning.
inline bool endsInEndata(const std::string& s)
{
   size_t e = s.size();
   while(e > 0 && (s[e - 1] == '\n' || s[e - 1] == '\r' || s[e - 1] == ' ' || s[e - 1] == '\t')) e--;
   size_t b = s.rfind('\n', e == 0 ? 0 : e - 1);
   b = (b == std::string::npos || b >= e) ? 0 : b + 1;
   return e - b == 6 && s.compare(b, 6, "ENDATA") == 0;
}
inline void completeMps(std::string& s)
{
   if(!known("mps-eof-hang")) return;
   if(endsInEndata(s)) return;
   if(!s.empty() && s[s.size() - 1] != '\n') s += '\n';
   s += "ENDATA\n";
   count("excluded_known.mps-eof-hang");
}

// ---- exclusion protocol for known finding `mps-rational-rows-null` (the Rational MPSreadRows dereferences a
// missing name field): walks the file with SoPlex's own tokenizer exactly as readMPS does up to the end of the
// ROWS section and reports whether a ROWS data line has fewer than two fields. Only a filter, never a judge.
// The walk runs on a copy that ends in an ENDATA line, so that the tokenizer can never reach end of file (mps-eof-hang).
inline bool mpsRowsLineWithoutName(const std::string& text)
{
   std::string copy = text;
   if(!endsInEndata(copy)) copy += "\nENDATA\n";
   std::istringstream in(copy);
   soplex::MPSInput mps(in);
   if(!mps.readLine() || mps.field0() == nullptr || strcmp(mps.field0(), "NAME")) return false;
   if(!mps.readLine() || mps.field0() == nullptr) return false;
   if(!strncmp(mps.field0(), "OBJSEN", 6) && strcmp(mps.field0(), "ROWS"))
   {
      if(!mps.readLine() || mps.field1() == nullptr) return false;
      if(strcmp(mps.field1(), "MIN") && strcmp(mps.field1(), "MAX")) return false;
      if(!mps.readLine() || mps.field0() == nullptr) return false;
   }
   if(!strcmp(mps.field0(), "OBJNAME"))
   {
      if(!mps.readLine() || mps.field1() == nullptr) return false;
      if(!mps.readLine() || mps.field0() == nullptr) return false;
   }
   if(strcmp(mps.field0(), "ROWS")) return false;
   while(mps.readLine())
   {
      if(mps.field0() != nullptr) return false;
      if(mps.field1() == nullptr || mps.field2() == nullptr) return true;
      if(*mps.field1() != 'N' && *mps.field1() != 'G' && *mps.field1() != 'E' && *mps.field1() != 'L') return false;
   }
   return false;
}

// ---- exclusion protocol for known finding `rat-exponent-unbounded` (ratFromString computes 10^|exponent| exactly and
// without bound: "1e999999999" costs 100 s and 0.4 GB; before fix c171516 every exponent above 308 died with SIGFPE):
// true if the text contains e/E, an optional sign, and a decimal exponent above `limit`. Over-approximates (the
// characters may sit in a name), which only costs a few skipped inputs; skipped inputs are counted.
inline bool hasHugeExponent(const std::string& s, long limit = 1000000)
{
   for(size_t i = 0; i + 1 < s.size(); i++)
   {
      if(s[i] != 'e' && s[i] != 'E') continue;
      size_t k = i + 1;
      if(s[k] == '+' || s[k] == '-') k++;
      long v = 0;
      int nd = 0;
      // the LP-format reader deletes blanks inside a line before it tokenizes: "1e308 1" is the literal 1e3081
      for(; k < s.size() && nd < 12; k++)
      {
         if(s[k] >= '0' && s[k] <= '9')
         {
            v = 10 * v + (s[k] - '0');
            nd += (v > 0);
         }
         else if(s[k] != ' ' && s[k] != '\t') break;
      }
      if(v > limit) return true;
   }
   return false;
}
// ---- exclusion protocol for known finding `rat-denominator-unchecked` (ratFromString hands "p/q" to GMP unchecked:
// p/0 is stored with denominator zero, p/-q with a negative one; the next arithmetic on such a number is undefined
// behaviour inside GMP - leak, stack overflow, SEGV in mpn_copyi): true if the text contains '/' followed (after
// optional blanks) by '-' or by a run of '0' that no digit 1-9 continues. Over-approximates; skipped inputs are counted.
inline bool hasBadDenominator(const std::string& s)
{
   for(size_t i = 0; i + 1 < s.size(); i++)
   {
      if(s[i] != '/') continue;
      size_t k = i + 1;
      while(k < s.size() && (s[k] == ' ' || s[k] == '\t')) k++;
      if(k < s.size() && s[k] == '-') return true;
      size_t z = k;
      while(k < s.size() && s[k] == '0') k++;
      if(k > z && !(k < s.size() && s[k] >= '1' && s[k] <= '9')) return true;
   }
   return false;
}
// ---- exclusion protocol for known finding `lpf-keyword-bracket-overread` (LPFhasKeyword matches an input ']'
// against the ']' that closes an optional part of its pattern, e.g. "bound]" against "bound[s]", and then searches the
// next ']' beyond the end of the pattern string): LP-format text containing ']' is skipped and counted. ']' is no
// part of the LP-format syntax and not a legal name character.
inline bool hasClosingBracket(const std::string& s)
{
   return s.find(']') != std::string::npos;
}
// ---- exclusion protocol for known finding `read-exception-leak` (readLPF/readMPS/readBasis allocate private NameSets
// when the caller passes nullptr and free them only on the normal return path; an exception thrown while reading -
// zstr::Exception on a corrupt gz/zlib stream, std::exception from the Rational parser - leaks them): while a reader
// runs with nullptr name sets, LeakSanitizer does not record allocations (ASan and UBSan stay active). Counted.
#if defined(__has_feature)
#if __has_feature(address_sanitizer)
#define VFZ_HAVE_LSAN 1
#endif
#endif
#ifdef VFZ_HAVE_LSAN
extern "C" void __lsan_disable();
extern "C" void __lsan_enable();
#endif
struct LeakScope
{
   bool on;
   explicit LeakScope(bool nullNames) : on(nullNames && known("read-exception-leak"))
   {
      if(!on) return;
      count("excluded_known.read-exception-leak(leak check off for a nullptr-names call)");
#ifdef VFZ_HAVE_LSAN
      __lsan_disable();
#endif
   }
   ~LeakScope()
   {
#ifdef VFZ_HAVE_LSAN
      if(on) __lsan_enable();
#endif
   }
};
// ---- exclusion protocol for known finding `lpf-long-token-overflow` (LPFreadColName, LPFhasRowName and LPFreadValue
// copy one token into a stack buffer of SOPLEX_LPF_MAX_LINE_LEN = 8192 bytes without a bound, while the line buffer
// they read from grows without limit): true if some piece of the text between the characters + - < > = : and newline
// has 4000 or more non-blank characters (the reader deletes blanks before it tokenizes; a number token of 8192
// characters has at most two inner signs, so one of its pieces has more than 4000). Over-approximates; counted.
inline bool hasLongLpToken(const std::string& s)
{
   size_t run = 0;
   for(size_t i = 0; i < s.size(); i++)
   {
      char c = s[i];
      if(c == '+' || c == '-' || c == '<' || c == '>' || c == '=' || c == ':' || c == '\n') run = 0;
      else if(c != ' ' && c != '\t' && ++run >= 4000) return true;
   }
   return false;
}
// ---- exclusion protocol for known finding `valgrind__settings-overscan` (S12: parseSettingsString / _parseSettingsLine
// overwrite the character that ends the type or name token and step over it even when it is the terminating NUL;
// the scan then runs through uninitialised bytes of the 500-byte stack buffer; visible to valgrind only):
// true if the type token or the name token of the string is ended by the terminating NUL.
inline bool settingsTokenEndsAtNul(const char* p)
{
   auto blank = [](char c) { return c == ' ' || c == '\t' || c == '\r'; };
   auto stop = [](char c) { return c == ' ' || c == '\t' || c == '\r' || c == '\n' || c == '#' || c == '\0'; };
   while(blank(*p)) p++;
   if(*p == '\0' || *p == '\n' || *p == '#') return false;
   while(!stop(*p) && *p != ':') p++;
   if(*p == '\0') return true;
   if(*p != ':')
   {
      p++;
      while(blank(*p)) p++;
      if(*p != ':') return false;
   }
   p++;
   while(blank(*p)) p++;
   if(*p == '\0' || *p == '\n' || *p == '#') return false;
   while(!stop(*p) && *p != '=') p++;
   return *p == '\0';
}
// ---- exclusion protocol for known finding `settings-nan-sigfpe` (std::stod accepts "nan"; NaN passes
// setRealParam's range test and is assigned to a GMP rational => SIGFPE, cf. S7): true if the text contains "nan"
// in any letter case. Over-approximates; skipped inputs are counted.
inline bool hasNanLiteral(const std::string& s)
{
   for(size_t i = 0; i + 2 < s.size(); i++)
      if(tolower((unsigned char) s[i]) == 'n' && tolower((unsigned char) s[i + 1]) == 'a' && tolower((unsigned char) s[i + 2]) == 'n')
         return true;
   return false;
}
// NaN found in a stored number: violation, unless it is the excluded known finding `mps-atof-nan` (the double MPS
// reader converts numbers with atof, which accepts "nan"); then true is returned and the LP must not be solved
inline bool nanStored(const std::string& what, bool fmtMps)
{
   if(fmtMps && known("mps-atof-nan"))
   {
      count("excluded_known.mps-atof-nan");
      return true;
   }
   fail(what + "NaN stored in the LP");
}
} // namespace vfz

extern "C" int LLVMFuzzerTestOneInput(const uint8_t* data, size_t size);

#ifdef VF_STANDALONE
int main(int argc, char** argv)
{
   std::vector<char*> a = vfz::stripArgs(argc, argv);
   if(a.size() < 2)
   {
      fprintf(stderr, "usage: %s [--replay] FILE [--x known=k1,k2] [--x vg=1]\n", argv[0]);
      return 2;
   }
   if(vfz::st().valgrind && !getenv("VF_UNDER_VALGRIND"))
   {
      setenv("VF_UNDER_VALGRIND", "1", 1);
      std::string kn;
      for(auto& k : vfz::st().known) kn += (kn.empty() ? "" : ",") + k;
      setenv("VF_KNOWN", kn.c_str(), 1);
      execlp("valgrind", "valgrind", "-q", "--error-exitcode=9", "--undef-value-errors=yes", "--leak-check=no",
             argv[0], a[1], (char*) nullptr);
      perror("execlp valgrind");
      return 2;
   }
   int rc = 0;
   for(size_t i = 1; i < a.size(); i++)
   {
      FILE* f = fopen(a[i], "rb");
      if(!f)
      {
         perror(a[i]);
         return 2;
      }
      std::vector<uint8_t> buf;
      uint8_t tmp[65536];
      size_t n;
      while((n = fread(tmp, 1, sizeof(tmp), f)) > 0) buf.insert(buf.end(), tmp, tmp + n);
      fclose(f);
      rc |= LLVMFuzzerTestOneInput(buf.data(), buf.size());
   }
   return rc;
}
#else
extern "C" int LLVMFuzzerInitialize(int* argc, char*** argv)
{
   static std::vector<char*> keep;
   static std::string to;
   keep = vfz::stripArgs(*argc, *argv);
   if(!vfz::st().replayFile.empty())
   {
      // replay of one input: a hang must end by itself (libFuzzer's alarm, exit code 70)
      const char* t = getenv("VF_REPLAY_TIMEOUT");
      to = std::string("-timeout=") + (t ? t : "20");
      keep.push_back(&to[0]);
   }
   keep.push_back(nullptr);
   *argc = (int) keep.size() - 1;
   *argv = keep.data();
   return 0;
}
#endif
