// certs.hpp - exact (GMP) certificate oracles. No SoPlex code: everything is recomputed from the
// reference model and the returned numbers. See DESIGN.md 3.5.
#pragma once
#include "vf.hpp"

namespace vf
{
struct Tol
{
   Q tf, to;       // kappa * FEASTOL, kappa * OPTTOL  (0 in exact mode)
   Q rel;          // rounding-level relative slack (1e-9; 0 in exact mode)
   bool exact = false;
   static Tol real(double feastol = 1e-6, double opttol = 1e-6, int kappa = 10)
   {
      Tol t;
      t.tf = Q(feastol) * kappa;
      t.to = Q(opttol) * kappa;
      t.rel = Q(1, 1000000000);
      return t;
   }
   static Tol zero()
   {
      Tol t;
      t.tf = 0;
      t.to = 0;
      t.rel = 0;
      t.exact = true;
      return t;
   }
};

inline std::string fmtd(const Q& q)
{
   char b[64];
   snprintf(b, sizeof b, "%.10g", q.get_d());
   return b;
}

// O-cert: returns "" or a description of the first failed item.
// x,s,y,d,obj: what the solver returned, as exact numbers. pl (optional): planted truth.
inline std::string checkOptimalCert(const LP& lp, const std::vector<Q>& x, const std::vector<Q>& s,
                                    const std::vector<Q>& y, const std::vector<Q>& d, const Q& obj,
                                    const Tol& t, const Planted* pl, const Q* refOpt = nullptr,
                                    bool* degenerate = nullptr)
{
   int m = lp.m(), n = lp.n();
   std::ostringstream e;
   if((int) x.size() != n || (int) d.size() != n || (int) s.size() != m || (int) y.size() != m)
      return "dimension mismatch of returned vectors";
   int sg = lp.sense == -1 ? 1 : -1;    // min-form multipliers = sg * returned
   // 1. primal feasibility
   for(int j = 0; j < n; j++)
   {
      if(isFin(lp.lo[j]) && lp.lo[j] - x[j] > t.tf)
      {
         e << "col " << j << " below lower bound by " << fmtd(lp.lo[j] - x[j]);
         return e.str();
      }
      if(isFin(lp.up[j]) && x[j] - lp.up[j] > t.tf)
      {
         e << "col " << j << " above upper bound by " << fmtd(x[j] - lp.up[j]);
         return e.str();
      }
   }
   for(int i = 0; i < m; i++)
   {
      if(isFin(lp.lhs[i]) && lp.lhs[i] - s[i] > t.tf)
      {
         e << "row " << i << " slack below lhs by " << fmtd(lp.lhs[i] - s[i]);
         return e.str();
      }
      if(isFin(lp.rhs[i]) && s[i] - lp.rhs[i] > t.tf)
      {
         e << "row " << i << " slack above rhs by " << fmtd(s[i] - lp.rhs[i]);
         return e.str();
      }
   }
   // 2. linking: slack = A x, redcost = c - A^T y
   for(int i = 0; i < m; i++)
   {
      Q a = 0, mag = 0;
      for(int j = 0; j < n; j++) if(lp.A[i][j] != 0)
         {
            Q p = lp.A[i][j] * x[j];
            a += p;
            mag += qabs(p);
         }
      if(qabs(s[i] - a) > t.to + t.rel * (1 + mag))
      {
         e << "slack " << i << " = " << fmtd(s[i]) << " but row activity = " << fmtd(a);
         return e.str();
      }
   }
   for(int j = 0; j < n; j++)
   {
      Q a = lp.obj[j], mag = qabs(lp.obj[j]);
      for(int i = 0; i < m; i++) if(lp.A[i][j] != 0)
         {
            Q p = lp.A[i][j] * y[i];
            a -= p;
            mag += qabs(p);
         }
      if(qabs(d[j] - a) > t.to + t.rel * (1 + mag))
      {
         e << "redcost " << j << " = " << fmtd(d[j]) << " but c - A^T y = " << fmtd(a);
         return e.str();
      }
   }
   // 3. dual signs (min-form): positive multiplier needs a finite lower side, negative a finite upper side
   for(int j = 0; j < n; j++)
   {
      Q v = sg * d[j];
      if(v > t.to && !isFin(lp.lo[j]))
      {
         e << "redcost " << j << " = " << fmtd(d[j]) << " has the sign of 'at lower' but lower is -inf";
         return e.str();
      }
      if(v < -t.to && !isFin(lp.up[j]))
      {
         e << "redcost " << j << " = " << fmtd(d[j]) << " has the sign of 'at upper' but upper is +inf";
         return e.str();
      }
   }
   for(int i = 0; i < m; i++)
   {
      Q v = sg * y[i];
      if(v > t.to && !isFin(lp.lhs[i]))
      {
         e << "dual " << i << " = " << fmtd(y[i]) << " has the sign of 'at lhs' but lhs is -inf";
         return e.str();
      }
      if(v < -t.to && !isFin(lp.rhs[i]))
      {
         e << "dual " << i << " = " << fmtd(y[i]) << " has the sign of 'at rhs' but rhs is +inf";
         return e.str();
      }
   }
   // 4. objective = c.x + offset
   {
      Q a = lp.offset, mag = qabs(lp.offset);
      for(int j = 0; j < n; j++)
      {
         Q p = lp.obj[j] * x[j];
         a += p;
         mag += qabs(p);
      }
      Q tolobj = t.exact ? Q(0) : Q(t.rel * 1000 * (1 + mag));    // 1e-6 relative: the suite's own criterion
      if(qabs(obj - a) > tolobj)
      {
         e << "objective " << fmtd(obj) << " but c.x + offset = " << fmtd(a);
         return e.str();
      }
   }
   // 5. duality gap with complementary-slackness budget (all in min-form)
   Q gap = 0, budget = t.rel * (1 + qabs(obj));
   bool degen = false;
   for(int j = 0; j < n; j++)
   {
      Q v = sg * d[j];
      const Q& beta = v > 0 ? lp.lo[j] : lp.up[j];
      if(v == 0) continue;
      if(!isFin(beta))
      {
         budget += t.to * qabs(x[j]);
         gap += v * x[j];   // |v| <= to here (item 3)
         continue;
      }
      gap += v * (x[j] - beta);
      budget += qabs(v) > t.to ? Q(qabs(v) * t.tf) : Q(t.to * qabs(x[j] - beta));
   }
   for(int i = 0; i < m; i++)
   {
      Q v = sg * y[i];
      const Q& sigma = v > 0 ? lp.lhs[i] : lp.rhs[i];
      if(v == 0) continue;
      if(!isFin(sigma))
      {
         budget += t.to * qabs(s[i]);
         gap += v * s[i];
         continue;
      }
      gap += v * (s[i] - sigma);
      budget += qabs(v) > t.to ? Q(qabs(v) * t.tf) : Q(t.to * qabs(s[i] - sigma));
   }
   // linking errors enter the identity c.x = d.x + y.(Ax): allow them
   if(!t.exact)
   {
      Q sx = 0, sy = 0;
      for(int j = 0; j < n; j++) sx += qabs(x[j]);
      for(int i = 0; i < m; i++) sy += qabs(y[i]);
      budget += t.to * (sx + sy) / 10 + t.rel * (1 + sx + sy);
   }
   if(qabs(gap) > budget)
   {
      e << "duality gap " << fmtd(gap) << " exceeds complementary-slackness budget " << fmtd(budget);
      return e.str();
   }
   // degenerate: a tight column/row with zero multiplier
   for(int j = 0; j < n && !degen; j++)
      if(d[j] == 0 && ((isFin(lp.lo[j]) && x[j] == lp.lo[j]) || (isFin(lp.up[j]) && x[j] == lp.up[j]))) degen = true;
   if(degenerate) *degenerate = degen;
   // 6. against the reference optimum
   if(pl && pl->cls == CL_OPT && (int) pl->x.size() == n && (int) pl->y.size() == m)
   {
      Q sm = 0, sp = 0;
      for(auto& v : pl->y) sm += qabs(v);
      for(auto& v : pl->d) sm += qabs(v);
      for(auto& v : pl->x) sp += qabs(v);
      for(int i = 0; i < m; i++) sp += qabs(lp.act(i, pl->x));
      Q objtol = t.exact ? Q(0) : Q(t.rel * 1000 * (1 + qabs(pl->z)));
      Q lowdev = t.tf * sm + objtol;                      // obj (min-form) may undershoot z* by this much
      Q updev = budget + 2 * t.to * sp + objtol;          // and overshoot by this much
      Q diff = sg * (obj - pl->z);                        // min-form: obj - z*
      if(diff < -lowdev || diff > updev)
      {
         e << "objective " << fmtd(obj) << " differs from the planted optimum " << fmtd(pl->z) << " (allowed -" << fmtd(lowdev) << " / +" << fmtd(updev) << " in min-form)";
         return e.str();
      }
   }
   if(refOpt)
   {
      Q tolr = t.exact ? Q(0) : Q(Q(1, 1000000) * std::max(Q(1), qabs(*refOpt)) + budget);
      if(qabs(obj - *refOpt) > tolr)
      {
         e << "objective " << fmtd(obj) << " differs from the reference optimum " << fmtd(*refOpt);
         return e.str();
      }
   }
   return "";
}

// primal feasibility only (item 1 + linking), used for isPrimalFeasible() claims
inline std::string checkPrimalFeasible(const LP& lp, const std::vector<Q>& x, const Tol& t)
{
   std::ostringstream e;
   int m = lp.m(), n = lp.n();
   if((int) x.size() != n) return "dimension mismatch";
   for(int j = 0; j < n; j++)
   {
      if(isFin(lp.lo[j]) && lp.lo[j] - x[j] > t.tf)
      {
         e << "col " << j << " below lower bound by " << fmtd(lp.lo[j] - x[j]);
         return e.str();
      }
      if(isFin(lp.up[j]) && x[j] - lp.up[j] > t.tf)
      {
         e << "col " << j << " above upper bound by " << fmtd(x[j] - lp.up[j]);
         return e.str();
      }
   }
   for(int i = 0; i < m; i++)
   {
      Q a = 0, mag = 0;
      for(int j = 0; j < n; j++) if(lp.A[i][j] != 0)
         {
            Q p = lp.A[i][j] * x[j];
            a += p;
            mag += qabs(p);
         }
      Q tt = t.tf + t.rel * mag;
      if(isFin(lp.lhs[i]) && lp.lhs[i] - a > tt)
      {
         e << "row " << i << " activity below lhs by " << fmtd(lp.lhs[i] - a);
         return e.str();
      }
      if(isFin(lp.rhs[i]) && a - lp.rhs[i] > tt)
      {
         e << "row " << i << " activity above rhs by " << fmtd(a - lp.rhs[i]);
         return e.str();
      }
   }
   return "";
}

// O-farkas: y proves infeasibility iff the interval implied for y^T(Ax) by the row sides is
// separated from the range of (y^T A) x over the column box. Either global sign is accepted.
inline std::string checkFarkas(const LP& lp, const std::vector<Q>& yin, bool exact)
{
   int m = lp.m(), n = lp.n();
   if((int) yin.size() != m) return "Farkas vector has wrong dimension";
   Q nrm = 0, y1 = 0, amax = 0;
   for(auto& v : yin) nrm = std::max(nrm, qabs(v));
   if(nrm == 0) return "Farkas vector is zero";
   std::vector<Q> y(m);
   for(int i = 0; i < m; i++)
   {
      y[i] = yin[i] / nrm;
      y1 += qabs(y[i]);
   }
   for(auto& r : lp.A) for(auto& v : r) amax = std::max(amax, qabs(v));
   Q eps = exact ? Q(0) : Q(Q(1, 1000000000) * y1 * std::max(Q(1), amax));
   Q yeps = exact ? Q(0) : Q(1, 1000000000);
   for(int sign = 1; sign >= -1; sign -= 2)
   {
      // aggregated row: g.x in [L,U] where L = sum_{y>0} y lhs + sum_{y<0} y rhs, U symmetric
      bool Linf = false, Uinf = false;
      Q L = 0, U = 0;
      for(int i = 0; i < m; i++)
      {
         Q v = sign * y[i];
         if(v == 0) continue;
         bool tiny = qabs(v) <= yeps;    // tiny multiplier facing an infinite side counts as zero
         const Q& sideL = v > 0 ? lp.lhs[i] : lp.rhs[i];
         const Q& sideU = v > 0 ? lp.rhs[i] : lp.lhs[i];
         if(isFin(sideL)) L += v * sideL;
         else if(!tiny) Linf = true;
         if(isFin(sideU)) U += v * sideU;
         else if(!tiny) Uinf = true;
      }
      // activity range of g.x over the box
      bool aminInf = false, amaxInf = false;
      Q amin = 0, amx = 0;
      for(int j = 0; j < n; j++)
      {
         Q g = 0;
         for(int i = 0; i < m; i++) if(lp.A[i][j] != 0 && y[i] != 0) g += sign * y[i] * lp.A[i][j];
         if(g == 0) continue;
         bool tiny = qabs(g) <= eps;
         if(g > 0)
         {
            if(isFin(lp.lo[j])) amin += g * lp.lo[j];
            else if(!tiny) aminInf = true;
            if(isFin(lp.up[j])) amx += g * lp.up[j];
            else if(!tiny) amaxInf = true;
         }
         else
         {
            if(isFin(lp.up[j])) amin += g * lp.up[j];
            else if(!tiny) aminInf = true;
            if(isFin(lp.lo[j])) amx += g * lp.lo[j];
            else if(!tiny) amaxInf = true;
         }
      }
      // infeasible iff L > amax or U < amin
      if(!Linf && !amaxInf && L > amx) return "";
      if(!Uinf && !aminInf && U < amin) return "";
   }
   return "Farkas vector does not separate the row sides from the column-box activity range";
}

// O-ray: recession direction that improves the objective
inline std::string checkRay(const LP& lp, const std::vector<Q>& rin, bool exact)
{
   int m = lp.m(), n = lp.n();
   std::ostringstream e;
   if((int) rin.size() != n) return "ray has wrong dimension";
   Q nrm = 0;
   for(auto& v : rin) nrm = std::max(nrm, qabs(v));
   if(nrm == 0) return "ray is zero";
   std::vector<Q> r(n);
   for(int j = 0; j < n; j++) r[j] = rin[j] / nrm;
   Q eps = exact ? Q(0) : Q(1, 10000000);
   for(int j = 0; j < n; j++)
   {
      if(isFin(lp.lo[j]) && r[j] < -eps)
      {
         e << "ray component " << j << " = " << fmtd(r[j]) << " leaves a finite lower bound";
         return e.str();
      }
      if(isFin(lp.up[j]) && r[j] > eps)
      {
         e << "ray component " << j << " = " << fmtd(r[j]) << " leaves a finite upper bound";
         return e.str();
      }
   }
   Q c1 = 0, cr = 0;
   for(int j = 0; j < n; j++)
   {
      c1 += qabs(lp.obj[j]);
      cr += lp.obj[j] * r[j];
   }
   for(int i = 0; i < m; i++)
   {
      Q a = 0, mag = 0;
      for(int j = 0; j < n; j++) if(lp.A[i][j] != 0)
         {
            a += lp.A[i][j] * r[j];
            mag += qabs(lp.A[i][j]);
         }
      Q te = eps * std::max(Q(1), mag);
      if(isFin(lp.lhs[i]) && a < -te)
      {
         e << "ray makes row " << i << " decrease (" << fmtd(a) << ") below a finite lhs";
         return e.str();
      }
      if(isFin(lp.rhs[i]) && a > te)
      {
         e << "ray makes row " << i << " increase (" << fmtd(a) << ") above a finite rhs";
         return e.str();
      }
   }
   Q imp = lp.sense * cr;     // must be > 0
   if(!(imp > eps * c1))
   {
      e << "ray does not improve the objective: sense*c.r = " << fmtd(imp);
      return e.str();
   }
   return "";
}
} // namespace vf
