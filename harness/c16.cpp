// c16.cpp - C16: limits and interrupts stop the solve honestly and resumably (fault enumeration:
// for each generated LP x configuration EVERY stop point k = 0..N is run).
#include "spx.hpp"
#include "gen_lp.hpp"
#include "certs.hpp"
#include "hist_common.hpp"
#include <streambuf>

using namespace vf;
using namespace soplex;

static void gen(Case& c)
{
   bool thorough = opts().tier == "thorough";
   GenOpt g;
   bool exact = opts().x.count("mode") && opts().x["mode"] == "exact";
   g.maxM = g.maxN = (int) opts().xi("maxdim", exact ? (thorough ? 12 : 8) : (thorough ? 30 : 16));
   g.minM = g.minN = 2;
   int cls = 1 + W({70, 12, 12, 6});
   genPlantedLP(g, cls, c.lp, c.pl);
   c.recs.push_back(Rec("int").add((int) SoPlex::ALGORITHM).add(R(0, 1)));
   c.recs.push_back(Rec("int").add((int) SoPlex::REPRESENTATION).add(R(0, 2)));
   c.recs.push_back(Rec("int").add((int) SoPlex::SIMPLIFIER).add(P(50) ? 0 : 1));
   if(P(30)) c.recs.push_back(Rec("int").add((int) SoPlex::SCALER).add(R(0, 6)));
   if(P(20)) c.recs.push_back(Rec("bool").add((int) SoPlex::PERSISTENTSCALING).add(R(0, 1)));
   if(P(20)) c.recs.push_back(Rec("seed").add(R(0, 100)));
   if(opts().x.count("mode") && opts().x["mode"] == "exact") c.recs.push_back(Rec("mode").add("exact"));
}

// counts lines written to the solver's message stream and raises the interrupt flag at line k
struct LineTrigger : public std::streambuf
{
   volatile bool* flag;
   long target, lines = 0;
   LineTrigger(volatile bool* f, long t) : flag(f), target(t) {}
   int overflow(int ch) override
   {
      if(ch == '\n')
      {
         lines++;
         if(lines >= target) *flag = true;
      }
      return ch;
   }
};

struct Ref
{
   int status = 0, cls = 0, iters = 0;
   Q obj;
};

static void setup(SoPlex& sp, const Case& c)
{
   quiet(sp);
   applyParams(sp, c);
   loadReal(sp, c.lp, 0);
}

// what every stopped run must satisfy; 'kind' names the limit
static std::string judgeStopped(SoPlex& sp, const Case& c, const Ref& ref, const Tol& t, const std::string& kind, int allowedAbort, long iterLimit)
{
   Status st = sp.status();
   std::ostringstream e;
   int cl = statusClass(st);
   if(cl != CL_UNKNOWN)
   {
      // a verdict: must be the LP's true class (the planted one; INForUNBD is compatible with both)
      int truth = c.pl.cls == CL_INFUNB ? CL_INF : c.pl.cls;
      bool okv = (cl == truth) || (cl == CL_INFUNB && (truth == CL_INF || truth == CL_UNB)) || (c.pl.cls == CL_INFUNB && cl == CL_UNB);
      if(!okv)
      {
         e << kind << ": stopped run returned " << statusName(st) << " but the LP is " << className(c.pl.cls);
         return e.str();
      }
      if(st == Solver::OPTIMAL)
      {
         RealSol r = snapshotReal(sp);
         std::string m = checkOptimalCert(c.lp, r.x, r.s, r.y, r.d, r.obj, t, &c.pl);
         if(!m.empty()) return kind + ": OPTIMAL certificate after a limited run: " + m;
      }
   }
   else if((int) st != allowedAbort)
   {
      e << kind << ": status " << statusName(st) << " instead of " << statusName(allowedAbort) << " or a verdict";
      return e.str();
   }
   if(iterLimit >= 0 && sp.numIterations() > iterLimit)
   {
      e << kind << ": " << sp.numIterations() << " iterations performed under ITERLIMIT " << iterLimit;
      return e.str();
   }
   return "";
}
static std::string judgeBasis(SoPlex& sp, const LP& md, const std::string& kind)
{
   if(!sp.hasBasis()) return "";
   int m = md.m(), n = md.n();
   std::vector<VarStatus> rs(m + 1), cs(n + 1);
   sp.getBasis(rs.data(), cs.data());
   int basic = 0;
   std::ostringstream er;
   for(int i = 0; i < m; i++)
   {
      if(rs[i] == Solver::BASIC) basic++;
      else if(rs[i] == Solver::ON_LOWER && !isFin(md.lhs[i])) er << "row " << i << " ON_LOWER at infinite lhs; ";
      else if(rs[i] == Solver::ON_UPPER && !isFin(md.rhs[i])) er << "row " << i << " ON_UPPER at infinite rhs; ";
      else if(rs[i] == Solver::FIXED && md.lhs[i] != md.rhs[i]) er << "row " << i << " FIXED with lhs != rhs; ";
      else if(rs[i] == Solver::UNDEFINED) er << "row " << i << " UNDEFINED; ";
   }
   for(int j = 0; j < n; j++)
   {
      if(cs[j] == Solver::BASIC) basic++;
      else if(cs[j] == Solver::ON_LOWER && !isFin(md.lo[j])) er << "col " << j << " ON_LOWER at infinite lower; ";
      else if(cs[j] == Solver::ON_UPPER && !isFin(md.up[j])) er << "col " << j << " ON_UPPER at infinite upper; ";
      else if(cs[j] == Solver::FIXED && md.lo[j] != md.up[j]) er << "col " << j << " FIXED with lower != upper; ";
      else if(cs[j] == Solver::UNDEFINED) er << "col " << j << " UNDEFINED; ";
   }
   if(basic != m) er << basic << " basic variables for " << m << " rows; ";
   return er.str().empty() ? "" : kind + ": basis after the stop: " + er.str();
}
// continue with the limit lifted: must reach the reference
static std::string judgeResume(SoPlex& sp, const Case& c, const Ref& ref, const Tol& t, const std::string& kind)
{
   Status st;
   try
   {
      st = sp.optimize();
   }
   catch(const SPxException& x)
   {
      return kind + ": resume threw: " + x.what().c_str();
   }
   int cl = statusClass(st);
   std::ostringstream e;
   // an LP that is primal AND dual infeasible may legitimately be reported INFEASIBLE, UNBOUNDED or INForUNBD (C02 counts all
   // three); which one the resumed solve reports need not be the one of the uninterrupted solve
   bool bothInf = c.pl.cls == CL_INFUNB && (cl == CL_INF || cl == CL_UNB || cl == CL_INFUNB);
   if((!classesAgree(cl, ref.cls) && !bothInf) || cl == CL_UNKNOWN)
   {
      e << kind << ": after lifting the limit the solve ends " << statusName(st) << " but the uninterrupted solve ends " << statusName(ref.status);
      return e.str();
   }
   if(st == Solver::OPTIMAL)
   {
      RealSol r = snapshotReal(sp);
      std::string m = checkOptimalCert(c.lp, r.x, r.s, r.y, r.d, r.obj, t, &c.pl);
      if(!m.empty()) return kind + ": certificate after resuming: " + m;
   }
   return "";
}

// ------------------------------------------------------------------ exact solves (SOLVEMODE_RATIONAL)
static std::vector<Q> toQr(const VectorRational& v)
{
   std::vector<Q> r(v.dim());
   for(int i = 0; i < v.dim(); i++) r[i] = qr(v[i]);
   return r;
}
static void setupExact(SoPlex& sp, const Case& c)
{
   quiet(sp);
   sp.setIntParam(SoPlex::SOLVEMODE, SoPlex::SOLVEMODE_RATIONAL);
   sp.setIntParam(SoPlex::CHECKMODE, SoPlex::CHECKMODE_RATIONAL);
   sp.setIntParam(SoPlex::SYNCMODE, SoPlex::SYNCMODE_AUTO);
   sp.setRealParam(SoPlex::FEASTOL, 0.0);
   sp.setRealParam(SoPlex::OPTTOL, 0.0);
   applyParams(sp, c);
   loadRational(sp, c.lp, 0);
   sp.setRealParam(SoPlex::OBJ_OFFSET, dq(c.lp.offset));
}
// a verdict of a limited exact run must be true (exactly), an abort must be the one that belongs to the limit
static std::string judgeExact(SoPlex& sp, const Case& c, const std::string& kind, int allowedAbort, long iterLimit, long limitValue = -1)
{
   Status st = sp.status();
   std::ostringstream e;
   int cl = statusClass(st);
   int m = c.lp.m(), n = c.lp.n();
   if(st == Solver::OPTIMAL)
   {
      if(c.pl.cls != CL_OPT) return kind + ": exact OPTIMAL for an LP planted " + className(c.pl.cls);
      VectorRational x(n), y(m), sl(m), d(n);
      if(!sp.getPrimalRational(x) || !sp.getDualRational(y) || !sp.getSlacksRational(sl) || !sp.getRedCostRational(d))
         return kind + ": OPTIMAL but a rational getter refused";
      Q zs = c.pl.z;
      std::string msg = checkOptimalCert(c.lp, toQr(x), toQr(sl), toQr(y), toQr(d), qr(sp.objValueRational()), Tol::zero(), nullptr, &zs);
      if(!msg.empty()) return kind + ": exact OPTIMAL certificate after a limited run: " + msg;
   }
   else if(st == Solver::INFEASIBLE)
   {
      if(c.pl.cls == CL_OPT || c.pl.cls == CL_UNB) return kind + ": exact INFEASIBLE for a feasible LP";
   }
   else if(st == Solver::UNBOUNDED)
   {
      if(c.pl.cls != CL_UNB) return kind + ": exact UNBOUNDED for an LP planted " + className(c.pl.cls);
   }
   else if(cl != CL_UNKNOWN)
   {
      // INForUNBD is compatible with infeasible / unbounded only
      if(c.pl.cls == CL_OPT) return kind + ": " + statusName(st) + " for an LP with a finite optimum";
   }
   else if((int) st != allowedAbort)
   {
      // known finding C16/exact-iterlimit-error-status: exact solve stopped by a limit while it is inside a fallback (presolve
      // verdict not yet confirmed, or a floating-point solve that threw and made it switch to the multiprecision solver):
      // the error flag wins over the stop flags and the status is ERROR instead of ABORT_ITER / ABORT_TIME. Signature: status
      // ERROR of an exact solve while a limit is in force (allowedAbort names it)
      if(st == Solver::ERROR && allowedAbort != -12345 && knownKey("exact-iterlimit-error-status"))
      {
         ev().count("excluded_known.exact-iterlimit-error-status");
         return "";
      }
      e << kind << ": status " << statusName(st) << " instead of " << statusName(allowedAbort) << " or a verdict";
      return e.str();
   }
   if(iterLimit >= 0 && sp.numIterations() > iterLimit)
   {
      e << kind << ": " << sp.numIterations() << " iterations performed under ITERLIMIT " << iterLimit;
      return e.str();
   }
   return "";
}

static Verdict runExact(const Case& c)
{
   Verdict v;
   Evidence& e = ev();
   int refStatus, refCls, N, RF;
   {
      SoPlex sp;
      setupExact(sp, c);
      sp.setIntParam(SoPlex::ITERLIMIT, 20000);
      sp.setIntParam(SoPlex::REFLIMIT, 60);
      sp.optimize();
      refStatus = sp.status();
      refCls = statusClass(refStatus);
      N = sp.numIterations();
      RF = sp.numRefinements();
   }
   e.count(std::string("exact.ref.") + statusName(refStatus));
   if(refCls == CL_UNKNOWN)
   {
      e.count("exact.reference_without_verdict");   // judged by C03 (known finding exact-default-options-undecided)
      return v;
   }
   int aborted = 0;
   auto resume = [&](SoPlex & sp, const std::string & kind) -> std::string
   {
      sp.setIntParam(SoPlex::ITERLIMIT, 20000);
      sp.setIntParam(SoPlex::REFLIMIT, 60);
      sp.setIntParam(SoPlex::STALLREFLIMIT, -1);
      sp.setRealParam(SoPlex::TIMELIMIT, 1e100);
      Status st;
      try
      {
         st = sp.optimize();
      }
      catch(const SPxException& x)
      {
         return kind + ": resume threw: " + x.what().c_str();
      }
      // known finding C16/exact-iterlimit-error-status, resume form: the same ERROR when the resumed exact solve starts with a
      // presolve verdict (simplifier on, LP without finite optimum) that the floating-point solver does not get to confirm
      if(st == Solver::ERROR && refCls != CL_OPT && sp.intParam(SoPlex::SIMPLIFIER) != SoPlex::SIMPLIFIER_OFF
            && knownKey("exact-iterlimit-error-status"))
      {
         ev().count("excluded_known.exact-iterlimit-error-status.resume");
         return "";
      }
      bool bothInf = c.pl.cls == CL_INFUNB && (statusClass(st) == CL_INF || statusClass(st) == CL_UNB || statusClass(st) == CL_INFUNB);
      if((!classesAgree(statusClass(st), refCls) && !bothInf) || statusClass(st) == CL_UNKNOWN)
         return kind + ": after lifting the limit the exact solve ends " + statusName(st) + " but the uninterrupted one ends " + statusName(refStatus);
      return judgeExact(sp, c, kind + " (resumed)", -12345, -1);
   };
   std::vector<int> ks;
   if(N <= 30) for(int k = 0; k <= N; k++) ks.push_back(k);
   else for(int q = 0; q <= 30; q++) ks.push_back((int)((long) q * N / 30));
   for(int k : ks)
   {
      SoPlex sp;
      setupExact(sp, c);
      sp.setIntParam(SoPlex::ITERLIMIT, k);
      sp.setIntParam(SoPlex::REFLIMIT, 60);
      try
      {
         sp.optimize();
      }
      catch(const SPxException& x)
      {
         v.fail(std::string("exact iterlimit: optimize threw: ") + x.what().c_str());
         return v;
      }
      e.count("exact.stop.iterlimit");
      if(sp.status() == Solver::ABORT_ITER)
      {
         aborted++;
         e.count("exact.aborted.iterlimit");
      }
      std::string m = judgeExact(sp, c, "exact iterlimit", Solver::ABORT_ITER, k, k);
      if(m.empty()) m = resume(sp, "exact iterlimit");
      if(!m.empty())
      {
         v.fail(m + " [k=" + std::to_string(k) + " of N=" + std::to_string(N) + "]");
         return v;
      }
   }
   for(int which = 0; which < 2; which++)
      for(int r = 0; r <= std::min(RF + 1, 6); r++)
      {
         SoPlex sp;
         setupExact(sp, c);
         sp.setIntParam(SoPlex::ITERLIMIT, 20000);
         sp.setIntParam(which == 0 ? SoPlex::REFLIMIT : SoPlex::STALLREFLIMIT, r);
         if(which == 1) sp.setIntParam(SoPlex::REFLIMIT, 60);
         try
         {
            sp.optimize();
         }
         catch(const SPxException& x)
         {
            v.fail(std::string("exact reflimit: optimize threw: ") + x.what().c_str());
            return v;
         }
         e.count(which == 0 ? "exact.stop.reflimit" : "exact.stop.stallreflimit");
         if(sp.status() == Solver::ABORT_ITER)
         {
            aborted++;
            e.count(which == 0 ? "exact.aborted.reflimit" : "exact.aborted.stallreflimit");
         }
         std::string kind = which == 0 ? "exact reflimit" : "exact stallreflimit";
         std::string m = judgeExact(sp, c, kind, Solver::ABORT_ITER, -1, r);
         if(m.empty()) m = resume(sp, kind);
         if(!m.empty())
         {
            v.fail(m + " [r=" + std::to_string(r) + " of " + std::to_string(RF) + "]");
            return v;
         }
      }
   // interrupt at output line k
   {
      long lines = 0;
      {
         volatile bool never = false;
         LineTrigger cnt(&never, 1L << 60);
         std::ostream os(&cnt);
         SoPlex sp;
         setupExact(sp, c);
         sp.setIntParam(SoPlex::VERBOSITY, SoPlex::VERBOSITY_HIGH);
         sp.setIntParam(SoPlex::DISPLAYFREQ, 1);
         sp.setIntParam(SoPlex::REFLIMIT, 60);
         for(int lv = 0; lv <= 5; lv++) sp.spxout.setStream((SPxOut::Verbosity) lv, os);
         volatile bool flag = false;
         sp.optimize(&flag);
         lines = cnt.lines;
      }
      std::vector<long> ls;
      if(lines <= 25) for(long k = 1; k <= lines; k++) ls.push_back(k);
      else for(int q = 1; q <= 25; q++) ls.push_back(q * lines / 25);
      for(long k : ls)
      {
         volatile bool flag = false;
         LineTrigger trg(&flag, k);
         std::ostream os(&trg);
         SoPlex sp;
         setupExact(sp, c);
         sp.setIntParam(SoPlex::VERBOSITY, SoPlex::VERBOSITY_HIGH);
         sp.setIntParam(SoPlex::DISPLAYFREQ, 1);
         sp.setIntParam(SoPlex::REFLIMIT, 60);
         for(int lv = 0; lv <= 5; lv++) sp.spxout.setStream((SPxOut::Verbosity) lv, os);
         try
         {
            sp.optimize(&flag);
         }
         catch(const SPxException& x)
         {
            v.fail(std::string("exact interrupt: optimize threw: ") + x.what().c_str());
            return v;
         }
         e.count("exact.stop.interrupt");
         if(sp.status() == Solver::ABORT_TIME)
         {
            aborted++;
            e.count("exact.aborted.interrupt");
         }
         std::string m = judgeExact(sp, c, "exact interrupt", Solver::ABORT_TIME, -1);
         if(m.empty())
         {
            flag = false;
            trg.target = 1L << 60;
            m = resume(sp, "exact interrupt");
         }
         if(!m.empty())
         {
            v.fail(m + " [line " + std::to_string(k) + " of " + std::to_string(lines) + "]");
            return v;
         }
      }
   }
   {
      SoPlex sp;
      setupExact(sp, c);
      sp.setRealParam(SoPlex::TIMELIMIT, 0.0);
      try
      {
         sp.optimize();
      }
      catch(const SPxException& x)
      {
         v.fail(std::string("exact timelimit: optimize threw: ") + x.what().c_str());
         return v;
      }
      e.count("exact.stop.timelimit");
      if(sp.status() == Solver::ABORT_TIME)
      {
         aborted++;
         e.count("exact.aborted.timelimit");
      }
      std::string m = judgeExact(sp, c, "exact timelimit", Solver::ABORT_TIME, -1, 0);
      if(m.empty()) m = resume(sp, "exact timelimit");
      if(!m.empty())
      {
         v.fail(m);
         return v;
      }
   }
   e.count("stop_points_aborted", aborted);
   v.nontrivial = aborted >= 1 && N >= 1;
   return v;
}

static Verdict run(const Case& c)
{
   if(c.find("mode")) return runExact(c);
   Verdict v;
   Evidence& e = ev();
   Tol t = Tol::real();
   Ref ref;
   {
      SoPlex sp;
      setup(sp, c);
      sp.setIntParam(SoPlex::ITERLIMIT, 50000);
      sp.optimize();
      ref.status = sp.status();
      ref.cls = statusClass(ref.status);
      ref.iters = sp.numIterations();
      ref.obj = Q(sp.objValueReal());
   }
   e.count(std::string("ref.") + statusName(ref.status));
   if(ref.cls == CL_UNKNOWN)
   {
      e.count("reference_without_verdict");   // judged by C01/C02
      return v;
   }
   {
      // the uninterrupted solve must itself agree with the planted class; if it does not (ill-posed instances such as an
      // optimal LP with a recession direction of zero cost, which C01/C02 adjudicate with z3) the LP is not used here
      int truth = c.pl.cls == CL_INFUNB ? CL_INF : c.pl.cls;
      bool okr = (ref.cls == truth) || (ref.cls == CL_INFUNB && (truth == CL_INF || truth == CL_UNB)) || (c.pl.cls == CL_INFUNB && ref.cls == CL_UNB);
      if(!okr)
      {
         e.count("reference_disagrees_with_planted_class");   // judged by C01/C02
         return v;
      }
   }
   int N = ref.iters;
   int aborted = 0;
   // ---- iteration limit k = 0..N (all k when N <= 80, else 80 stratified)
   std::vector<int> ks;
   if(N <= 80) for(int k = 0; k <= N; k++) ks.push_back(k);
   else for(int q = 0; q <= 80; q++) ks.push_back((int)((long) q * N / 80));
   for(int k : ks)
   {
      SoPlex sp;
      setup(sp, c);
      sp.setIntParam(SoPlex::ITERLIMIT, k);
      try
      {
         sp.optimize();
      }
      catch(const SPxException& x)
      {
         v.fail(std::string("iterlimit: optimize threw: ") + x.what().c_str());
         return v;
      }
      e.count("stop.iterlimit");
      if(sp.status() == Solver::ABORT_ITER)
      {
         aborted++;
         e.count("aborted.iterlimit");
      }
      std::string kind = "iterlimit";
      std::string m = judgeStopped(sp, c, ref, t, kind, Solver::ABORT_ITER, k);
      if(m.empty()) m = judgeBasis(sp, c.lp, kind);
      if(m.empty())
      {
         sp.setIntParam(SoPlex::ITERLIMIT, -1);
         m = judgeResume(sp, c, ref, t, kind);
      }
      if(!m.empty())
      {
         v.fail(m + " [k=" + std::to_string(k) + " of N=" + std::to_string(N) + "]");
         return v;
      }
   }
   // ---- interrupt flag raised when output line k is written (DISPLAYFREQ 1)
   {
      long lines = 0;
      {
         volatile bool never = false;
         LineTrigger cnt(&never, 1L << 60);
         std::ostream os(&cnt);
         SoPlex sp;
         setup(sp, c);
         sp.setIntParam(SoPlex::VERBOSITY, SoPlex::VERBOSITY_HIGH);
         sp.setIntParam(SoPlex::DISPLAYFREQ, 1);
         for(int lv = 0; lv <= 5; lv++) sp.spxout.setStream((SPxOut::Verbosity) lv, os);
         volatile bool flag = false;
         sp.optimize(&flag);
         lines = cnt.lines;
      }
      std::vector<long> ls;
      if(lines <= 40) for(long k = 1; k <= lines; k++) ls.push_back(k);
      else for(int q = 1; q <= 40; q++) ls.push_back(q * lines / 40);
      for(long k : ls)
      {
         volatile bool flag = false;
         LineTrigger trg(&flag, k);
         std::ostream os(&trg);
         SoPlex sp;
         setup(sp, c);
         sp.setIntParam(SoPlex::VERBOSITY, SoPlex::VERBOSITY_HIGH);
         sp.setIntParam(SoPlex::DISPLAYFREQ, 1);
         for(int lv = 0; lv <= 5; lv++) sp.spxout.setStream((SPxOut::Verbosity) lv, os);
         try
         {
            sp.optimize(&flag);
         }
         catch(const SPxException& x)
         {
            v.fail(std::string("interrupt: optimize threw: ") + x.what().c_str());
            return v;
         }
         e.count("stop.interrupt");
         if(sp.status() == Solver::ABORT_TIME)
         {
            aborted++;
            e.count("aborted.interrupt");
         }
         std::string kind = "interrupt";
         std::string m = judgeStopped(sp, c, ref, t, kind, Solver::ABORT_TIME, -1);
         if(m.empty()) m = judgeBasis(sp, c.lp, kind);
         if(m.empty())
         {
            flag = false;
            trg.target = 1L << 60;
            m = judgeResume(sp, c, ref, t, kind);
         }
         if(!m.empty())
         {
            v.fail(m + " [line " + std::to_string(k) + " of " + std::to_string(lines) + "]");
            return v;
         }
      }
   }
   // ---- time limit zero / tiny
   for(double tl : {0.0, 1e-9})
   {
      SoPlex sp;
      setup(sp, c);
      sp.setRealParam(SoPlex::TIMELIMIT, tl);
      try
      {
         sp.optimize();
      }
      catch(const SPxException& x)
      {
         v.fail(std::string("timelimit: optimize threw: ") + x.what().c_str());
         return v;
      }
      e.count("stop.timelimit");
      if(sp.status() == Solver::ABORT_TIME)
      {
         aborted++;
         e.count("aborted.timelimit");
      }
      std::string kind = "timelimit";
      std::string m = judgeStopped(sp, c, ref, t, kind, Solver::ABORT_TIME, -1);
      if(m.empty()) m = judgeBasis(sp, c.lp, kind);
      if(m.empty())
      {
         sp.setRealParam(SoPlex::TIMELIMIT, 1e100);
         m = judgeResume(sp, c, ref, t, kind);
      }
      if(!m.empty())
      {
         v.fail(m);
         return v;
      }
   }
   // ---- objective limits on both sides of the optimum (only for LPs with a finite optimum)
   if(ref.cls == CL_OPT && c.pl.cls == CL_OPT)
   {
      double z = c.pl.z.get_d();
      for(int side = 0; side < 2; side++)
         for(double dz : {-1.0 - 1e-3 * std::fabs(z), -0.5, 0.5, 1.0 + 1e-3 * std::fabs(z)})
         {
            SoPlex sp;
            setup(sp, c);
            SoPlex::RealParam prm = side == 0 ? SoPlex::OBJLIMIT_LOWER : SoPlex::OBJLIMIT_UPPER;
            double lim = z + dz;
            sp.setRealParam(prm, lim);
            try
            {
               sp.optimize();
            }
            catch(const SPxException& x)
            {
               v.fail(std::string("objlimit: optimize threw: ") + x.what().c_str());
               return v;
            }
            e.count("stop.objlimit");
            Status st = sp.status();
            std::string kind = std::string("objlimit(") + (side == 0 ? "lower" : "upper") + ")";
            if(st == Solver::ABORT_VALUE)
            {
               aborted++;
               e.count("aborted.objlimit");
               // the optimum must lie beyond the limit in the direction of optimisation: minimisation is cut off by
               // the upper limit (z >= limit), maximisation by the lower limit (z <= limit)
               bool beyond = c.lp.sense == -1 ? (side == 1 && z >= lim - 1e-6 * (1 + std::fabs(z)))
                             : (side == 0 && z <= lim + 1e-6 * (1 + std::fabs(z)));
               if(!beyond)
               {
                  v.fail(kind + ": ABORT_VALUE reported but the optimum " + fmtd(c.pl.z) + " is not beyond the limit " + std::to_string(lim));
                  return v;
               }
            }
            else
            {
               std::string m = judgeStopped(sp, c, ref, t, kind, Solver::ABORT_VALUE, -1);
               if(!m.empty())
               {
                  v.fail(m);
                  return v;
               }
            }
            std::string m = judgeBasis(sp, c.lp, kind);
            if(m.empty())
            {
               sp.setRealParam(prm, side == 0 ? -1e100 : 1e100);
               m = judgeResume(sp, c, ref, t, kind);
            }
            if(!m.empty())
            {
               v.fail(m);
               return v;
            }
         }
   }
   e.count("stop_points_aborted", aborted);
   v.nontrivial = aborted >= 1 && N >= 1;
   return v;
}

int main(int argc, char** argv)
{
   return vfMain(argc, argv, "C16", gen, run);
}
