// c14.cpp - C14 "Basis files and state files restore exactly what was saved".
//   stage A (always): writer object -> writeBasisFile -> independent parse of the BAS file -> FRESH object with the same LP ->
//                     readBasisFile -> getBasis == getBasis of the writer (before writing)
//   stage B (rec state 1): writeStateReal / writeStateRational(prefix, names, cpx, writeZeroObjective = true) -> FRESH object:
//                     loadSettingsFile, readFile, readBasisFile -> LP == reference model (by name, documented normalisations),
//                     every bool/int/real parameter and the seed equal, statuses equal, then both objects are solved
// recs:  names <rowsUser 0/1> <colsUser 0/1>    cname <j> <name>    rname <i> <name>
//        cpx <0/1>      how <0 solve | 1 solve with iteration limit | 2 setBasis | 3 solve, then setBasis>
//        rstat s0 s1 ..   cstat s0 s1 ..      (VarStatus codes 0 ON_UPPER 1 ON_LOWER 2 FIXED 3 ZERO 4 BASIC; how >= 2)
//        state <0/1>  rat <0/1>  readnames <0/1>  bcfg <0/1>  load <0/1>   int/bool/real/seed (spx.hpp applyParams)
// known-finding exclusion keys (--x known=k1,k2): bas-read-default-names, bas-write-unloaded-default-colname,
//        state-cpx-ranged-row, state-mps-long-names, bas-write-stale-without-basis, bas-cpx-flag-ignored
#include "spx.hpp"
#include "gen_lp.hpp"
#include <dirent.h>
#include <signal.h>

using namespace vf;
using soplex::NameSet;

enum { S_UP = 0, S_LO = 1, S_FX = 2, S_ZERO = 3, S_BASIC = 4, S_UNDEF = 5 };
static_assert((int) Solver::ON_UPPER == S_UP && (int) Solver::ON_LOWER == S_LO && (int) Solver::FIXED == S_FX
              && (int) Solver::ZERO == S_ZERO && (int) Solver::BASIC == S_BASIC && (int) Solver::UNDEFINED == S_UNDEF,
              "VarStatus codes");

static const char* stName(int s)
{
   static const char* n[] = {"ON_UPPER", "ON_LOWER", "FIXED", "ZERO", "BASIC", "UNDEFINED"};
   return (s >= 0 && s <= 5) ? n[s] : "?";
}

// --------------------------------------------------------------------------------------------- scratch files
// plain array: used by an atexit handler, so it must not have a destructor
static const char* const SCRATCH_FILES[] = {"c14.bas", "c14_state.bas", "c14_state.set", "c14_state.mps", "c14_state.lp"};
static std::vector<const char*> scratchFiles()
{
   return std::vector<const char*>(SCRATCH_FILES, SCRATCH_FILES + 5);
}
static std::string& scratchDirStore()
{
   static std::string* d = new std::string();      // never destroyed: the atexit handler reads it
   return *d;
}
static std::string scratchDir()
{
   std::string& d = scratchDirStore();
   if(!d.empty()) return d;
   if(opts().mode == "replay" && opts().dir == ".")
   {
      mkdir("/var/tmp/h-c14-replay", 0777);
      if(DIR* dh = opendir("/var/tmp/h-c14-replay"))   // leftovers of replays that died
      {
         while(dirent* de = readdir(dh))
         {
            long pid = std::strtol(de->d_name, nullptr, 10);
            if(pid <= 0 || kill((pid_t) pid, 0) == 0) continue;
            std::string old = std::string("/var/tmp/h-c14-replay/") + de->d_name;
            for(const char* f : SCRATCH_FILES) unlink((old + "/" + f).c_str());
            rmdir(old.c_str());
         }
         closedir(dh);
      }
      d = "/var/tmp/h-c14-replay/" + std::to_string((long) getpid());
      mkdir(d.c_str(), 0777);
      atexit([]()
      {
         for(const char* f : SCRATCH_FILES) unlink((scratchDirStore() + "/" + f).c_str());
         rmdir(scratchDirStore().c_str());
         rmdir("/var/tmp/h-c14-replay");
      });
   }
   else d = opts().dir;
   return d;
}
struct QuietCerr   // MPSInput::syntaxError prints to std::cerr regardless of the verbosity
{
   std::streambuf* old;
   QuietCerr() : old(std::cerr.rdbuf(nullptr)) {}
   ~QuietCerr()
   {
      std::cerr.rdbuf(old);
      std::cerr.clear();
   }
};

// --------------------------------------------------------------------------------------------- names
struct Names
{
   bool userRows = false, userCols = false;
   std::vector<std::string> col, row;      // the names that identify column j / row i in the files
};
static Names namesOf(const Case& c)
{
   Names nm;
   int m = c.lp.m(), n = c.lp.n();
   const Rec* r0 = c.find("names");
   nm.userRows = r0 && r0->i(0) != 0;
   nm.userCols = r0 && r0->i(1) != 0;
   nm.col.resize(n);
   nm.row.resize(m);
   // default names: "x<j>" / "C<i>" (SoPlex::writeBasisFile docs "default names are used"; getRowName/getColName)
   for(int j = 0; j < n; j++) nm.col[j] = "x" + std::to_string(j);
   for(int i = 0; i < m; i++) nm.row[i] = "C" + std::to_string(i);
   std::vector<char> cs(n, 0), rs(m, 0);
   for(auto& r : c.recs)
   {
      if(r.tag == "cname" && nm.userCols && r.i(0) >= 0 && r.i(0) < n && r.n() >= 2)
      {
         nm.col[r.i(0)] = r.s(1);
         cs[r.i(0)] = 1;
      }
      else if(r.tag == "rname" && nm.userRows && r.i(0) >= 0 && r.i(0) < m && r.n() >= 2)
      {
         nm.row[r.i(0)] = r.s(1);
         rs[r.i(0)] = 1;
      }
   }
   // a minimised case may have lost name recs: keep the sets distinct (deterministic repair)
   auto repair = [](std::vector<std::string>& v, const char* pfx)
   {
      std::set<std::string> seen;
      for(size_t k = 0; k < v.size(); k++)
      {
         int t = 0;
         while(seen.count(v[k])) v[k] = std::string(pfx) + "_dup" + std::to_string(k) + "_" + std::to_string(t++);
         seen.insert(v[k]);
      }
   };
   repair(nm.col, "c");
   repair(nm.row, "r");
   return nm;
}
static void fillNameSet(NameSet& ns, const std::vector<std::string>& v)
{
   for(auto& s : v) ns.add(s.c_str());
}

// name alphabet: BAS and MPS files are read by MPSInput (fields separated by blanks, '$' starts a comment field, '*' in
// column 1 a comment line), LP-format files by the LPF reader (names start with a letter or one of !"#$%&()/,;?@_'`{}|~,
// must not contain + - . < > = or blanks, must not start with e/E, keywords st/max/min/free/inf/end/bounds/... are
// reserved). Letters, digits and '_' with a first character that starts no LP-format keyword are legal in all three.
static std::string randName(int len)
{
   static const char* first = "acdhjklnopqrtuvwxyzACDHJKLNOPQRTUVWXYZ_";
   static const char* rest = "abcdefghijklmnopqrstuvwxyzABCDEFGHIJKLMNOPQRSTUVWXYZ0123456789_";
   std::string s(1, first[R(0, (int) strlen(first) - 1)]);
   for(int k = 1; k < len; k++) s += rest[R(0, 62)];
   return s;
}
static void genNames(Case& c, bool userRows, bool userCols, bool allowLong)   // !allowLong: at most 7 characters
{
   int m = c.lp.m(), n = c.lp.n();
   // style: 0 random, 1 the default names permuted, 2 default names of the other kind (rows x.., columns C..), 3 mixture
   int style = W({40, 20, 15, 25});
   auto gen = [&](int cnt, char own, char other, const char* tag)
   {
      std::set<std::string> used;
      std::vector<int> perm(cnt);
      for(int k = 0; k < cnt; k++) perm[k] = k;
      for(int k = cnt - 1; k >= 1; k--) std::swap(perm[k], perm[R(0, k)]);
      int shift = R(0, 3);
      for(int k = 0; k < cnt; k++)
      {
         std::string s;
         int st = style == 3 ? W({50, 25, 25}) : style;
         if(st == 0)
         {
            int lk = W({70, 15, 15});
            int len = (lk == 0 || !allowLong) ? R(1, 7) : (lk == 1 ? 8 : R(9, 14));
            s = randName(len);
         }
         else if(st == 1) s = std::string(1, own) + std::to_string(perm[k] + (style == 3 ? 0 : shift));
         else s = std::string(1, other) + std::to_string(perm[k] + (style == 3 ? 0 : shift));
         int t = 0;
         std::string base = s;
         while(used.count(s)) s = (allowLong ? base : "q" + std::to_string(k)) + "_" + std::to_string(t++);
         used.insert(s);
         c.recs.push_back(Rec(tag).add(k).add(s));
      }
   };
   if(userCols) gen(n, 'x', 'C', "cname");
   if(userRows) gen(m, 'C', 'x', "rname");
}

// --------------------------------------------------------------------------------------------- generator
struct RealDom
{
   int id;
   int eLo, eHi;      // value = mantissa in [1,10) x 10^e
   int pct;
};
static const std::vector<RealDom>& realDomain()
{
   static std::vector<RealDom> d =
   {
      {SoPlex::FEASTOL, -8, -6, 25}, {SoPlex::OPTTOL, -8, -6, 25}, {SoPlex::EPSILON_ZERO, -17, -16, 8},
      {SoPlex::EPSILON_FACTORIZATION, -21, -20, 8}, {SoPlex::EPSILON_UPDATE, -17, -16, 8}, {SoPlex::EPSILON_PIVOT, -11, -10, 8},
      {SoPlex::TIMELIMIT, 3, 6, 20}, {SoPlex::FPFEASTOL, -10, -8, 8}, {SoPlex::FPOPTTOL, -10, -8, 8},
      {SoPlex::MAXSCALEINCR, 20, 26, 8}, {SoPlex::SPARSITY_THRESHOLD, -1, -1, 8}, {SoPlex::REPRESENTATION_SWITCH, 0, 0, 8},
      {SoPlex::RATREC_FREQ, 0, 0, 8}, {SoPlex::MINRED, -5, -3, 8}, {SoPlex::REFAC_BASIS_NNZ, 0, 1, 8},
      {SoPlex::REFAC_UPDATE_FILL, 0, 1, 8}, {SoPlex::REFAC_MEM_FACTOR, 0, 0, 8}, {SoPlex::LEASTSQ_ACRCY, 1, 4, 8},
      {SoPlex::MIN_MARKOWITZ, -3, -1, 8},
   };
   return d;
}
static void genExtraParams(Case& c)
{
   int boost = P(15) ? 4 : 1;      // some cases change many parameters
   // bool parameters that only steer exact solves (inert for the floating-point solves of this harness)
   static const int bools[] = {SoPlex::EQTRANS, SoPlex::TESTDUALINF, SoPlex::RATFAC, SoPlex::ACCEPTCYCLING, SoPlex::RATREC,
                               SoPlex::POWERSCALING, SoPlex::RATFACJUMP, SoPlex::FORCEBASIC
                              };
   for(int b : bools) if(P(std::min(90, 8 * boost))) c.recs.push_back(Rec("bool").add(b).add(R(0, 1)));
   struct ID { int id, lo, hi; };
   static const ID ints[] = {{SoPlex::REFLIMIT, -1, 50}, {SoPlex::STALLREFLIMIT, -1, 50}, {SoPlex::DISPLAYFREQ, 1, 1000},
      {SoPlex::TIMER, 0, 2}, {SoPlex::RATFAC_MINSTALLS, 0, 10}, {SoPlex::LEASTSQ_MAXROUNDS, 0, 100},
      {SoPlex::FACTOR_UPDATE_MAX, 0, 300}
   };
   for(auto& d : ints) if(P(std::min(90, 8 * boost))) c.recs.push_back(Rec("int").add(d.id).add(R(d.lo, d.hi)));
   for(auto& d : realDomain())
   {
      if(!P(std::min(90, d.pct * boost))) continue;
      // decimal literal: short (<= 4 significant digits, reproducible by the 9 digits of saveSettingsFile) or 17 digits
      bool longv = P(30);
      std::string s = std::to_string(R(1, 9));
      int nd = longv ? 16 : R(0, 3);
      if(nd) s += ".";
      for(int k = 0; k < nd; k++) s += (char)('0' + R(0, 9));
      s += "e" + std::to_string(R(d.eLo, d.eHi));
      double v = strtod(s.c_str(), nullptr);      // correctly rounded; the case stores the exact value of the double
      c.recs.push_back(Rec("real").add(d.id).addq(qd(v)));
   }
}

static int nonbasicStatusFor(const Q& lo, const Q& up)
{
   if(isFin(lo) && isFin(up))
   {
      if(lo == up)
      {
         int k = W({60, 20, 20});
         return k == 0 ? S_FX : (k == 1 ? S_LO : S_UP);
      }
      return R(0, 1) ? S_UP : S_LO;
   }
   if(isFin(lo)) return S_LO;
   if(isFin(up)) return S_UP;
   return S_ZERO;
}
static void genStatuses(Case& c)
{
   const LP& lp = c.lp;
   int m = lp.m(), n = lp.n();
   int kmax = std::min(m, n);
   int k = (kmax >= 1 && P(88)) ? R(1, kmax) : 0;     // number of basic structural columns = number of nonbasic rows
   std::vector<int> ci(n), ri(m);
   for(int j = 0; j < n; j++) ci[j] = j;
   for(int i = 0; i < m; i++) ri[i] = i;
   std::vector<char> cb(n, 0), rnb(m, 0);
   for(int t = 0; t < k; t++)
   {
      std::swap(ci[t], ci[R(t, n - 1)]);
      cb[ci[t]] = 1;
      std::swap(ri[t], ri[R(t, m - 1)]);
      rnb[ri[t]] = 1;
   }
   Rec rr("rstat"), cr("cstat");
   for(int i = 0; i < m; i++) rr.add(rnb[i] ? nonbasicStatusFor(lp.lhs[i], lp.rhs[i]) : S_BASIC);
   for(int j = 0; j < n; j++) cr.add(cb[j] ? S_BASIC : nonbasicStatusFor(lp.lo[j], lp.up[j]));
   c.recs.push_back(rr);
   c.recs.push_back(cr);
}

static void gen(Case& c)
{
   GenOpt g;
   g.maxM = g.maxN = (int) opts().xi("maxdim", opts().tier == "thorough" ? 14 : 10);
   g.scaleExp = P(30) ? R(1, 3) : 0;     // products of two factors keep <= 6 binary digits behind the point: exact in "%.15f"
   g.presolveRich = P(30);               // more work for the simplifier: postsolved bases
   int cls = 1 + W({55, 15, 15, 15});
   LP& lp = c.lp;
   genPlantedLP(g, cls, lp, c.pl);
   // ---- additional bound structure that does not change class or optimum: free rows, columns fixed at 0 (any coefficients
   //      and cost), an empty free column without cost
   int nfr = P(35) ? R(1, 2) : 0;
   for(int t = 0; t < nfr; t++)
   {
      lp.addRow(Q(-QINF()), QINF());
      for(int j = 0; j < lp.n(); j++) if(P(50)) lp.A[lp.m() - 1][j] = NZ(9);
   }
   int nfx = P(35) ? R(1, 2) : 0;
   for(int t = 0; t < nfx; t++)
   {
      lp.addCol(Q(0), Q(0), Q(R(-9, 9)));
      for(int i = 0; i < lp.m(); i++) if(P(50)) lp.A[i][lp.n() - 1] = NZ(9);
   }
   if(P(15)) lp.addCol(Q(-QINF()), QINF(), Q(0));
   c.pl.x.clear();
   c.pl.y.clear();
   c.pl.d.clear();
   c.pl.ray.clear();
   c.pl.fark.clear();

   int doState = P(55);
   int cpx = R(0, 1);
   int nk = W({30, 50, 10, 10});     // names: none, both, rows only, columns only
   bool ur = nk == 1 || nk == 2, uc = nk == 1 || nk == 3;
   c.recs.push_back(Rec("names").add(ur ? 1 : 0).add(uc ? 1 : 0));
   // known finding: the real MPS writer prints a column name of 8 or more characters without a separator in front of the
   // next field and cuts every name to 8 characters; the BAS writer prints names in full
   bool allowLong = !(doState && !cpx && knownKey("state-mps-long-names"));
   if(!allowLong) ev().count("excluded_known.state-mps-long-names(generator)");
   genNames(c, ur, uc, allowLong);
   c.recs.push_back(Rec("cpx").add(cpx));
   int how = W({30, 15, 30, 25});
   c.recs.push_back(Rec("how").add(how));
   genCfg(c);
   genExtraParams(c);
   if(how == 1) c.recs.push_back(Rec("int").add((int) SoPlex::ITERLIMIT).add(R(0, 6)));
   if(how >= 2) genStatuses(c);
   c.recs.push_back(Rec("state").add(doState));
   c.recs.push_back(Rec("rat").add(doState && P(20) ? 1 : 0));
   c.recs.push_back(Rec("readnames").add(R(0, 1)));
   c.recs.push_back(Rec("bcfg").add(R(0, 1)));
   c.recs.push_back(Rec("load").add(R(0, 1)));
}

// --------------------------------------------------------------------------------------------- helpers for run
struct Basis
{
   std::vector<int> r, c;
};
static Basis getB(SoPlex& sp)
{
   int m = sp.numRows(), n = sp.numCols();
   std::vector<VarStatus> rs(m + 1, Solver::UNDEFINED), cs(n + 1, Solver::UNDEFINED);
   sp.getBasis(rs.data(), cs.data());
   Basis b;
   for(int i = 0; i < m; i++) b.r.push_back((int) rs[i]);
   for(int j = 0; j < n; j++) b.c.push_back((int) cs[j]);
   return b;
}
// the validity definition used here (strict): BASIC, or a nonbasic status that names a bound the variable has:
// ON_LOWER needs a finite lower bound, ON_UPPER a finite upper bound, FIXED lower == upper (SPxSolverBase::isBasisValid /
// SPxBasisBase::isDescValid), ZERO a free variable (VarStatus docs: "free variable fixed to zero")
static bool strictValid(int st, const Q& lo, const Q& up)
{
   switch(st)
   {
   case S_BASIC: return true;
   case S_LO: return isFin(lo);
   case S_UP: return isFin(up);
   case S_FX: return isFin(lo) && lo == up;
   case S_ZERO: return !isFin(lo) && !isFin(up);
   }
   return false;
}
static int statusClass(int st)   // 1 optimal, 2 infeasible, 3 unbounded, 4 inf-or-unbd, 0 other
{
   switch(st)
   {
   case Solver::OPTIMAL: return 1;
   case Solver::INFEASIBLE: return 2;
   case Solver::UNBOUNDED: return 3;
   case Solver::INForUNBD: return 4;
   }
   return 0;
}
static bool classCompatible(int a, int b)
{
   if(a == b) return true;
   if(a == 4) return b == 2 || b == 3;
   if(b == 4) return a == 2 || a == 3;
   return false;
}
static bool classMatchesPlanted(int sc, int planted)
{
   switch(planted)
   {
   case CL_OPT: return sc == 1;
   case CL_INF: return sc == 2 || sc == 4;
   case CL_UNB: return sc == 3 || sc == 4;
   case CL_INFUNB: return sc == 2 || sc == 3 || sc == 4;
   }
   return true;
}
struct SolveRes
{
   int st = 0, sc = 0;
   Q obj = 0;
   bool threw = false;
   std::string what;
};
static SolveRes solveIt(SoPlex& sp)
{
   SolveRes r;
   try
   {
      r.st = sp.optimize();
   }
   catch(const soplex::SPxException& x)
   {
      r.threw = true;
      r.what = x.what();
      return r;
   }
   r.sc = statusClass(r.st);
   if(r.sc == 1)
   {
      double d = sp.objValueReal();
      r.obj = std::isfinite(d) ? Q(d) : Q(0);
   }
   return r;
}

// ---- independent reading of the BAS format (header comment of SPxBasisBase::readBasis):
//      NAME line, data lines "<indicator> <column> [<row>]", ENDATA;  all columns nonbasic at lower and all rows basic unless
//      said otherwise; XU column basic + row nonbasic at upper, XL column basic + row nonbasic at lower, UL column nonbasic at
//      upper, LL column nonbasic at lower; nonbasic columns without lower bound: at upper if finite, at zero if free
static std::string checkBasFile(const std::string& path, const LP& lp, const Names& nm, const Basis& wb,
                                const std::vector<char>& rvalid, const std::vector<char>& cvalid, bool cpx, bool cpxLenient = false)
{
   int m = lp.m(), n = lp.n();
   std::ifstream is(path);
   if(!is) return "basis file was not created";
   std::map<std::string, int> cidx, ridx;
   for(int j = 0; j < n; j++) cidx[nm.col[j]] = j;
   for(int i = 0; i < m; i++) ridx[nm.row[i]] = i;
   std::string line;
   bool first = true, ended = false;
   std::vector<int> crec(n, 0), rrec(m, 0);    // 0 none, 1 XU, 2 XL, 3 UL, 4 LL
   while(std::getline(is, line))
   {
      std::istringstream ls(line);
      std::vector<std::string> tok;
      std::string t;
      while(ls >> t) tok.push_back(t);
      if(tok.empty()) continue;
      if(first)
      {
         if(tok[0] != "NAME" || line[0] == ' ') return "basis file does not start with a NAME line";
         first = false;
         continue;
      }
      if(ended) return "basis file has data behind ENDATA";
      if(line[0] != ' ')
      {
         if(tok[0] != "ENDATA") return "basis file has an unknown section line";
         ended = true;
         continue;
      }
      int kind = tok[0] == "XU" ? 1 : tok[0] == "XL" ? 2 : tok[0] == "UL" ? 3 : tok[0] == "LL" ? 4 : 0;
      if(!kind) return "basis file has an unknown indicator";
      if((kind <= 2 && tok.size() != 3) || (kind >= 3 && tok.size() != 2))
         return std::string("basis file record ") + tok[0] + " has the wrong number of fields";
      auto ci = cidx.find(tok[1]);
      if(ci == cidx.end()) return std::string("basis file record ") + tok[0] + " names an unknown column";
      int j = ci->second;
      if(crec[j]) return "basis file mentions a column twice";
      crec[j] = kind;
      if(kind <= 2)
      {
         auto ri = ridx.find(tok[2]);
         if(ri == ridx.end()) return std::string("basis file record ") + tok[0] + " names an unknown row";
         if(rrec[ri->second]) return "basis file mentions a row twice";
         rrec[ri->second] = kind;
      }
   }
   if(!ended) return "basis file has no ENDATA line";
   for(int j = 0; j < n; j++)
   {
      if(!cvalid[j]) continue;
      int st = wb.c[j];
      bool fixedBounds = isFin(lp.lo[j]) && lp.lo[j] == lp.up[j];
      if((st == S_BASIC) != (crec[j] == 1 || crec[j] == 2))
         return st == S_BASIC ? "basis file has no XU/XL record for a basic column" : "basis file has an XU/XL record for a nonbasic column";
      if(st == S_BASIC || fixedBounds) continue;
      if(st == S_UP && isFin(lp.lo[j]) && crec[j] != 3) return "basis file has no UL record for a column that is nonbasic at its upper bound";
      if(st == S_LO && crec[j] == 3) return "basis file has an UL record for a column that is nonbasic at its lower bound";
      if(st == S_ZERO && crec[j] != 0) return "basis file has a bound record for a free nonbasic column";
   }
   for(int i = 0; i < m; i++)
   {
      if(!rvalid[i]) continue;
      int st = wb.r[i];
      if((st == S_BASIC) != (rrec[i] == 0))
         return st == S_BASIC ? "basis file makes a basic row nonbasic" : "basis file has no XU/XL record for a nonbasic row";
      bool ranged = isFin(lp.lhs[i]) && isFin(lp.rhs[i]) && lp.lhs[i] != lp.rhs[i];
      bool equality = isFin(lp.lhs[i]) && lp.lhs[i] == lp.rhs[i];
      if(st == S_BASIC || equality) continue;
      if(ranged || !cpx)
      {
         // "XU: the row is nonbasic at its upper bound, XL: the row is nonbasic at its lower bound"
         if(st == S_UP && rrec[i] != 1) return "basis file pairs a row that is nonbasic at its upper side with XL";
         if(st == S_LO && rrec[i] != 2) return "basis file pairs a row that is nonbasic at its lower side with XU";
      }
      // CPLEX-compatible flag: XU only for ranged rows ("rowStatus == P_ON_UPPER && (!cpxFormat || type == RANGE)")
      else if(rrec[i] != 2 && !cpxLenient) return "basis file in CPLEX-compatible format uses XU for a row that is not ranged";
   }
   return "";
}

// checkBasFile + the exclusion of the known finding "the format flag is not passed on to SPxBasisBase::writeBasis"
static std::string checkBasFileK(const std::string& path, const LP& lp, const Names& nm, const Basis& wb,
                                 const std::vector<char>& rvalid, const std::vector<char>& cvalid, bool cpx)
{
   if(opts().xi("nofilecheck", 0)) return "";      // sensitivity experiments: round trip only
   std::string err = checkBasFile(path, lp, nm, wb, rvalid, cvalid, cpx);
   if(err.find("CPLEX-compatible format uses XU") != std::string::npos && knownKey("bas-cpx-flag-ignored"))
   {
      ev().count("excluded_known.bas-cpx-flag-ignored");
      err = checkBasFile(path, lp, nm, wb, rvalid, cvalid, cpx, true);
   }
   return err;
}

static int countBasRecords(const std::string& path)   // data lines (start with a blank) of a BAS file
{
   std::ifstream is(path);
   std::string line;
   int k = 0;
   while(std::getline(is, line))
      if(!line.empty() && line[0] == ' ' && line.find_first_not_of(" \t\r") != std::string::npos) k++;
   return k;
}

static void countKinds(const Basis& b, const char* pfx)
{
   Evidence& e = ev();
   bool rk[6] = {0, 0, 0, 0, 0, 0}, ck[6] = {0, 0, 0, 0, 0, 0};
   for(int s : b.r) if(s >= 0 && s <= 5) rk[s] = true;
   for(int s : b.c) if(s >= 0 && s <= 5) ck[s] = true;
   for(int s = 0; s <= 5; s++)
   {
      if(rk[s]) e.count(std::string(pfx) + ".has.row." + stName(s));
      if(ck[s]) e.count(std::string(pfx) + ".has.col." + stName(s));
   }
}

// compares the statuses of the writer with those read back; rmap/cmap: index in the reading object (-1: not compared)
static void compareBases(const LP& lp, const Basis& wb, const Basis& rb, const std::vector<int>& rmap,
                         const std::vector<int>& cmap, const std::vector<char>& rvalid, const std::vector<char>& cvalid,
                         const std::string& tag, Verdict& v)
{
   Evidence& e = ev();
   for(int j = 0; j < lp.n(); j++)
   {
      if(cmap[j] < 0) continue;
      if(!cvalid[j])
      {
         e.count("compare.skipped_invalid_writer_status.col");
         continue;
      }
      int a = wb.c[j], b = rb.c[cmap[j]];
      if(a == b)
      {
         e.count("compare.col.identical");
         continue;
      }
      if(isFin(lp.lo[j]) && lp.lo[j] == lp.up[j] && a != S_BASIC && b != S_BASIC)
      {
         // lower == upper: ON_LOWER, ON_UPPER and FIXED are the same point; the reader initialises such columns with P_FIXED
         e.count(std::string("compare.col.normalised_fixed.") + stName(a) + "->" + stName(b));
         continue;
      }
      v.fail("column status not restored (" + tag + "): " + stName(a) + " -> " + stName(b));
      return;
   }
   for(int i = 0; i < lp.m(); i++)
   {
      if(rmap[i] < 0) continue;
      if(!rvalid[i])
      {
         e.count("compare.skipped_invalid_writer_status.row");
         continue;
      }
      int a = wb.r[i], b = rb.r[rmap[i]];
      if(a == b)
      {
         e.count("compare.row.identical");
         continue;
      }
      if(isFin(lp.lhs[i]) && lp.lhs[i] == lp.rhs[i] && a != S_BASIC && b != S_BASIC)
      {
         // equality row: the reader maps XU and XL to P_FIXED ("type(r) == EQUAL")
         e.count(std::string("compare.row.normalised_fixed.") + stName(a) + "->" + stName(b));
         continue;
      }
      v.fail("row status not restored (" + tag + "): " + stName(a) + " -> " + stName(b));
      return;
   }
}

// 9 significant digits reproduce the value? (saveSettingsFile prints reals with SPxOut::setScientific(file) = 8 digits)
static bool nineDigitExact(double d)
{
   char buf[64];
   snprintf(buf, sizeof buf, "%.8e", d);
   return strtod(buf, nullptr) == d;
}

// --------------------------------------------------------------------------------------------- run
static Verdict run(const Case& c)
{
   Verdict v;
   Evidence& e = ev();
   const LP& lp = c.lp;
   int m = lp.m(), n = lp.n();
   if(m < 1 || n < 1) return v;
   Names nm = namesOf(c);
   int cpx = (int) c.geti("cpx"), how = (int) c.geti("how"), doState = (int) c.geti("state"), rat = (int) c.geti("rat"),
       readnames = (int) c.geti("readnames"), bcfg = (int) c.geti("bcfg"), load = (int) c.geti("load");
   if(!doState) rat = 0;
   static const char* howName[] = {"solve", "solve_iterlimit", "setBasis", "solve_then_setBasis"};
   if(how < 0 || how > 3) how = 0;
   e.count(std::string("how.") + howName[how]);
   e.count(std::string("names.rows.") + (nm.userRows ? "user" : "default"));
   e.count(std::string("names.cols.") + (nm.userCols ? "user" : "default"));
   e.count(cpx ? "cpx.1" : "cpx.0");
   e.count(std::string("class.") + className(c.pl.cls));
   int nFixedCol = 0, nFreeCol = 0, nBoxedCol = 0, nRanged = 0, nEq = 0, nFreeRow = 0;
   for(int j = 0; j < n; j++)
   {
      if(isFin(lp.lo[j]) && lp.lo[j] == lp.up[j]) nFixedCol++;
      else if(isFin(lp.lo[j]) && isFin(lp.up[j])) nBoxedCol++;
      else if(!isFin(lp.lo[j]) && !isFin(lp.up[j])) nFreeCol++;
   }
   for(int i = 0; i < m; i++)
   {
      if(isFin(lp.lhs[i]) && lp.lhs[i] == lp.rhs[i]) nEq++;
      else if(isFin(lp.lhs[i]) && isFin(lp.rhs[i])) nRanged++;
      else if(!isFin(lp.lhs[i]) && !isFin(lp.rhs[i])) nFreeRow++;
   }
   if(nFixedCol) e.count("lp.has.fixed_col");
   if(nFreeCol) e.count("lp.has.free_col");
   if(nBoxedCol) e.count("lp.has.boxed_col");
   if(nRanged) e.count("lp.has.ranged_row");
   if(nEq) e.count("lp.has.equality_row");
   if(nFreeRow) e.count("lp.has.free_row");
   size_t longest = 0;
   for(auto& s : nm.col) longest = std::max(longest, s.size());
   for(auto& s : nm.row) longest = std::max(longest, s.size());
   if(longest > 8) e.count("names.longer_than_8");

   // ---- the writing object
   SoPlex A;
   quiet(A);
   if(rat)
   {
      A.setIntParam(SoPlex::SYNCMODE, SoPlex::SYNCMODE_AUTO);
      A.setIntParam(SoPlex::READMODE, SoPlex::READMODE_RATIONAL);
   }
   if(!applyParams(A, c)) e.count("param.rejected");
   loadReal(A, lp, load);
   SolveRes s0;
   if(how == 0 || how == 1 || how == 3)
   {
      s0 = solveIt(A);
      if(s0.threw) e.count("first_solve.threw");
      else e.count(std::string("first_solve.status.") + statusName(s0.st));
   }
   Basis set;
   if(how >= 2)
   {
      const Rec* rr = c.find("rstat");
      const Rec* cr = c.find("cstat");
      if(!rr || !cr || (int) rr->n() != m || (int) cr->n() != n)
      {
         e.count("malformed_case");
         return v;
      }
      int nb = 0;
      bool ok = true;
      std::vector<VarStatus> rs(m), cs(n);
      for(int i = 0; i < m; i++)
      {
         int s = (int) rr->i(i);
         ok = ok && s >= 0 && s <= S_BASIC && strictValid(s, lp.lhs[i], lp.rhs[i]);
         nb += s == S_BASIC;
         rs[i] = (VarStatus) s;
         set.r.push_back(s);
      }
      for(int j = 0; j < n; j++)
      {
         int s = (int) cr->i(j);
         ok = ok && s >= 0 && s <= S_BASIC && strictValid(s, lp.lo[j], lp.up[j]);
         nb += s == S_BASIC;
         cs[j] = (VarStatus) s;
         set.c.push_back(s);
      }
      if(!ok || nb != m)
      {
         e.count("malformed_case");
         return v;
      }
      A.setBasis(rs.data(), cs.data());
   }
   bool loaded = SoPlexVerifAccess::isRealLPLoaded(A);
   e.count(loaded ? "writer_path.loaded" : "writer_path.unloaded");
   e.count(std::string("writer_path.") + (loaded ? "loaded." : "unloaded.") + howName[how]);
   bool hb = A.hasBasis();
   e.count(hb ? "writer.hasBasis" : "writer.noBasis");
   Basis wb = getB(A);
   if(how >= 2 && (wb.r != set.r || wb.c != set.c)) e.count(loaded ? "getBasis_differs_from_setBasis.loaded(normalised by loadDesc)" : "getBasis_differs_from_setBasis.unloaded");
   int nBasic = 0;
   std::vector<char> rvalid(m, 1), cvalid(n, 1);
   bool undef = false;
   for(int i = 0; i < m; i++)
   {
      nBasic += wb.r[i] == S_BASIC;
      undef = undef || wb.r[i] == S_UNDEF;
      rvalid[i] = strictValid(wb.r[i], lp.lhs[i], lp.rhs[i]);
      if(!rvalid[i]) e.count(std::string("writer_basis.nonstrict_row_status.") + stName(wb.r[i]));
   }
   for(int j = 0; j < n; j++)
   {
      nBasic += wb.c[j] == S_BASIC;
      undef = undef || wb.c[j] == S_UNDEF;
      cvalid[j] = strictValid(wb.c[j], lp.lo[j], lp.up[j]);
      if(!cvalid[j]) e.count(std::string("writer_basis.nonstrict_col_status.") + stName(wb.c[j]));
   }
   if(undef || nBasic != m)
   {
      // not a basis: outside the quantifier ("every valid basis")
      e.count(undef ? "writer_basis.undefined_status(skipped)" : "writer_basis.basic_count_not_m(skipped)");
      return v;
   }
   countKinds(wb, "basis");
   int nSpecial = 0, nBasicCols = 0;
   for(int i = 0; i < m; i++) nSpecial += rvalid[i] && (wb.r[i] == S_UP || wb.r[i] == S_FX || wb.r[i] == S_ZERO);
   for(int j = 0; j < n; j++)
   {
      nSpecial += cvalid[j] && (wb.c[j] == S_UP || wb.c[j] == S_FX || wb.c[j] == S_ZERO);
      nBasicCols += wb.c[j] == S_BASIC;
   }

   // the names handed to the writer / the reader
   NameSet wrn, wcn;
   fillNameSet(wrn, nm.row);
   fillNameSet(wcn, nm.col);
   bool anyRecord = false;      // does the BAS file need a data line?
   for(int j = 0; j < n; j++) anyRecord = anyRecord || wb.c[j] == S_BASIC || wb.c[j] == S_UP;
   const NameSet* wr = nm.userRows ? &wrn : nullptr;
   const NameSet* wc = nm.userCols ? &wcn : nullptr;
   if(!loaded && !nm.userCols && anyRecord && knownKey("bas-write-unloaded-default-colname"))
   {
      // known finding: the writer branch for an LP held outside the solver prints default column names as "x       <j>"
      e.count("excluded_known.bas-write-unloaded-default-colname");
      wc = &wcn;      // the default names, handed over explicitly
   }
   const NameSet* rdr = nm.userRows ? &wrn : nullptr;
   const NameSet* rdc = nm.userCols ? &wcn : nullptr;
   if(knownKey("bas-read-default-names"))
   {
      // known finding: readBasis builds its default names "x0", "x0x1", ... (stringstream never cleared)
      if(!rdr && m >= 2)
      {
         e.count("excluded_known.bas-read-default-names.rows");
         rdr = &wrn;
      }
      if(!rdc && n >= 2)
      {
         e.count("excluded_known.bas-read-default-names.cols");
         rdc = &wcn;
      }
   }
   std::string tag = std::string(loaded ? "loaded" : "unloaded") + " writer, " + (nm.userRows ? "user" : "default") + " row names, "
                     + (nm.userCols ? "user" : "default") + " column names, cpx=" + std::to_string(cpx);

   // ================================================================================================ stage A
   std::string fileA = scratchDir() + "/c14.bas";
   unlink(fileA.c_str());
   bool wok = false;
   try
   {
      wok = A.writeBasisFile(fileA.c_str(), wr, wc, cpx != 0);
   }
   catch(const soplex::SPxException& x)
   {
      v.fail("writeBasisFile threw: " + x.what());
      return v;
   }
   if(!wok)
   {
      v.fail("writeBasisFile returned false (" + tag + ")");
      return v;
   }
   if(!hb && countBasRecords(fileA) > 0)
   {
      // hasBasis() is false and getBasis() reports the slack basis, but the file describes another basis ("do not write
      // basis if there is none" in the branch for an LP held outside the solver)
      if(knownKey("bas-write-stale-without-basis"))
      {
         e.count("excluded_known.bas-write-stale-without-basis");
         return v;
      }
      v.fail("writeBasisFile wrote data records although hasBasis() is false (" + tag + ")");
      return v;
   }
   {
      std::string err = checkBasFileK(fileA, lp, nm, wb, rvalid, cvalid, cpx != 0);
      if(!err.empty())
      {
         v.fail(err + " (" + tag + ")");
         return v;
      }
      e.count("stageA.file_wellformed");
   }
   {
      SoPlex B;
      quiet(B);
      if(bcfg)
      {
         applyParams(B, c);
         B.setIntParam(SoPlex::ITERLIMIT, -1);
      }
      loadReal(B, lp, load);
      bool rok = false;
      try
      {
         QuietCerr qc;
         rok = B.readBasisFile(fileA.c_str(), rdr, rdc);
      }
      catch(const soplex::SPxException& x)
      {
         v.fail("readBasisFile threw on a file written by writeBasisFile: " + x.what());
         return v;
      }
      if(!rok)
      {
         v.fail("readBasisFile rejected a file written by writeBasisFile (" + tag + ")");
         return v;
      }
      if(!B.hasBasis())
      {
         v.fail("no basis after a successful readBasisFile (" + tag + ")");
         return v;
      }
      Basis rb = getB(B);
      std::vector<int> rmap(m), cmap(n);
      for(int i = 0; i < m; i++) rmap[i] = i;
      for(int j = 0; j < n; j++) cmap[j] = j;
      compareBases(lp, wb, rb, rmap, cmap, rvalid, cvalid, tag, v);
      if(!v.ok) return v;
      e.count("stageA.roundtrip_compared");
   }
   if(opts().mode == "replay") unlink(fileA.c_str());
   v.nontrivial = m >= 2 && n >= 2 && nSpecial >= 1 && nBasicCols >= 1;
   if(!doState) return v;

   // ================================================================================================ stage B
   e.count(rat ? "stageB.variant.rational" : "stageB.variant.real");
   std::string prefix = scratchDir() + "/c14_state";
   std::string fset = prefix + ".set", fbas = prefix + ".bas", flp;
   for(const char* f : scratchFiles()) if(strncmp(f, "c14_state", 9) == 0) unlink((scratchDir() + "/" + f).c_str());
   try
   {
      if(rat) A.writeStateRational(prefix.c_str(), wr, wc, cpx != 0, true);
      else A.writeStateReal(prefix.c_str(), wr, wc, cpx != 0, true);
   }
   catch(const soplex::SPxException& x)
   {
      v.fail(std::string(rat ? "writeStateRational" : "writeStateReal") + " threw: " + x.what());
      return v;
   }
   // "write problem in MPS/LP format": <prefix>.lp with the CPLEX-compatible flag, <prefix>.mps without; which of the two
   // formats holds the LP decides the documented normalisations below
   bool haveLp = access((prefix + ".lp").c_str(), R_OK) == 0, haveMps = access((prefix + ".mps").c_str(), R_OK) == 0;
   if(haveLp == haveMps || (haveLp && !cpx))
   {
      v.fail(std::string("state writer did not create exactly one LP file (.lp only with the CPLEX-compatible flag): ") + (haveLp ? ".lp " : "") + (haveMps ? ".mps" : ""));
      return v;
   }
   bool lpFormat = haveLp;
   flp = prefix + (lpFormat ? ".lp" : ".mps");
   e.count(lpFormat ? "stageB.lpfile.lp" : "stageB.lpfile.mps");
   for(const std::string& f : {fset, fbas})
      if(access(f.c_str(), R_OK) != 0)
      {
         v.fail("state writer did not create " + f.substr(f.rfind('.')));
         return v;
      }
   std::string tagB = "state, " + tag + (rat ? ", rational" : ", real");
   {
      // the .bas file of the state must describe the same basis as the one written by writeBasisFile
      std::string err = checkBasFileK(fbas, lp, nm, wb, rvalid, cvalid, cpx != 0);
      if(!err.empty())
      {
         v.fail(err + " (" + tagB + ")");
         return v;
      }
   }
   SoPlex C;
   quiet(C);
   if(!C.loadSettingsFile(fset.c_str()))
   {
      v.fail("loadSettingsFile rejected the settings file of the state (" + tagB + ")");
      return v;
   }
   NameSet rn, cn;
   bool lok = false;
   try
   {
      QuietCerr qc;
      lok = C.readFile(flp.c_str(), &rn, &cn, nullptr);
   }
   catch(const soplex::SPxException& x)
   {
      v.fail("readFile threw on the LP file of the state: " + x.what());
      return v;
   }
   catch(const std::exception& x)
   {
      v.fail(std::string("readFile threw on the LP file of the state: ") + x.what());
      return v;
   }
   bool longNames = longest >= 8 && !lpFormat;
   if(!lok)
   {
      if(longNames) v.fail("readFile rejected the MPS file of the state; names of 8 or more characters (" + tagB + ")");
      else v.fail("readFile rejected the LP file of the state (" + tagB + ")");
      return v;
   }
   // ---- LP == reference model, by name.  Documented normalisations: the objective offset is the parameter OBJ_OFFSET
   // (settings file), re-applied by _readFileReal; MPS: "XMPSWR03 Warning: objective function inverted when writing
   // maximization problem in MPS file format" (min -c x); LP format: "ranged row -> write two non-ranged rows" <name>_1 / _2.
   bool flipped = !lpFormat && lp.sense == 1;
   int nC = C.numCols(), mC = C.numRows();
   if(cn.num() != nC || rn.num() != mC)
   {
      // known finding state-cpx-ranged-row (second symptom): the LP-format writer splits a ranged row R into rows named
      // R_1 / R_2; if the user's own names contain such a name the LP file has a repeated label, which the LP reader drops
      // (C13 known finding lpf-rowname-desync), so the name set no longer matches the rows
      bool anyRanged = false;
      for(int i = 0; i < lp.m(); i++) if(isFin(lp.lhs[i]) && isFin(lp.rhs[i]) && lp.lhs[i] != lp.rhs[i]) anyRanged = true;
      if(lpFormat && anyRanged && knownKey("state-cpx-ranged-row"))
      {
         e.count("excluded_known.state-cpx-ranged-row.derived_name_collides");
         return v;
      }
      v.fail("name sets returned by readFile do not match the LP size (" + tagB + ")");
      return v;
   }
   std::vector<int> cmap(n, -1), rmap(m, -1);
   auto QD = [](double d) { return qd(d); };
   auto sameQ = [](const Q & ex, const Q & got)
   {
      if(isPInf(ex)) return isPInf(got);
      if(isNInf(ex)) return isNInf(got);
      return ex == got;      // exact: the data have <= 15 decimals (real MPS "%.15f"), 17 digits in LP format, p/q rational
   };
   for(int j = 0; j < n; j++)
   {
      int idx = cn.number(nm.col[j].c_str());
      if(idx < 0)
      {
         v.fail(std::string("column missing after reading the LP file of the state") + (longNames ? "; names of 8 or more characters (" : " (") + tagB + ")");
         return v;
      }
      cmap[j] = idx;
      Q eob = flipped ? Q(-lp.obj[j]) : lp.obj[j];
      if(!sameQ(lp.lo[j], QD(C.lowerReal(idx))) || !sameQ(lp.up[j], QD(C.upperReal(idx))) || !sameQ(eob, QD(C.objReal(idx))))
      {
         v.fail("column bounds or cost differ after reading the LP file of the state (" + tagB + ")");
         return v;
      }
   }
   if(nC != n)
   {
      v.fail("number of columns differs after reading the LP file of the state (" + tagB + ")");
      return v;
   }
   struct ERow
   {
      std::string name;
      int src, part;
      Q lhs, rhs;
   };
   std::vector<ERow> erows;
   bool split = false;
   for(int i = 0; i < m; i++)
   {
      bool ranged = isFin(lp.lhs[i]) && isFin(lp.rhs[i]) && lp.lhs[i] != lp.rhs[i];
      if(ranged && lpFormat)
      {
         erows.push_back({nm.row[i] + "_1", i, 1, lp.lhs[i], QINF()});
         erows.push_back({nm.row[i] + "_2", i, 2, Q(-QINF()), lp.rhs[i]});
         split = true;
      }
      else erows.push_back({nm.row[i], i, 0, lp.lhs[i], lp.rhs[i]});
   }
   if(mC != (int) erows.size())
   {
      v.fail("number of rows differs after reading the LP file of the state (" + tagB + ")");
      return v;
   }
   for(auto& er : erows)
   {
      int idx = rn.number(er.name.c_str());
      if(idx < 0)
      {
         v.fail(std::string("row missing after reading the LP file of the state") + (longNames ? "; names of 8 or more characters (" : " (") + tagB + ")");
         return v;
      }
      if(er.part == 0) rmap[er.src] = idx;
      if(!sameQ(er.lhs, QD(C.lhsReal(idx))) || !sameQ(er.rhs, QD(C.rhsReal(idx))))
      {
         v.fail("row sides differ after reading the LP file of the state (" + tagB + ")");
         return v;
      }
      for(int j = 0; j < n; j++)
         if(QD(C.coefReal(idx, cmap[j])) != lp.A[er.src][j])
         {
            v.fail("matrix coefficient differs after reading the LP file of the state (" + tagB + ")");
            return v;
         }
   }
   int gotSense = C.intParam(SoPlex::OBJSENSE) == SoPlex::OBJSENSE_MAXIMIZE ? 1 : -1;
   if(gotSense != (flipped ? -1 : lp.sense))
   {
      v.fail("objective sense differs after loading the state (" + tagB + ")");
      return v;
   }
   e.count("stageB.lp_equal");

   // ---- basis
   // names for the reader: the name sets that readFile returned (what soplexmain does), or none when the state was written
   // with default names and the file keeps the row/column order
   const NameSet* brn = &rn;
   const NameSet* bcn = &cn;
   if(!readnames)
   {
      if(!nm.userRows) brn = nullptr;
      if(!nm.userCols) bcn = nullptr;
   }
   if(knownKey("bas-read-default-names"))
   {
      if(!brn && mC >= 2) brn = &rn;
      if(!bcn && nC >= 2) bcn = &cn;
   }
   e.count(std::string("stageB.basis_names.rows.") + (brn ? "from_readFile" : "none"));
   e.count(std::string("stageB.basis_names.cols.") + (bcn ? "from_readFile" : "none"));
   bool splitNonbasic = false;
   for(auto& er : erows) if(er.part && wb.r[er.src] != S_BASIC) splitNonbasic = true;
   if(split && knownKey("state-cpx-ranged-row") && (splitNonbasic || !brn))
   {
      // known finding: with cpxFormat the LP file splits a ranged row R into R_1 / R_2 but the basis file names R
      e.count("excluded_known.state-cpx-ranged-row");
      return v;
   }
   bool bok = false;
   try
   {
      QuietCerr qc;
      bok = C.readBasisFile(fbas.c_str(), brn, bcn);
   }
   catch(const soplex::SPxException& x)
   {
      v.fail("readBasisFile threw on the basis file of the state: " + x.what());
      return v;
   }
   if(!bok || !C.hasBasis())
   {
      v.fail(std::string("readBasisFile rejected the basis file of the state") + (splitNonbasic ? "; a ranged row split by the LP-format writer is nonbasic (" : " (") + tagB + ")");
      return v;
   }
   {
      Basis rb = getB(C);
      compareBases(lp, wb, rb, rmap, cmap, rvalid, cvalid, tagB + (split ? ", LP file splits a ranged row" : ""), v);
      if(!v.ok) return v;
      // the two halves of a split ranged row that was basic must both be basic
      for(auto& er : erows)
         if(er.part && wb.r[er.src] == S_BASIC && rb.r[rn.number(er.name.c_str())] != S_BASIC)
         {
            v.fail("half of a split basic ranged row is nonbasic after loading the state (" + tagB + ")");
            return v;
         }
      e.count("stageB.basis_equal");
   }

   // ---- parameters
   for(int p = 0; p < SoPlex::BOOLPARAM_COUNT; p++)
      if(A.boolParam((SoPlex::BoolParam) p) != C.boolParam((SoPlex::BoolParam) p))
      {
         v.fail("bool parameter " + SoPlex::Settings::boolParam.name[p] + " not restored from the settings file of the state");
         return v;
      }
   for(int p = 0; p < SoPlex::INTPARAM_COUNT; p++)
   {
      int a = A.intParam((SoPlex::IntParam) p), b = C.intParam((SoPlex::IntParam) p);
      if(p == SoPlex::OBJSENSE) continue;      // checked above (MPS normalisation)
      if(a != b)
      {
         v.fail("int parameter " + SoPlex::Settings::intParam.name[p] + " not restored from the settings file of the state");
         return v;
      }
      if(a != SoPlex::Settings::intParam.defaultValue[p]) e.count("stageB.param.nondefault_int");
   }
   for(int p = 0; p < SoPlex::REALPARAM_COUNT; p++)
   {
      double a = A.realParam((SoPlex::RealParam) p), b = C.realParam((SoPlex::RealParam) p);
      if(a != SoPlex::Settings::realParam.defaultValue[p]) e.count("stageB.param.nondefault_real");
      if(a == b)
      {
         if(!nineDigitExact(a)) e.count("stageB.param.real_17digit_value.restored_exactly");
         continue;
      }
      if(nineDigitExact(a))
      {
         v.fail("real parameter " + SoPlex::Settings::realParam.name[p] + " not restored from the settings file of the state");
         return v;
      }
      // a value that needs more than the 9 printed digits: counted, judged only to the printed precision
      e.count("stageB.param.real_17digit_value.restored_to_9_digits_only(observation)");
      if(std::fabs(a - b) > 5e-9 * std::fabs(a))
      {
         v.fail("real parameter " + SoPlex::Settings::realParam.name[p] + " restored with a relative error above 5e-9");
         return v;
      }
   }
   if(A.randomSeed() != C.randomSeed())
   {
      v.fail("random seed not restored from the settings file of the state");
      return v;
   }
   e.count("stageB.params_equal");

   // ---- both objects are solved (without iteration limit: the identical typed call in both)
   A.setIntParam(SoPlex::ITERLIMIT, -1);
   C.setIntParam(SoPlex::ITERLIMIT, -1);
   SolveRes ra = solveIt(A), rc = solveIt(C);
   if(ra.threw || rc.threw)
   {
      e.count("stageB.solve.threw(unjudged)");
      return v;
   }
   e.count(std::string("stageB.status.writer.") + statusName(ra.st));
   e.count(std::string("stageB.status.restored.") + statusName(rc.st));
   e.count("stageB.restored_iterations." + std::string(C.numIterations() == 0 ? "0" : (C.numIterations() <= 3 ? "1-3" : ">3")));
   auto closeEnough = [](const Q & a, const Q & b)
   {
      Q sc = std::max(Q(1), std::max(qabs(a), qabs(b)));
      return qabs(a - b) <= sc / 1000000;
   };
   int planted = c.pl.cls;
   // 0 agree, 1 unjudged status, 2 differ, 4 writer disagrees with planted, 5 both off planted
   auto judge = [&](const SolveRes & o, const SolveRes & r) -> int
   {
      Q zr = flipped ? Q(2 * lp.offset - r.obj) : r.obj;      // MPS of a maximisation: min -c x + offset
      if(o.sc == 0 || r.sc == 0) return 1;
      // an LP that is primal and dual infeasible may be reported INFEASIBLE, UNBOUNDED or INForUNBD (depends on the start)
      bool bothInfUnb = planted == CL_INFUNB && classMatchesPlanted(o.sc, planted) && classMatchesPlanted(r.sc, planted);
      bool agree = (classCompatible(o.sc, r.sc) || bothInfUnb) && (o.sc != 1 || r.sc != 1 || closeEnough(o.obj, zr));
      bool restoredOk = classMatchesPlanted(r.sc, planted) && (r.sc != 1 || planted != CL_OPT || closeEnough(c.pl.z, zr));
      bool writerOk = classMatchesPlanted(o.sc, planted) && (o.sc != 1 || planted != CL_OPT || closeEnough(c.pl.z, o.obj));
      if(!agree) return (restoredOk && !writerOk) ? 4 : 2;
      if(!restoredOk) return 5;
      return 0;
   };
   int jd = judge(ra, rc);
   bool freeNonbasicRow = false;
   for(int i = 0; i < m; i++) freeNonbasicRow = freeNonbasicRow || wb.r[i] == S_ZERO;
   if(jd == 2)
   {
      // LP, basis and parameters were just verified equal: a different answer is the solver's (C01/C02/C04) unless it
      // persists in fresh objects without simplifier that start from the same files
      SoPlex A2, C2;
      quiet(A2);
      quiet(C2);
      A2.setIntParam(SoPlex::SIMPLIFIER, SoPlex::SIMPLIFIER_OFF);
      C2.setIntParam(SoPlex::SIMPLIFIER, SoPlex::SIMPLIFIER_OFF);
      C2.setRealParam(SoPlex::OBJ_OFFSET, D(lp.offset));
      if(rat) C2.setIntParam(SoPlex::READMODE, SoPlex::READMODE_RATIONAL), C2.setIntParam(SoPlex::SYNCMODE, SoPlex::SYNCMODE_AUTO);
      loadReal(A2, lp, 0);
      bool ok2 = false;
      {
         QuietCerr qc;
         ok2 = C2.readFile(flp.c_str(), nullptr, nullptr, nullptr);
      }
      if(ok2)
      {
         SolveRes o2 = solveIt(A2), r2 = solveIt(C2);
         int j2 = (o2.threw || r2.threw) ? 2 : judge(o2, r2);
         if(j2 == 0 || j2 == 5)
         {
            e.count("stageB.solve.solver_disagreement_gone_in_fresh_objects(not C14)");
            e.count(std::string("stageB.solve.disagreement.") + statusName(ra.st) + "/" + statusName(rc.st)
                    + (ra.sc == 1 && rc.sc == 1 ? ".objective" : "") + "." + className(planted) + (freeNonbasicRow ? ".free_nonbasic_row" : ""));
            if(getenv("VF_TRACE")) writeFile(opts().dir + "/disagree-" + std::to_string(fnv(caseText(c)) % 100000) + ".case", caseText(c));
            if(getenv("VF_TRACE")) fprintf(stderr, "disagreement: writer %s %s restored %s %s planted %s %s\n", statusName(ra.st), ra.obj.get_str().c_str(), statusName(rc.st), rc.obj.get_str().c_str(), className(planted), c.pl.z.get_str().c_str());
            jd = 0;
         }
      }
   }
   if(jd == 5) e.count(std::string("stageB.solve.both_off_planted.") + statusName(ra.st) + "." + className(planted) + (freeNonbasicRow ? ".free_nonbasic_row" : ""));
   switch(jd)
   {
   case 0: e.count("stageB.solve.agree"); break;
   case 1: e.count("stageB.solve.unjudged_status"); break;
   case 2:
      v.fail("the solver restored from the state reaches a different status class or optimum than the writer (" + tagB + ")");
      return v;
   case 4: e.count("stageB.solve.writer_disagrees_with_planted(not C14)"); break;
   default: e.count("stageB.solve.both_disagree_with_planted(not C14)");
   }
   if(opts().mode == "replay")
      for(const char* f : scratchFiles()) unlink((scratchDir() + "/" + f).c_str());
   e.count("stageB.completed");
   return v;
}

int main(int argc, char** argv)
{
   return vf::vfMain(argc, argv, "C14", gen, run);
}
