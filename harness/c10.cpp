// c10.cpp - C10: SLUFactor<double> driven standalone through the SLinSolver interface (load / solve* / change),
// following the caller protocol of SPxBasisBase::change, judged against a reference matrix kept exactly in vf::Q.
//
// case file: lp = the square matrix M (m == n, dense exact A; bounds/objective unused); recs:
//   utype <0 ETA|1 FOREST_TOMLIN>      markowitz <q>      expect <0 regular well conditioned|1 exactly singular>
//   fam <k> <scaled> <singkind>        (informational, counters only)
//   upd <idx> <how> <passeta> <pre> <VEC newcol> <VEC d> <VEC e>      replace column idx (how: see UpdHow)
//   solve <variant> <VEC b> <VEC d> <VEC e>                           (variant: see SolveVar)
//   reload                                                             explicit refactorisation of the current matrix
//   VEC = <k> <j_1> <v_1> ... <j_k> <v_k>   (sparse, exact values, arbitrary index order)
#include "soplex/spxdefines.h"
#include "soplex/spxout.h"
#include "soplex/vector.h"
#include "soplex/dsvector.h"
#include "soplex/ssvector.h"
#include "soplex/slufactor.h"
#include "vf.hpp"

using namespace vf;

typedef soplex::SLUFactor<double> LU;
typedef soplex::SSVectorBase<double> SSV;
typedef soplex::VectorBase<double> DV;
typedef soplex::DSVectorBase<double> DSV;
typedef soplex::SVectorBase<double> SV;
typedef std::vector<std::pair<int, Q>> SpQ;
// semi-sparse vectors are built the way every in-tree owner builds them (dimension 0, then reDim): reDim reserves
// dim+1 index slots, which vSolveUpdateRight relies on (it writes idx[n] before it knows whether the entry is new)
struct XS : public SSV
{
   XS(int n, std::shared_ptr<soplex::Tolerances> t) : SSV(0, t)
   {
      reDim(n);
   }
};
typedef std::vector<std::vector<Q>> MatQ;

enum UpdHow { U_4U1 = 0, U_4U2D = 1, U_4U2S = 2, U_4U3D = 3, U_4U3S = 4, U_ETA_SOLVE = 5, U_ETA_NOETA = 6, U_NHOW = 7 };
static const char* updName[] = {"4u1", "4u2dense", "4u2sparse", "4u3dense", "4u3sparse", "eta_from_solveRight", "eta_none"};
enum SolveVar { S_R_VV = 0, S_R_SS = 1, S_R_SSV = 2, S_L_VV = 3, S_L_SS = 4, S_L_SSV = 5, S_L2_D = 6, S_L2_S = 7, S_L3_D = 8, S_L3_S = 9, S_NVAR = 10 };
static const char* solveName[] = {"right.vec_vec", "right.ssvec_ssvec", "right.ssvec_svec", "left.vec_vec", "left.ssvec_ssvec",
                                  "left.ssvec_svec", "left2.dense", "left2.sparse", "left3.dense", "left3.sparse"
                                 };

// ------------------------------------------------------------------ record helpers
static void putVec(Rec& r, const SpQ& v)
{
   r.add((int) v.size());
   for(auto& p : v)
   {
      r.add(p.first);
      r.addq(p.second);
   }
}
static bool getVec(const Rec& r, size_t& pos, int n, SpQ& v)
{
   v.clear();
   if(pos >= r.n()) return false;
   long k = r.i(pos++);
   if(k < 0 || k > n) return false;
   std::vector<char> seen(n, 0);
   for(long t = 0; t < k; t++)
   {
      if(pos + 2 > r.n()) return false;
      long j = r.i(pos);
      Q q = r.q(pos + 1);
      pos += 2;
      if(j < 0 || j >= n || seen[j] || q == 0) return false;
      seen[j] = 1;
      v.push_back({(int) j, q});
   }
   return true;
}

// ------------------------------------------------------------------ generator
struct GenState
{
   int n = 0;
   MatQ A;                    // unscaled, integer (or dyadic) entries; column j is dominant in row piv[j]
   std::vector<int> e1, e2;   // row / column exponents: M = 2^e1 A 2^e2
   std::vector<int> piv;
   bool scaled = false;
};
static Q colOff(const GenState& g, int j)   // sum of |a_ij| over i != piv[j]
{
   Q s = 0;
   for(int i = 0; i < g.n; i++) if(i != g.piv[j]) s += qabs(g.A[i][j]);
   return s;
}
static Q colNorm1(const GenState& g, int j)
{
   Q s = 0;
   for(int i = 0; i < g.n; i++) s += qabs(g.A[i][j]);
   return s;
}
static std::vector<int> genPerm(int n)
{
   std::vector<int> p(n);
   for(int i = 0; i < n; i++) p[i] = i;
   for(int i = n - 1; i > 0; i--) std::swap(p[i], p[R(0, i)]);
   return p;
}
// k distinct indices in [0,n) avoiding 'bad' (deterministic probing instead of rejection)
static std::vector<int> pickDistinct(int n, int k, const std::vector<char>& bad)
{
   std::vector<char> used(bad);
   used.resize(n, 0);
   int avail = 0;
   for(int i = 0; i < n; i++) if(!used[i]) avail++;
   k = std::min(k, avail);
   std::vector<int> r;
   for(int t = 0; t < k; t++)
   {
      int i = R(0, n - 1);
      while(used[i]) i = (i + 1) % n;
      used[i] = 1;
      r.push_back(i);
   }
   return r;
}
static SpQ genRhs(int n)
{
   SpQ v;
   if(P(40))
   {
      for(int i = 0; i < n; i++) if(P(80)) v.push_back({i, Q(NZ(9))});
      if(v.empty()) v.push_back({R(0, n - 1), Q(NZ(9))});
   }
   else
   {
      std::vector<char> none(n, 0);
      for(int i : pickDistinct(n, R(1, std::min(n, 3)), none)) v.push_back({i, Q(NZ(9))});
   }
   return v;
}
static SpQ scaledColumn(const GenState& g, const std::vector<Q>& a, int ecol)
{
   SpQ v;
   std::vector<int> order = genPerm(g.n);   // arbitrary index order inside the sparse column
   for(int i : order) if(a[i] != 0) v.push_back({i, Q(a[i] * q2pow(g.e1[i] + ecol))});
   return v;
}

static void gen(Case& c)
{
   GenState g;
   int sz = curSize();
   int maxn = std::min(60, std::max(1, 2 + sz * 6 / 10));
   maxn = (int) std::min<long>(maxn, opts().xi("maxdim", 60));
   int n = g.n = R(1, maxn);
   // 0 sparse dd, 1 triangular, 2 identity+bump, 3 singletons, 4 dense dd, 5 network basis (totally unimodular)
   int fam = n >= 2 ? W({28, 14, 18, 18, 12, 10}) : 0;
   g.scaled = P(35);
   // 1 zero col, 2 dup col, 3 dependent col, 4 zero row, 5 dependent row, 6 cycle in a network basis
   int sing = P(12) ? 1 + W({20, 20, 25, 15, 20}) : 0;
   if(n < 2 && sing != 0) sing = 1;
   if(fam == 5 && (sing == 3 || sing == 5)) sing = 6;
   if(fam != 5 && (sing == 2 || sing == 3 || sing == 5)) g.scaled = false;   // keeps "should be zero" pivots small

   // natural form: column j dominant on the diagonal
   MatQ A0(n, std::vector<Q>(n, Q(0)));
   int kb = fam == 2 ? R(2, std::min(n, 12)) : 0;
   bool upper = P(50);
   std::vector<char> colSing(n, 0), rowSing(n, 0);
   if(fam == 3) for(int i = 0; i < n; i++)
      {
         colSing[i] = P(30);
         rowSing[i] = P(30);
      }
   for(int j = 0; j < n; j++)
   {
      std::vector<int> rows;
      std::vector<char> bad(n, 0);
      bad[j] = 1;
      if(fam == 0) rows = pickDistinct(n, R(0, std::min(n - 1, 4)), bad);
      else if(fam == 1)
      {
         for(int i = 0; i < n; i++) if(upper ? i > j : i < j) bad[i] = 1;
         rows = pickDistinct(n, R(0, 4), bad);
      }
      else if(fam == 2)
      {
         if(j < kb)
         {
            for(int i = 0; i < kb; i++) if(i != j && P(80)) rows.push_back(i);
            if(kb < n && P(30)) rows.push_back(R(kb, n - 1));
         }
         else if(P(30)) rows.push_back(R(0, kb - 1));
      }
      else if(fam == 3)
      {
         if(!colSing[j])
         {
            for(int i = 0; i < n; i++) if(rowSing[i]) bad[i] = 1;
            rows = pickDistinct(n, R(1, 4), bad);
         }
      }
      else
      {
         for(int i = 0; i < n; i++) if(i != j && P(50)) rows.push_back(i);
      }
      Q s = 0;
      for(int i : rows)
      {
         A0[i][j] = NZ(fam == 4 ? 2 : 3);
         s += qabs(A0[i][j]);
      }
      A0[j][j] = (s + 1 + R(0, 2)) * (P(50) ? 1 : -1);
   }
   bool idperm = P(15);
   std::vector<int> rp = genPerm(n), cp = genPerm(n);
   if(idperm) for(int i = 0; i < n; i++) rp[i] = cp[i] = i;
   g.A.assign(n, std::vector<Q>(n, Q(0)));
   g.piv.assign(n, 0);
   for(int i = 0; i < n; i++) for(int j = 0; j < n; j++) g.A[rp[i]][cp[j]] = A0[i][j];
   for(int j = 0; j < n; j++) g.piv[cp[j]] = rp[j];
   if(fam == 5)
   {
      // spanning forest: node order[t] hangs on an earlier node (arc column +s/-s) or is a root (slack column +-e).
      // All elimination arithmetic on such a matrix is exact (+-1, or powers of two when scaled) in any pivot order.
      for(auto& row : g.A) std::fill(row.begin(), row.end(), Q(0));
      std::vector<int> order = genPerm(n), root(n, 0), colOfRoot(n, -1);
      std::vector<std::pair<int, int>> arcs;
      for(int t = 0; t < n; t++)
      {
         int node = order[t], col = cp[t], sgn = P(50) ? 1 : -1;
         if(t == 0 || P(25))
         {
            g.A[node][col] = sgn;
            root[node] = node;
            colOfRoot[node] = col;
         }
         else
         {
            int head = order[R(0, t - 1)];
            g.A[node][col] = sgn;
            g.A[head][col] = -sgn;
            root[node] = root[head];
            arcs.push_back({node, head});
         }
      }
      if(sing == 6 && arcs.empty()) sing = 2;
      if(sing == 6)
      {
         // replace the slack of a tree with >= 2 nodes by an arc inside that tree: its rows then sum to zero
         auto a = arcs[R(0, (int) arcs.size() - 1)];
         int r = root[a.first], col = colOfRoot[r];
         std::vector<int> members;
         for(int i = 0; i < n; i++) if(root[i] == r) members.push_back(i);
         int k1 = R(0, (int) members.size() - 1), k2 = (k1 + R(1, (int) members.size() - 1)) % (int) members.size();
         for(int i = 0; i < n; i++) g.A[i][col] = 0;
         g.A[members[k1]][col] = 1;
         g.A[members[k2]][col] = -1;
      }
   }
   g.e1.assign(n, 0);
   g.e2.assign(n, 0);
   if(g.scaled) for(int i = 0; i < n; i++)
      {
         g.e1[i] = R(-10, 10);
         g.e2[i] = R(-10, 10);
      }
   // exactly singular variants
   if(sing == 1)
   {
      int cc = R(0, n - 1);
      for(int i = 0; i < n; i++) g.A[i][cc] = 0;
   }
   else if(sing == 4)
   {
      int rr = R(0, n - 1);
      for(int j = 0; j < n; j++) g.A[rr][j] = 0;
   }
   else if(sing == 2)
   {
      int c1 = R(0, n - 1), c2 = (c1 + R(1, n - 1)) % n, f = fam == 5 ? (P(50) ? 1 : -1) : P(50) ? 1 : NZ(3);
      for(int i = 0; i < n; i++) g.A[i][c2] = g.A[i][c1] * f;
   }
   else if(sing == 3)
   {
      int c0 = R(0, n - 1), c1 = (c0 + R(1, n - 1)) % n, c2 = n >= 3 ? (c0 + R(1, n - 1)) % n : c1;
      int f1 = NZ(3), f2 = NZ(3);
      std::vector<Q> col(n);
      for(int i = 0; i < n; i++) col[i] = c2 == c1 ? Q(g.A[i][c1] * f1) : Q(g.A[i][c1] * f1 + g.A[i][c2] * f2);
      for(int i = 0; i < n; i++) g.A[i][c0] = col[i];
   }
   else if(sing == 5)
   {
      int r0 = R(0, n - 1), r1 = (r0 + R(1, n - 1)) % n, r2 = n >= 3 ? (r0 + R(1, n - 1)) % n : r1;
      int f1 = NZ(3), f2 = NZ(3);
      std::vector<Q> row(n);
      for(int j = 0; j < n; j++) row[j] = r2 == r1 ? Q(g.A[r1][j] * f1) : Q(g.A[r1][j] * f1 + g.A[r2][j] * f2);
      g.A[r0] = row;
   }
   c.lp.resize(n, n);
   for(int i = 0; i < n; i++) for(int j = 0; j < n; j++)
         if(g.A[i][j] != 0) c.lp.A[i][j] = g.A[i][j] * q2pow(g.e1[i] + g.e2[j]);

   int utype = R(0, 1);
   static const char* mk[] = {"1/100", "1/10000", "1/10", "9/10"};
   c.recs.push_back(Rec("utype").add(utype));
   c.recs.push_back(Rec("markowitz").add(mk[W({40, 20, 20, 20})]));
   // expect: 0 regular and well conditioned; 1 exactly singular and detection is rounding-free (structural, or all
   // elimination arithmetic exact); 2 exactly singular, detection depends on rounding (observed, not judged)
   c.recs.push_back(Rec("expect").add(sing == 0 ? 0 : (sing == 1 || sing == 4 || fam == 5) ? 1 : 2));
   c.recs.push_back(Rec("fam").add(fam).add(g.scaled ? 1 : 0).add(sing));
   if(sing) return;

   int nops = R(1, 4 + sz / 5);
   for(int t = 0; t <= nops; t++)
   {
      int what = t == nops ? 0 : W({50, fam == 5 ? 0 : 45, 5});
      if(what == 0)
      {
         Rec r("solve");
         r.add(R(0, S_NVAR - 1));
         putVec(r, genRhs(n));
         putVec(r, genRhs(n));
         putVec(r, genRhs(n));
         c.recs.push_back(r);
      }
      else if(what == 2) c.recs.push_back(Rec("reload"));
      else
      {
         int idx = R(0, n - 1), p = g.piv[idx];
         int kind = n >= 2 ? W({50, 50}) : 0;
         std::vector<Q> a(n, Q(0));
         int ecol = g.e2[idx];
         bool done = false;
         if(kind == 1)
         {
            // newcol = A u with u_idx dominant in u and large enough to keep column idx dominant in row p:
            // then (current matrix)^-1 newcol == u exactly (up to the column scaling), the pivot is u_idx
            std::vector<char> bad(n, 0);
            bad[idx] = 1;
            int navail = 0;
            for(int k = 0; k < n; k++)
            {
               if(k != idx && g.e2[k] < g.e2[idx] - 2) bad[k] = 1;   // keeps |v_k| <= 4 |u_k| in the scaled system
               if(!bad[k]) navail++;
            }
            if(navail > 0)
            {
               std::vector<int> ks = pickDistinct(n, R(1, 3), bad);
               std::vector<Q> u(n, Q(0));
               Q S = 0, su = 0;
               for(int k : ks)
               {
                  u[k] = NZ(2);
                  S += qabs(u[k]) * colNorm1(g, k);
                  su += qabs(u[k]);
               }
               Q margin = qabs(g.A[p][idx]) - colOff(g, idx);
               Q need = (S + 1) / margin;
               mpz_class ce;
               mpz_cdiv_q(ce.get_mpz_t(), need.get_num_mpz_t(), need.get_den_mpz_t());
               Q ui = Q(ce);
               if(ui < su) ui = su;
               ui += R(0, 1);
               u[idx] = ui * (P(50) ? 1 : -1);
               Q mx = 0;
               for(int i = 0; i < n; i++)
               {
                  Q s = 0;
                  for(int k = 0; k < n; k++) if(u[k] != 0 && g.A[i][k] != 0) s += g.A[i][k] * u[k];
                  a[i] = s;
                  if(qabs(s) > mx) mx = qabs(s);
               }
               if(mx < q2pow(30)) done = true;
            }
         }
         if(!done)
         {
            kind = 0;
            std::fill(a.begin(), a.end(), Q(0));
            std::vector<char> bad(n, 0);
            bad[p] = 1;
            Q s = 0;
            for(int i : pickDistinct(n, R(0, std::min(n - 1, 4)), bad))
            {
               a[i] = NZ(3);
               s += qabs(a[i]);
            }
            a[p] = (s + 1 + R(0, 2)) * (P(50) ? 1 : -1);
            if(g.scaled && P(25)) ecol = R(-10, 10);
         }
         SpQ nc = scaledColumn(g, a, ecol);
         for(int i = 0; i < n; i++) g.A[i][idx] = a[i];
         g.e2[idx] = ecol;
         // change(idx, col) with neither eta nor a prior solve4update is outside the protocol of every in-tree caller
         // (and broken, see the report): only driven on request (--x noeta=1)
         int how = utype == 1 ? W({40, 15, 15, 15, 15}) : W({25, 10, 10, 10, 10, 20, opts().xi("noeta", 0) ? 15 : 0});
         Rec r("upd");
         r.add(idx).add(how).add(R(0, 1)).add(P(15) ? 1 + R(0, n - 1) : 0);
         putVec(r, nc);
         putVec(r, genRhs(n));
         putVec(r, genRhs(n));
         r.add(kind);
         c.recs.push_back(r);
      }
   }
}

// ------------------------------------------------------------------ exact helpers (oracle side)
static int rankQ(MatQ a)
{
   int n = (int) a.size(), rk = 0;
   std::vector<char> usedRow(n, 0);
   for(int j = 0; j < n; j++)
   {
      int pr = -1;
      for(int i = 0; i < n; i++) if(!usedRow[i] && a[i][j] != 0)
         {
            pr = i;
            break;
         }
      if(pr < 0) continue;
      usedRow[pr] = 1;
      rk++;
      for(int i = 0; i < n; i++)
      {
         if(usedRow[i] || a[i][j] == 0) continue;
         Q f = a[i][j] / a[pr][j];
         for(int k = j; k < n; k++) if(a[pr][k] != 0) a[i][k] -= f * a[pr][k];
      }
   }
   return rk;
}
// does anything remain after repeatedly removing row and column singletons (pattern only)?
static bool hasNucleus(const MatQ& M)
{
   int n = (int) M.size();
   std::vector<char> ra(n, 1), ca(n, 1);
   bool progress = true;
   int left = n;
   while(progress && left > 0)
   {
      progress = false;
      for(int j = 0; j < n; j++) if(ca[j])
         {
            int cnt = 0, last = -1;
            for(int i = 0; i < n; i++) if(ra[i] && M[i][j] != 0)
               {
                  cnt++;
                  last = i;
               }
            if(cnt == 1)
            {
               ca[j] = 0;
               ra[last] = 0;
               left--;
               progress = true;
            }
         }
      for(int i = 0; i < n; i++) if(ra[i])
         {
            int cnt = 0, last = -1;
            for(int j = 0; j < n; j++) if(ca[j] && M[i][j] != 0)
               {
                  cnt++;
                  last = j;
               }
            if(cnt == 1)
            {
               ra[i] = 0;
               ca[last] = 0;
               left--;
               progress = true;
            }
         }
   }
   return left > 0;
}

struct Ref
{
   int n = 0;
   MatQ M;
   Q normInf, norm1;            // max row sum / max column sum of |M|
   std::vector<Q> colMax, rowMax;
   void norms()
   {
      normInf = norm1 = 0;
      colMax.assign(n, Q(0));
      rowMax.assign(n, Q(0));
      std::vector<Q> cs(n, Q(0));
      for(int i = 0; i < n; i++)
      {
         Q rs = 0;
         for(int j = 0; j < n; j++) if(M[i][j] != 0)
            {
               Q a = qabs(M[i][j]);
               rs += a;
               cs[j] += a;
               if(a > colMax[j]) colMax[j] = a;
               if(a > rowMax[i]) rowMax[i] = a;
            }
         if(rs > normInf) normInf = rs;
      }
      for(int j = 0; j < n; j++) if(cs[j] > norm1) norm1 = cs[j];
   }
};

static const double EPSZ = 1e-16;   // Tolerances::epsilon(): documented "treated as zero" threshold of all solves

// residual check in exact arithmetic on the returned doubles. left == false: M x = b; left == true: x^T M = b^T.
static std::string judge(const Ref& R_, const std::vector<double>& x, const std::vector<Q>& b, bool left)
{
   int n = R_.n;
   std::vector<Q> xq(n);
   Q xinf = 0, binf = 0;
   for(int j = 0; j < n; j++)
   {
      if(!std::isfinite(x[j])) return "result contains a non-finite number";
      xq[j] = Q(x[j]);
      if(qabs(xq[j]) > xinf) xinf = qabs(xq[j]);
      if(qabs(b[j]) > binf) binf = qabs(b[j]);
   }
   const Q& nrm = left ? R_.norm1 : R_.normInf;
   Q tol = Q(1e-9) * (nrm * xinf + binf) + Q(16 * EPSZ) * nrm;
   Q worst = 0;
   for(int i = 0; i < n; i++)
   {
      Q s = -b[i];
      if(!left)
      {
         for(int j = 0; j < n; j++) if(R_.M[i][j] != 0 && xq[j] != 0) s += R_.M[i][j] * xq[j];
      }
      else
      {
         for(int j = 0; j < n; j++) if(R_.M[j][i] != 0 && xq[j] != 0) s += R_.M[j][i] * xq[j];
      }
      if(qabs(s) > worst) worst = qabs(s);
   }
   if(worst > tol)
   {
      char buf[160];
      snprintf(buf, sizeof buf, "residual %.3e exceeds tolerance %.3e (dim %d)", worst.get_d(), tol.get_d(), n);
      return buf;
   }
   return "";
}
// agreement of a multi-rhs result with the single solve. The two come from different code paths (dense / sparse
// elimination orders), so on an ill-conditioned matrix two correct answers differ by cond(M) x rounding; "the same vector"
// therefore means: the DIFFERENCE is explained by rounding, i.e. M (x - ref) is at rounding level by the same yardstick
// the residual check uses (condition-free), twice the residual tolerance because two roundings are involved.
// (a fixed 1e-9 component-wise tolerance raised alarms at 1.5e-9 on 50x50 matrices of the thorough tier.)
static std::string agree(const Ref& R_, const std::vector<double>& x, const std::vector<double>& ref, const std::vector<Q>& b,
                         bool left)
{
   int n = R_.n;
   std::vector<Q> dq(n);
   Q xinf = 0, binf = 0;
   for(int j = 0; j < n; j++)
   {
      if(!std::isfinite(x[j]) || !std::isfinite(ref[j])) return "result contains a non-finite number";
      dq[j] = Q(x[j]) - Q(ref[j]);
      Q a = std::max(qabs(Q(x[j])), qabs(Q(ref[j])));
      if(a > xinf) xinf = a;
      if(qabs(b[j]) > binf) binf = qabs(b[j]);
   }
   const Q& nrm = left ? R_.norm1 : R_.normInf;
   Q tol = 2 * (Q(1e-9) * (nrm * xinf + binf) + Q(16 * EPSZ) * nrm);
   for(int i = 0; i < n; i++)
   {
      Q s = 0;
      if(!left)
      {
         for(int j = 0; j < n; j++) if(R_.M[i][j] != 0 && dq[j] != 0) s += R_.M[i][j] * dq[j];
      }
      else
      {
         for(int j = 0; j < n; j++) if(R_.M[j][i] != 0 && dq[j] != 0) s += R_.M[j][i] * dq[j];
      }
      if(qabs(s) > tol)
      {
         char buf[200];
         snprintf(buf, sizeof buf, "M (x - single) has component %d = %.3e, tolerance %.3e", i, qabs(s).get_d(), tol.get_d());
         return buf;
      }
   }
   return "";
}
static std::string ssvConsistent(const SSV& x, int n)
{
   if(!x.isSetup()) return "";
   int sz = x.size();
   if(sz < 0 || sz > n) return "size out of range";
   std::vector<char> seen(n, 0);
   for(int k = 0; k < sz; k++)
   {
      int i = x.index(k);
      if(i < 0 || i >= n) return "index out of range";
      if(seen[i]) return "index listed twice";
      seen[i] = 1;
   }
   for(int i = 0; i < n; i++) if(!seen[i] && x[i] != 0.0) return "nonzero entry not listed in the index set";
   return "";
}
static std::vector<double> vals(const DV& v, int n)
{
   std::vector<double> r(n);
   for(int i = 0; i < n; i++) r[i] = v[i];
   return r;
}
static std::vector<double> vals(const SSV& v, int n)
{
   std::vector<double> r(n);
   for(int i = 0; i < n; i++) r[i] = v[i];
   return r;
}
static std::vector<Q> denseQ(const SpQ& s, int n)
{
   std::vector<Q> r(n, Q(0));
   for(auto& p : s) r[p.first] = p.second;
   return r;
}
static bool toSV(const SpQ& s, DSV& out)
{
   out.clear();
   out.setMax((int) s.size() + 1);
   for(auto& p : s)
   {
      if(!isDyadicDouble(p.second)) return false;
      out.add(p.first, p.second.get_d());
   }
   return true;
}
static void toDV(const SpQ& s, DV& out)
{
   out.clear();
   for(auto& p : s) out[p.first] = p.second.get_d();
}
static void toSSV(const SpQ& s, SSV& out)   // set-up semi-sparse vector (what the in-tree callers pass as rhs)
{
   out.clear();
   for(auto& p : s) out.setValue(p.first, p.second.get_d());
}

static Verdict run(const Case& c)
{
   Verdict v;
   Evidence& e = ev();
   int n = c.lp.m();
   if(n < 1 || c.lp.n() != n)
   {
      v.fail("HARNESS: case is not a square matrix");
      return v;
   }
   Ref ref;
   ref.n = n;
   ref.M = c.lp.A;
   for(int i = 0; i < n; i++) for(int j = 0; j < n; j++) if(!isDyadicDouble(ref.M[i][j]))
         {
            v.fail("HARNESS: matrix entry is not a double");
            return v;
         }
   int utype = (int) c.geti("utype", 1);
   Q mk = c.find("markowitz") ? c.find("markowitz")->q(0) : Q(1, 100);
   int expect = (int) c.geti("expect", 0);
   const Rec* fr = c.find("fam");
   int fam = fr ? (int) fr->i(0) : -1, scaled = fr ? (int) fr->i(1) : 0, sing = fr ? (int) fr->i(2) : 0;
   bool exactSingular = rankQ(ref.M) < n;
   if(exactSingular != (expect != 0))
   {
      v.fail("HARNESS: case claims the wrong exact singularity");
      return v;
   }
   bool nucleus = hasNucleus(ref.M);
   e.count("dim." + std::string(n == 1 ? "1" : n < 5 ? "2-4" : n < 10 ? "5-9" : n < 20 ? "10-19" : n < 40 ? "20-39" : "40-60"));
   e.count("family." + std::to_string(fam) + (scaled ? ".scaled" : ".unscaled"));
   e.count(std::string("utype.") + (utype ? "FT" : "ETA"));
   e.count("markowitz." + qstr(mk));
   e.count(nucleus ? "nucleus.nontriangular" : "nucleus.triangular");

   soplex::SPxOut out;
   out.setVerbosity(soplex::SPxOut::ERROR);
   auto tol = std::make_shared<soplex::Tolerances>();
   LU lu;
   lu.spxout = &out;
   lu.setTolerances(tol);
   lu.setUtype(utype ? LU::FOREST_TOMLIN : LU::ETA);
   lu.setMarkowitz(mk.get_d());

   std::vector<DSV> cols(n);
   std::vector<const SV*> ptr(n);
   auto buildCols = [&]()
   {
      for(int j = 0; j < n; j++)
      {
         cols[j].clear();
         cols[j].setMax(n + 1);
         for(int i = 0; i < n; i++) if(ref.M[i][j] != 0) cols[j].add(i, ref.M[i][j].get_d());
         ptr[j] = &cols[j];
      }
   };
   buildCols();
   ref.norms();
   LU::Status st = lu.load(ptr.data(), n);
   if(st != lu.status())
   {
      v.fail("load() return value differs from status()");
      return v;
   }
   v.nontrivial = n >= 10 && nucleus;
   if(expect != 0)
   {
      const char* cls = expect == 1 ? "exact_arith" : "rounding_dependent";
      e.count(std::string("singular.") + cls + ".kind" + std::to_string(sing) + (st == LU::SINGULAR ? ".detected" : ".missed"));
      // expect 2: whether the computed "zero" pivot falls below the absolute tolerance epsilonPivot depends on rounding
      // and element growth, nothing can be asserted soundly (see the report); it is measured by the counter above
      if(st != LU::SINGULAR && (expect == 1 || opts().xi("strict_singular", 0)))
      {
         char buf[240];
         snprintf(buf, sizeof buf,
                  "exactly singular matrix loaded with status %d instead of SINGULAR (dim %d, max/min |U_ii| = %.3e, stability %.3e)",
                  (int) st, n, (double) lu.matrixMetric(0), (double) lu.stability());
         v.fail(buf);
      }
      return v;
   }
   e.count("load.status." + std::to_string((int) st));
   if(st != LU::OK)
   {
      v.fail(st == LU::SINGULAR ? "well-conditioned regular matrix reported SINGULAR by load" :
             "well-conditioned regular matrix: load status not OK");
      return v;
   }

   int sinceLoad = 0;
   bool judgedAfterUpdate = false;
   auto reload = [&](const char* why) -> bool
   {
      e.count(why);
      LU::Status s2 = lu.load(ptr.data(), n);
      sinceLoad = 0;
      if(s2 != LU::OK || lu.status() != LU::OK)
      {
         v.fail(std::string("well-conditioned regular matrix not OK on refactorisation (") + why + ")");
         return false;
      }
      return true;
   };
   auto chkR = [&](const char* what, const std::vector<double>& x, const std::vector<Q>& b, bool left) -> bool
   {
      std::string m = judge(ref, x, b, left);
      if(!m.empty())
      {
         v.fail(std::string(what) + " [" + (utype ? "FT" : "ETA") + (sinceLoad ? ", after updates" : ", fresh factorisation") + "]: " + m);
         return false;
      }
      if(sinceLoad > 0) judgedAfterUpdate = true;
      return true;
   };
   auto chkS = [&](const char* what, const SSV& x) -> bool
   {
      std::string m = ssvConsistent(x, n);
      e.count(x.isSetup() ? "ssv.setup" : "ssv.not_setup");
      if(!m.empty())
      {
         v.fail(std::string(what) + ": SSVector result inconsistent: " + m);
         return false;
      }
      return true;
   };
   auto chkA = [&](const char* what, const std::vector<double>& x, const std::vector<double>& single, const std::vector<Q>& b,
                   bool left) -> bool
   {
      std::string m = agree(ref, x, single, b, left);
      if(!m.empty())
      {
         v.fail(std::string(what) + ": multi-rhs result disagrees with single solve: " + m);
         return false;
      }
      return true;
   };

   for(auto& r : c.recs)
   {
      if(!v.ok) break;
      if(r.tag == "reload")
      {
         if(!reload("reload.explicit")) break;
      }
      else if(r.tag == "solve")
      {
         int var = (int) r.i(0);
         size_t pos = 1;
         SpQ b1, b2, b3;
         if(var < 0 || var >= S_NVAR || !getVec(r, pos, n, b1) || !getVec(r, pos, n, b2) || !getVec(r, pos, n, b3) || b1.empty()
               || b2.empty() || b3.empty())
         {
            v.fail("HARNESS: malformed solve record");
            break;
         }
         std::vector<Q> q1 = denseQ(b1, n), q2 = denseQ(b2, n), q3 = denseQ(b3, n);
         DSV s1;
         if(!toSV(b1, s1))
         {
            v.fail("HARNESS: rhs entry is not a double");
            break;
         }
         std::string nm = std::string("solve.") + solveName[var];
         e.count(nm + (sinceLoad ? ".after_update" : ".fresh"));
         const char* w = solveName[var];
         if(var == S_R_VV)
         {
            DV x(n), b(n);
            toDV(b1, b);
            lu.solveRight(x, b);
            chkR(w, vals(x, n), q1, false);
         }
         else if(var == S_R_SS)
         {
            XS x(n, tol), b(n, tol);
            toSSV(b1, b);
            lu.solveRight(x, b);
            chkS(w, x) && chkR(w, vals(x, n), q1, false);
         }
         else if(var == S_R_SSV)
         {
            XS x(n, tol);
            lu.solveRight(x, s1);
            chkS(w, x) && chkR(w, vals(x, n), q1, false);
         }
         else if(var == S_L_VV)
         {
            DV x(n), b(n);
            toDV(b1, b);
            lu.solveLeft(x, b);
            chkR(w, vals(x, n), q1, true);
         }
         else if(var == S_L_SS)
         {
            XS x(n, tol), b(n, tol);
            toSSV(b1, b);
            lu.solveLeft(x, b);
            chkS(w, x) && chkR(w, vals(x, n), q1, true);
         }
         else if(var == S_L_SSV)
         {
            XS x(n, tol);
            lu.solveLeft(x, s1);
            chkS(w, x) && chkR(w, vals(x, n), q1, true);
         }
         else
         {
            // multi-rhs left solves: single solves first (reference for the agreement check)
            DV r1(n), r2(n), r3(n), d(n);
            toDV(b1, d);
            lu.solveLeft(r1, d);
            toDV(b2, d);
            lu.solveLeft(r2, d);
            toDV(b3, d);
            lu.solveLeft(r3, d);
            XS x(n, tol), rhs2(n, tol), rhs3(n, tol);
            toSSV(b2, rhs2);
            toSSV(b3, rhs3);
            if(var == S_L2_D)
            {
               DV y(n);
               lu.solveLeft(x, y, s1, rhs2);
               chkS(w, x) && chkR(w, vals(x, n), q1, true) && chkR(w, vals(y, n), q2, true)
               && chkA(w, vals(x, n), vals(r1, n), q1, true) && chkA(w, vals(y, n), vals(r2, n), q2, true);
            }
            else if(var == S_L2_S)
            {
               XS y(n, tol);
               lu.solveLeft(x, y, s1, rhs2);
               chkS(w, x) && chkS(w, y) && chkR(w, vals(x, n), q1, true) && chkR(w, vals(y, n), q2, true)
               && chkA(w, vals(x, n), vals(r1, n), q1, true) && chkA(w, vals(y, n), vals(r2, n), q2, true);
            }
            else if(var == S_L3_D)
            {
               DV y(n), z(n);
               lu.solveLeft(x, y, z, s1, rhs2, rhs3);
               chkS(w, x) && chkR(w, vals(x, n), q1, true) && chkR(w, vals(y, n), q2, true) && chkR(w, vals(z, n), q3, true)
               && chkA(w, vals(x, n), vals(r1, n), q1, true) && chkA(w, vals(y, n), vals(r2, n), q2, true)
               && chkA(w, vals(z, n), vals(r3, n), q3, true);
            }
            else
            {
               XS y(n, tol), z(n, tol);
               lu.solveLeft(x, y, z, s1, rhs2, rhs3);
               chkS(w, x) && chkS(w, y) && chkS(w, z) && chkR(w, vals(x, n), q1, true) && chkR(w, vals(y, n), q2, true)
               && chkR(w, vals(z, n), q3, true) && chkA(w, vals(x, n), vals(r1, n), q1, true)
               && chkA(w, vals(y, n), vals(r2, n), q2, true) && chkA(w, vals(z, n), vals(r3, n), q3, true);
            }
         }
      }
      else if(r.tag == "upd")
      {
         int idx = (int) r.i(0), how = (int) r.i(1), passEta = (int) r.i(2), pre = (int) r.i(3);
         size_t pos = 4;
         SpQ nc, b2, b3;
         if(idx < 0 || idx >= n || how < 0 || how >= U_NHOW || !getVec(r, pos, n, nc) || !getVec(r, pos, n, b2)
               || !getVec(r, pos, n, b3) || nc.empty() || b2.empty() || b3.empty() || pre < 0 || pre > n)
         {
            v.fail("HARNESS: malformed upd record");
            break;
         }
         if(utype == 1 && how >= U_ETA_SOLVE) how = U_4U1;   // never the FT branch without a prior solveRight4update
         if(how == U_ETA_NOETA && !opts().xi("noeta", 0)) how = U_ETA_SOLVE;
         if(how >= U_ETA_SOLVE) pre = 0;                     // change(.., eta) is only meaningful with no update vector set up
         if(sinceLoad >= 40 && !reload("reload.maxupdates")) break;
         DSV ncv;
         if(!toSV(nc, ncv))
         {
            v.fail("HARNESS: column entry is not a double");
            break;
         }
         std::vector<Q> qn = denseQ(nc, n), q2 = denseQ(b2, n), q3 = denseQ(b3, n);
         std::string un = std::string("upd.") + (utype ? "FT." : "ETA.") + updName[how];
         e.count(un);
         e.count(std::string("upd.kind.") + (r.i(r.n() - 1) == 1 ? "B_times_v" : "dominant_column"));
         const char* w = updName[how];
         if(pre)
         {
            // a solve4update whose pivot is then not used (the next solve4update replaces the update vector)
            e.count("upd.with_discarded_solve4update");
            XS x0(n, tol);
            lu.solveRight4update(x0, cols[pre - 1]);
            std::vector<Q> qc(n);
            for(int i = 0; i < n; i++) qc[i] = ref.M[i][pre - 1];
            if(!(chkS("solveRight4update(discarded)", x0) && chkR("solveRight4update(discarded)", vals(x0, n), qc, false))) break;
         }
         // reference single solves for the additional right-hand sides, before the solve4update call
         DV r2(n), r3(n), d(n);
         if(how >= U_4U2D && how <= U_4U3S)
         {
            toDV(b2, d);
            lu.solveRight(r2, d);
            toDV(b3, d);
            lu.solveRight(r3, d);
         }
         XS x(n, tol), rhs2(n, tol), rhs3(n, tol);
         toSSV(b2, rhs2);
         toSSV(b3, rhs3);
         bool okSolve = true;
         if(how == U_4U1) lu.solveRight4update(x, ncv);
         else if(how == U_4U2D)
         {
            DV y(n);
            lu.solve2right4update(x, y, ncv, rhs2);
            okSolve = chkR(w, vals(y, n), q2, false) && chkA(w, vals(y, n), vals(r2, n), q2, false);
         }
         else if(how == U_4U2S)
         {
            XS y(n, tol);
            lu.solve2right4update(x, y, ncv, rhs2);
            okSolve = chkS(w, y) && chkR(w, vals(y, n), q2, false) && chkA(w, vals(y, n), vals(r2, n), q2, false);
         }
         else if(how == U_4U3D)
         {
            DV y(n), z(n);
            lu.solve3right4update(x, y, z, ncv, rhs2, rhs3);
            okSolve = chkR(w, vals(y, n), q2, false) && chkR(w, vals(z, n), q3, false)
                      && chkA(w, vals(y, n), vals(r2, n), q2, false) && chkA(w, vals(z, n), vals(r3, n), q3, false);
         }
         else if(how == U_4U3S)
         {
            XS y(n, tol), z(n, tol);
            lu.solve3right4update(x, y, z, ncv, rhs2, rhs3);
            okSolve = chkS(w, y) && chkS(w, z) && chkR(w, vals(y, n), q2, false) && chkR(w, vals(z, n), q3, false)
                      && chkA(w, vals(y, n), vals(r2, n), q2, false) && chkA(w, vals(z, n), vals(r3, n), q3, false);
         }
         else if(how == U_ETA_SOLVE)
         {
            lu.solveRight(x, ncv);
            x.setup();
         }
         // the 4update solution itself (x solves M x = newcol with the matrix BEFORE the replacement)
         if(how != U_ETA_NOETA) okSolve = okSolve && chkS(w, x) && chkR(w, vals(x, n), qn, false);
         // replacement: the reference changes in any case; the factorisation is updated following SPxBasisBase::change
         bool threw = false;
         LU::Status cs = LU::OK;
         try
         {
            if(how == U_ETA_NOETA) cs = lu.change(idx, ncv);
            else if(how == U_ETA_SOLVE) cs = lu.change(idx, ncv, &x);
            else cs = lu.change(idx, ncv, passEta ? &x : nullptr);
         }
         catch(const soplex::SPxException& ex)
         {
            threw = true;
         }
         for(int i = 0; i < n; i++) ref.M[i][idx] = qn[i];
         cols[idx] = ncv;
         ref.norms();
         if(!okSolve) break;
         sinceLoad++;
         e.count("updates_applied");
         // domain of the histories (DESIGN, C10): the pivot |(B^-1 newcol)_idx| is at least 1e-3 |B^-1 newcol|_inf, "the kind of
         // pivot the ratio tests hand to the factorisation". The generator constructs that in the scaled system; in the
         // unscaled one a replacement can have element growth ~1e6, after which no update scheme is accurate to the 1e-9
         // yardstick: the basis code refactorises there (SPxBasisBase::change on stability), and so does the harness
         bool tinyPivot = false;
         if(how != U_ETA_NOETA)
         {
            double xi = std::fabs((double) x[idx]), xm = 0;
            for(int i = 0; i < n; i++) xm = std::max(xm, std::fabs((double) x[i]));
            tinyPivot = !(xi >= 1e-3 * xm);
         }
         if(threw || cs != LU::OK || lu.status() != LU::OK || !(lu.stability() >= 1e-2) || tinyPivot)
         {
            e.count(threw ? "refactor_on_instability.change_threw" : cs != LU::OK ? "refactor_on_instability.status" :
                    !(lu.stability() >= 1e-2) ? "refactor_on_instability.stability" : "refactor_on_instability.pivot_below_1e-3_of_column");
            if(!reload("refactor_on_instability")) break;
         }
      }
   }
   if(judgedAfterUpdate) e.count("case.judged_after_update");
   v.nontrivial = judgedAfterUpdate || (n >= 10 && nucleus);
   return v;
}

int main(int argc, char** argv)
{
   return vfMain(argc, argv, "C10", gen, run);
}
