// fuzz_soplex.cpp - C13/T2: libFuzzer target for the file readers of the whole SoPlex object.
//
// input = selector byte + file content.
//   selector bits 0-2 (value % 5): 0 readFile of <dir>/f.lp   1 readFile of <dir>/f.mps   2 readBasisFile of <dir>/f.bas
//                                  (after loading the fixed 3x3 LP)   3 loadSettingsFile of <dir>/f.set
//                                  4 parseSettingsString(content up to the first NUL)
//            bit 3: READMODE rational (else real)
//            bit 4: readers 0/1: SYNCMODE auto (rational LP kept beside the real one); reader 2: pass the LP's
//                   NameSets to readBasisFile (else nullptr = default names)
//            bits 5-7: value 7 = the file is written gz-compressed (f.lp.gz, ...) with zlib's gzwrite;
//                      value 1 or 2 = readFile gets nullptr name sets / index set
// The format is decided by SoPlex from the first character of the content, the extension only names the file.
// After the reader returned (true, false, or by an exception the harness can catch) the fixed post-read sequence
// runs on the same object: dimensions, accessor-level storage invariants, optimize() with ITERLIMIT 50 (any status),
// clearLPReal(), readFile(good 3x3 LP) == true, optimize() == OPTIMAL with objective 14 (1e-6).  Settings readers:
// resetSettings() before the final solve.  A fresh SoPlex object per input.
// oracle = sanitizers (ASan, UBSan, LSan), libFuzzer timeout, abort/signal, and the checks above.
#include <sys/stat.h>
#include <sys/types.h>
#include <dirent.h>
#include <zlib.h>
#include <cmath>
#include <algorithm>
#include "spx.hpp"
#include "fuzz_c13.hpp"

using namespace soplex;

namespace
{
const char* GOOD_LP =
   "Minimize\n obj: 2 x + 3 y + 4 z\nSubject To\n c1: x + y + z >= 6\n c2: x - y <= 2\n c3: y + z <= 10\n"
   "Bounds\n 0 <= x <= 4\nEnd\n";
const double GOOD_OBJ = 14.0;   // x=4, y=2, z=0 (x+y=6, x-y=2: cost 18-x minimal at x=4; z costs 4 > 3)

std::string g_dir, g_good;

void cleanupDir()
{
   if(g_dir.empty()) return;
   if(DIR* d = opendir(g_dir.c_str()))
   {
      while(dirent* e = readdir(d))
         if(e->d_name[0] != '.') unlink((g_dir + "/" + e->d_name).c_str());
      closedir(d);
   }
   rmdir(g_dir.c_str());
}
void setup()
{
   if(!g_dir.empty()) return;
   const char* bases[] = {getenv("VF_TMP"), "/dev/shm", "/var/tmp"};
   for(const char* b : bases)
   {
      if(!b) continue;
      if(b == bases[0]) mkdir(b, 0700);   // VF_TMP itself may not exist yet (one level)
      std::string d = std::string(b) + "/vf-c13-" + std::to_string((long) getpid());
      if(mkdir(d.c_str(), 0700) == 0 || errno == EEXIST)
      {
         g_dir = d;
         break;
      }
   }
   if(g_dir.empty())
   {
      fprintf(stderr, "fuzz_soplex: no scratch directory\n");
      exit(3);
   }
   atexit(cleanupDir);
   g_good = g_dir + "/good.lp";
   FILE* f = fopen(g_good.c_str(), "w");
   fputs(GOOD_LP, f);
   fclose(f);
}
bool writeFile(const std::string& path, const std::string& content, bool gz)
{
   if(gz)
   {
      gzFile g = gzopen(path.c_str(), "wb1");
      if(!g) return false;
      if(!content.empty()) gzwrite(g, content.data(), (unsigned) content.size());
      gzclose(g);
      return true;
   }
   FILE* f = fopen(path.c_str(), "wb");
   if(!f) return false;
   if(!content.empty()) fwrite(content.data(), 1, content.size(), f);
   fclose(f);
   return true;
}

inline bool isNaN(double v)
{
   return v != v;
}
inline bool isNaN(const Rational&)
{
   return false;
}
template <class R> struct Entry
{
   int i, j;
   R v;
};
// total orders (doubles by bit pattern: NaN-safe; both copies of an entry must be the same number bit for bit)
inline bool valLess(double a, double b)
{
   uint64_t x, y;
   memcpy(&x, &a, 8);
   memcpy(&y, &b, 8);
   return x < y;
}
inline bool valLess(const Rational& a, const Rational& b)
{
   return a < b;
}
template <class R> bool entryLess(const Entry<R>& a, const Entry<R>& b)
{
   if(a.i != b.i) return a.i < b.i;
   if(a.j != b.j) return a.j < b.j;
   return valLess(a.v, b.v);
}
template <class R> bool same(const R& a, const R& b)
{
   return !valLess(a, b) && !valLess(b, a);
}
// returns true if a sparse vector holds the same index twice (SVectorBase::isConsistent forbids it) and that is
// the excluded known finding mps-duplicate-entry
template <class R, class RowFn, class ColFn>
bool checkMirror(int m, int n, long nnz, RowFn row, ColFn col, const std::string& w, bool fmtMps)
{
   std::vector<Entry<R>> byRow, byCol;
   bool bad = false;
   for(int i = 0; i < m; i++)
   {
      const SVectorBase<R>& v = row(i);
      for(int k = 0; k < v.size(); k++)
      {
         if(v.index(k) < 0 || v.index(k) >= n) vfz::fail(w + "row vector holds a column index outside [0,numCols)");
         if(isNaN(v.value(k))) bad |= vfz::nanStored(w, fmtMps);
         byRow.push_back(Entry<R> {i, v.index(k), v.value(k)});
      }
   }
   for(int j = 0; j < n; j++)
   {
      const SVectorBase<R>& v = col(j);
      for(int k = 0; k < v.size(); k++)
      {
         if(v.index(k) < 0 || v.index(k) >= m) vfz::fail(w + "column vector holds a row index outside [0,numRows)");
         byCol.push_back(Entry<R> {v.index(k), j, v.value(k)});
      }
   }
   if(byRow.size() != byCol.size()) vfz::fail(w + "row-wise and column-wise storage hold different numbers of entries");
   if((long) byRow.size() != nnz) vfz::fail(w + "numNonzeros differs from the number of stored entries");
   std::sort(byRow.begin(), byRow.end(), entryLess<R>);
   std::sort(byCol.begin(), byCol.end(), entryLess<R>);
   for(size_t k = 0; k < byRow.size(); k++)
      if(byRow[k].i != byCol[k].i || byRow[k].j != byCol[k].j || !same(byRow[k].v, byCol[k].v))
         vfz::fail(w + "row-wise and column-wise storage do not mirror each other");
   for(size_t k = 1; k < byRow.size(); k++)
      if(byRow[k].i == byRow[k - 1].i && byRow[k].j == byRow[k - 1].j)
      {
         // known finding mps-duplicate-entry: MPSreadCols appends a repeated (column,row) coefficient
         if(fmtMps && vfz::known("mps-duplicate-entry"))
         {
            vfz::count("excluded_known.mps-duplicate-entry");
            return true;
         }
         vfz::fail(w + "a sparse vector holds the same index twice");
      }
   return bad;
}
// returns true if the LP carries an excluded known defect (duplicate entry, NaN): then it must not be solved
bool checkObject(SoPlex& sp, bool withRational, const char* what, bool fmtMps = false)
{
   std::string w = std::string(what) + ": ";
   int m = sp.numRows(), n = sp.numCols();
   if(m < 0 || n < 0) vfz::fail(w + "negative dimension");
   bool dup = checkMirror<double>(m, n, sp.numNonzeros(),
                                  [&](int i) -> const SVectorBase<double>& { return sp.rowVectorRealInternal(i); },
                                  [&](int j) -> const SVectorBase<double>& { return sp.colVectorRealInternal(j); }, w, fmtMps);
   for(int i = 0; i < m; i++)
   {
      if(isNaN(sp.lhsReal(i)) || isNaN(sp.rhsReal(i))) dup |= vfz::nanStored(w, fmtMps);
      if(sp.lhsReal(i) > sp.rhsReal(i)) vfz::count("obs.lhs_gt_rhs");
   }
   for(int j = 0; j < n; j++)
   {
      if(isNaN(sp.lowerReal(j)) || isNaN(sp.upperReal(j)) || isNaN(sp.objReal(j))) dup |= vfz::nanStored(w, fmtMps);
      if(sp.lowerReal(j) > sp.upperReal(j)) vfz::count("obs.lower_gt_upper");
   }
   if(withRational)
   {
      if(sp.numRowsRational() != m || sp.numColsRational() != n) vfz::fail(w + "rational and real LP have different dimensions");
      dup |= checkMirror<Rational>(m, n, sp.numNonzerosRational(),
                                   [&](int i) -> const SVectorBase<Rational>& { return sp.rowVectorRational(i); },
                                   [&](int j) -> const SVectorBase<Rational>& { return sp.colVectorRational(j); }, w + "rational LP: ", fmtMps);
      // self-consistency of the exact solver's cached bound classification (read through the guarded observer hook):
      // one entry per row / column, and each entry is the class of the rational bounds
      if(SoPlexVerifAccess::numRangeTypesRows(sp) != m || SoPlexVerifAccess::numRangeTypesCols(sp) != n)
         vfz::fail(w + "rational LP: number of cached range types differs from the dimension");
      Rational pinf(sp.realParam(SoPlex::INFTY)), ninf(-sp.realParam(SoPlex::INFTY));
      auto cls = [&](const Rational & lo, const Rational & up)
      {
         bool fl = lo > ninf, fu = up < pinf;
         return !fl && !fu ? 0 : (fl && !fu ? 1 : (!fl && fu ? 2 : (lo == up ? 4 : 3)));
      };
      for(int i = 0; i < m; i++)
         if(SoPlexVerifAccess::rowRangeType(sp, i) != cls(sp.lhsRational(i), sp.rhsRational(i)))
            vfz::fail(w + "rational LP: cached row range type does not match the rational sides");
      for(int j = 0; j < n; j++)
         if(SoPlexVerifAccess::colRangeType(sp, j) != cls(sp.lowerRational(j), sp.upperRational(j)))
            vfz::fail(w + "rational LP: cached column range type does not match the rational bounds");
      vfz::count("range_types_checked");
   }
   return dup;
}
void checkNames(const NameSet& ns, int dim, const char* which, bool fmtLP, bool isRow)
{
   std::string w = std::string("after successful read: ") + which;
   if(ns.num() != dim)
   {
      if(fmtLP && isRow && vfz::known("lpf-rowname-desync")) vfz::count("excluded_known.lpf-rowname-desync");
      else vfz::fail(w + " NameSet size differs from the dimension");
   }
   for(int i = 0; i < ns.num(); i++)
   {
      if(!ns.has(i)) vfz::fail(w + " NameSet has a hole");
      if(ns.number(ns[i]) != i)
      {
         if(strlen(ns[i]) >= SPX_MAXSTRLEN - 1 && vfz::known("nameset-long-name")) vfz::count("excluded_known.nameset-long-name");
         else vfz::fail(w + " name does not resolve back to its index");
      }
   }
}
void limits(SoPlex& sp)
{
   sp.setIntParam(SoPlex::VERBOSITY, SoPlex::VERBOSITY_ERROR);
   sp.setIntParam(SoPlex::ITERLIMIT, 50);
   sp.setRealParam(SoPlex::TIMELIMIT, 2.0);
   // SPxMainSM::unsimplify copies not yet initialised VarStatus slots around (benign, overwritten later, but UBSan's
   // enum check stops the process: spxmainsm.hpp:543/620). That is solver territory, not a reader: keep it out.
   sp.setIntParam(SoPlex::SIMPLIFIER, SoPlex::SIMPLIFIER_OFF);
}
void tryOptimize(SoPlex& sp, const char* k)
{
   try
   {
      sp.optimize();
      vfz::count(std::string(k) + ".status." + vf::statusName(sp.status()));
   }
   catch(const SPxException& x)
   {
      vfz::count(std::string(k) + ".optimize_spxexception");
   }
   catch(const std::exception& x)
   {
      vfz::count(std::string(k) + ".optimize_stdexception");
   }
}
// clearLPReal, read the good LP, solve it: OPTIMAL, 14
void finalSolve(SoPlex& sp, const char* k)
{
   std::string w = std::string(k) + ": object unusable after the reader: ";
   bool ok = false;
   try
   {
      sp.clearLPReal();
      NameSet rn(16, 256), cn(16, 256);   // never nullptr here: known finding lpf-noname-leak
      ok = sp.readFile(g_good.c_str(), &rn, &cn);
   }
   catch(const std::exception& x)
   {
      vfz::fail(w + "clearLPReal/readFile(good LP) threw " + x.what());
   }
   if(!ok) vfz::fail(w + "readFile(good LP) returned false");
   if(sp.numRows() != 3 || sp.numCols() != 3 || sp.numNonzeros() != 7) vfz::fail(w + "good LP has wrong dimensions");
   try
   {
      sp.optimize();
   }
   catch(const std::exception& x)
   {
      vfz::fail(w + "optimize() of the good LP threw " + x.what());
   }
   if(sp.status() != SPxSolverBase<double>::OPTIMAL)
      vfz::fail(w + "good LP not solved to OPTIMAL but " + vf::statusName(sp.status()));
   double v = sp.objValueReal();
   if(!(std::fabs(v - GOOD_OBJ) <= 1e-6)) vfz::fail(w + "good LP solved to a wrong objective value");
}
// rational-mode exclusions shared with T1; returns true if the input must be skipped
bool excludedRational(const std::string& text, bool parsedAsMps)
{
   if(vfz::known("rat-exponent-unbounded") && vfz::hasHugeExponent(text))
   {
      vfz::count("excluded_known.rat-exponent-unbounded");
      return true;
   }
   if(vfz::known("rat-denominator-unchecked") && vfz::hasBadDenominator(text))
   {
      vfz::count("excluded_known.rat-denominator-unchecked");
      return true;
   }
   if(parsedAsMps && vfz::known("mps-rational-rows-null") && vfz::mpsRowsLineWithoutName(text))
   {
      vfz::count("excluded_known.mps-rational-rows-null");
      return true;
   }
   return false;
}

void readLP(int sel, std::string text, bool extMps, bool gz)
{
   bool rational = sel & 8, syncAuto = sel & 16;
   int top = (sel >> 5) & 7;
   bool noNames = (top == 1 || top == 2);
   if(text.empty())
   {
      // SPxLPBase::read() looks at a character it could not extract; which reader runs then depends on stack
      // garbage (known finding valgrind__read-empty-uninit, visible to valgrind only)
      if(vfz::known("valgrind__read-empty-uninit"))
      {
         vfz::count("excluded_known.valgrind__read-empty-uninit");
         return;
      }
      vfz::completeMps(text);   // may be taken for MPS: keep the tokenizer away from end of file
   }
   else if(text[0] == '*' || text[0] == 'N') vfz::completeMps(text);
   bool parsedAsMps = !text.empty() && (text[0] == '*' || text[0] == 'N');
   if(rational && excludedRational(text, parsedAsMps)) return;
   if(!parsedAsMps && vfz::known("lpf-long-token-overflow") && vfz::hasLongLpToken(text))
   {
      vfz::count("excluded_known.lpf-long-token-overflow");
      return;
   }
   if(!parsedAsMps && vfz::known("lpf-keyword-bracket-overread") && vfz::hasClosingBracket(text))
   {
      vfz::count("excluded_known.lpf-keyword-bracket-overread");
      return;
   }
   if(!parsedAsMps && noNames && vfz::known("lpf-noname-leak"))
   {
      noNames = false;
      vfz::count("excluded_known.lpf-noname-leak");
   }
   std::string k = std::string(rational ? "rat" : "dbl") + (syncAuto ? "+sync" : "") + (parsedAsMps ? ".mps" : ".lp");
   std::string path = g_dir + (extMps ? "/f.mps" : "/f.lp") + (gz ? ".gz" : "");
   if(!writeFile(path, text, gz)) return;
   if(gz) vfz::count("gz");
   SoPlex sp;
   limits(sp);
   sp.setIntParam(SoPlex::READMODE, rational ? SoPlex::READMODE_RATIONAL : SoPlex::READMODE_REAL);
   if(syncAuto) sp.setIntParam(SoPlex::SYNCMODE, SoPlex::SYNCMODE_AUTO);
   NameSet rn(16, 256), cn(16, 256);
   DIdxSet iv;
   int outcome = 0;
   bool dup = false;
   // one object reading several files in a row: the good LP is read first (no clear in between)
   if(top == 3 || top == 5)
   {
      NameSet grn(16, 256), gcn(16, 256);
      if(!sp.readFile(g_good.c_str(), &grn, &gcn)) vfz::fail("preload: the good LP could not be read");
      vfz::count(k + ".preloaded");
   }
   try
   {
      vfz::LeakScope ls(noNames);
      bool ok = noNames ? sp.readFile(path.c_str()) : sp.readFile(path.c_str(), &rn, &cn, &iv);
      outcome = ok ? 1 : 0;
   }
   catch(const SPxException& x)
   {
      outcome = -1;
      vfz::count(k + ".spxexception");
   }
   catch(const std::exception& x)
   {
      outcome = -1;
      vfz::count(k + ".stdexception");
   }
   unlink(path.c_str());
   if(outcome == 1)
   {
      vfz::count(k + ".ok");
      if(sp.numRows() >= 2 && sp.numCols() >= 2) vfz::count(k + ".ok_2x2");
      dup = checkObject(sp, syncAuto, "after successful read", parsedAsMps);
      if(!noNames)
      {
         checkNames(rn, sp.numRows(), "row", !parsedAsMps, true);
         checkNames(cn, sp.numCols(), "column", !parsedAsMps, false);
         for(int t = 0; t < iv.size(); t++)
            if(iv.index(t) < 0 || iv.index(t) >= sp.numCols()) vfz::fail("after successful read: integer-variable index outside [0,numCols)");
      }
   }
   else
   {
      if(outcome == 0)
      {
         vfz::count(k + ".false");
         // a failed read of a fresh object leaves it empty (both _readFile* clear the LP they read into); with a preloaded
         // LP in rational read mode and SYNCMODE_ONLYREAL only the rational LP is cleared and the old real LP stays -
         // the property claims usability, not emptiness, so that case is an observation
         if(sp.numRows() != 0 || sp.numCols() != 0)
         {
            if(top == 3 || top == 5) vfz::count("obs.failed_read_keeps_preloaded_lp");
            else vfz::fail("after failed read: readFile returned false but the LP is not empty");
         }
      }
      checkObject(sp, false, "after failed read");
   }
   if(!dup) tryOptimize(sp, k.c_str());
   finalSolve(sp, k.c_str());
}

void readBasis(int sel, std::string text, bool gz)
{
   bool rational = sel & 8, named = sel & 16;
   vfz::completeMps(text);   // the basis reader uses the MPS tokenizer
   std::string k = std::string("bas") + (named ? ".named" : ".default");
   std::string path = g_dir + "/f.bas" + (gz ? ".gz" : "");
   if(!writeFile(path, text, gz)) return;
   if(gz) vfz::count("gz");
   SoPlex sp;
   limits(sp);
   sp.setIntParam(SoPlex::READMODE, rational ? SoPlex::READMODE_RATIONAL : SoPlex::READMODE_REAL);
   NameSet rn(16, 256), cn(16, 256);
   if(!sp.readFile(g_good.c_str(), &rn, &cn)) vfz::fail("basis reader: the good LP could not be loaded");
   int outcome = 0;
   try
   {
      vfz::LeakScope ls(!named);
      bool ok = named ? sp.readBasisFile(path.c_str(), &rn, &cn) : sp.readBasisFile(path.c_str());
      outcome = ok ? 1 : 0;
   }
   catch(const SPxException& x)
   {
      outcome = -1;
      vfz::count(k + ".spxexception");
   }
   catch(const std::exception& x)
   {
      outcome = -1;
      vfz::count(k + ".stdexception");
   }
   unlink(path.c_str());
   if(outcome == 1)
   {
      vfz::count(k + ".ok");
      if(!sp.hasBasis()) vfz::fail("readBasisFile returned true but hasBasis() is false");
      SPxSolverBase<double>::VarStatus rs[3], cs[3];
      sp.getBasis(rs, cs);
      int nb = 0;
      for(int i = 0; i < 3; i++) nb += (rs[i] == SPxSolverBase<double>::BASIC) + (cs[i] == SPxSolverBase<double>::BASIC);
      vfz::count(nb == 3 ? k + ".ok_3basic" : k + ".ok_not3basic");
   }
   else if(outcome == 0) vfz::count(k + ".false");
   if(sp.numRows() != 3 || sp.numCols() != 3 || sp.numNonzeros() != 7) vfz::fail("basis reader changed the LP dimensions");
   checkObject(sp, false, "after basis read");
   tryOptimize(sp, k.c_str());
   finalSolve(sp, k.c_str());
}

void readSettings(int sel, const std::string& text, bool asString, bool gz)
{
   bool rational = sel & 8;
   std::string k = asString ? "setstr" : "setfile";
   SoPlex sp;
   limits(sp);
   sp.setIntParam(SoPlex::READMODE, rational ? SoPlex::READMODE_RATIONAL : SoPlex::READMODE_REAL);
   {
      NameSet rn(16, 256), cn(16, 256);
      if(!sp.readFile(g_good.c_str(), &rn, &cn)) vfz::fail("settings reader: the good LP could not be loaded");
   }
   if(vfz::known("settings-nan-sigfpe") && vfz::hasNanLiteral(text))
   {
      vfz::count("excluded_known.settings-nan-sigfpe");
      return;
   }
   int outcome = 0;
   std::string path = g_dir + "/f.set" + (gz ? ".gz" : "");
   std::vector<char> buf;
   if(asString)
   {
      size_t len = strnlen(text.data(), text.size());
      buf.assign(text.data(), text.data() + len);
      buf.push_back('\0');
      buf.shrink_to_fit();
      if(vfz::known("valgrind__settings-overscan") && vfz::settingsTokenEndsAtNul(buf.data()))
      {
         vfz::count("excluded_known.valgrind__settings-overscan");
         return;
      }
   }
   else
   {
      if(!writeFile(path, text, gz)) return;
      if(gz) vfz::count("gz");
   }
   try
   {
      bool ok = asString ? sp.parseSettingsString(buf.data()) : sp.loadSettingsFile(path.c_str());
      outcome = ok ? 1 : 0;
   }
   catch(const SPxException& x)
   {
      outcome = -1;
      vfz::count(k + ".spxexception");
   }
   catch(const std::exception& x)
   {
      outcome = -1;
      vfz::count(k + ".stdexception");
   }
   if(!asString) unlink(path.c_str());
   vfz::count(k + (outcome == 1 ? ".ok" : outcome == 0 ? ".false" : ".exception"));
   if(sp.numRows() != 3 || sp.numCols() != 3 || sp.numNonzeros() != 7) vfz::fail("settings reader changed the LP dimensions");
   checkObject(sp, false, "after settings read");
   limits(sp);   // keep the solve under the loaded settings short and silent
   // known finding settings-huge-epsilon-lu-overflow: zero tolerances of the LU many orders of magnitude above their defaults
   // (accepted: the parameter ranges allow values up to 1) make CLUFactor drop structural entries; forestUpdate then walks
   // backwards past the start of a column while looking for the pivot row (heap-buffer-overflow)
   bool hugeEps = sp.realParam(SoPlex::EPSILON_ZERO) > 1e-6 || sp.realParam(SoPlex::EPSILON_FACTORIZATION) > 1e-6
                  || sp.realParam(SoPlex::EPSILON_UPDATE) > 1e-6 || sp.realParam(SoPlex::EPSILON_PIVOT) > 1e-3;
   if(hugeEps && vfz::known("settings-huge-epsilon-lu-overflow")) vfz::count("excluded_known.settings-huge-epsilon-lu-overflow");
   else tryOptimize(sp, k.c_str());
   sp.resetSettings();
   limits(sp);
   finalSolve(sp, k.c_str());
}
} // namespace

extern "C" int LLVMFuzzerTestOneInput(const uint8_t* data, size_t size)
{
   vfz::initOnce();
   setup();
   if(size < 1) return 0;
   int sel = data[0];
   std::string content((const char*) data + 1, size - 1);
   int reader = (sel & 7) % 5;
   bool gz = ((sel >> 5) & 7) == 7;
   switch(reader)
   {
   case 0:
      readLP(sel, content, false, gz);
      break;
   case 1:
      readLP(sel, content, true, gz);
      break;
   case 2:
      readBasis(sel, content, gz);
      break;
   case 3:
      readSettings(sel, content, false, gz);
      break;
   default:
      readSettings(sel, content, true, false);
      break;
   }
   return 0;
}
