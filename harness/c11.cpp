// c11.cpp - C11 (first part): SLUFactorRational driven standalone; every result is compared with `==` against an exact
// Gaussian elimination over vf::Q written here (fraction arithmetic, first non-zero pivot).
//
// case file: lp = the square rational matrix M (m == n, dense exact A); recs:
//   solve <variant> <VEC b> <VEC d> <VEC e>     variant: see SolveVar
//   fam <k> <singkind>                          informational (counters only)
//   VEC = <k> <j_1> <v_1> ... <j_k> <v_k>       sparse, exact rationals, arbitrary index order
#include "soplex/spxdefines.h"
#include "soplex/rational.h"
#include "soplex/vector.h"
#include "soplex/dsvector.h"
#include "soplex/ssvector.h"
#include "soplex/slufactor_rational.h"
#include "vf.hpp"

using namespace vf;

typedef soplex::SLUFactorRational LU;
typedef soplex::Rational Rat;
typedef soplex::SSVectorBase<Rat> SSV;
typedef soplex::VectorBase<Rat> DV;
typedef soplex::DSVectorBase<Rat> DSV;
typedef soplex::SVectorBase<Rat> SV;
typedef std::vector<std::pair<int, Q>> SpQ;
typedef std::vector<std::vector<Q>> MatQ;

enum SolveVar { S_R_VV = 0, S_R_SSV = 1, S_L_VV = 2, S_L_SSV = 3, S_L2 = 4, S_L3 = 5, S_NVAR = 6 };
static const char* solveName[] = {"right.vec_vec", "right.ssvec_svec", "left.vec_vec", "left.ssvec_svec", "left2", "left3"};

static Q qr(const Rat& r)
{
   return Q(mpq_class(r.backend().data()));
}
static Rat rq(const Q& q)
{
   Rat r;
   mpq_set(r.backend().data(), q.get_mpq_t());
   return r;
}
struct XS : public SSV   // built like the in-tree owners do: dimension 0, then reDim (reserves dim+1 index slots)
{
   explicit XS(int n) : SSV(0)
   {
      reDim(n);
   }
};

static bool knownHas(const std::string& key)
{
   auto it = opts().x.find("known");
   if(it == opts().x.end()) return false;
   std::string s = "," + it->second + ",";
   return s.find("," + key + ",") != std::string::npos;
}
static void putVec(Rec& r, const SpQ& v)
{
   r.add((int) v.size());
   for(auto& p : v)
   {
      r.add(p.first);
      r.addq(p.second);
   }
}
static bool getVec(const Rec& r, size_t& pos, int n, SpQ& v)
{
   v.clear();
   if(pos >= r.n()) return false;
   long k = r.i(pos++);
   if(k < 0 || k > n) return false;
   std::vector<char> seen(n, 0);
   for(long t = 0; t < k; t++)
   {
      if(pos + 2 > r.n()) return false;
      long j = r.i(pos);
      Q q = r.q(pos + 1);
      pos += 2;
      if(j < 0 || j >= n || seen[j] || q == 0) return false;
      seen[j] = 1;
      v.push_back({(int) j, q});
   }
   return true;
}

// ------------------------------------------------------------------ generator
static Q bigInt(int bits)   // random positive integer with up to `bits` bits (>= 1)
{
   Q r = 0;
   int left = bits;
   while(left > 0)
   {
      int b = std::min(left, 20);
      r = r * q2pow(b) + R(0, (1 << b) - 1);
      left -= b;
   }
   return r + 1;
}
// entries of widely varying bit length
static Q genEntry()
{
   Q v;
   switch(W({25, 20, 15, 15, 15, 10}))
   {
   case 0: v = NZ(9); break;
   case 1: v = Q(NZ(20)) / R(2, 12); break;                                // small fractions, denominators not powers of two
   case 2: v = Q(NZ(1000)) * q2pow(-R(1, 60)); break;                      // dyadic
   case 3: v = bigInt(R(1, 60)) / bigInt(R(1, 60)); break;                 // p/q up to 2^60 / 2^60
   case 4: v = Q(NZ(9)) / (bigInt(R(30, 60)) * 2 + 1); break;              // small numerator, huge odd denominator
   default: v = bigInt(R(40, 60)) / R(1, 7); break;                        // huge numerator
   }
   if(P(50)) v = -v;
   v.canonicalize();
   return v;
}
static std::vector<int> genPerm(int n)
{
   std::vector<int> p(n);
   for(int i = 0; i < n; i++) p[i] = i;
   for(int i = n - 1; i > 0; i--) std::swap(p[i], p[R(0, i)]);
   return p;
}
static std::vector<int> pickDistinct(int n, int k, std::vector<char> used)
{
   used.resize(n, 0);
   int avail = 0;
   for(int i = 0; i < n; i++) if(!used[i]) avail++;
   k = std::min(k, avail);
   std::vector<int> r;
   for(int t = 0; t < k; t++)
   {
      int i = R(0, n - 1);
      while(used[i]) i = (i + 1) % n;
      used[i] = 1;
      r.push_back(i);
   }
   return r;
}
static SpQ genRhs(int n)
{
   SpQ v;
   std::vector<char> none(n, 0);
   if(P(40))
   {
      for(int i : genPerm(n)) if(P(80)) v.push_back({i, genEntry()});
      if(v.empty()) v.push_back({R(0, n - 1), genEntry()});
   }
   else for(int i : pickDistinct(n, R(1, std::min(n, 3)), none)) v.push_back({i, P(50) ? Q(1) : genEntry()});
   return v;
}

static void gen(Case& c)
{
   int sz = curSize();
   int maxn = std::min(40, std::max(1, 2 + sz * 4 / 10));
   maxn = (int) std::min<long>(maxn, opts().xi("maxdim", 40));
   int n = R(1, maxn);
   // 0 sparse, 1 dense (small n), 2 regular whose double rounding is singular, 3 exactly singular
   int fam = n >= 2 ? W({40, 15, 20, 25}) : W({80, 0, 0, 20});
   MatQ A(n, std::vector<Q>(n, Q(0)));
   bool dense = fam == 1 || (fam >= 2 && P(25));
   if(dense && n > 12) dense = false;
   std::vector<int> pi = genPerm(n);
   for(int j = 0; j < n; j++)
   {
      A[pi[j]][j] = genEntry();   // structurally nonsingular skeleton
      if(dense)
      {
         for(int i = 0; i < n; i++) if(i != pi[j] && P(70)) A[i][j] = genEntry();
      }
      else
      {
         std::vector<char> bad(n, 0);
         bad[pi[j]] = 1;
         for(int i : pickDistinct(n, R(0, std::min(n - 1, 3)), bad)) A[i][j] = genEntry();
      }
   }
   int sing = 0;
   if(fam == 2)
   {
      // two columns (or rows) that coincide after rounding to double but differ exactly
      int a = R(0, n - 1), b = (a + R(1, n - 1)) % n;
      bool rows = P(40);
      Q f = P(50) ? Q(1) : Q(NZ(5));
      int where = R(0, n - 1);
      for(int k = 0; k < n; k++)
      {
         Q& dst = rows ? A[b][k] : A[k][b];
         const Q& src = rows ? A[a][k] : A[k][a];
         dst = src * f;
         if(k == where || (P(10)))
         {
            // relative perturbation 2^-80 .. 2^-60 (far below double resolution); a zero entry gets an absolute tiny value
            Q d = q2pow(-R(60, 80)) * NZ(3);
            dst = (dst == 0) ? d : Q(dst * (1 + d));
         }
      }
   }
   else if(fam == 3)
   {
      sing = 1 + W({15, 15, 35, 35});   // 1 zero column, 2 zero row, 3 dependent row (rational multipliers), 4 dependent column
      if(sing == 1)
      {
         int cc = R(0, n - 1);
         for(int i = 0; i < n; i++) A[i][cc] = 0;
      }
      else if(sing == 2)
      {
         int rr = R(0, n - 1);
         for(int j = 0; j < n; j++) A[rr][j] = 0;
      }
      else if(n >= 2)
      {
         int r0 = R(0, n - 1);
         std::vector<char> bad(n, 0);
         bad[r0] = 1;
         std::vector<int> src = pickDistinct(n, R(1, 3), bad);
         std::vector<Q> lam;
         for(size_t k = 0; k < src.size(); k++) lam.push_back(P(50) ? Q(Q(NZ(7)) / R(1, 9)) : genEntry());
         for(int k = 0; k < n; k++)
         {
            Q s = 0;
            for(size_t t = 0; t < src.size(); t++) s += lam[t] * (sing == 3 ? A[src[t]][k] : A[k][src[t]]);
            (sing == 3 ? A[r0][k] : A[k][r0]) = s;
         }
      }
      else A[0][0] = 0;
   }
   c.lp.resize(n, n);
   c.lp.A = A;
   c.recs.push_back(Rec("fam").add(fam).add(sing));
   int ns = R(1, 4);
   for(int t = 0; t < ns; t++)
   {
      Rec r("solve");
      int var = R(0, S_NVAR - 1);
      // known finding: the sparse L^T solve of CLUFactorRational enqueues an index twice after an exact cancellation
      // (wrong result, index written in front of the array): all three sparse left variants share that routine
      if(var >= S_L_SSV && knownHas("lu__rational_sparse_left_duplicate_heap"))
      {
         ev().count("excluded_known.lu__rational_sparse_left_duplicate_heap");
         var = S_L_VV;
      }
      r.add(var);
      putVec(r, genRhs(n));
      putVec(r, genRhs(n));
      putVec(r, genRhs(n));
      c.recs.push_back(r);
   }
}

// ------------------------------------------------------------------ oracle: exact Gauss-Jordan elimination on [M | B]
// returns false iff M is singular; otherwise B (n x k) is overwritten with M^-1 B
static bool solveExact(MatQ M, MatQ& B)
{
   int n = (int) M.size(), k = n ? (int) B[0].size() : 0;
   std::vector<int> prow(n, -1);
   std::vector<char> used(n, 0);
   for(int j = 0; j < n; j++)
   {
      int p = -1;
      size_t best = 0;
      for(int i = 0; i < n; i++) if(!used[i] && M[i][j] != 0)
         {
            // any non-zero pivot is exact; prefer short numbers (speed only)
            size_t sz = mpz_sizeinbase(M[i][j].get_num_mpz_t(), 2) + mpz_sizeinbase(M[i][j].get_den_mpz_t(), 2);
            if(p < 0 || sz < best)
            {
               p = i;
               best = sz;
            }
         }
      if(p < 0) return false;
      used[p] = 1;
      prow[j] = p;
      Q inv = 1 / M[p][j];
      for(int c2 = j; c2 < n; c2++) if(M[p][c2] != 0) M[p][c2] *= inv;
      for(int c2 = 0; c2 < k; c2++) if(B[p][c2] != 0) B[p][c2] *= inv;
      for(int i = 0; i < n; i++)
      {
         if(i == p || M[i][j] == 0) continue;
         Q f = M[i][j];
         for(int c2 = j; c2 < n; c2++) if(M[p][c2] != 0) M[i][c2] -= f * M[p][c2];
         for(int c2 = 0; c2 < k; c2++) if(B[p][c2] != 0) B[i][c2] -= f * B[p][c2];
      }
   }
   MatQ X(n, std::vector<Q>(k));
   for(int j = 0; j < n; j++) X[j] = B[prow[j]];
   B = X;
   return true;
}

static std::vector<Q> denseQ(const SpQ& s, int n)
{
   std::vector<Q> r(n, Q(0));
   for(auto& p : s) r[p.first] = p.second;
   return r;
}
static void toSV(const SpQ& s, DSV& out)
{
   out.clear();
   out.setMax((int) s.size() + 1);
   for(auto& p : s) out.add(p.first, rq(p.second));
}
static void toDV(const SpQ& s, DV& out)
{
   out.clear();
   for(auto& p : s) out[p.first] = rq(p.second);
}
static void toSSV(const SpQ& s, SSV& out)
{
   out.clear();
   for(auto& p : s) out.setValue(p.first, rq(p.second));
}
static std::string ssvConsistent(const SSV& x, int n)
{
   if(!x.isSetup()) return "";
   int sz = x.size();
   if(sz < 0 || sz > n) return "size out of range";
   std::vector<char> seen(n, 0);
   for(int k = 0; k < sz; k++)
   {
      int i = x.index(k);
      if(i < 0 || i >= n) return "index out of range";
      if(seen[i]) return "index listed twice";
      seen[i] = 1;
   }
   for(int i = 0; i < n; i++) if(!seen[i] && x[i] != 0) return "nonzero entry not listed in the index set";
   return "";
}
template <class V> static std::string cmp(const V& x, const MatQ& X, int col, int n)
{
   for(int i = 0; i < n; i++) if(qr(x[i]) != X[i][col])
      {
         return "component " + std::to_string(i) + " differs from the exact solution (got " + qstr(qr(x[i])).substr(0, 40) + ", exact " +
                qstr(X[i][col]).substr(0, 40) + ")";
      }
   return "";
}

static Verdict run(const Case& c)
{
   Verdict v;
   Evidence& e = ev();
   int n = c.lp.m();
   if(n < 1 || c.lp.n() != n)
   {
      v.fail("HARNESS: case is not a square matrix");
      return v;
   }
   const MatQ& M = c.lp.A;
   const Rec* fr = c.find("fam");
   int fam = fr ? (int) fr->i(0) : -1, sing = fr ? (int) fr->i(1) : 0;
   bool nonDyadicDen = false, roundedDiffers = false;
   size_t maxbits = 0;
   for(int i = 0; i < n; i++) for(int j = 0; j < n; j++) if(M[i][j] != 0)
         {
            const mpz_class& den = M[i][j].get_den();
            if(mpz_popcount(den.get_mpz_t()) != 1) nonDyadicDen = true;
            if(!isDyadicDouble(M[i][j])) roundedDiffers = true;
            maxbits = std::max(maxbits, mpz_sizeinbase(M[i][j].get_num_mpz_t(), 2) + mpz_sizeinbase(den.get_mpz_t(), 2));
         }
   // collect the systems: right solves use M, left solves M^T
   std::vector<const Rec*> ops;
   std::vector<std::vector<SpQ>> vecs;
   for(auto& r : c.recs) if(r.tag == "solve")
      {
         size_t pos = 1;
         std::vector<SpQ> b(3);
         int var = (int) r.i(0);
         if(var < 0 || var >= S_NVAR || !getVec(r, pos, n, b[0]) || !getVec(r, pos, n, b[1]) || !getVec(r, pos, n, b[2])
               || b[0].empty() || b[1].empty() || b[2].empty())
         {
            v.fail("HARNESS: malformed solve record");
            return v;
         }
         ops.push_back(&r);
         vecs.push_back(b);
      }
   int nops = (int) ops.size();
   MatQ BR(n, std::vector<Q>(std::max(1, 3 * nops), Q(0))), BL = BR, MT(n, std::vector<Q>(n));
   for(int i = 0; i < n; i++) for(int j = 0; j < n; j++) MT[i][j] = M[j][i];
   for(int t = 0; t < nops; t++) for(int k = 0; k < 3; k++) for(auto& p : vecs[t][k]) BR[p.first][3 * t + k] = BL[p.first][3 * t + k] = p.second;
   bool regular = solveExact(M, BR);
   if(regular && !solveExact(MT, BL))
   {
      v.fail("HARNESS: oracle inconsistent (M regular, M^T singular)");
      return v;
   }

   e.count("dim." + std::string(n == 1 ? "1" : n < 4 ? "2-3" : n < 10 ? "4-9" : n < 20 ? "10-19" : "20-40"));
   e.count("family." + std::to_string(fam) + (sing ? ".sing" + std::to_string(sing) : ""));
   e.count(regular ? "oracle.regular" : "oracle.singular");
   e.count("entry_bits." + std::string(maxbits <= 16 ? "<=16" : maxbits <= 64 ? "17-64" : "65-130"));
   if(nonDyadicDen) e.count("has_non_dyadic_denominator");
   // is the matrix rounded to double singular? (exactly decided on the rounded entries)
   if(regular && roundedDiffers && n <= 40)
   {
      MatQ Md = M, dummy(n, std::vector<Q>(1, Q(0)));
      for(int i = 0; i < n; i++) for(int j = 0; j < n; j++) Md[i][j] = Q(M[i][j].get_d());
      if(!solveExact(Md, dummy)) e.count("regular_but_double_rounding_singular");
   }
   if(!regular && roundedDiffers)
   {
      MatQ Md = M, dummy(n, std::vector<Q>(1, Q(0)));
      for(int i = 0; i < n; i++) for(int j = 0; j < n; j++) Md[i][j] = Q(M[i][j].get_d());
      if(solveExact(Md, dummy)) e.count("singular_but_double_rounding_regular");
   }
   v.nontrivial = n >= 4 && nonDyadicDen;

   LU lu;
   std::vector<DSV> cols(n);
   std::vector<const SV*> ptr(n);
   for(int j = 0; j < n; j++)
   {
      cols[j].setMax(n + 1);
      for(int i = 0; i < n; i++) if(M[i][j] != 0) cols[j].add(i, rq(M[i][j]));
      ptr[j] = &cols[j];
   }
   LU::Status st = lu.load(ptr.data(), n);
   if(st != lu.status())
   {
      v.fail("load() return value differs from status()");
      return v;
   }
   e.count("load.status." + std::to_string((int) st));
   if(st != LU::OK && st != LU::SINGULAR)
   {
      e.count("inconclusive.status");   // TIME etc.: nothing is claimed
      v.nontrivial = false;
      return v;
   }
   if((st == LU::SINGULAR) != !regular)
   {
      v.fail(regular ? "regular matrix (exact determinant != 0) reported SINGULAR" : "singular matrix (exact determinant == 0) loaded with status OK");
      return v;
   }
   if(!regular) return v;

   // every second operation hands in a result vector that still holds entries of an earlier use (callers reuse result vectors,
   // e.g. one vector for all rows of the inverse): the solves must overwrite, not accumulate
   auto dirtyS = [&](XS & x, int t)
   {
      if(t % 2 == 0) return;
      for(int k = 0; k < 3 && k < n; k++) x.setValue((t + 2 * k) % n, soplex::Rational(7 + k));
      e.count("result_vector_dirty");
   };
   auto dirtyD = [&](DV & x, int t)
   {
      if(t % 2 == 0) return;
      for(int k = 0; k < 3 && k < n; k++) x[(t + 2 * k) % n] = soplex::Rational(7 + k);
   };
   for(int t = 0; t < nops && v.ok; t++)
   {
      int var = (int) ops[t]->i(0);
      const std::vector<SpQ>& b = vecs[t];
      e.count(std::string("solve.") + solveName[var]);
      std::string w = solveName[var], m;
      DSV s1;
      toSV(b[0], s1);
      if(var == S_R_VV)
      {
         DV x(n), rhs(n);
         toDV(b[0], rhs);
         dirtyD(x, t);
         lu.solveRight(x, rhs);
         m = cmp(x, BR, 3 * t, n);
      }
      else if(var == S_R_SSV)
      {
         XS x(n);
         dirtyS(x, t);
         lu.solveRight(x, s1);
         m = ssvConsistent(x, n);
         if(m.empty()) m = cmp(x, BR, 3 * t, n);
      }
      else if(var == S_L_VV)
      {
         DV x(n), rhs(n);
         toDV(b[0], rhs);
         dirtyD(x, t);
         lu.solveLeft(x, rhs);
         m = cmp(x, BL, 3 * t, n);
      }
      else if(var == S_L_SSV)
      {
         XS x(n);
         dirtyS(x, t);
         lu.solveLeft(x, s1);
         e.count(x.isSetup() ? "ssv.setup" : "ssv.not_setup");
         m = ssvConsistent(x, n);
         if(m.empty()) m = cmp(x, BL, 3 * t, n);
      }
      else
      {
         XS x(n), r2(n), r3(n);
         DV y(n), z(n);
         toSSV(b[1], r2);
         toSSV(b[2], r3);
         dirtyS(x, t);
         dirtyD(y, t);
         dirtyD(z, t);
         if(var == S_L2) lu.solveLeft(x, y, s1, r2);
         else lu.solveLeft(x, y, z, s1, r2, r3);
         m = ssvConsistent(x, n);
         if(m.empty()) m = cmp(x, BL, 3 * t, n);
         if(m.empty()) m = cmp(y, BL, 3 * t + 1, n);
         if(m.empty() && var == S_L3) m = cmp(z, BL, 3 * t + 2, n);
      }
      if(!m.empty()) v.fail(w + ": " + m);
   }
   return v;
}

int main(int argc, char** argv)
{
   return vfMain(argc, argv, "C11", gen, run);
}
