// c20.cpp - C20: the C interface (soplex_interface.h) does exactly what the corresponding C++ calls do.
// A case is a sequence of recs, one per C call.  Every rec is decoded *relative to the current model state*
// (indices modulo the current dimension, array contents taken cyclically from the rec's value pool), so that
// removing recs (shrinking, tools/minrecs.py) always leaves a valid client sequence.
// Oracles after every step: (1) object behind the C handle == twin C++ object driven by the documented C++ calls,
// (2) LP inside the C object == reference model built from the INPUT arrays, (3) returned values/strings,
// (4) ASan flavour: every array is a heap block of exactly the length passed.
// Domain limits (stated in props.d/C20.py): SYNCMODE_MANUAL and the precision-boosting parameters are not drawn; every
// SoPlex_optimize is first tried in a forked child (C call + C++ call + comparison + destruction): a solve that crashes,
// throws or hangs there fails in the C++ API as well and is counted as unjudged.optimize_* instead of being issued.
// Known findings (known_findings.txt keys) are avoided at decode time when --x known=... names them.
#include "spx.hpp"
#include "soplex_interface.h"
#include <climits>
#include <memory>
#include <fcntl.h>
#include <sys/wait.h>
#include <csignal>

using namespace vf;
using soplex::Rational;
using soplex::VectorReal;
using soplex::VectorRational;
using soplex::DSVectorReal;
using soplex::DSVectorRational;
using soplex::SVectorRational;
using soplex::LPRowReal;
using soplex::LPColReal;
using soplex::LPRowRational;
using soplex::LPColRational;

// ------------------------------------------------------------------ known findings (generator exclusions)
static const char* K_OBJSTR = "objvalstr-unterminated";     // SoPlex_objValueRationalString: 1-byte buffer
static const char* K_ROWVECRAT = "getrowvecrat-null-svector"; // SoPlex_getRowVectorRational: write through null
static const char* K_SYNCSCALED = "sync-auto-copies-scaled-lp";  // SYNCMODE_AUTO entered while the real LP is persistently scaled
static const char* K_MISSING = "cread-missing-file-throws";   // read*File on a missing file: exception instead of 0
static const char* K_MPSFREE = "cwrite-mps-free-row-throws";   // writeFileReal(.mps) with a free row throws (S10)
static const char* K_OVERSIZED = "infeasible-exact-solve-oversized-solution";  // primal/redcost keep the auxiliary column: get*Real overflow
static const char* K_VECINF = "getbound-vector-scales-infinity";  // getLowerReal/getUpperReal(vector) scale +-infinity on a scaled LP
static const char* K_SOLVEDIM = "exact-solve-changes-real-lp";  // optimize() in rational mode returns with a real LP that lost/gained rows or columns
static const char* K_SCALEROFF = "scaler-off-on-scaled-lp";  // SCALER_OFF after a solve left the LP scaled: getRowVectorReal calls a null scaler
static const char* K_SOLVEDATA = "exact-solve-changes-lp-data";  // optimize() returns with changed coefficients (LIFTING: _project() does not restore lifted entries)
static const char* K_OBJRATSCALE = "changeobjrational-ignores-scaling";  // changeObjRational(vector) writes the unscaled objective into a scaled real LP
static const char* K_IMPLSCALED = "implicit-create-on-scaled-lp";  // entry beyond the dimension after a solve: doAddRow/doAddCol read scaleExp out of bounds
static bool known(const char* key)
{
   auto it = opts().x.find("known");
   if(it == opts().x.end()) return false;
   std::string s = "," + it->second + ",";
   return s.find(std::string(",") + key + ",") != std::string::npos;
}

// ------------------------------------------------------------------ exactly sized heap arrays
template <class T> struct Arr
{
   std::unique_ptr<T[]> p;
   std::vector<T> copy;
   explicit Arr(const std::vector<T>& v) : p(new T[v.size()]), copy(v)
   {
      std::copy(v.begin(), v.end(), p.get());
   }
   Arr(size_t n, T fill) : p(new T[n]), copy(n, fill)
   {
      std::fill(p.get(), p.get() + n, fill);
   }
   T* get()
   {
      return p.get();
   }
   int n() const
   {
      return (int) copy.size();
   }
   bool unchanged() const   // bitwise
   {
      return copy.empty() || memcmp(p.get(), copy.data(), copy.size() * sizeof(T)) == 0;
   }
   bool unchangedFrom(int k) const
   {
      return k >= n() || memcmp(p.get() + k, copy.data() + k, (copy.size() - k) * sizeof(T)) == 0;
   }
};
static const double SENT = -7777.25;   // sentinel in output arrays
static bool sameBits(double a, double b)
{
   return memcmp(&a, &b, sizeof a) == 0;
}
static bool sameBits(const double* a, const double* b, int n)
{
   return n <= 0 || memcmp(a, b, n * sizeof(double)) == 0;
}
static Q QL(long num, long den)
{
   Q q{mpz_class(num), mpz_class(den)};
   q.canonicalize();
   return q;
}
static bool fitsLong(const Q& q)
{
   return q.get_num().fits_slong_p() && q.get_den().fits_slong_p();
}

// ------------------------------------------------------------------ reference model
struct Model
{
   LP lp;               // exact source values of everything the client passed
   bool sync = false;   // SYNCMODE_AUTO: a rational LP exists and mirrors every change
   std::map<int, int> expI;
   std::map<int, int> expB;
   std::map<int, double> expR;
   void clear()
   {
      int s = lp.sense;
      Q off = lp.offset;
      lp = LP();
      lp.sense = s;
      lp.offset = off;
   }
   void removeRow(int i)   // SVSet semantics: the last row moves to position i
   {
      int l = lp.m() - 1;
      lp.lhs[i] = lp.lhs[l];
      lp.rhs[i] = lp.rhs[l];
      lp.A[i] = lp.A[l];
      lp.lhs.pop_back();
      lp.rhs.pop_back();
      lp.A.pop_back();
   }
   void removeCol(int j)
   {
      int l = lp.n() - 1;
      lp.lo[j] = lp.lo[l];
      lp.up[j] = lp.up[l];
      lp.obj[j] = lp.obj[l];
      lp.lo.pop_back();
      lp.up.pop_back();
      lp.obj.pop_back();
      for(auto& r : lp.A)
      {
         r[j] = r[l];
         r.pop_back();
      }
   }
};
// a double held by SoPlex versus the exact source value the client passed: exact when the source is a double,
// within one ulp (relative 2^-52) when a rational had to be rounded; infinities are +-1e100
static bool okReal(double d, const Q& src)
{
   if(std::isnan(d)) return false;
   if(isPInf(src)) return d >= 1e100;
   if(isNInf(src)) return d <= -1e100;
   if(!(d > -1e100 && d < 1e100)) return false;
   Q v(d);
   if(isDyadicDouble(src)) return v == src;
   return qabs(v - src) <= qabs(src) * q2pow(-52);
}

// is the real LP stored in scaled form (persistent scaling after a solve)?  Observed through public accessors only:
// the *Internal getters return the stored data, the plain getters the unscaled data.
static bool storedScaled(SoPlex& o)
{
   int m = o.numRows(), n = o.numCols();
   for(int i = 0; i < m; i++)
   {
      if(!sameBits(o.lhsRealInternal()[i], o.lhsReal(i)) || !sameBits(o.rhsRealInternal()[i], o.rhsReal(i))) return true;
      DSVectorReal r;
      o.getRowVectorReal(i, r);
      const soplex::SVectorReal& s = o.rowVectorRealInternal(i);
      if(s.size() != r.size()) return true;
      for(int k = 0; k < r.size(); k++) if(s.index(k) != r.index(k) || !sameBits(s.value(k), r.value(k))) return true;
   }
   for(int j = 0; j < n; j++)
      if(!sameBits(o.lowerRealInternal()[j], o.lowerReal(j)) || !sameBits(o.upperRealInternal()[j], o.upperReal(j))
            || !sameBits(o.maxObjRealInternal()[j], o.maxObjReal(j))) return true;
   return false;
}
// LP inside the object equals the model (oracle 2)
static std::string cmpModel(SoPlex& o, const Model& M)
{
   const LP& lp = M.lp;
   int m = lp.m(), n = lp.n();
   if(o.numRows() != m) return "numRows";
   if(o.numCols() != n) return "numCols";
   if(o.intParam(SoPlex::OBJSENSE) != lp.sense) return "objective sense";
   if(!okReal(o.realParam(SoPlex::OBJ_OFFSET), lp.offset)) return "objective offset";
   for(int j = 0; j < n; j++)
   {
      if(!okReal(o.lowerReal(j), lp.lo[j])) return "real lower bound";
      if(!okReal(o.upperReal(j), lp.up[j])) return "real upper bound";
      if(!okReal(o.objReal(j), lp.obj[j])) return "real objective coefficient";
   }
   for(int i = 0; i < m; i++)
   {
      if(!okReal(o.lhsReal(i), lp.lhs[i])) return "real left-hand side";
      if(!okReal(o.rhsReal(i), lp.rhs[i])) return "real right-hand side";
      DSVectorReal r;
      o.getRowVectorReal(i, r);
      std::vector<double> d(n, 0.0);
      std::vector<char> seen(n, 0);
      for(int k = 0; k < r.size(); k++)
      {
         int j = r.index(k);
         if(j < 0 || j >= n || seen[j]) return "real row vector index";
         seen[j] = 1;
         d[j] = r.value(k);
      }
      for(int j = 0; j < n; j++) if(!okReal(d[j], lp.A[i][j])) return "real row coefficient (have " + qstr(qd(d[j])) + " want " + qstr(lp.A[i][j]) + ")";
   }
   for(int j = 0; j < n; j++)
   {
      DSVectorReal c;
      o.getColVectorReal(j, c);
      std::vector<double> d(m, 0.0);
      std::vector<char> seen(m, 0);
      for(int k = 0; k < c.size(); k++)
      {
         int i = c.index(k);
         if(i < 0 || i >= m || seen[i]) return "real column vector index";
         seen[i] = 1;
         d[i] = c.value(k);
      }
      for(int i = 0; i < m; i++) if(!okReal(d[i], lp.A[i][j])) return "real column coefficient (have " + qstr(qd(d[i])) + " want " + qstr(lp.A[i][j]) + ")";
   }
   for(auto& kv : M.expI) if(o.intParam((SoPlex::IntParam) kv.first) != kv.second) return "int parameter value";
   for(auto& kv : M.expB) if((int) o.boolParam((SoPlex::BoolParam) kv.first) != kv.second) return "bool parameter value";
   for(auto& kv : M.expR) if(!sameBits(o.realParam((SoPlex::RealParam) kv.first), kv.second)) return "real parameter value";
   if(M.sync)
   {
      if(o.intParam(SoPlex::SYNCMODE) != SoPlex::SYNCMODE_AUTO) return "sync mode";
      if(o.numRowsRational() != m) return "numRowsRational";
      if(o.numColsRational() != n) return "numColsRational";
      for(int j = 0; j < n; j++)
      {
         if(qr(o.lowerRational(j)) != lp.lo[j]) return "rational lower bound";
         if(qr(o.upperRational(j)) != lp.up[j]) return "rational upper bound";
         if(qr(o.objRational(j)) != lp.obj[j]) return "rational objective coefficient";
      }
      for(int i = 0; i < m; i++)
      {
         if(qr(o.lhsRational(i)) != lp.lhs[i]) return "rational left-hand side (have " + qstr(qr(o.lhsRational(i))) + " want " + qstr(lp.lhs[i]) + ")";
         if(qr(o.rhsRational(i)) != lp.rhs[i]) return "rational right-hand side (have " + qstr(qr(o.rhsRational(i))) + " want " + qstr(lp.rhs[i]) + ")";
         const SVectorRational& r = o.rowVectorRational(i);
         std::vector<Q> d(n, Q(0));
         for(int k = 0; k < r.size(); k++)
         {
            int j = r.index(k);
            if(j < 0 || j >= n) return "rational row vector index";
            d[j] += qr(r.value(k));
         }
         for(int j = 0; j < n; j++) if(d[j] != lp.A[i][j]) return "rational row coefficient (have " + qstr(d[j]) + " want " + qstr(lp.A[i][j]) + ")";
      }
      for(int j = 0; j < n; j++)
      {
         const SVectorRational& c = o.colVectorRational(j);
         std::vector<Q> d(m, Q(0));
         for(int k = 0; k < c.size(); k++)
         {
            int i = c.index(k);
            if(i < 0 || i >= m) return "rational column vector index";
            d[i] += qr(c.value(k));
         }
         for(int i = 0; i < m; i++) if(d[i] != lp.A[i][j]) return "rational column coefficient";
      }
   }
   return "";
}

// re-anchor the model on the real LP held by the object (used when rationals were rounded and the rational LP is
// dropped, and after a failed file read whose effect on the LP is undocumented)
static void anchor(SoPlex& o, Model& M)
{
   int m = o.numRows(), n = o.numCols();
   LP& lp = M.lp;
   int s = lp.sense;
   Q off = lp.offset;
   lp.resize(m, n);
   lp.sense = s;
   lp.offset = off;
   // with a rational LP present the exact values are the state (the real LP is only their image)
   bool rat = o.intParam(SoPlex::SYNCMODE) != SoPlex::SYNCMODE_ONLYREAL && o.numRowsRational() == m && o.numColsRational() == n;
   for(int j = 0; j < n; j++)
   {
      lp.lo[j] = rat ? qr(o.lowerRational(j)) : qd(o.lowerReal(j));
      lp.up[j] = rat ? qr(o.upperRational(j)) : qd(o.upperReal(j));
      lp.obj[j] = rat ? qr(o.objRational(j)) : qd(o.objReal(j));
   }
   for(int i = 0; i < m; i++)
   {
      lp.lhs[i] = rat ? qr(o.lhsRational(i)) : qd(o.lhsReal(i));
      lp.rhs[i] = rat ? qr(o.rhsRational(i)) : qd(o.rhsReal(i));
      if(rat)
      {
         const SVectorRational& r = o.rowVectorRational(i);
         for(int k = 0; k < r.size(); k++) lp.A[i][r.index(k)] = qr(r.value(k));
      }
      else
      {
         DSVectorReal r;
         o.getRowVectorReal(i, r);
         for(int k = 0; k < r.size(); k++) lp.A[i][r.index(k)] = qd(r.value(k));
      }
   }
}

static bool eqVR(const VectorRational& a, const VectorRational& b)
{
   if(a.dim() != b.dim()) return false;
   for(int i = 0; i < a.dim(); i++) if(a[i] != b[i]) return false;
   return true;
}
// object behind the C handle == twin (oracle 1); the same observer calls are issued on both objects
static std::string cmpObjects(SoPlex& a, SoPlex& b)
{
   if(a.numRows() != b.numRows()) return "numRows";
   if(a.numCols() != b.numCols()) return "numCols";
   int m = a.numRows(), n = a.numCols();
   for(int p = 0; p < SoPlex::INTPARAM_COUNT; p++)
      if(a.intParam((SoPlex::IntParam) p) != b.intParam((SoPlex::IntParam) p)) return "int parameter";
   for(int p = 0; p < SoPlex::BOOLPARAM_COUNT; p++)
      if(a.boolParam((SoPlex::BoolParam) p) != b.boolParam((SoPlex::BoolParam) p)) return "bool parameter";
   for(int p = 0; p < SoPlex::REALPARAM_COUNT; p++)
      if(!sameBits(a.realParam((SoPlex::RealParam) p), b.realParam((SoPlex::RealParam) p))) return "real parameter";
   for(int j = 0; j < n; j++)
   {
      if(!sameBits(a.lowerReal(j), b.lowerReal(j))) return "lower bound";
      if(!sameBits(a.upperReal(j), b.upperReal(j))) return "upper bound";
      if(!sameBits(a.objReal(j), b.objReal(j))) return "objective coefficient";
   }
   for(int i = 0; i < m; i++)
   {
      if(!sameBits(a.lhsReal(i), b.lhsReal(i))) return "left-hand side";
      if(!sameBits(a.rhsReal(i), b.rhsReal(i))) return "right-hand side";
      DSVectorReal ra, rb;
      a.getRowVectorReal(i, ra);
      b.getRowVectorReal(i, rb);
      if(ra.size() != rb.size()) return "row vector size";
      for(int k = 0; k < ra.size(); k++)
         if(ra.index(k) != rb.index(k) || !sameBits(ra.value(k), rb.value(k))) return "row vector entry";
   }
   bool rat = a.intParam(SoPlex::SYNCMODE) != SoPlex::SYNCMODE_ONLYREAL;
   if(rat)
   {
      if(a.numRowsRational() != b.numRowsRational()) return "numRowsRational";
      if(a.numColsRational() != b.numColsRational()) return "numColsRational";
      int mr = a.numRowsRational(), nr = a.numColsRational();
      for(int j = 0; j < nr; j++)
      {
         if(a.lowerRational(j) != b.lowerRational(j)) return "rational lower bound";
         if(a.upperRational(j) != b.upperRational(j)) return "rational upper bound";
         if(a.objRational(j) != b.objRational(j)) return "rational objective coefficient";
      }
      for(int i = 0; i < mr; i++)
      {
         if(a.lhsRational(i) != b.lhsRational(i)) return "rational left-hand side";
         if(a.rhsRational(i) != b.rhsRational(i)) return "rational right-hand side";
         const SVectorRational& ra = a.rowVectorRational(i);
         const SVectorRational& rb = b.rowVectorRational(i);
         if(ra.size() != rb.size()) return "rational row vector size";
         for(int k = 0; k < ra.size(); k++)
            if(ra.index(k) != rb.index(k) || ra.value(k) != rb.value(k)) return "rational row vector entry";
      }
   }
   if((int) a.status() != (int) b.status()) return "status()";
   if(a.hasBasis() != b.hasBasis()) return "hasBasis()";
   for(int i = 0; i < m; i++) if((int) a.basisRowStatus(i) != (int) b.basisRowStatus(i)) return "basis row status";
   for(int j = 0; j < n; j++) if((int) a.basisColStatus(j) != (int) b.basisColStatus(j)) return "basis column status";
   if(a.numIterations() != b.numIterations()) return "numIterations()";
   if(a.hasSol() != b.hasSol()) return "hasSol()";
   if(a.isPrimalFeasible() != b.isPrimalFeasible()) return "isPrimalFeasible()";
   if(a.isDualFeasible() != b.isDualFeasible()) return "isDualFeasible()";
   if(a.hasPrimalRay() != b.hasPrimalRay()) return "hasPrimalRay()";
   if(a.hasDualFarkas() != b.hasDualFarkas()) return "hasDualFarkas()";
   {
      VectorReal xa(n), xb(n), da(n), db(n), ya(m), yb(m), sa(m), sb(m);
      if(a.getPrimal(xa) != b.getPrimal(xb) || !sameBits(xa.get_const_ptr(), xb.get_const_ptr(), n)) return "primal solution";
      if(a.getSlacksReal(sa) != b.getSlacksReal(sb) || !sameBits(sa.get_const_ptr(), sb.get_const_ptr(), m)) return "slacks";
      if(a.getDual(ya) != b.getDual(yb) || !sameBits(ya.get_const_ptr(), yb.get_const_ptr(), m)) return "dual solution";
      if(a.getRedCost(da) != b.getRedCost(db) || !sameBits(da.get_const_ptr(), db.get_const_ptr(), n)) return "reduced costs";
      VectorReal pa(n), pb(n), fa(m), fb(m);
      if(a.getPrimalRay(pa) != b.getPrimalRay(pb) || !sameBits(pa.get_const_ptr(), pb.get_const_ptr(), n)) return "primal ray";
      if(a.getDualFarkas(fa) != b.getDualFarkas(fb) || !sameBits(fa.get_const_ptr(), fb.get_const_ptr(), m)) return "Farkas vector";
   }
   if(!sameBits(a.objValueReal(), b.objValueReal())) return "objValueReal()";
   if(rat)
   {
      int mr = a.numRowsRational(), nr = a.numColsRational();
      VectorRational xa(nr), xb(nr), ya(mr), yb(mr);
      if(a.getPrimalRational(xa) != b.getPrimalRational(xb) || !eqVR(xa, xb)) return "rational primal solution";
      if(a.getDualRational(ya) != b.getDualRational(yb) || !eqVR(ya, yb)) return "rational dual solution";
   }
   if(a.objValueRational() != b.objValueRational()) return "objValueRational()";
   return "";
}

// ------------------------------------------------------------------ generator
static Q gval()   // finite value that is exactly a double
{
   switch(W({40, 25, 15, 12, 8}))
   {
   case 0: return Q(R(-9, 9));
   case 1: return Q(NZ(20)) * q2pow(-R(1, 4));
   case 2: return Q(0);
   case 3: return Q(NZ(1000));
   default: return Q(NZ(7)) * q2pow(R(20, 40));
   }
}
static Q gentry()
{
   return P(35) ? Q(0) : gval();
}
static Q glow()
{
   int k = W({40, 30, 30});
   return k == 0 ? Q(0) : k == 1 ? Q(-QINF()) : Q(-qabs(gval()));
}
static Q gupp()
{
   int k = W({40, 60});
   return k == 0 ? QINF() : qabs(gval());
}
static void gpair(Q& l, Q& u)   // l <= u except in 4% (inverted bounds are legal input: an infeasible LP)
{
   l = glow();
   u = gupp();
   if(P(15)) u = l = gval();
   else if(P(10) && isFin(l)) u = l + qabs(gval());
   if(P(4))
   {
      l = Q(2);
      u = Q(1);
   }
}
static long gnum()
{
   static const long big[] = {LONG_MAX, LONG_MIN, LONG_MIN + 1, 1L << 62, -(1L << 62), 4611686018427387905L, -3037000499L * 3037000499L, 1L << 53, (1L << 53) + 1};
   switch(W({72, 14, 14}))
   {
   case 0: return R(-9, 9);
   case 1: return NZ(1000000);
   default: return big[R(0, 8)];
   }
}
static long gden()
{
   static const long big[] = {LONG_MAX, 1L << 62, 1000000007L, (1L << 53) + 1};
   switch(W({50, 25, 15, 10}))
   {
   case 0: return 1;
   case 1: return R(2, 9);
   case 2: return 1L << R(1, 40);
   default: return big[R(0, 3)];
   }
}
static void gratpair(long& ln, long& ld, long& un, long& ud)   // rational lb <= ub (4% inverted)
{
   ln = gnum();
   ld = gden();
   un = gnum();
   ud = gden();
   if(P(15))
   {
      un = ln;
      ud = ld;
   }
   bool inv = P(4);
   if((QL(ln, ld) > QL(un, ud)) != inv)
   {
      std::swap(ln, un);
      std::swap(ld, ud);
   }
}
static void poolQ(Rec& r, int k, Q(*g)())
{
   for(int i = 0; i < std::max(1, k); i++) r.addq(g());
}
static void poolRat(Rec& r, int k, bool entries)
{
   for(int i = 0; i < std::max(1, k); i++)
   {
      long nm = (entries && P(35)) ? 0 : gnum();
      r.add(nm).add(gden());
   }
}
static Q dblQ(double d)   // exact text of a double parameter value
{
   return qd(d);
}

// valid values for the parameters, drawn from the enums / the static range tables
static void genIntParam(Rec& r, bool forFile)
{
   typedef SoPlex S;
   auto& t = S::Settings::intParam;
   int code;
   do
   {
      // precision boosting (MULTIPRECISION_LIMIT, STORE_BASIS_SIMPLEX_FREQ, the three bools, the factor) is not drawn:
      // the boosted solver's working precision is process-global (mpfr default precision), so two objects in one
      // process are not independent and a twin comparison would be unsound
      code = R(0, S::MULTIPRECISION_LIMIT - 1);
   }
   while(code == S::SYNCMODE && forFile);
   int v;
   switch(code)
   {
   case S::OBJSENSE: v = P(50) ? 1 : -1; break;
   case S::VERBOSITY: v = R(0, 1); break;
   case S::SYNCMODE: v = R(0, 1); break;      // MANUAL needs syncLPReal/syncLPRational, which the C interface lacks
   case S::ITERLIMIT:
   {
      static const int c[] = {-1, 10000, 50, 3, 1, 0};
      v = c[R(0, 5)];
      break;
   }
   case S::SIMPLIFIER:
   {
      static const int c[] = {1, 0, 3, 2};   // AUTO, OFF, INTERNAL, PAPILO (rejected in a build without PaPILO)
      v = c[R(0, forFile ? 2 : 3)];
      break;
   }
   default:
      if(t.upper[code] - (long) t.lower[code] <= 8) v = R(t.lower[code], t.upper[code]);
      else
      {
         int k = R(0, 5);
         long c[] = {t.defaultValue[code], t.lower[code], (long) t.lower[code] + 1, 5, 100, t.upper[code]};
         v = (int) std::min<long>(std::max<long>(c[k], t.lower[code]), t.upper[code]);
      }
   }
   r.add(code).add(v);
}
static void genBoolParam(Rec& r)
{
   r.add(R(0, SoPlex::PRECISION_BOOSTING - 1)).add(R(0, 1));
}
static void genRealParam(Rec& r)
{
   typedef SoPlex S;
   auto& t = S::Settings::realParam;
   int code = R(0, S::PRECISION_BOOSTING_FACTOR - 1);
   double v;
   switch(code)
   {
   case S::FEASTOL:
   case S::OPTTOL:
   {
      static const double c[] = {1e-6, 1e-9, 1e-4, 0.0, 1e-12};
      v = c[R(0, 4)];
      break;
   }
   case S::INFTY: v = 1e100; break;            // the model's infinity; other values change the meaning of every bound
   case S::TIMELIMIT: v = P(50) ? t.defaultValue[code] : 1e6; break;   // never binding: deterministic
   case S::OBJLIMIT_LOWER: v = P(50) ? t.defaultValue[code] : -(double) R(0, 8); break;
   case S::OBJLIMIT_UPPER: v = P(50) ? t.defaultValue[code] : (double) R(0, 8); break;
   case S::OBJ_OFFSET: v = dq(gval()); break;
   default:
   {
      static const double f[] = {1.0, 0.5, 2.0, 0.1};
      v = t.defaultValue[code] * f[R(0, 3)];
      v = std::min(std::max(v, t.lower[code]), t.upper[code]);
   }
   }
   r.add(code).addq(dblQ(v));
}

struct GenState
{
   int m = 0, n = 0;
   bool sync = false;
};
typedef void (*OpGen)(Rec&, GenState&);
struct OpDef
{
   const char* name;
   int kind;      // 0 always, 1 needs cols, 2 needs rows, 3 needs rows and cols; +4: needs sync
   int weight;
   int queryBoost;   // extra weight right after a solve
   OpGen g;
};
static void gNone(Rec&, GenState&) {}
static void gIdx(Rec& r, GenState&)
{
   r.add(R(0, 11));
}
static void addHead(Rec& r, int room)   // mode k extra
{
   // mode 0: dense array over the full current dimension; 1: shorter prefix; 2: longer (rows/columns created implicitly,
   // as the in-tree client tests/c_interface/main.c does)
   int mode = W({70, 12, 18});
   if(room <= 0 && mode == 2) mode = 0;
   r.add(mode).add(R(0, 7)).add(W({60, 40}) == 0 ? 0 : R(1, 5));
}
static void gAddColReal(Rec& r, GenState& s)
{
   addHead(r, 7 - s.m);
   Q l, u;
   gpair(l, u);
   r.addq(gval()).addq(l).addq(u);
   poolQ(r, s.m + 2, gentry);
   s.n++;
   if(r.i(0) == 2) s.m += 1 + (int)(r.i(1) % 2);
}
static void gAddRowReal(Rec& r, GenState& s)
{
   addHead(r, 7 - s.n);
   Q l, u;
   gpair(l, u);
   r.addq(l).addq(u);
   poolQ(r, s.n + 2, gentry);
   s.m++;
   if(r.i(0) == 2) s.n += 1 + (int)(r.i(1) % 2);
}
static void gAddColRat(Rec& r, GenState& s)
{
   addHead(r, 7 - s.m);
   long ln, ld, un, ud;
   gratpair(ln, ld, un, ud);
   r.add(gnum()).add(gden()).add(ln).add(ld).add(un).add(ud);
   poolRat(r, s.m + 2, true);
   s.n++;
   if(r.i(0) == 2) s.m += 1 + (int)(r.i(1) % 2);
}
static void gAddRowRat(Rec& r, GenState& s)
{
   addHead(r, 7 - s.n);
   long ln, ld, un, ud;
   gratpair(ln, ld, un, ud);
   r.add(ln).add(ld).add(un).add(ud);
   poolRat(r, s.n + 2, true);
   s.m++;
   if(r.i(0) == 2) s.n += 1 + (int)(r.i(1) % 2);
}
static void gRemCol(Rec& r, GenState& s)
{
   r.add(R(0, 11));
   s.n = std::max(0, s.n - 1);
}
static void gRemRow(Rec& r, GenState& s)
{
   r.add(R(0, 11));
   s.m = std::max(0, s.m - 1);
}
static void gDimMode(Rec& r, GenState&)
{
   r.add(W({70, 18, 12}));
}
static void gColVals(Rec& r, GenState& s)
{
   poolQ(r, s.n, gval);
}
static void gRowLhs(Rec& r, GenState& s)
{
   poolQ(r, s.m, glow);
}
static void gRowRhs(Rec& r, GenState& s)
{
   poolQ(r, s.m, gupp);
}
static void gColLow(Rec& r, GenState& s)
{
   poolQ(r, s.n, glow);
}
static void gColUpp(Rec& r, GenState& s)
{
   poolQ(r, s.n, gupp);
}
static void gPairs(Rec& r, int k)
{
   for(int i = 0; i < std::max(1, k); i++)
   {
      Q l, u;
      gpair(l, u);
      r.addq(l).addq(u);
   }
}
static void gRowPairs(Rec& r, GenState& s)
{
   gPairs(r, s.m);
}
static void gColPairs(Rec& r, GenState& s)
{
   gPairs(r, s.n);
}
static void gIdxVal(Rec& r, GenState&)
{
   r.add(R(0, 11)).addq(P(25) ? (P(50) ? QINF() : Q(-QINF())) : gval());
}
static void gIdxLow(Rec& r, GenState&)
{
   r.add(R(0, 11)).addq(glow());
}
static void gIdxUpp(Rec& r, GenState&)
{
   r.add(R(0, 11)).addq(gupp());
}
static void gIdxPair(Rec& r, GenState&)
{
   Q l, u;
   gpair(l, u);
   r.add(R(0, 11)).addq(l).addq(u);
}
static void gColRat(Rec& r, GenState& s)
{
   poolRat(r, s.n, false);
}
static void gRowRat(Rec& r, GenState& s)
{
   poolRat(r, s.m, false);
}
static void gIdxRatPair(Rec& r, GenState&)
{
   long ln, ld, un, ud;
   gratpair(ln, ld, un, ud);
   r.add(R(0, 11)).add(ln).add(ld).add(un).add(ud);
}
static void gIdxExtra(Rec& r, GenState&)
{
   r.add(R(0, 11)).add(W({50, 50}) == 0 ? 0 : R(1, 3));
}
static void gSetInt(Rec& r, GenState& s)
{
   genIntParam(r, false);
   if(r.i(0) == SoPlex::SYNCMODE) s.sync = r.i(1) == 1;
}
static void gSetBool(Rec& r, GenState&)
{
   genBoolParam(r);
}
static void gSetReal(Rec& r, GenState&)
{
   genRealParam(r);
}
static void gGetInt(Rec& r, GenState&)
{
   r.add(R(0, SoPlex::INTPARAM_COUNT - 1));
}
static void gSetRational(Rec&, GenState& s)
{
   s.sync = true;
}
static void gClear(Rec&, GenState& s)
{
   s.m = s.n = 0;
}
static void gRecreate(Rec&, GenState& s)
{
   s = GenState();
}
static void gWrite(Rec& r, GenState&)
{
   r.add(R(0, 1));
}
static void gReadLP(Rec& r, GenState& s)
{
   int kind = W({70, 15, 15});   // valid MPS file, missing file, malformed file
   int m = R(0, 4), n = R(1, 4);
   r.add(kind).add(m).add(n).add(P(50) ? 1 : -1);
   for(int i = 0; i < 6 + m * n; i++) r.add(R(-6, 6));
   if(kind == 0)
   {
      s.m = m;
      s.n = n;
   }
   else s.m = s.n = 0;
}
static void gReadBas(Rec& r, GenState&)
{
   r.add(W({30, 25, 25, 10, 10}));   // empty basis, one XU/XL record, one UL/LL record, missing file, malformed
}
static void gReadSet(Rec& r, GenState&)
{
   int k = R(0, 4);
   r.add(W({88, 12}));   // 1: the file does not exist
   for(int i = 0; i < k; i++)
   {
      int t = W({40, 30, 30});
      Rec tmp;
      if(t == 0) genIntParam(tmp, true);
      else if(t == 1) genBoolParam(tmp);
      else genRealParam(tmp);
      r.add(t).add(tmp.s(0)).add(tmp.s(1));
   }
}

static const OpDef OPS[] =
{
   // simplest first (shrinking moves towards index 0)
   {"numRows", 0, 2, 0, gNone},
   {"numCols", 0, 2, 0, gNone},
   {"getStatus", 0, 2, 4, gNone},
   {"objValueReal", 0, 2, 6, gNone},
   {"getNumIterations", 0, 1, 3, gNone},
   {"getSolvingTime", 0, 1, 2, gNone},
   {"optimize", 3, 22, 0, gNone},
   {"getPrimalReal", 0, 2, 8, gDimMode},
   {"getDualReal", 0, 2, 6, gDimMode},
   {"getRedCostReal", 0, 2, 6, gDimMode},
   {"basisRowStatus", 2, 2, 4, gIdx},
   {"basisColStatus", 1, 2, 4, gIdx},
   {"addColReal", 0, 16, 0, gAddColReal},
   {"addRowReal", 0, 16, 0, gAddRowReal},
   {"removeColReal", 1, 4, 0, gRemCol},
   {"removeRowReal", 2, 4, 0, gRemRow},
   {"changeObjReal", 1, 4, 0, gColVals},
   {"changeLhsReal", 2, 3, 0, gRowLhs},
   {"changeRhsReal", 2, 3, 0, gRowRhs},
   {"changeRangeReal", 2, 3, 0, gRowPairs},
   {"changeRowLhsReal", 2, 3, 0, gIdxLow},
   {"changeRowRhsReal", 2, 3, 0, gIdxUpp},
   {"changeRowRangeReal", 2, 3, 0, gIdxPair},
   {"changeBoundsReal", 1, 3, 0, gColPairs},
   {"changeLowerReal", 1, 3, 0, gColLow},
   {"changeUpperReal", 1, 3, 0, gColUpp},
   {"changeVarBoundsReal", 1, 3, 0, gIdxPair},
   {"changeVarLowerReal", 1, 3, 0, gIdxLow},
   {"changeVarUpperReal", 1, 3, 0, gIdxUpp},
   {"getLowerReal", 0, 2, 0, gDimMode},
   {"getUpperReal", 0, 2, 0, gDimMode},
   {"getObjReal", 0, 2, 0, gDimMode},
   {"getRowVectorReal", 2, 3, 0, gIdxExtra},
   {"getRowBoundsReal", 2, 3, 0, gIdx},
   {"getIntParam", 0, 2, 0, gGetInt},
   {"setIntParam", 0, 7, 0, gSetInt},
   {"setBoolParam", 0, 4, 0, gSetBool},
   {"setRealParam", 0, 4, 0, gSetReal},
   {"setRational", 0, 5, 0, gSetRational},
   {"addColRational", 4, 14, 0, gAddColRat},
   {"addRowRational", 4, 14, 0, gAddRowRat},
   {"changeObjRational", 5, 4, 0, gColRat},
   {"changeLhsRational", 6, 4, 0, gRowRat},
   {"changeRhsRational", 6, 4, 0, gRowRat},
   {"changeVarBoundsRational", 5, 4, 0, gIdxRatPair},
   {"getRowVectorRational", 6, 3, 0, gIdxExtra},
   {"getRowBoundsRational", 6, 3, 0, gIdx},
   {"getPrimalRationalString", 4, 2, 8, gNone},
   {"objValueRationalString", 0, 1, 6, gNone},
   {"writeFileReal", 0, 2, 0, gWrite},
   {"readInstanceFile", 0, 2, 0, gReadLP},
   {"readBasisFile", 0, 2, 0, gReadBas},
   {"readSettingsFile", 0, 2, 0, gReadSet},
   {"clearLPReal", 0, 1, 0, gClear},
   {"recreate", 0, 1, 0, gRecreate},
};
static const int NOPS = sizeof(OPS) / sizeof(OPS[0]);

static void gen(Case& c)
{
   GenState s;
   int len = 6 + R(0, 10 + curSize() / 2);
   int boost = 0;   // > 0: we are in the query burst after a solve
   bool wantRat = P(60);
   int ratAt = R(0, 3);
   for(int t = 0; t < len; t++)
   {
      if(wantRat && !s.sync && t == ratAt)
      {
         // a client that wants exact solving switches the mode first (SoPlex_setRational as in tests/c_interface)
         Rec r("setRational");
         gSetRational(r, s);
         c.recs.push_back(r);
         continue;
      }
      std::vector<int> w(NOPS);
      int tot = 0;
      for(int k = 0; k < NOPS; k++)
      {
         const OpDef& o = OPS[k];
         int need = o.kind & 3;
         bool ok = (!(need & 1) || s.n > 0) && (!(need & 2) || s.m > 0) && (!(o.kind & 4) || s.sync);
         int wt = ok ? o.weight + (boost > 0 ? o.queryBoost * 4 : 0) : 0;
         if(ok && (s.m >= 6 || s.n >= 6) && !strncmp(o.name, "add", 3)) wt = 1;
         if(ok && s.m + s.n == 0 && !strncmp(o.name, "add", 3)) wt *= 3;
         if(!strcmp(o.name, "setRational") && s.sync) wt = 1;
         w[k] = wt;
         tot += wt;
      }
      int x = R(0, tot - 1), k = 0;
      while(x >= w[k]) x -= w[k++];
      Rec r(OPS[k].name);
      OPS[k].g(r, s);
      c.recs.push_back(r);
      if(!strcmp(OPS[k].name, "optimize")) boost = R(2, 5);
      else if(boost > 0) boost--;
   }
}

// ------------------------------------------------------------------ execution
static std::string slurp(const std::string& p, bool& ok)
{
   std::ifstream is(p, std::ios::binary);
   ok = (bool) is;
   std::stringstream ss;
   ss << is.rdbuf();
   return ss.str();
}

struct Runner
{
   Verdict v;
   void* h = nullptr;
   SoPlex* co = nullptr;            // the object behind the handle (the wrapper casts exactly like this)
   std::unique_ptr<SoPlex> tw;      // twin driven through the C++ API
   Model M;
   std::string dir;
   bool ownDir = false;
   std::vector<std::string> files;
   int fileNo = 0;
   bool needAnchor = false, threw = false, allowThrow = false;
   const std::string* caseTextForCrash = nullptr;
   int crashNo = 0;
   bool maybeScaled = false;   // an optimize() ran since the LP was last created / cleared / read (persistent scaling)
   bool hadRat = false, hadAdd = false, modAfterAdd = false, solved = false, queried = false;

   void cnt(const char* fn)
   {
      ev().count(std::string("c.SoPlex_") + fn);
   }
   std::string path(const char* ext)
   {
      std::string p = dir + "/c20_" + std::to_string((long) getpid()) + "_" + std::to_string(fileNo++) + ext;
      files.push_back(p);
      return p;
   }
   void create()
   {
      h = SoPlex_create();
      cnt("create");
      co = (SoPlex*) h;
      tw.reset(new SoPlex());
      // every client silences the log first; done through the C call on one side and the C++ call on the other
      SoPlex_setIntParam(h, SoPlex::VERBOSITY, SoPlex::VERBOSITY_ERROR);
      tw->setIntParam(SoPlex::VERBOSITY, SoPlex::VERBOSITY_ERROR);
      maybeScaled = false;
      M = Model();
      M.lp.sense = SoPlex::Settings::intParam.defaultValue[SoPlex::OBJSENSE];   // documented default (maximise)
      M.lp.offset = qd(SoPlex::Settings::realParam.defaultValue[SoPlex::OBJ_OFFSET]);
      M.expI[SoPlex::VERBOSITY] = 0;
   }
   void destroy()
   {
      if(h)
      {
         SoPlex_free(h);
         cnt("free");
      }
      h = nullptr;
      co = nullptr;
      tw.reset();
   }
   // run the C call and its C++ mirror; an exception must escape from both or from none
   template <class F, class G> bool both(const char* fn, F cf, G tf)
   {
      bool ce = false, te = false;
      std::string what;
      try
      {
         cf();
      }
      catch(const soplex::SPxException& x)
      {
         ce = true;
         what = x.what();
      }
      catch(const std::exception& x)
      {
         ce = true;
         what = x.what();
      }
      try
      {
         tf();
      }
      catch(const soplex::SPxException&)
      {
         te = true;
      }
      catch(const std::exception&)
      {
         te = true;
      }
      cnt(fn);
      if(ce != te)
      {
         v.fail(std::string("SoPlex_") + fn + ": exception escaped from " + (ce ? "the C call only" : "the C++ call only"));
         return false;
      }
      if(ce)
      {
         // a C client cannot catch a C++ exception: letting one escape from an extern "C" function is a failure of the
         // wrapper unless it is a recorded known finding (then the state is re-anchored and the search goes on)
         threw = true;
         ev().count(std::string("both_threw.") + fn);
         if(!allowThrow)
         {
            v.fail(std::string("SoPlex_") + fn + ": a C++ exception escaped from the extern \"C\" function (the C++ call throws too): " + what.substr(0, 24));
            return false;
         }
      }
      return !ce;
   }
   bool bad(const std::string& tag, const std::string& what)
   {
      v.fail("SoPlex_" + tag + ": " + what);
      return false;
   }
   // pools
   static Q pq(const Rec& r, int start, int k)
   {
      int len = (int) r.n() - start;
      return len <= 0 ? Q(0) : r.q(start + k % len);
   }
   static bool prat(const Rec& r, int start, int k, long& nm, long& dn)
   {
      int np = ((int) r.n() - start) / 2;
      if(np <= 0) return false;
      nm = r.i(start + 2 * (k % np));
      dn = r.i(start + 2 * (k % np) + 1);
      if(dn <= 0) dn = 1;
      return true;
   }
   void implicitRows(int upto)   // rows created by a column entry beyond numRows: LPRowBase default [0, +inf)
   {
      while(M.lp.m() < upto) M.lp.addRow(Q(0), QINF());
   }
   void implicitCols(int upto)   // LPColBase default: [0, +inf), objective 0
   {
      while(M.lp.n() < upto) M.lp.addCol(Q(0), QINF(), Q(0));
   }
   int addSize(const Rec& r, int cur)
   {
      int mode = (int) r.i(0), k = (int) r.i(1);
      if(mode == 1) return k % (cur + 1);
      if(mode == 2) return cur + 1 + k % 2;
      return cur;
   }

   bool step(const Rec& r);
   bool stepFiles(const Rec& r);
   bool stepRational(const Rec& r);
   bool stepQuery(const Rec& r);
   bool check(const std::string& tag)
   {
      std::string d = cmpObjects(*co, *tw);
      if(!d.empty())
      {
         v.fail("after SoPlex_" + tag + ": object behind the C handle and C++ twin differ in " + d);
         return false;
      }
      d = cmpModel(*co, M);
      if(!d.empty())
      {
         v.fail("after SoPlex_" + tag + ": C object differs from the model built from the input arrays in " + d);
         return false;
      }
      if(needAnchor)
      {
         anchor(*co, M);
         needAnchor = false;
         ev().count("model.anchored_on_leaving_auto_sync");
      }
      return true;
   }
};

bool Runner::step(const Rec& r)
{
   const std::string& t = r.tag;
   LP& lp = M.lp;
   int m = lp.m(), n = lp.n();
   bool isMod = !t.compare(0, 6, "change") || !t.compare(0, 6, "remove");
   if(isMod && hadAdd) modAfterAdd = true;

   if(t == "recreate")
   {
      destroy();
      create();
      return true;
   }
   if(t == "numRows")
   {
      int a = -1, b = -2;
      if(!both("numRows", [&] { a = SoPlex_numRows(h); }, [&] { b = tw->numRows(); })) return true;
      if(a != b || a != m) return bad(t, "wrong number of rows");
      return true;
   }
   if(t == "numCols")
   {
      int a = -1, b = -2;
      if(!both("numCols", [&] { a = SoPlex_numCols(h); }, [&] { b = tw->numCols(); })) return true;
      if(a != b || a != n) return bad(t, "wrong number of columns");
      return true;
   }
   if(t == "clearLPReal")
   {
      both("clearLPReal", [&] { SoPlex_clearLPReal(h); }, [&] { tw->clearLPReal(); });
      M.clear();
      maybeScaled = false;
      return true;
   }
   if(t == "setRational" || (t == "setIntParam" && r.i(0) == SoPlex::SYNCMODE && r.i(1) == SoPlex::SYNCMODE_AUTO))
   {
      if(!M.sync && storedScaled(*co))
      {
         ev().count("sync_auto_requested_on_scaled_lp");
         if(known(K_SYNCSCALED))
         {
            ev().count(std::string("excluded_known.") + K_SYNCSCALED);
            return true;
         }
      }
   }
   if(t == "setRational")
   {
      both("setRational", [&] { SoPlex_setRational(h); }, [&]
      {
         tw->setIntParam(SoPlex::READMODE, SoPlex::READMODE_RATIONAL);
         tw->setIntParam(SoPlex::SOLVEMODE, SoPlex::SOLVEMODE_RATIONAL);
         tw->setIntParam(SoPlex::CHECKMODE, SoPlex::CHECKMODE_RATIONAL);
         tw->setIntParam(SoPlex::SYNCMODE, SoPlex::SYNCMODE_AUTO);
         tw->setRealParam(SoPlex::FEASTOL, 0.0);
         tw->setRealParam(SoPlex::OPTTOL, 0.0);
      });
      M.expI[SoPlex::READMODE] = SoPlex::READMODE_RATIONAL;
      M.expI[SoPlex::SOLVEMODE] = SoPlex::SOLVEMODE_RATIONAL;
      M.expI[SoPlex::CHECKMODE] = SoPlex::CHECKMODE_RATIONAL;
      M.expI[SoPlex::SYNCMODE] = SoPlex::SYNCMODE_AUTO;
      M.expR[SoPlex::FEASTOL] = 0.0;
      M.expR[SoPlex::OPTTOL] = 0.0;
      M.sync = true;
      return true;
   }
   if(t == "setIntParam")
   {
      int code = (int) r.i(0), val = (int) r.i(1);
      if(code < 0 || code >= SoPlex::INTPARAM_COUNT || (code == SoPlex::SYNCMODE && val == SoPlex::SYNCMODE_MANUAL)) return true;
      if(code == SoPlex::SCALER && val == SoPlex::SCALER_OFF && maybeScaled)
      {
         ev().count("scaler_off_after_solve");
         if(known(K_SCALEROFF))
         {
            ev().count(std::string("excluded_known.") + K_SCALEROFF);
            return true;
         }
      }
      bool ok = false;
      if(!both("setIntParam", [&] { SoPlex_setIntParam(h, code, val); }, [&] { ok = tw->setIntParam((SoPlex::IntParam) code, val); })) return true;
      ev().count("intparam." + std::to_string(code) + (ok ? "" : ".rejected"));
      if(ok)
      {
         M.expI[code] = val;
         if(code == SoPlex::OBJSENSE) lp.sense = val;
         if(code == SoPlex::SYNCMODE)
         {
            if(val == SoPlex::SYNCMODE_AUTO) M.sync = true;
            else if(M.sync)
            {
               M.sync = false;
               needAnchor = true;
            }
         }
      }
      return true;
   }
   if(t == "setBoolParam")
   {
      int code = (int) r.i(0), val = (int) r.i(1);
      if(code < 0 || code >= SoPlex::BOOLPARAM_COUNT) return true;
      bool ok = false;
      if(!both("setBoolParam", [&] { SoPlex_setBoolParam(h, code, val); }, [&] { ok = tw->setBoolParam((SoPlex::BoolParam) code, val != 0); })) return true;
      ev().count("boolparam." + std::to_string(code) + (ok ? "" : ".rejected"));
      if(ok) M.expB[code] = val != 0;
      return true;
   }
   if(t == "setRealParam")
   {
      int code = (int) r.i(0);
      double val = dq(r.q(1));
      if(code < 0 || code >= SoPlex::REALPARAM_COUNT) return true;
      bool ok = false;
      if(!both("setRealParam", [&] { SoPlex_setRealParam(h, code, val); }, [&] { ok = tw->setRealParam((SoPlex::RealParam) code, val); })) return true;
      ev().count("realparam." + std::to_string(code) + (ok ? "" : ".rejected"));
      if(ok)
      {
         M.expR[code] = val;
         if(code == SoPlex::OBJ_OFFSET) lp.offset = qd(val);
      }
      return true;
   }
   if(t == "getIntParam")
   {
      int code = (int) r.i(0), a = -1, b = -2;
      if(code < 0 || code >= SoPlex::INTPARAM_COUNT) return true;
      if(!both("getIntParam", [&] { a = SoPlex_getIntParam(h, code); }, [&] { b = tw->intParam((SoPlex::IntParam) code); })) return true;
      if(a != b) return bad(t, "value differs from intParam()");
      if(M.expI.count(code) && M.expI[code] != a) return bad(t, "value differs from the value set before");
      return true;
   }
   if(t == "addColReal" || t == "addRowReal")
   {
      bool col = t == "addColReal";
      int cur = col ? m : n, size = addSize(r, cur);
      int ps = col ? 6 : 5;
      Q obj = col ? r.q(3) : Q(0), lb = r.q(col ? 4 : 3), ub = r.q(col ? 5 : 4);
      std::vector<double> ent(size);
      std::vector<Q> eq(size);
      int nz = 0, top = 0;
      for(int i = 0; i < size; i++)
      {
         eq[i] = pq(r, ps, i);
         if(!isFin(eq[i])) eq[i] = 0;
         ent[i] = dq(eq[i]);
         if(eq[i] != 0)
         {
            nz++;
            top = i + 1;
         }
      }
      int nnz = nz + (int) r.i(2);
      if(top > cur && maybeScaled)
      {
         ev().count("implicit_creation_after_solve");
         if(known(K_IMPLSCALED))
         {
            ev().count(std::string("excluded_known.") + K_IMPLSCALED);
            return true;
         }
      }
      Arr<double> a(ent);
      DSVectorReal vec;
      for(int i = 0; i < size; i++) if(ent[i] != 0.0) vec.add(i, ent[i]);
      if(col)
         both("addColReal", [&] { SoPlex_addColReal(h, a.get(), size, nnz, dq(obj), dq(lb), dq(ub)); },
              [&] { tw->addColReal(LPColReal(dq(obj), vec, dq(ub), dq(lb))); });
      else
         both("addRowReal", [&] { SoPlex_addRowReal(h, a.get(), size, nnz, dq(lb), dq(ub)); },
              [&] { tw->addRowReal(LPRowReal(dq(lb), vec, dq(ub))); });
      if(!a.unchanged()) return bad(t, "input array modified");
      ev().count(std::string("add.size_") + (size == cur ? "exact" : size < cur ? "prefix" : "beyond"));
      ev().count(std::string("add.nnz_") + (nz == 0 ? "zero" : r.i(2) == 0 ? "exact" : "larger"));
      if(top > cur) ev().count("add.implicit_creation");
      if(col)
      {
         implicitRows(top);
         lp.addCol(lb, ub, obj);
         for(int i = 0; i < size && i < lp.m(); i++) lp.A[i][lp.n() - 1] = eq[i];
      }
      else
      {
         implicitCols(top);
         lp.addRow(lb, ub);
         for(int j = 0; j < size && j < lp.n(); j++) lp.A[lp.m() - 1][j] = eq[j];
      }
      hadAdd = true;
      return true;
   }
   if(t == "removeColReal" || t == "removeRowReal")
   {
      bool col = t == "removeColReal";
      int dim = col ? n : m;
      if(dim == 0)
      {
         ev().count("skipped." + t);
         return true;
      }
      int i = (int)(r.i(0) % dim);
      if(col) both("removeColReal", [&] { SoPlex_removeColReal(h, i); }, [&] { tw->removeColReal(i); });
      else both("removeRowReal", [&] { SoPlex_removeRowReal(h, i); }, [&] { tw->removeRowReal(i); });
      if(col) M.removeCol(i);
      else M.removeRow(i);
      return true;
   }
   // ---- dense vector changes (real)
   struct VecOp
   {
      const char* name;
      bool col;
      int arrays;
   };
   static const VecOp vops[] = {{"changeObjReal", true, 1}, {"changeLhsReal", false, 1}, {"changeRhsReal", false, 1},
      {"changeLowerReal", true, 1}, {"changeUpperReal", true, 1}, {"changeRangeReal", false, 2}, {"changeBoundsReal", true, 2}
   };
   for(auto& o : vops)
   {
      if(t != o.name) continue;
      int dim = o.col ? n : m;
      std::vector<Q> q1(dim), q2(dim);
      std::vector<double> d1(dim), d2(dim);
      for(int i = 0; i < dim; i++)
      {
         q1[i] = pq(r, 0, o.arrays * i);
         q2[i] = pq(r, 0, o.arrays * i + 1);
         if(t == "changeObjReal" && !isFin(q1[i])) q1[i] = 0;
         d1[i] = dq(q1[i]);
         d2[i] = dq(q2[i]);
      }
      Arr<double> a1(d1), a2(d2);
      VectorReal v1(dim), v2(dim);
      for(int i = 0; i < dim; i++)
      {
         v1[i] = d1[i];
         v2[i] = d2[i];
      }
      if(t == "changeObjReal")
      {
         both(o.name, [&] { SoPlex_changeObjReal(h, a1.get(), dim); }, [&] { tw->changeObjReal(v1); });
         lp.obj = q1;
      }
      else if(t == "changeLhsReal")
      {
         both(o.name, [&] { SoPlex_changeLhsReal(h, a1.get(), dim); }, [&] { tw->changeLhsReal(v1); });
         lp.lhs = q1;
      }
      else if(t == "changeRhsReal")
      {
         both(o.name, [&] { SoPlex_changeRhsReal(h, a1.get(), dim); }, [&] { tw->changeRhsReal(v1); });
         lp.rhs = q1;
      }
      else if(t == "changeLowerReal")
      {
         both(o.name, [&] { SoPlex_changeLowerReal(h, a1.get(), dim); }, [&] { tw->changeLowerReal(v1); });
         lp.lo = q1;
      }
      else if(t == "changeUpperReal")
      {
         both(o.name, [&] { SoPlex_changeUpperReal(h, a1.get(), dim); }, [&] { tw->changeUpperReal(v1); });
         lp.up = q1;
      }
      else if(t == "changeRangeReal")
      {
         both(o.name, [&] { SoPlex_changeRangeReal(h, a1.get(), a2.get(), dim); }, [&] { tw->changeRangeReal(v1, v2); });
         lp.lhs = q1;
         lp.rhs = q2;
      }
      else
      {
         both(o.name, [&] { SoPlex_changeBoundsReal(h, a1.get(), a2.get(), dim); }, [&] { tw->changeBoundsReal(v1, v2); });
         lp.lo = q1;
         lp.up = q2;
      }
      if(!a1.unchanged() || !a2.unchanged()) return bad(t, "input array modified");
      ev().count(dim == 0 ? "vecop.dim_zero" : "vecop.dim_pos");
      return true;
   }
   // ---- single element changes (real)
   if(t == "changeRowLhsReal" || t == "changeRowRhsReal" || t == "changeRowRangeReal" || t == "changeVarBoundsReal"
         || t == "changeVarLowerReal" || t == "changeVarUpperReal")
   {
      bool col = t.find("Var") != std::string::npos;
      int dim = col ? n : m;
      if(dim == 0)
      {
         ev().count("skipped." + t);
         return true;
      }
      int i = (int)(r.i(0) % dim);
      Q a = r.q(1), b = r.q(2);
      double da = dq(a), db = dq(b);
      if(t == "changeRowLhsReal")
      {
         both("changeRowLhsReal", [&] { SoPlex_changeRowLhsReal(h, i, da); }, [&] { tw->changeLhsReal(i, da); });
         lp.lhs[i] = a;
      }
      else if(t == "changeRowRhsReal")
      {
         both("changeRowRhsReal", [&] { SoPlex_changeRowRhsReal(h, i, da); }, [&] { tw->changeRhsReal(i, da); });
         lp.rhs[i] = a;
      }
      else if(t == "changeRowRangeReal")
      {
         both("changeRowRangeReal", [&] { SoPlex_changeRowRangeReal(h, i, da, db); }, [&] { tw->changeRangeReal(i, da, db); });
         lp.lhs[i] = a;
         lp.rhs[i] = b;
      }
      else if(t == "changeVarBoundsReal")
      {
         both("changeVarBoundsReal", [&] { SoPlex_changeVarBoundsReal(h, i, da, db); }, [&] { tw->changeBoundsReal(i, da, db); });
         lp.lo[i] = a;
         lp.up[i] = b;
      }
      else if(t == "changeVarLowerReal")
      {
         both("changeVarLowerReal", [&] { SoPlex_changeVarLowerReal(h, i, da); }, [&] { tw->changeLowerReal(i, da); });
         lp.lo[i] = a;
      }
      else
      {
         both("changeVarUpperReal", [&] { SoPlex_changeVarUpperReal(h, i, da); }, [&] { tw->changeUpperReal(i, da); });
         lp.up[i] = a;
      }
      return true;
   }
   if(t == "optimize")
   {
      if(m == 0 || n == 0)
      {
         // degenerate shapes are the business of the solve properties (a rational solve of an LP without columns
         // reads uninitialised basis statuses in SPxMainSM::unsimplify); a client solves LPs that have rows and columns
         ev().count("skipped.optimize_without_rows_or_columns");
         return true;
      }
      {
         // C20 is about the wrapper, not about the solver: a solve that crashes / trips a sanitizer / hangs in the C++
         // API itself is outside the claim.  The twin's solve is tried first in a forked child; if the child dies the
         // solve is not issued at all (counted, case text kept for the owners of the solve properties).
         fflush(stdout);
         fflush(stderr);
         pid_t pid = opts().xi("nofork", 0) ? -1 : fork();
         if(pid == 0)
         {
            int fd = open("/dev/null", O_WRONLY);
            if(fd >= 0)
            {
               dup2(fd, 1);
               dup2(fd, 2);
            }
            alarm(10);
            try
            {
               // exactly what the parent would do for this step, then tear both objects down so that the allocator
               // gets a chance to notice a corrupted heap
               SoPlex_optimize(h);
               tw->optimize();
               if(co->numRows() != m || co->numCols() != n) _exit(3);   // the solve changed the LP it was asked to solve
               if(!cmpModel(*co, M).empty()) _exit(4);
               (void) cmpObjects(*co, *tw);
               VectorReal x(n + 8), y(m + 8), d(n + 8);
               co->getPrimalReal(x.get_ptr(), n + 8);
               co->getDualReal(y.get_ptr(), m + 8);
               co->getRedCostReal(d.get_ptr(), n + 8);
               SoPlex_free(h);
               delete tw.release();
            }
            catch(...)
            {
               _exit(5);   // optimize() itself throws: the C++ API fails in the same way, not a wrapper matter
            }
            _exit(0);
         }
         int st = 0;
         bool waited = pid > 0 && waitpid(pid, &st, 0) == pid;
         if(waited && WIFEXITED(st) && WEXITSTATUS(st) == 3)
         {
            ev().count("optimize_changes_lp_dimensions");
            if(known(K_SOLVEDIM))
            {
               ev().count(std::string("excluded_known.") + K_SOLVEDIM);
               return true;
            }
         }
         else if(waited && WIFEXITED(st) && WEXITSTATUS(st) == 4)
         {
            ev().count("optimize_changes_lp_data");
            if(known(K_SOLVEDATA))
            {
               ev().count(std::string("excluded_known.") + K_SOLVEDATA);
               return true;
            }
         }
         else if(waited && WIFEXITED(st) && WEXITSTATUS(st) == 5)
         {
            ev().count("unjudged.optimize_throws_in_cpp_api_too");
            if(caseTextForCrash && opts().mode == "gen") writeFile(opts().dir + "/cpp_solver_throw_" + std::to_string(crashNo++ % 5) + ".case", *caseTextForCrash);
            return true;
         }
         else if(waited && !(WIFEXITED(st) && WEXITSTATUS(st) == 0))
         {
            ev().count(WIFSIGNALED(st) && WTERMSIG(st) == SIGALRM ? "unjudged.optimize_hangs_in_cpp_api_too" : "unjudged.optimize_dies_in_cpp_api_too");
            if(caseTextForCrash && opts().mode == "gen") writeFile(opts().dir + "/cpp_solver_crash_" + std::to_string(crashNo++ % 5) + ".case", *caseTextForCrash);
            return true;
         }
      }
      int a = -100, b = -200;
      if(!both("optimize", [&] { a = SoPlex_optimize(h); }, [&] { b = (int) tw->optimize(); })) return true;
      if(a != b) return bad(t, "returned status differs from optimize() of the twin");
      if(a != (int) co->status()) return bad(t, "returned int is not the enumerator of status()");
      ev().count(std::string("solve.") + statusName(a) + (co->intParam(SoPlex::SOLVEMODE) == SoPlex::SOLVEMODE_REAL ? ".real" :
                 co->intParam(SoPlex::SOLVEMODE) == SoPlex::SOLVEMODE_RATIONAL ? ".rational" : ".auto"));
      if(co->numIterations() > 0) ev().count("solve.with_iterations");
      solved = true;
      maybeScaled = true;
      return true;
   }
   if(stepQuery(r) || !v.ok) return v.ok;
   if(stepRational(r) || !v.ok) return v.ok;
   if(stepFiles(r) || !v.ok) return v.ok;
   if(t != "x") ev().count("unknown_rec." + t);
   return true;
}

bool Runner::stepQuery(const Rec& r)
{
   const std::string& t = r.tag;
   LP& lp = M.lp;
   int m = lp.m(), n = lp.n();
   if(t == "getStatus")
   {
      int a = -100, b = -200;
      if(!both("getStatus", [&] { a = SoPlex_getStatus(h); }, [&] { b = (int) tw->status(); })) return true;
      if(a != b || a != (int) co->status()) bad(t, "returned int is not the enumerator of status()");
      if(solved) queried = true;
      return true;
   }
   if(t == "objValueReal")
   {
      double a = SENT, b = 1.0;
      if(!both("objValueReal", [&] { a = SoPlex_objValueReal(h); }, [&] { b = tw->objValueReal(); })) return true;
      if(!sameBits(a, b)) bad(t, "value differs from objValueReal() of the twin");
      if(solved) queried = true;
      return true;
   }
   if(t == "getNumIterations")
   {
      int a = -100, b = -200;
      if(!both("getNumIterations", [&] { a = SoPlex_getNumIterations(h); }, [&] { b = tw->numIterations(); })) return true;
      if(a != b) bad(t, "value differs from numIterations() of the twin");
      if(solved) queried = true;
      return true;
   }
   if(t == "getSolvingTime")
   {
      // wall/CPU time is not reproducible between two objects: compared with solveTime() of the same object (the clock
      // is stopped after the solve) and required to be a finite non-negative number
      double a = -1, b = -1;
      if(!both("getSolvingTime", [&] { a = SoPlex_getSolvingTime(h); }, [&] { b = tw->solveTime(); })) return true;
      if(!sameBits(a, co->solveTime())) bad(t, "value differs from solveTime() of the same object");
      else if(!(a >= 0.0) || !std::isfinite(a) || !(b >= 0.0)) bad(t, "not a finite non-negative time");
      return true;
   }
   if(t == "getPrimalReal" || t == "getDualReal" || t == "getRedCostReal")
   {
      int need = t == "getDualReal" ? m : n;
      int mode = (int) r.i(0);
      int dim = mode == 1 ? need + 2 : (mode == 2 && need > 0) ? need - 1 : need;
      {
         // length of the stored solution vector, observed through the resizing C++ getter
         VectorReal probe(need);
         if(t == "getPrimalReal") co->getPrimal(probe);
         else if(t == "getDualReal") co->getDual(probe);
         else co->getRedCost(probe);
         // (since fix 6777602 the pointer getters copy exactly the LP dimension; the call below runs with canaries behind the
         // buffer and under ASan, so a wrapper that copies the longer stored vector is caught there)
         if(probe.dim() > need) ev().count("stored_solution_longer_than_dimension");
      }
      Arr<double> a(dim, SENT), b(dim, SENT);
      bool ok = false;
      VectorReal ref(need);
      bool okRef = false;
      if(t == "getPrimalReal")
      {
         if(!both("getPrimalReal", [&] { SoPlex_getPrimalReal(h, a.get(), dim); }, [&] { ok = tw->getPrimalReal(b.get(), dim); })) return true;
         okRef = tw->getPrimal(ref);
      }
      else if(t == "getDualReal")
      {
         if(!both("getDualReal", [&] { SoPlex_getDualReal(h, a.get(), dim); }, [&] { ok = tw->getDualReal(b.get(), dim); })) return true;
         okRef = tw->getDual(ref);
      }
      else
      {
         if(!both("getRedCostReal", [&] { SoPlex_getRedCostReal(h, a.get(), dim); }, [&] { ok = tw->getRedCostReal(b.get(), dim); })) return true;
         okRef = tw->getRedCost(ref);
      }
      ev().count("getsol." + std::string(dim == need ? "dim_exact" : dim > need ? "dim_larger" : "dim_smaller") + (ok ? ".available" : ".refused"));
      if(!sameBits(a.get(), b.get(), dim)) return !bad(t, "array differs bitwise from the array filled by the C++ call");
      if(ok)
      {
         if(!a.unchangedFrom(need)) return !bad(t, "wrote beyond the vector dimension");
         if(okRef && !sameBits(a.get(), ref.get_const_ptr(), need)) return !bad(t, "array differs from the C++ vector getter");
      }
      else if(!a.unchanged()) return !bad(t, "array written although no solution is available");
      if(solved && ok) queried = true;
      return true;
   }
   if(t == "basisRowStatus" || t == "basisColStatus")
   {
      bool col = t == "basisColStatus";
      int dim = col ? n : m;
      if(dim == 0)
      {
         ev().count("skipped." + t);
         return true;
      }
      int i = (int)(r.i(0) % dim), a = -100, b = -200;
      if(col)
      {
         if(!both("basisColStatus", [&] { a = SoPlex_basisColStatus(h, i); }, [&] { b = (int) tw->basisColStatus(i); })) return true;
      }
      else if(!both("basisRowStatus", [&] { a = SoPlex_basisRowStatus(h, i); }, [&] { b = (int) tw->basisRowStatus(i); })) return true;
      if(a != b || a != (int)(col ? co->basisColStatus(i) : co->basisRowStatus(i))) return !bad(t, "returned int is not the VarStatus enumerator of the C++ call");
      if(a < 0 || a > 5) return !bad(t, "returned code outside the documented set");
      ev().count(std::string("basis.") + (col ? "col." : "row.") + std::to_string(a));
      if(solved) queried = true;
      return true;
   }
   if(t == "getLowerReal" || t == "getUpperReal" || t == "getObjReal")
   {
      // dim must be exactly numCols: the C++ getters assert vec.dim() == numCols on a scaled LP (and write numCols
      // entries), and the wrapper copies dim entries out of a vector of numCols entries
      int dim = n;
      if(maybeScaled && t != "getObjReal")
      {
         bool inf = false;
         for(int j = 0; j < dim; j++) if(!isFin(t == "getLowerReal" ? lp.lo[j] : lp.up[j])) inf = true;
         if(inf)
         {
            ev().count("bound_vector_with_infinity_after_solve");
            if(known(K_VECINF))
            {
               ev().count(std::string("excluded_known.") + K_VECINF);
               return true;
            }
         }
      }
      Arr<double> a(dim, SENT);
      VectorReal ref(n);
      const std::vector<Q>* src;
      if(t == "getLowerReal")
      {
         if(!both("getLowerReal", [&] { SoPlex_getLowerReal(h, a.get(), dim); }, [&] { tw->getLowerReal(ref); })) return true;
         src = &lp.lo;
      }
      else if(t == "getUpperReal")
      {
         if(!both("getUpperReal", [&] { SoPlex_getUpperReal(h, a.get(), dim); }, [&] { tw->getUpperReal(ref); })) return true;
         src = &lp.up;
      }
      else
      {
         if(!both("getObjReal", [&] { SoPlex_getObjReal(h, a.get(), dim); }, [&] { tw->getObjReal(ref); })) return true;
         src = &lp.obj;
      }
      ev().count(dim == 0 ? "getvec.dim_zero" : "getvec.dim_exact");
      if(!sameBits(a.get(), ref.get_const_ptr(), dim)) return !bad(t, "array differs from the C++ vector getter");
      for(int j = 0; j < dim; j++) if(!okReal(a.get()[j], (*src)[j])) return !bad(t, "array differs from the values passed in");
      return true;
   }
   if(t == "getRowVectorReal")
   {
      if(m == 0)
      {
         ev().count("skipped." + t);
         return true;
      }
      int i = (int)(r.i(0) % m);
      DSVectorReal ref;
      tw->getRowVectorReal(i, ref);
      int mnz = 0;
      for(int j = 0; j < n; j++) if(lp.A[i][j] != 0) mnz++;
      if(ref.size() != mnz) return !bad(t, "number of stored entries differs from the non-zeros passed in");
      int len = mnz + (int) r.i(1);   // the client knows how many non-zeros it put into the row
      Arr<int> nn(1, -77);
      Arr<long> idx(len, -77L);
      Arr<double> cf(len, SENT);
      if(!both("getRowVectorReal", [&] { SoPlex_getRowVectorReal(h, i, nn.get(), idx.get(), cf.get()); }, [&] {})) return true;
      ev().count(mnz == 0 ? "getrow.empty" : r.i(1) == 0 ? "getrow.buffer_exact" : "getrow.buffer_larger");
      if(nn.get()[0] != mnz) return !bad(t, "nnonzeros differs from the row size");
      for(int k = 0; k < mnz; k++)
      {
         if(idx.get()[k] != ref.index(k) || !sameBits(cf.get()[k], ref.value(k))) return !bad(t, "entry differs from getRowVectorReal() of the twin");
         long j = idx.get()[k];
         if(j < 0 || j >= n || !okReal(cf.get()[k], lp.A[i][j])) return !bad(t, "entry differs from the coefficient passed in");
      }
      if(!idx.unchangedFrom(mnz) || !cf.unchangedFrom(mnz)) return !bad(t, "wrote beyond the row size");
      return true;
   }
   if(t == "getRowBoundsReal")
   {
      if(m == 0)
      {
         ev().count("skipped." + t);
         return true;
      }
      int i = (int)(r.i(0) % m);
      Arr<double> lb(1, SENT), ub(1, SENT);
      if(!both("getRowBoundsReal", [&] { SoPlex_getRowBoundsReal(h, i, lb.get(), ub.get()); }, [&] {})) return true;
      if(!sameBits(lb.get()[0], tw->lhsReal(i)) || !sameBits(ub.get()[0], tw->rhsReal(i))) return !bad(t, "differs from lhsReal()/rhsReal() of the twin");
      if(!okReal(lb.get()[0], lp.lhs[i]) || !okReal(ub.get()[0], lp.rhs[i])) return !bad(t, "differs from the sides passed in (order?)");
      return true;
   }
   return false;
}

bool Runner::stepRational(const Rec& r)
{
   const std::string& t = r.tag;
   LP& lp = M.lp;
   int m = lp.m(), n = lp.n();
   if(t == "objValueRationalString")
   {
      // needs no rational LP: objValueRational() reads the solution object only
      char* s = nullptr;
      Rational ref;
      if(!both("objValueRationalString", [&] { s = SoPlex_objValueRationalString(h); }, [&] { ref = tw->objValueRational(); })) return true;
      std::string exp = ref.str();
      if(s == nullptr) return !bad(t, "returned a null pointer");
      if(known(K_OBJSTR))
      {
         // known finding: the buffer holds one byte; only that byte can be read
         ev().count(std::string("excluded_known.") + K_OBJSTR);
         bool ok = s[0] == exp[0];
         delete[] s;
         if(!ok) return !bad(t, "first character differs from objValueRational()");
      }
      else
      {
         bool ok = strncmp(s, exp.c_str(), exp.size() + 1) == 0;   // reads at most strlen(expected)+1 bytes
         if(ok && qparse(s) != qr(ref)) ok = false;
         delete[] s;
         if(!ok) return !bad(t, "returned buffer is not the NUL-terminated text of objValueRational()");
      }
      hadRat = true;
      if(solved) queried = true;
      return true;
   }
   static const char* ratOps[] = {"addColRational", "addRowRational", "changeObjRational", "changeLhsRational", "changeRhsRational",
                                  "changeVarBoundsRational", "getRowVectorRational", "getRowBoundsRational", "getPrimalRationalString"
                                 };
   bool mine = false;
   for(auto o : ratOps) if(t == o) mine = true;
   if(!mine) return false;
   if(!M.sync)
   {
      // without SoPlex_setRational / SYNCMODE_AUTO there is no rational LP behind the handle: not a client sequence
      ev().count("skipped_no_rational_lp." + t);
      return true;
   }
   if(t == "addColRational" || t == "addRowRational")
   {
      bool col = t == "addColRational";
      int cur = col ? m : n, size = addSize(r, cur);
      int ps = col ? 9 : 7, b0 = col ? 5 : 3;
      long on = col ? r.i(3) : 0, od = col ? std::max(1L, r.i(4)) : 1;
      long ln = r.i(b0), ld = std::max(1L, r.i(b0 + 1)), un = r.i(b0 + 2), ud = std::max(1L, r.i(b0 + 3));
      std::vector<long> nums(size), dens(size);
      std::vector<Q> eq(size);
      int nz = 0, top = 0;
      for(int i = 0; i < size; i++)
      {
         long a = 0, b = 1;
         prat(r, ps, i, a, b);
         nums[i] = a;
         dens[i] = b;
         eq[i] = QL(a, b);
         if(a != 0)
         {
            nz++;
            top = i + 1;
            if(a > 1000000 || a < -1000000 || b > 1000000) ev().count("rational.large_long_entry");
            if(a < 0) ev().count("rational.negative_numerator");
            if(b == 1) ev().count("rational.denominator_one");
         }
      }
      int nnz = nz + (int) r.i(2);
      if(top > cur && maybeScaled)
      {
         ev().count("implicit_creation_after_solve");
         if(known(K_IMPLSCALED))
         {
            ev().count(std::string("excluded_known.") + K_IMPLSCALED);
            return true;
         }
      }
      Arr<long> an(nums), ad(dens);
      DSVectorRational vec;
      for(int i = 0; i < size; i++) if(nums[i] != 0) vec.add(i, rq(eq[i]));
      Q obj = QL(on, od), lb = QL(ln, ld), ub = QL(un, ud);
      if(col)
         both("addColRational", [&] { SoPlex_addColRational(h, an.get(), ad.get(), size, nnz, on, od, ln, ld, un, ud); },
              [&] { tw->addColRational(LPColRational(rq(obj), vec, rq(ub), rq(lb))); });
      else
         both("addRowRational", [&] { SoPlex_addRowRational(h, an.get(), ad.get(), size, nnz, ln, ld, un, ud); },
              [&] { tw->addRowRational(LPRowRational(rq(lb), vec, rq(ub))); });
      if(!an.unchanged() || !ad.unchanged()) return !bad(t, "input array modified");
      ev().count(std::string("addrat.size_") + (size == cur ? "exact" : size < cur ? "prefix" : "beyond"));
      ev().count(std::string("addrat.nnz_") + (nz == 0 ? "zero" : r.i(2) == 0 ? "exact" : "larger"));
      if(top > cur) ev().count("addrat.implicit_creation");
      if(col)
      {
         implicitRows(top);
         lp.addCol(lb, ub, obj);
         for(int i = 0; i < size && i < lp.m(); i++) lp.A[i][lp.n() - 1] = eq[i];
      }
      else
      {
         implicitCols(top);
         lp.addRow(lb, ub);
         for(int j = 0; j < size && j < lp.n(); j++) lp.A[lp.m() - 1][j] = eq[j];
      }
      hadAdd = true;
      hadRat = true;
      return true;
   }
   if(t == "changeObjRational" && maybeScaled)
   {
      ev().count("changeobjrational_after_solve");
      if(known(K_OBJRATSCALE))
      {
         ev().count(std::string("excluded_known.") + K_OBJRATSCALE);
         return true;
      }
   }
   if(t == "changeObjRational" || t == "changeLhsRational" || t == "changeRhsRational")
   {
      int dim = t == "changeObjRational" ? n : m;
      std::vector<long> nums(dim), dens(dim);
      std::vector<Q> q(dim);
      VectorRational vr(dim);
      for(int i = 0; i < dim; i++)
      {
         long a = 0, b = 1;
         prat(r, 0, i, a, b);
         nums[i] = a;
         dens[i] = b;
         q[i] = QL(a, b);
         vr[i] = rq(q[i]);
      }
      Arr<long> an(nums), ad(dens);
      if(t == "changeObjRational")
      {
         both("changeObjRational", [&] { SoPlex_changeObjRational(h, an.get(), ad.get(), dim); }, [&] { tw->changeObjRational(vr); });
         lp.obj = q;
      }
      else if(t == "changeLhsRational")
      {
         both("changeLhsRational", [&] { SoPlex_changeLhsRational(h, an.get(), ad.get(), dim); }, [&] { tw->changeLhsRational(vr); });
         lp.lhs = q;
      }
      else
      {
         both("changeRhsRational", [&] { SoPlex_changeRhsRational(h, an.get(), ad.get(), dim); }, [&] { tw->changeRhsRational(vr); });
         lp.rhs = q;
      }
      if(!an.unchanged() || !ad.unchanged()) return !bad(t, "input array modified");
      hadRat = true;
      return true;
   }
   if(t == "changeVarBoundsRational")
   {
      if(n == 0)
      {
         ev().count("skipped." + t);
         return true;
      }
      int j = (int)(r.i(0) % n);
      long ln = r.i(1), ld = std::max(1L, r.i(2)), un = r.i(3), ud = std::max(1L, r.i(4));
      Q lb = QL(ln, ld), ub = QL(un, ud);
      both("changeVarBoundsRational", [&] { SoPlex_changeVarBoundsRational(h, j, ln, ld, un, ud); }, [&] { tw->changeBoundsRational(j, rq(lb), rq(ub)); });
      lp.lo[j] = lb;
      lp.up[j] = ub;
      hadRat = true;
      return true;
   }
   if(t == "getPrimalRationalString")
   {
      // dim is the number of columns (VectorRational primal(dim) is filled by getPrimalRational and then read dim times)
      char* s = nullptr;
      VectorRational ref(n);
      bool ok = false;
      if(!both("getPrimalRationalString", [&] { s = SoPlex_getPrimalRationalString(h, n); }, [&] { ok = tw->getPrimalRational(ref); })) return true;
      if(s == nullptr) return !bad(t, "returned a null pointer");
      std::string str(s);
      delete[] s;
      std::istringstream is(str);
      std::string tok;
      int k = 0;
      bool good = true;
      while(is >> tok)
      {
         if(k < n)
         {
            Q val;
            try
            {
               val = qparse(tok);
            }
            catch(...)
            {
               good = false;
            }
            if(good && val != qr(ref[k])) good = false;
         }
         k++;
      }
      ev().count(ok ? "primalstring.solution_available" : "primalstring.no_solution");
      if(!good || k != n) return !bad(t, "string does not parse to getPrimalRational() of the twin");
      hadRat = true;
      if(solved && ok) queried = true;
      return true;
   }
   if(m == 0)
   {
      ev().count("skipped." + t);
      return true;
   }
   int i = (int)(r.i(0) % m);
   if(t == "getRowBoundsRational")
   {
      Arr<long> o(4, -77L);
      long* p = o.get();
      if(!both("getRowBoundsRational", [&] { SoPlex_getRowBoundsRational(h, i, p, p + 1, p + 2, p + 3); }, [&] {})) return true;
      Q l = qr(tw->lhsRational(i)), u = qr(tw->rhsRational(i));
      // a long cannot hold every rational (e.g. the infinite side 1e100): such values are not judged
      if(fitsLong(l))
      {
         if(mpz_class(p[0]) != l.get_num() || mpz_class(p[1]) != l.get_den()) return !bad(t, "left-hand side differs from lhsRational()");
         if(l != lp.lhs[i]) return !bad(t, "left-hand side differs from the value passed in");
      }
      else ev().count("unjudged.rowboundsrational_does_not_fit_long");
      if(fitsLong(u))
      {
         if(mpz_class(p[2]) != u.get_num() || mpz_class(p[3]) != u.get_den()) return !bad(t, "right-hand side differs from rhsRational()");
         if(u != lp.rhs[i]) return !bad(t, "right-hand side differs from the value passed in");
      }
      else ev().count("unjudged.rowboundsrational_does_not_fit_long");
      hadRat = true;
      return true;
   }
   if(t == "getRowVectorRational")
   {
      const SVectorRational& ref = tw->rowVectorRational(i);
      int rnz = ref.size();
      if(rnz > 0 && known(K_ROWVECRAT))
      {
         ev().count(std::string("excluded_known.") + K_ROWVECRAT);
         return true;
      }
      int len = rnz + (int) r.i(1);
      Arr<int> nn(1, -77);
      Arr<long> idx(len, -77L), cn(len, -77L), cd(len, -77L);
      if(!both("getRowVectorRational", [&] { SoPlex_getRowVectorRational(h, i, nn.get(), idx.get(), cn.get(), cd.get()); }, [&] {})) return true;
      ev().count(rnz == 0 ? "getrowrat.empty" : "getrowrat.nonempty");
      if(nn.get()[0] != rnz) return !bad(t, "nnonzeros differs from the row size");
      for(int k = 0; k < rnz; k++)
      {
         Q val = qr(ref.value(k));
         long j = idx.get()[k];
         if(j != ref.index(k)) return !bad(t, "index differs from rowVectorRational() of the twin");
         if(!fitsLong(val))
         {
            ev().count("unjudged.rowvectorrational_does_not_fit_long");
            continue;
         }
         if(mpz_class(cn.get()[k]) != val.get_num() || mpz_class(cd.get()[k]) != val.get_den()) return !bad(t, "coefficient differs from rowVectorRational() of the twin");
         if(j < 0 || j >= n || val != lp.A[i][j]) return !bad(t, "coefficient differs from the value passed in");
      }
      if(!idx.unchangedFrom(rnz) || !cn.unchangedFrom(rnz) || !cd.unchangedFrom(rnz)) return !bad(t, "wrote beyond the row size");
      hadRat = true;
      return true;
   }
   return false;
}

// LP described by a readInstanceFile rec -> MPS text and the model it denotes
static std::string mpsFromRec(const Rec& r, LP& out)
{
   int m = (int) std::max(0L, std::min(6L, r.i(1))), n = (int) std::max(1L, std::min(6L, r.i(2)));
   int sense = r.i(3) == 1 ? 1 : -1;
   auto p = [&](int k)
   {
      int len = (int) r.n() - 4;
      return len <= 0 ? 0L : r.i(4 + k % len);
   };
   out = LP();
   out.resize(m, n);
   out.sense = sense;
   // fixed MPS format (fields at columns 2, 5, 15, 25): short free-format lines (< 13 characters) are not parsed reliably
   std::ostringstream rows, cols, rhs, bnd;
   auto line = [](std::ostringstream & os, const char* f1, const std::string & f2, const std::string & f3, bool hasVal, long val)
   {
      char buf[128];
      if(hasVal) snprintf(buf, sizeof buf, " %-2s %-8s  %-8s  %12ld\n", f1, f2.c_str(), f3.c_str(), val);
      else snprintf(buf, sizeof buf, " %-2s %-8s  %-8s\n", f1, f2.c_str(), f3.c_str());
      os << buf;
   };
   auto R_ = [](int i)
   {
      return "R" + std::to_string(i);
   };
   auto C_ = [](int j)
   {
      return "C" + std::to_string(j);
   };
   for(int i = 0; i < m; i++)
   {
      long ty = std::labs(p(i + 3)) % 3, b = p(i + 5);
      char t1[2] = {"LGE"[ty], 0};
      line(rows, t1, R_(i), "", false, 0);
      out.lhs[i] = ty == 0 ? Q(-QINF()) : Q(b);
      out.rhs[i] = ty == 1 ? QINF() : Q(b);
      if(b != 0) line(rhs, "", "RHS", R_(i), true, b);
   }
   for(int j = 0; j < n; j++)
   {
      long c = p(j);
      out.obj[j] = Q(c);
      line(cols, "", C_(j), "OBJ", true, c);
      for(int i = 0; i < m; i++)
      {
         long a = p(6 + i * n + j);
         if(a % 2 != 0) a = 0;
         out.A[i][j] = Q(a);
         if(a != 0) line(cols, "", C_(j), R_(i), true, a);
      }
      long kind = std::labs(p(j + n)) % 5, a = p(2 * j + 1), b = p(2 * j + 2);
      long lo = std::min(a, b), up = std::max(a, b);
      switch(kind)
      {
      case 1:
         line(bnd, "LO", "BND", C_(j), true, lo);
         line(bnd, "UP", "BND", C_(j), true, up);
         out.lo[j] = Q(lo);
         out.up[j] = Q(up);
         break;
      case 2:
         line(bnd, "FR", "BND", C_(j), false, 0);
         out.lo[j] = Q(-QINF());
         break;
      case 3:
         line(bnd, "FX", "BND", C_(j), true, a);
         out.lo[j] = out.up[j] = Q(a);
         break;
      case 4:
         line(bnd, "UP", "BND", C_(j), true, std::labs(a));
         out.up[j] = Q(std::labs(a));
         break;
      default:
         break;
      }
   }
   std::ostringstream os;
   os << "NAME          c20\nOBJSENSE\n    " << (sense == 1 ? "MAX" : "MIN") << "\nROWS\n N  OBJ\n" << rows.str() << "COLUMNS\n" << cols.str()
      << "RHS\n" << rhs.str() << "BOUNDS\n" << bnd.str() << "ENDATA\n";
   return os.str();
}

bool Runner::stepFiles(const Rec& r)
{
   const std::string& t = r.tag;
   LP& lp = M.lp;
   int m = lp.m(), n = lp.n();
   if(t == "writeFileReal")
   {
      const char* ext = r.i(0) == 1 ? ".mps" : ".lp";
      bool freeRow = false;
      for(int i = 0; i < m; i++) if(isNInf(lp.lhs[i]) && isPInf(lp.rhs[i])) freeRow = true;
      if(r.i(0) == 1 && freeRow)
      {
         ev().count("writemps_with_free_row");
         if(known(K_MPSFREE))
         {
            ev().count(std::string("excluded_known.") + K_MPSFREE);
            return true;
         }
      }
      std::string f1 = path(ext), f2 = path(ext);
      Arr<char> name(std::vector<char>(f1.c_str(), f1.c_str() + f1.size() + 1));
      if(!both("writeFileReal", [&] { SoPlex_writeFileReal(h, name.get()); }, [&] { tw->writeFile(f2.c_str()); })) return true;
      if(!name.unchanged()) return !bad(t, "file name modified");
      bool o1, o2;
      std::string s1 = slurp(f1, o1), s2 = slurp(f2, o2);
      if(!o1 || s1.empty()) return !bad(t, "no file written");
      if(s1 != s2) return !bad(t, "file differs from the file written by writeFile()");
      ev().count(std::string("write") + ext);
      return true;
   }
   if(t == "readInstanceFile")
   {
      int kind = (int) r.i(0);
      if(kind == 1 && known(K_MISSING))
      {
         ev().count(std::string("excluded_known.") + K_MISSING);
         return true;
      }
      LP flp;
      std::string text = mpsFromRec(r, flp), f = path(".mps");
      if(kind == 0) writeFile(f, text);
      else if(kind == 2) writeFile(f, "this is not an LP\n");
      Arr<char> name(std::vector<char>(f.c_str(), f.c_str() + f.size() + 1));
      int a = -1;
      bool b = false;
      if(!both("readInstanceFile", [&] { a = SoPlex_readInstanceFile(h, name.get()); }, [&] { try { b = tw->readFile(f.c_str()); } catch(const std::exception&) { b = false; } })) return true;
      ev().count(std::string("readlp.") + (kind == 0 ? "valid" : kind == 1 ? "missing" : "malformed") + (co->intParam(SoPlex::READMODE) == SoPlex::READMODE_REAL ? ".real" : ".rational"));
      if(a != (int) b) return !bad(t, "return value differs from readFile()");
      if((a != 0) != (kind == 0)) return !bad(t, "return value does not tell whether the file could be read");
      if(kind == 0)
      {
         Q off = lp.offset;
         lp = flp;
         lp.offset = off;
         M.expI[SoPlex::OBJSENSE] = lp.sense;
         hadAdd = true;
         maybeScaled = false;
      }
      else
      {
         // what is left of the old LP after a failed read is undocumented: no claim, the model follows the object
         anchor(*co, M);
         ev().count("model.anchored_after_failed_read");
      }
      return true;
   }
   if(t == "readBasisFile")
   {
      int var = (int) r.i(0);
      if(var == 3 && known(K_MISSING))
      {
         ev().count(std::string("excluded_known.") + K_MISSING);
         return true;
      }
      if((var == 1 && (m == 0 || n == 0)) || (var == 2 && n == 0)) var = 0;
      std::string body;
      if(var == 1) body = std::string(" ") + (isFin(lp.rhs[0]) ? "XU" : "XL") + " x0        C0\n";   // fixed MPS columns
      if(var == 2)
      {
         if(isFin(lp.lo[0])) body = " LL x0        \n";
         else if(isFin(lp.up[0])) body = " UL x0        \n";
         else var = 0;
      }
      std::string f = path(".bas");
      if(var <= 2) writeFile(f, "NAME c20.bas\n" + body + "ENDATA\n");
      else if(var == 4) writeFile(f, "garbage\n");
      Arr<char> name(std::vector<char>(f.c_str(), f.c_str() + f.size() + 1));
      int a = -1;
      bool b = false;
      if(!both("readBasisFile", [&] { a = SoPlex_readBasisFile(h, name.get()); }, [&] { try { b = tw->readBasisFile(f.c_str()); } catch(const std::exception&) { b = false; } })) return true;
      ev().count("readbas.variant" + std::to_string(var) + (a ? ".ok" : ".refused"));
      if(a != (int) b) return !bad(t, "return value differs from readBasisFile()");
      if((a != 0) != (var <= 2)) return !bad(t, "return value does not tell whether the basis could be read");
      if(var == 1 && (int) co->basisColStatus(0) != (int) Solver::BASIC) return !bad(t, "column named basic in the file is not basic afterwards");
      return true;
   }
   if(t == "readSettingsFile")
   {
      std::ostringstream os;
      std::map<int, int> wi, wb;
      std::map<int, double> wr;
      bool missing = r.i(0) == 1;
      if(missing && known(K_MISSING))
      {
         ev().count(std::string("excluded_known.") + K_MISSING);
         return true;
      }
      for(size_t k = 1; k + 2 < r.n(); k += 3)
      {
         int ty = (int) r.i(k), code = (int) r.i(k + 1);
         if(ty == 0)
         {
            if(code < 0 || code >= SoPlex::INTPARAM_COUNT || code == SoPlex::SYNCMODE) continue;
            int val = (int) r.i(k + 2);
            if(code == SoPlex::SIMPLIFIER && val == SoPlex::SIMPLIFIER_PAPILO) continue;   // rejected without PaPILO
            if(code == SoPlex::SCALER && val == SoPlex::SCALER_OFF && maybeScaled && known(K_SCALEROFF))
            {
               ev().count(std::string("excluded_known.") + K_SCALEROFF);
               continue;
            }
            os << "int:" << SoPlex::Settings::intParam.name[code] << " = " << val << "\n";
            wi[code] = val;
         }
         else if(ty == 1)
         {
            if(code < 0 || code >= SoPlex::BOOLPARAM_COUNT) continue;
            if(code >= SoPlex::SIMPLIFIER_SINGLETONCOLS && code <= SoPlex::SIMPLIFIER_DOMINATEDCOLS) continue;   // rejected without PaPILO
            int val = r.i(k + 2) != 0;
            os << "bool:" << SoPlex::Settings::boolParam.name[code] << " = " << (val ? "true" : "false") << "\n";
            wb[code] = val;
         }
         else
         {
            if(code < 0 || code >= SoPlex::REALPARAM_COUNT || code == SoPlex::SIMPLIFIER_MODIFYROWFAC) continue;   // PaPILO only
            double val = dq(r.q(k + 2));
            char buf[64];
            snprintf(buf, sizeof buf, "%.17g", val);
            os << "real:" << SoPlex::Settings::realParam.name[code] << " = " << buf << "\n";
            wr[code] = val;
         }
      }
      std::string f = path(".set");
      if(!missing) writeFile(f, "# c20 settings\n" + os.str());
      Arr<char> name(std::vector<char>(f.c_str(), f.c_str() + f.size() + 1));
      int a = -1;
      bool b = false;
      if(!both("readSettingsFile", [&] { a = SoPlex_readSettingsFile(h, name.get()); }, [&] { try { b = tw->loadSettingsFile(f.c_str()); } catch(const std::exception&) { b = false; } })) return true;
      ev().count("readset.lines", (long)(wi.size() + wb.size() + wr.size()));
      if(a != (int) b) return !bad(t, "return value differs from loadSettingsFile()");
      if((a != 0) == missing) return !bad(t, "return value does not tell whether the settings file could be read");
      if(missing) return true;
      for(auto& kv : wi)
      {
         M.expI[kv.first] = kv.second;
         if(kv.first == SoPlex::OBJSENSE) lp.sense = kv.second;
      }
      for(auto& kv : wb) M.expB[kv.first] = kv.second;
      for(auto& kv : wr)
      {
         M.expR[kv.first] = kv.second;
         if(kv.first == SoPlex::OBJ_OFFSET) lp.offset = qd(kv.second);
      }
      return true;
   }
   return false;
}

static Verdict run(const Case& c)
{
   Runner R_;
   Evidence& e = ev();
   if(opts().mode == "gen") R_.dir = opts().dir;
   else
   {
      char tmpl[] = "/var/tmp/c20-replay-XXXXXX";
      char* d = mkdtemp(tmpl);
      R_.dir = d ? d : ".";
      R_.ownDir = d != nullptr;
   }
   std::string ctext = caseText(c);
   R_.caseTextForCrash = &ctext;
   R_.create();
   int steps = 0;
   for(auto& r : c.recs)
   {
      if(r.tag == "x") continue;
      R_.threw = false;
      if(!R_.step(r) || !R_.v.ok) break;
      if(R_.threw) anchor(*R_.co, R_.M);   // an exception escaped from both calls: no claim about the state
      if(!R_.check(r.tag)) break;
      steps++;
   }
   R_.destroy();
   for(auto& f : R_.files) unlink(f.c_str());
   if(R_.ownDir && R_.dir.compare(0, 20, "/var/tmp/c20-replay-") == 0)
   {
      // the replay directory may still hold the files written by the case
      std::string cmd = "rm -rf '" + R_.dir + "'";
      if(system(cmd.c_str()) != 0) rmdir(R_.dir.c_str());
   }
   e.count("steps", steps);
   if(R_.hadRat) e.count("case.rational_entry_point");
   if(R_.modAfterAdd) e.count("case.modification_after_add");
   if(R_.solved && R_.queried) e.count("case.solve_then_queries");
   R_.v.nontrivial = R_.hadRat && R_.modAfterAdd && R_.solved && R_.queried;
   return R_.v;
}

int main(int argc, char** argv)
{
   return vfMain(argc, argv, "C20", gen, run);
}
