// stub (replaced)
#include "spx.hpp"
using namespace vf;
static void gen(Case& c) {}
static Verdict run(const Case& c) { Verdict v; return v; }
int main(int argc, char** argv) { return vfMain(argc, argv, "C20", gen, run); }
