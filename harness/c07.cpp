// c07.cpp - C07: the floating-point LP and the rational LP never drift apart.
// A case = configuration + initial SYNCMODE + start LP + a history of operations over BOTH modification interfaces of
// SoPlex (real, Rational objects, GMP mpq_t arrays), SYNCMODE switches, syncLPReal/syncLPRational, exact and float
// solves. Two exact reference LPs are kept: mq = what the rational LP must hold (rational arguments verbatim, double
// arguments as their exact binary value), mr = what the real LP holds (exact values of doubles). After EVERY operation,
// through public getters only:
//   AUTO    : rational LP == mq exactly; every real number is the double image of the mq entry (exact when representable,
//             else one of the two neighbouring doubles; |q| >= 1e100 <-> |d| >= 1e100); range types == classification of mq
//   MANUAL  : real LP == mr exactly, rational LP == mq exactly, range types follow mq; syncLPReal establishes the image
//             relation, syncLPRational makes mq the exact copy of mr
//   ONLYREAL: real LP == mr exactly; right after an exact solve the rational LP == exact copy of mr, range types too
//   always  : dimensions, OBJSENSE, OBJ_OFFSET parameter; final probe: objective offset inside both LPs seen through a solve
// Operations are decoded relative to the current dimensions (indices modulo, value pools cyclic), so removing recs keeps a
// case valid.  Preconditions respected (asserts in soplex.hpp): rational interface only while a rational LP is kept
// (SYNCMODE != ONLYREAL), lower <= upper / lhs <= rhs, GMP addRows/addCols without implicit creation, MANUAL -> AUTO and
// exact solves in MANUAL only on synchronised LPs, no solve of zero-dimensional LPs.
#include "spx.hpp"
#include "c07_model.hpp"
#include "c07_gen.hpp"

using namespace vf;
using namespace c07;
using namespace soplex;

static const char* K_SYNCSCALED = "sync-auto-copies-scaled-lp";
static const char* K_ELEMEPS = "changeelement-rational-zero-tolerance";
static const char* K_MANUALFRESH = "syncmode-manual-fresh-rational-lp";
static const char* K_CLEAROFFSET = "clearlp-resets-objective-offset";
static const char* K_XSCALED = "exact-solve-on-scaled-real-lp";
static const char* K_ADDUNDER = "rational-underflow-real-lp";
static const char* K_GMPSCALEEXP = "gmp-add-scaleexp-not-resized";
static const char* K_GMPZERO = "gmp-add-explicit-zero";

static const char* modeName(int k)
{
   return k == M_ONLYREAL ? "onlyreal" : k == M_AUTO ? "auto" : "manual";
}
static const char* ifName(int f)
{
   return f == IF_REAL ? "real" : f == IF_RAT ? "rational" : "gmp";
}

struct Cur
{
   const Rec& r;
   size_t p;
   Cur(const Rec& rr, size_t pp) : r(rr), p(pp) {}
   long i()
   {
      return r.i(p++);
   }
   Q q()
   {
      return r.q(p++);
   }
   size_t left() const
   {
      return p < r.n() ? r.n() - p : 0;
   }
};

struct Runner
{
   const Case& c;
   SoPlex sp;
   LP mq, mr;
   int mode = M_ONLYREAL;
   bool ratExists = false, synced = false;
   int sense = -1;
   Q offset = 0;
   Verdict v;
   Evidence& e;
   int step = 0;
   bool sawRatMod = false, sawRealMod = false, sawBothCmp = false, stop = false;
   bool ratOnlyThenStop = false;
   // scaleExp of the rows [0] / columns [1] is shorter than the set: in the rational LP after a GMP add (rS), in the real LP after
   // such a rational LP was copied into it by syncLPReal (lS); a regular add of the same kind repairs the length
   bool rS[2] = {false, false}, lS[2] = {false, false};

   bool clearedWithOffset = false;   // clearLP executed while the offset was non-zero (known finding K_CLEAROFFSET)
   bool trace;

   explicit Runner(const Case& cs) : c(cs), e(ev()), trace(getenv("VF_TRACE") != nullptr) {}

   std::string where(const std::string& what)
   {
      return "step " + std::to_string(step) + " (" + what + ", " + modeName(mode) + "): ";
   }
   void fail(const std::string& what, const std::string& msg)
   {
      v.fail(where(what) + msg);
   }
   // ---------------------------------------------------------------- value plumbing
   void note(int f, const Q& q)
   {
      Q a = qabs(q);
      std::string p = std::string("val.") + ifName(f) + ".";
      if(a > QINF()) e.count(p + "beyond_inf");
      else if(a == QINF()) e.count(p + "inf");
      else if(a == 0) e.count(p + "zero");
      else if(a < q2pow(-1022)) e.count(p + "tiny");
      else if(a <= Q(1e-15)) e.count(p + "near_eps");
      else if(a >= Q(1e50)) e.count(p + "huge");
      else if(!isDyadicDouble(q)) e.count(p + "nonrepresentable");
      else e.count(p + "plain");
   }
   Q cv(int f, const Q& q)
   {
      note(f, q);
      if(f != IF_REAL) return q;
      return Q(toD(q));
   }
   LP& tgt(int f)
   {
      if(mode == M_AUTO) return mq;
      if(mode == M_MANUAL) return f == IF_REAL ? mr : mq;
      return mr;
   }
   // a lower-type value must not exceed its upper counterpart in any LP the call writes to
   Q fitLE(int f, const Q& val, const Q& limT, const Q& limR)
   {
      Q lim = limT;
      if(mode == M_AUTO && f == IF_REAL && limR < lim) lim = limR;
      if(val <= lim) return val;
      e.count("clamped_to_counterpart");
      if(f == IF_REAL) return Q(floorD(lim));
      return lim;
   }
   Q fitGE(int f, const Q& val, const Q& limT, const Q& limR)
   {
      Q lim = limT;
      if(mode == M_AUTO && f == IF_REAL && limR > lim) lim = limR;
      if(val >= lim) return val;
      e.count("clamped_to_counterpart");
      if(f == IF_REAL) return Q(ceilD(lim));
      return lim;
   }
   static double dd(const Q& q)   // model value of a real-interface argument back to the double that is passed
   {
      return toD(q);
   }
   static DSVectorReal svR(const Ent& ent)
   {
      DSVectorReal s((int) ent.size() + 1);
      for(auto& x : ent) s.add(x.first, dd(x.second));
      return s;
   }
   static DSVectorRational svQ(const Ent& ent)
   {
      DSVectorRational s((int) ent.size() + 1);
      for(auto& x : ent) s.add(x.first, rq(x.second));
      return s;
   }
   // k (rawIndex value)* -> entries with distinct indices in [0, dim+ext)
   Ent readSparse(Cur& cu, int f, int dim, int ext)
   {
      int k = (int) cu.i();
      Ent ent;
      std::set<int> used;
      for(int t = 0; t < k; t++)
      {
         int raw = (int) cu.i();
         Q val = cu.q();
         if(dim + ext <= 0) continue;
         int j = raw % (dim + ext);
         if(used.count(j)) continue;
         used.insert(j);
         Q x = cv(f, val);
         if(x == 0 && f != IF_GMP) continue;   // DSVector::add drops zeros: such an entry does not exist for the callee
         ent.push_back({j, x});
      }
      return ent;
   }
   void readPair(Cur& cu, int f, Q& l, Q& u)
   {
      l = cv(f, cu.q());
      u = cv(f, cu.q());
      if(l > u) std::swap(l, u);   // only after hand edits / conversion; generated pairs are ordered
   }

   // ---------------------------------------------------------------- comparison
   bool cmpRat(const std::string& what, const LP& want)
   {
      LP got;
      long zeros = 0;
      std::string err = readRat(sp, got, sense, &zeros);
      if(zeros) e.count("obs.explicit_zero_in_rational_vector", zeros);
      if(!err.empty())
      {
         fail(what, "rational LP: " + err);
         return false;
      }
      if(got.m() != want.m() || got.n() != want.n())
      {
         fail(what, "rational LP is " + std::to_string(got.m()) + "x" + std::to_string(got.n()) + " but must be " + std::to_string(want.m()) + "x" + std::to_string(want.n()));
         return false;
      }
      for(int j = 0; j < want.n(); j++)
      {
         if(got.lo[j] != want.lo[j]) return fail(what, "lowerRational(" + std::to_string(j) + ") = " + brief(got.lo[j]) + " but entered " + brief(want.lo[j])), false;
         if(got.up[j] != want.up[j]) return fail(what, "upperRational(" + std::to_string(j) + ") = " + brief(got.up[j]) + " but entered " + brief(want.up[j])), false;
         if(got.obj[j] != want.obj[j]) return fail(what, "objRational(" + std::to_string(j) + ") = " + brief(got.obj[j]) + " but entered " + brief(want.obj[j])), false;
      }
      for(int i = 0; i < want.m(); i++)
      {
         if(got.lhs[i] != want.lhs[i]) return fail(what, "lhsRational(" + std::to_string(i) + ") = " + brief(got.lhs[i]) + " but entered " + brief(want.lhs[i])), false;
         if(got.rhs[i] != want.rhs[i]) return fail(what, "rhsRational(" + std::to_string(i) + ") = " + brief(got.rhs[i]) + " but entered " + brief(want.rhs[i])), false;
         for(int j = 0; j < want.n(); j++)
            if(got.A[i][j] != want.A[i][j])
               return fail(what, "rational coefficient (" + std::to_string(i) + "," + std::to_string(j) + ") = " + brief(got.A[i][j]) + " but entered " + brief(want.A[i][j])), false;
      }
      return true;
   }
   bool cmpTypes(const std::string& what, const LP& want)
   {
      static const char* tn[] = {"FREE", "LOWER", "UPPER", "BOXED", "FIXED"};
      int nr = SoPlexVerifAccess::numRangeTypesRows(sp), nc = SoPlexVerifAccess::numRangeTypesCols(sp);
      if(nr != want.m()) return fail(what, "range-type array of the rows has " + std::to_string(nr) + " entries for " + std::to_string(want.m()) + " rational rows"), false;
      if(nc != want.n()) return fail(what, "range-type array of the columns has " + std::to_string(nc) + " entries for " + std::to_string(want.n()) + " rational columns"), false;
      for(int i = 0; i < want.m(); i++)
      {
         int t = SoPlexVerifAccess::rowRangeType(sp, i), x = classify(want.lhs[i], want.rhs[i]);
         if(t != x) return fail(what, std::string("row range type is ") + (t >= 0 && t < 5 ? tn[t] : "?") + " but the rational sides are " + tn[x]), false;
         e.count(std::string("types.row.") + tn[x]);
      }
      for(int j = 0; j < want.n(); j++)
      {
         int t = SoPlexVerifAccess::colRangeType(sp, j), x = classify(want.lo[j], want.up[j]);
         if(t != x) return fail(what, std::string("column range type is ") + (t >= 0 && t < 5 ? tn[t] : "?") + " but the rational bounds are " + tn[x]), false;
         e.count(std::string("types.col.") + tn[x]);
      }
      return true;
   }
   bool dimReal(const std::string& what, const RealLP& rl, const LP& want)
   {
      if(rl.m != want.m() || rl.n != want.n())
      {
         fail(what, "real LP is " + std::to_string(rl.m) + "x" + std::to_string(rl.n) + " but must be " + std::to_string(want.m()) + "x" + std::to_string(want.n()));
         return false;
      }
      return true;
   }
   static std::string dstr(double d)
   {
      char b[64];
      snprintf(b, sizeof b, "%.17g", d);
      return b;
   }
   bool cmpRealExact(const std::string& what, const RealLP& rl, const LP& want)
   {
      if(!dimReal(what, rl, want)) return false;
      for(int j = 0; j < rl.n; j++)
      {
         if(!eqd(rl.lo[j], want.lo[j])) return fail(what, "lowerReal(" + std::to_string(j) + ") = " + dstr(rl.lo[j]) + " but the real LP was given " + brief(want.lo[j])), false;
         if(!eqd(rl.up[j], want.up[j])) return fail(what, "upperReal(" + std::to_string(j) + ") = " + dstr(rl.up[j]) + " but the real LP was given " + brief(want.up[j])), false;
         if(!eqd(rl.obj[j], want.obj[j])) return fail(what, "objReal(" + std::to_string(j) + ") = " + dstr(rl.obj[j]) + " but the real LP was given " + brief(want.obj[j])), false;
      }
      for(int i = 0; i < rl.m; i++)
      {
         if(!eqd(rl.lhs[i], want.lhs[i])) return fail(what, "lhsReal(" + std::to_string(i) + ") = " + dstr(rl.lhs[i]) + " but the real LP was given " + brief(want.lhs[i])), false;
         if(!eqd(rl.rhs[i], want.rhs[i])) return fail(what, "rhsReal(" + std::to_string(i) + ") = " + dstr(rl.rhs[i]) + " but the real LP was given " + brief(want.rhs[i])), false;
         for(int j = 0; j < rl.n; j++)
            if(!eqd(rl.A[i][j], want.A[i][j]))
               return fail(what, "coefReal(" + std::to_string(i) + "," + std::to_string(j) + ") = " + dstr(rl.A[i][j]) + " but the real LP was given " + brief(want.A[i][j])), false;
      }
      return true;
   }
   bool img(const std::string& what, const std::string& name, double d, const Q& q, bool& rounded)
   {
      static const char* kn[] = {"", "exact", "down", "up", "infinite"};
      int k = imageKind(d, q);
      if(k == 0)
      {
         fail(what, name + " = " + dstr(d) + " is not the floating-point image of the rational value " + brief(q));
         return false;
      }
      if(k == 2 || k == 3) rounded = true;
      e.count(std::string("image.") + kn[k]);
      return true;
   }
   bool cmpRealImage(const std::string& what, const RealLP& rl, const LP& want, bool& rounded)
   {
      if(!dimReal(what, rl, want)) return false;
      for(int j = 0; j < rl.n; j++)
      {
         if(!img(what, "lowerReal(" + std::to_string(j) + ")", rl.lo[j], want.lo[j], rounded)) return false;
         if(!img(what, "upperReal(" + std::to_string(j) + ")", rl.up[j], want.up[j], rounded)) return false;
         if(!img(what, "objReal(" + std::to_string(j) + ")", rl.obj[j], want.obj[j], rounded)) return false;
      }
      for(int i = 0; i < rl.m; i++)
      {
         if(!img(what, "lhsReal(" + std::to_string(i) + ")", rl.lhs[i], want.lhs[i], rounded)) return false;
         if(!img(what, "rhsReal(" + std::to_string(i) + ")", rl.rhs[i], want.rhs[i], rounded)) return false;
         for(int j = 0; j < rl.n; j++)
            if(!img(what, "coefReal(" + std::to_string(i) + "," + std::to_string(j) + ")", rl.A[i][j], want.A[i][j], rounded)) return false;
      }
      return true;
   }
   bool anchor(const std::string& what, const RealLP& rl)   // mr := the (verified) doubles now stored
   {
      mr.resize(rl.m, rl.n);
      auto fin = [&](double d)
      {
         return std::isfinite(d);
      };
      for(int j = 0; j < rl.n; j++)
      {
         if(!fin(rl.lo[j]) || !fin(rl.up[j]) || !fin(rl.obj[j])) return fail(what, "non-finite number in the real LP"), false;
         mr.lo[j] = Q(rl.lo[j]);
         mr.up[j] = Q(rl.up[j]);
         mr.obj[j] = Q(rl.obj[j]);
      }
      for(int i = 0; i < rl.m; i++)
      {
         if(!fin(rl.lhs[i]) || !fin(rl.rhs[i])) return fail(what, "non-finite number in the real LP"), false;
         mr.lhs[i] = Q(rl.lhs[i]);
         mr.rhs[i] = Q(rl.rhs[i]);
         for(int j = 0; j < rl.n; j++)
         {
            if(!fin(rl.A[i][j])) return fail(what, "non-finite number in the real LP"), false;
            mr.A[i][j] = Q(rl.A[i][j]);
         }
      }
      return true;
   }
   static LP exactOf(const LP& a)
   {
      return a;
   }
   static bool sameLP(const LP& a, const LP& b)
   {
      return a.lo == b.lo && a.up == b.up && a.obj == b.obj && a.lhs == b.lhs && a.rhs == b.rhs && a.A == b.A;
   }
   void observeInSync(bool expected, bool rounded)
   {
      bool s = sp.areLPsInSync(true, true, true);
      e.count(std::string("obs.areLPsInSync.") + modeName(mode) + (expected ? ".model_synced." : ".model_unsynced.") + (s ? "true" : "false")
              + (rounded ? ".rounded_entries" : ""));
      if(opts().xi("strictsync", 0) && expected && !rounded && !s) v.fail("areLPsInSync() false although both LPs match the model and no entry is rounded");
   }
   // imageStep: the real LP has just been produced from the rational one (syncLPReal)
   void compare(const std::string& what, bool imageStep = false)
   {
      if(!v.ok) return;
      int s = sp.intParam(SoPlex::OBJSENSE) == SoPlex::OBJSENSE_MAXIMIZE ? 1 : -1;
      if(s != sense) return fail(what, "OBJSENSE differs from the value set");
      if(!eqd(sp.realParam(SoPlex::OBJ_OFFSET), offset)) return fail(what, "OBJ_OFFSET differs from the value set");
      RealLP rl;
      readReal(sp, rl);
      e.count(std::string("cmp.") + modeName(mode));
      bool rounded = false;
      if(mode == M_AUTO)
      {
         if(!SoPlexVerifAccess::hasRationalLP(sp)) return fail(what, "no rational LP in SYNCMODE_AUTO");
         if(!cmpRat(what, mq) || !cmpTypes(what, mq) || !cmpRealImage(what, rl, mq, rounded) || !anchor(what, rl)) return;
         observeInSync(true, rounded);
         if(mq.m() >= 1 && mq.n() >= 1) sawBothCmp = true;
      }
      else if(mode == M_MANUAL)
      {
         if(!SoPlexVerifAccess::hasRationalLP(sp)) return fail(what, "no rational LP in SYNCMODE_MANUAL");
         if(!cmpRat(what, mq) || !cmpTypes(what, mq)) return;
         if(imageStep)
         {
            if(!cmpRealImage(what, rl, mq, rounded) || !anchor(what, rl)) return;
         }
         else if(!cmpRealExact(what, rl, mr)) return;
         observeInSync(synced, rounded);
         if(synced && mq.m() >= 1 && mq.n() >= 1) sawBothCmp = true;
      }
      else
      {
         if(!cmpRealExact(what, rl, mr)) return;
      }
   }

   // ---------------------------------------------------------------- removal plumbing
   bool validPerm(const std::vector<int>& perm, const std::vector<bool>& removed, int nNew)
   {
      std::vector<bool> hit(nNew, false);
      for(size_t i = 0; i < perm.size(); i++)
      {
         if(removed[i])
         {
            if(perm[i] >= 0) return false;
         }
         else
         {
            if(perm[i] < 0 || perm[i] >= nNew || hit[perm[i]]) return false;
            hit[perm[i]] = true;
         }
      }
      return true;
   }
   // find the order in which the survivors now appear (content match on the LP the call wrote to first)
   bool adoptRows(LP& md, const std::vector<bool>& removed, bool rat)
   {
      int om = md.m(), n = md.n();
      std::vector<int> surv;
      for(int i = 0; i < om; i++) if(!removed[i]) surv.push_back(i);
      LP got;
      RealLP rl;
      if(rat)
      {
         if(!readRat(sp, got, sense, nullptr).empty() || got.m() != (int) surv.size() || got.n() != n) return false;
      }
      else
      {
         readReal(sp, rl);
         if(rl.m != (int) surv.size() || rl.n != n) return false;
      }
      std::vector<int> perm(om, -1);
      std::vector<bool> used(om, false);
      for(int k = 0; k < (int) surv.size(); k++)
      {
         bool found = false;
         for(int o : surv)
         {
            if(used[o]) continue;
            bool same;
            if(rat)
            {
               same = got.lhs[k] == md.lhs[o] && got.rhs[k] == md.rhs[o];
               for(int j = 0; same && j < n; j++) same = got.A[k][j] == md.A[o][j];
            }
            else
            {
               same = eqd(rl.lhs[k], md.lhs[o]) && eqd(rl.rhs[k], md.rhs[o]);
               for(int j = 0; same && j < n; j++) same = eqd(rl.A[k][j], md.A[o][j]);
            }
            if(same)
            {
               used[o] = true;
               perm[o] = k;
               found = true;
               break;
            }
         }
         if(!found) return false;
      }
      md.permuteRows(perm);
      return true;
   }
   bool adoptCols(LP& md, const std::vector<bool>& removed, bool rat)
   {
      int on = md.n(), m = md.m();
      std::vector<int> surv;
      for(int j = 0; j < on; j++) if(!removed[j]) surv.push_back(j);
      LP got;
      RealLP rl;
      if(rat)
      {
         if(!readRat(sp, got, sense, nullptr).empty() || got.n() != (int) surv.size() || got.m() != m) return false;
      }
      else
      {
         readReal(sp, rl);
         if(rl.n != (int) surv.size() || rl.m != m) return false;
      }
      std::vector<int> perm(on, -1);
      std::vector<bool> used(on, false);
      for(int k = 0; k < (int) surv.size(); k++)
      {
         bool found = false;
         for(int o : surv)
         {
            if(used[o]) continue;
            bool same;
            if(rat)
            {
               same = got.lo[k] == md.lo[o] && got.up[k] == md.up[o] && got.obj[k] == md.obj[o];
               for(int i = 0; same && i < m; i++) same = got.A[i][k] == md.A[i][o];
            }
            else
            {
               same = eqd(rl.lo[k], md.lo[o]) && eqd(rl.up[k], md.up[o]) && eqd(rl.obj[k], md.obj[o]);
               for(int i = 0; same && i < m; i++) same = eqd(rl.A[i][k], md.A[i][o]);
            }
            if(same)
            {
               used[o] = true;
               perm[o] = k;
               found = true;
               break;
            }
         }
         if(!found) return false;
      }
      md.permuteCols(perm);
      return true;
   }
   // rows == true: rows, else columns. call(perm or nullptr) performs the SoPlex call.
   void removal(const std::string& op, int f, bool rows, const std::vector<bool>& removed, bool usePerm, std::function<void(int*)> call)
   {
      LP& md = tgt(f);
      int dim = rows ? md.m() : md.n();
      int nNew = 0;
      for(int i = 0; i < dim; i++) if(!removed[i]) nNew++;
      std::vector<int> perm(dim + 1, 7777);
      call(usePerm ? perm.data() : nullptr);
      bool rat = (mode == M_AUTO) || (mode == M_MANUAL && f != IF_REAL);
      if(usePerm)
      {
         perm.resize(dim);
         if(!validPerm(perm, removed, nNew)) return fail(op, "reported permutation is not an injection of the survivors onto 0..n'-1");
         if(rows) md.permuteRows(perm);
         else md.permuteCols(perm);
      }
      else if(!(rows ? adoptRows(md, removed, rat) : adoptCols(md, removed, rat)))
         return fail(op, std::string(rows ? "rows" : "columns") + " after the removal are not the survivors of the model");
   }

   // ---------------------------------------------------------------- known-finding signature
   // copying the real LP into the rational LP while the real LP is stored persistently scaled
   bool scaledCopy(const std::string& op)
   {
      if(!SoPlexVerifAccess::isRealLPScaled(sp)) return false;
      e.count("signature.real_to_rational_copy_of_scaled_lp." + op);
      if(knownKey(K_SYNCSCALED))
      {
         e.count(std::string("excluded_known.") + K_SYNCSCALED);
         return true;
      }
      return false;
   }
   // a GMP add call whose value array contains an explicit zero (known finding K_GMPZERO); true = do not issue
   bool gmpZero(const Ent& ent)
   {
      bool z = false;
      for(auto& x : ent) if(x.second == 0) z = true;
      if(!z) return false;
      e.count("signature.gmp_add_with_explicit_zero");
      if(knownKey(K_GMPZERO))
      {
         e.count(std::string("excluded_known.") + K_GMPZERO);
         e.count("op.skipped.gmp_add_zero");
         return true;
      }
      return false;
   }
   // known finding: the exact solver does not expect a persistently scaled real LP (left by an earlier float solve)
   bool scaledExact()
   {
      if(!SoPlexVerifAccess::isRealLPScaled(sp)) return false;
      e.count("signature.exact_solve_on_scaled_real_lp");
      if(knownKey(K_XSCALED))
      {
         e.count(std::string("excluded_known.") + K_XSCALED);
         return true;
      }
      return false;
   }
   // known finding K_ADDUNDER, single forms: a coefficient that underflows to 0.0 sits on a not yet existing column/row: the
   // rational LP creates it, the real LP does not
   bool underCreate(int f, const Ent& ent, int dim)
   {
      if(f == IF_REAL || mode != M_AUTO) return false;
      bool u = false;
      for(auto& x : ent) if(x.first >= dim && x.second != 0 && qabs(x.second) < q2pow(-1074)) u = true;
      if(!u) return false;
      e.count("signature.rational_add_underflowing_coefficient_creates_column_or_row");
      if(knownKey(K_ADDUNDER))
      {
         e.count(std::string("excluded_known.") + K_ADDUNDER);
         e.count("op.skipped.add_underflow");
         return true;
      }
      return false;
   }
   // known finding: LPRowSetBase/LPColSetBase::add(const S*...) (the GMP forms) do not grow scaleExp; a later removal of the same
   // kind indexes it out of bounds (heap overflow). true = do not issue the removal
   bool gmpStale(bool rows, int f)
   {
      bool touchesRat = mode == M_AUTO || (mode == M_MANUAL && f != IF_REAL);
      bool touchesReal = mode == M_AUTO || mode == M_ONLYREAL || (mode == M_MANUAL && f == IF_REAL);
      int k = rows ? 0 : 1;
      if(!((touchesRat && rS[k]) || (touchesReal && lS[k]))) return false;
      e.count("signature.removal_after_gmp_add");
      if(knownKey(K_GMPSCALEEXP))
      {
         e.count(std::string("excluded_known.") + K_GMPSCALEEXP);
         return true;
      }
      return false;
   }
   // known finding K_ADDUNDER, syncLPReal: the rational LP holds a coefficient that underflows to 0.0
   bool underSync()
   {
      bool u = false;
      for(auto& row : mq.A) for(auto& q : row) if(q != 0 && qabs(q) < q2pow(-1074)) u = true;
      if(!u) return false;
      e.count("signature.syncLPReal_with_underflowing_coefficient");
      if(knownKey(K_ADDUNDER))
      {
         e.count(std::string("excluded_known.") + K_ADDUNDER);
         return true;
      }
      return false;
   }
   static bool recExtreme(const Rec& r)   // any number beyond ~1e+-30: scaled storage may over/underflow or cross the infinity threshold
   {
      for(size_t k = 1; k < r.a.size(); k++) if(r.a[k].size() >= 30) return true;
      return false;
   }
   bool lpExtreme(const LP& lp)
   {
      Q lo = q2pow(-100), hi = q2pow(100);
      auto bad = [&](const Q & q)
      {
         Q a = qabs(q);
         return a != 0 && a < QINF() && (a < lo || a > hi);
      };
      for(auto& q : lp.lo) if(bad(q)) return true;
      for(auto& q : lp.up) if(bad(q)) return true;
      auto badCoef = [&](const Q & q)   // no infinity convention for objective and matrix coefficients
      {
         Q a = qabs(q);
         return a != 0 && (a < lo || a > hi);
      };
      for(auto& q : lp.obj) if(badCoef(q)) return true;
      for(auto& q : lp.lhs) if(bad(q)) return true;
      for(auto& q : lp.rhs) if(bad(q)) return true;
      for(auto& row : lp.A) for(auto& q : row) if(badCoef(q)) return true;
      return false;
   }

   void apply(const Rec& r);
   void applyMod(const Rec& r, const std::string& op, int f);
   void solve(bool exact);
   void switchMode(int to);
   void probe(int variant);

   Verdict run()
   {
      quiet(sp);
      sp.setIntParam(SoPlex::ITERLIMIT, 40);
      sp.setIntParam(SoPlex::REFLIMIT, 4);
      sp.setIntParam(SoPlex::STALLREFLIMIT, 2);
      sp.setRealParam(SoPlex::TIMELIMIT, 20.0);   // safety net only; never binding on these sizes
      sp.setRealParam(SoPlex::FEASTOL, 0.0);
      sp.setRealParam(SoPlex::OPTTOL, 0.0);
      std::string err;
      if(!applyParams(sp, c, &err))
      {
         v.fail(err);
         return v;
      }
      int mode0 = (int) c.geti("mode0", M_ONLYREAL), how = (int) c.geti("load", 0);
      sense = c.lp.sense == 1 ? 1 : -1;
      offset = Q(toD(c.lp.offset));
      sp.setIntParam(SoPlex::OBJSENSE, sense == 1 ? SoPlex::OBJSENSE_MAXIMIZE : SoPlex::OBJSENSE_MINIMIZE);
      sp.setRealParam(SoPlex::OBJ_OFFSET, toD(c.lp.offset));
      mr = LP();
      mq = LP();
      mr.resize(0, 0);
      mq.resize(0, 0);
      switchMode(mode0);
      LP start = c.lp;
      if(how >= 2 && mode == M_AUTO)
      {
         loadRational(sp, start, how - 2);
         e.count("load.rational");
         sawRatMod = true;
      }
      else
      {
         loadReal(sp, start, how % 2);
         e.count("load.real");
         sawRealMod = true;
      }
      {
         LP& t = tgt(how >= 2 && mode == M_AUTO ? IF_RAT : IF_REAL);
         int s0 = t.sense;
         t = start;
         t.sense = s0;
      }
      synced = false;
      compare("load");
      for(auto& r : c.recs)
      {
         if(r.tag != "op" || !v.ok || stop) continue;
         step++;
         apply(r);
      }
      v.nontrivial = sawRatMod && sawRealMod && sawBothCmp;
      return v;
   }
};

void Runner::switchMode(int to)
{
   int from = mode;
   if(to < 0 || to > 2) return;
   if(to == from)
   {
      // setIntParam(param, value, init = true): the public call re-runs the mode's set-up even for an unchanged value
      sp.setIntParam(SoPlex::SYNCMODE, to);
      e.count(std::string("switch.") + modeName(from) + "->same");
      if(to == M_ONLYREAL) ratExists = false;   // frees a rational LP left behind by an exact solve
      return;
   }
   std::string tag = std::string("switch.") + modeName(from) + "->" + modeName(to);
   if(from == M_MANUAL && to == M_AUTO && !synced)
   {
      e.count("excluded.manual_to_auto_on_unsynchronised_lps");   // nothing synchronises there; the caller is in charge in manual mode
      return;
   }
   if(from == M_ONLYREAL && to == M_AUTO && scaledCopy("mode_auto")) return;
   if(from == M_ONLYREAL && to == M_MANUAL && !ratExists)
   {
      // known finding: the fresh (empty) rational LP created on entering manual mode gets the sense but neither the objective
      // offset nor reset range-type arrays
      bool stale = SoPlexVerifAccess::numRangeTypesRows(sp) != 0 || SoPlexVerifAccess::numRangeTypesCols(sp) != 0;
      if(stale || offset != 0)
      {
         e.count(stale ? "signature.manual_entered_with_stale_range_types" : "signature.manual_entered_with_nonzero_offset");
         if(knownKey(K_MANUALFRESH))
         {
            e.count(std::string("excluded_known.") + K_MANUALFRESH);
            return;
         }
      }
   }
   bool ok = sp.setIntParam(SoPlex::SYNCMODE, to);
   e.count(tag);
   if(!ok) return fail("mode", "setIntParam(SYNCMODE) rejected a valid value");
   mode = to;
   if(to == M_ONLYREAL) ratExists = false;
   else if(from == M_ONLYREAL && to == M_AUTO)
   {
      rS[0] = lS[0];
      rS[1] = lS[1];
      mq = exactOf(mr);
      ratExists = true;
   }
   else if(from == M_ONLYREAL && to == M_MANUAL)
   {
      if(!ratExists)
      {
         mq = LP();
         mq.resize(0, 0);
         rS[0] = rS[1] = false;
      }
      else e.count("manual_entered_with_rational_lp_left_by_exact_solve");
      ratExists = true;
      synced = sameLP(mq, mr);
   }
   else if(from == M_AUTO && to == M_MANUAL) synced = true;
}

void Runner::solve(bool exact)
{
   const LP& cur = (mode == M_ONLYREAL || mode == M_MANUAL) ? mr : mq;
   std::string op = exact ? "xsolve" : "fsolve";
   if(cur.m() == 0 || cur.n() == 0)
   {
      e.count("excluded." + op + "_zero_dimensional");
      return;
   }
   if(exact && mode == M_MANUAL && !synced)
   {
      e.count("excluded.xsolve_manual_unsynchronised");
      return;
   }
   if(exact && mode == M_ONLYREAL && scaledCopy("xsolve_onlyreal")) return;
   if(exact && scaledExact()) return;
   if(((ratExists && mode != M_ONLYREAL && (rS[0] || rS[1])) || lS[0] || lS[1]))
   {
      // the solvers add and remove rows/columns of the LPs internally: same out-of-bounds scaleExp access as a removal
      e.count("signature.solve_after_gmp_add");
      if(knownKey(K_GMPSCALEEXP))
      {
         e.count(std::string("excluded_known.") + K_GMPSCALEEXP);
         return;
      }
   }
   bool scalingCfg = sp.intParam(SoPlex::SCALER) != SoPlex::SCALER_OFF && sp.boolParam(SoPlex::PERSISTENTSCALING);
   if(scalingCfg && (lpExtreme(mr) || (ratExists && lpExtreme(mq))))
   {
      e.count("excluded.solve_extreme_values_under_persistent_scaling");   // scaled storage under/overflows: not an image any more
      return;
   }
   // numbers beyond 2^+-100 (denormal scale, 1e60, 1e100 as a coefficient): the floating-point simplex is not asked to iterate on
   // such LPs (by-catch: heap under-read in SPxBoundFlippingRT::collectBreakpointsMin); a float solve is skipped, an exact solve
   // runs with ITERLIMIT 0 so that the real -> rational copy it starts with is still judged
   bool extreme = (lpExtreme(mr) || (ratExists && mode != M_ONLYREAL && lpExtreme(mq))) && !opts().xi("solveextreme", 0);
   if(extreme && !exact)
   {
      e.count("excluded.fsolve_extreme_values");
      return;
   }
   if(extreme) e.count("xsolve.extreme_values_iterlimit0");
   sp.setIntParam(SoPlex::ITERLIMIT, extreme ? 0 : 40);
   sp.setIntParam(SoPlex::SOLVEMODE, exact ? SoPlex::SOLVEMODE_RATIONAL : SoPlex::SOLVEMODE_REAL);
   int st;
   try
   {
      st = sp.optimize();
   }
   catch(const SPxException& x)
   {
      e.count("unjudged." + op + "_threw");
      stop = true;
      return;
   }
   e.count(op + "." + modeName(mode) + "." + statusName(st));
   if(SoPlexVerifAccess::isRealLPScaled(sp)) e.count("state.real_lp_scaled_after_" + op);
   compare(op);
   if(!v.ok) return;
   if(exact && mode == M_ONLYREAL)
   {
      // "in real-only mode an exact solve first copies the floating-point LP exactly"
      if(!SoPlexVerifAccess::hasRationalLP(sp)) return fail(op, "no rational LP after an exact solve");
      mq = exactOf(mr);
      ratExists = true;
      rS[0] = lS[0];
      rS[1] = lS[1];
      e.count("cmp.onlyreal_after_exact_solve");
      if(!cmpRat(op, mq) || !cmpTypes(op, mq)) return;
      if(mq.m() >= 1 && mq.n() >= 1) sawBothCmp = true;
   }
}

void Runner::probe(int variant)
{
   // the objective offset inside the two LPs has no getter: make the LP trivial and read it off the objective values
   std::string op = "probe";
   if(clearedWithOffset && knownKey(K_CLEAROFFSET))
   {
      e.count(std::string("excluded_known.") + K_CLEAROFFSET);
      return;
   }
   bool viaRat = mode == M_AUTO || (mode == M_MANUAL && variant == 0);
   if(scaledExact()) return;
   if(((viaRat ? mq.m() : mr.m()) > 0 && gmpStale(true, viaRat ? IF_RAT : IF_REAL)) || ((viaRat ? mq.n() : mr.n()) > 0 && gmpStale(false, viaRat ? IF_RAT : IF_REAL))) return;
   if(!viaRat && mode != M_AUTO && SoPlexVerifAccess::isRealLPScaled(sp) && knownKey(K_SYNCSCALED))
   {
      e.count(std::string("excluded_known.") + K_SYNCSCALED);
      return;
   }
   if(viaRat)
   {
      if(mq.m() > 0) sp.removeRowRangeRational(0, mq.m() - 1);
      if(mq.n() > 0) sp.removeColRangeRational(0, mq.n() - 1);
      DSVectorRational empty(1), one(1);
      one.add(0, Rational(1));
      sp.addColRational(LPColRational(Rational(0), empty, Rational(1), Rational(0)));
      sp.addRowRational(LPRowRational(rq(Q(-QINF())), one, Rational(1)));
      if(mode == M_MANUAL) sp.syncLPReal();
   }
   else
   {
      if(mr.m() > 0) sp.removeRowRangeReal(0, mr.m() - 1);
      if(mr.n() > 0) sp.removeColRangeReal(0, mr.n() - 1);
      DSVectorReal empty(1), one(1);
      one.add(0, 1.0);
      sp.addColReal(LPColReal(0.0, empty, 1.0, 0.0));
      sp.addRowReal(LPRowReal(-1e100, one, 1.0));
      if(mode == M_MANUAL) sp.syncLPRational();
   }
   stop = true;
   try
   {
      sp.setIntParam(SoPlex::ITERLIMIT, 40);
      sp.setIntParam(SoPlex::SOLVEMODE, SoPlex::SOLVEMODE_RATIONAL);
      int st = sp.optimize();
      if(st == Solver::OPTIMAL)
      {
         e.count("probe.exact_optimal");
         Q z = qr(sp.objValueRational());
         if(z != offset) return fail(op, "exact objective value of the LP with zero objective is " + brief(z) + " but OBJ_OFFSET is " + brief(offset) + " (offset inside the rational LP differs)");
      }
      else e.count(std::string("probe.exact_unjudged_") + statusName(st));
      sp.setIntParam(SoPlex::SOLVEMODE, SoPlex::SOLVEMODE_REAL);
      st = sp.optimize();
      if(st == Solver::OPTIMAL)
      {
         e.count("probe.float_optimal");
         double z = sp.objValueReal();
         if(!eqd(z, offset)) return fail(op, "floating-point objective value of the LP with zero objective is " + dstr(z) + " but OBJ_OFFSET is " + brief(offset) + " (offset inside the real LP differs)");
      }
      else e.count(std::string("probe.float_unjudged_") + statusName(st));
   }
   catch(const SPxException&)
   {
      e.count("unjudged.probe_threw");
   }
}

#include "c07_ops.hpp"

static void gen(Case& c)
{
   genCase(c);
}
static Verdict run(const Case& c)
{
   Runner h(c);
   return h.run();
}
int main(int argc, char** argv)
{
   return vfMain(argc, argv, "C07", gen, run);
}
