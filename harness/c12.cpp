// c12.cpp - C12 "LP/MPS files round-trip to an equivalent LP; numeric literals are read exactly".
//   --x mode=rt    write (LP|MPS) x (real|rational) x writeZeroObjective x unscale, read into a FRESH object,
//                  compare with the reference model by name, solve both
//   --x mode=lit   numeric literals: ratFromString, literals embedded in LP-format / MPS files, both read modes;
//                  --x exh=1: exhaustive enumeration of the grammar up to length 7 in `chunks` index ranges
//   --x mode=dual  writeDualFileReal -> read -> solve: same optimal value
// known-finding exclusion keys (--x known=k1,k2): writeMPS-free-row, ratFromString-exponent, real-reader-fraction,
//   writeMPS-huge-value
#include "spx.hpp"
#include "gen_lp.hpp"
#include <mpfr.h>
#include <sys/wait.h>
#include <dirent.h>
#include <signal.h>

using namespace vf;
using soplex::NameSet;
using soplex::DIdxSet;
using soplex::Rational;

// --------------------------------------------------------------------------------------------- small helpers
static bool known(const std::string& key)
{
   auto it = opts().x.find("known");
   if(it == opts().x.end()) return false;
   std::string s = "," + it->second + ",";
   return s.find("," + key + ",") != std::string::npos;
}
static std::string modeOf(const Case* c = nullptr)
{
   if(c)
   {
      const Rec* r = c->find("mode");
      if(r && r->n()) return r->s(0);
   }
   auto it = opts().x.find("mode");
   return it == opts().x.end() ? std::string("rt") : it->second;
}
static const std::vector<const char*>& scratchFiles()
{
   static std::vector<const char*> f = {"c12_rt.lp", "c12_rt.mps", "c12_lit_rat.lp", "c12_lit_rat.mps", "c12_lit_real.lp",
                                        "c12_lit_real.mps", "c12_dual.lp", "c12_dual.mps"
                                       };
   return f;
}
static std::string scratchDir()
{
   static std::string d;
   if(!d.empty()) return d;
   if(opts().mode == "replay" && opts().dir == ".")
   {
      mkdir("/var/tmp/h-c12-replay", 0777);
      // leftovers of replays that crashed (known findings include crashes): remove directories of dead processes
      if(DIR* dh = opendir("/var/tmp/h-c12-replay"))
      {
         while(dirent* de = readdir(dh))
         {
            long pid = std::strtol(de->d_name, nullptr, 10);
            if(pid <= 0 || kill((pid_t) pid, 0) == 0) continue;
            std::string old = std::string("/var/tmp/h-c12-replay/") + de->d_name;
            for(const char* f : scratchFiles()) unlink((old + "/" + f).c_str());
            rmdir(old.c_str());
         }
         closedir(dh);
      }
      d = "/var/tmp/h-c12-replay/" + std::to_string((long) getpid());
      mkdir(d.c_str(), 0777);
      atexit([]()
      {
         for(const char* f : scratchFiles()) unlink((scratchDir() + "/" + f).c_str());
         rmdir(scratchDir().c_str());
         rmdir("/var/tmp/h-c12-replay");
      });
   }
   else d = opts().dir;
   return d;
}
struct QuietCerr   // MPSInput::entryIgnored / syntaxError print to std::cerr regardless of the verbosity
{
   std::streambuf* old;
   QuietCerr() : old(std::cerr.rdbuf(nullptr)) {}
   ~QuietCerr()
   {
      std::cerr.rdbuf(old);
      std::cerr.clear();
   }
};
static void dropFile(const std::string& p)
{
   if(opts().mode == "replay") unlink(p.c_str());   // generate mode: fixed names, overwritten by the next case
}
static Q q10pow(long e)   // 10^e exactly
{
   mpz_class p;
   mpz_ui_pow_ui(p.get_mpz_t(), 10, (unsigned long)(e < 0 ? -e : e));
   Q r(p);
   return e < 0 ? Q(1 / r) : r;
}
// the correctly rounded (round-to-nearest-even) IEEE double of an exact rational, subnormals and overflow included
static double correctlyRounded(const Q& q)
{
   mpfr_exp_t emin = mpfr_get_emin(), emax = mpfr_get_emax();
   mpfr_set_emin(-1073);
   mpfr_set_emax(1024);
   mpfr_t x;
   mpfr_init2(x, 53);
   int t = mpfr_set_q(x, q.get_mpq_t(), MPFR_RNDN);
   t = mpfr_subnormalize(x, t, MPFR_RNDN);
   double d = mpfr_get_d(x, MPFR_RNDN);
   mpfr_clear(x);
   mpfr_set_emin(emin);
   mpfr_set_emax(emax);
   return d;
}
static Q canon(const Q& q)
{
   Q c = q;
   c.canonicalize();
   return c;
}
static bool isPow2Ratio(const Q& a, const Q& b)   // a / b = 2^k ?
{
   if(a == 0 || b == 0) return a == 0 && b == 0;
   Q r = canon(a / b);
   if(r < 0) return false;
   const mpz_class& n = r.get_num();
   const mpz_class& d = r.get_den();
   return mpz_popcount(n.get_mpz_t()) == 1 && mpz_popcount(d.get_mpz_t()) == 1;
}
static int sgn(const Q& q)
{
   return q > 0 ? 1 : (q < 0 ? -1 : 0);
}

// ============================================================================================= mode = rt
// recs:  variant <fmt 0 LP|1 MPS> <arith 0 real|1 rational> <wzo> <unscaleFlag> <scaler 0..6>
//        cname <j> <name>   rname <i> <name>   intvar <j>   load <how>
static std::string genName(char first, std::set<std::string>& used, bool isRow)
{
   static const char* alpha = "abcdefghijklmnopqrstuvwxyzABCDEFGHIJKLMNOPQRSTUVWXYZ0123456789_";
   int len = R(0, 6);
   std::string s(1, first);
   for(int k = 0; k < len; k++) s += alpha[R(0, 62)];
   // uniqueness by construction (deterministic repair, no discards); for rows also against the "_1"/"_2" suffixes
   // the LP writer appends to split ranged rows
   auto clash = [&](const std::string & t)
   {
      if(used.count(t)) return true;
      if(isRow && (used.count(t + "_1") || used.count(t + "_2"))) return true;
      if(isRow && t.size() > 2 && (t.substr(t.size() - 2) == "_1" || t.substr(t.size() - 2) == "_2")
            && used.count(t.substr(0, t.size() - 2))) return true;
      return false;
   };
   int ctr = 0;
   while(clash(s))
   {
      s = std::string(1, first) + "Q" + std::to_string(ctr++) + "z";
   }
   used.insert(s);
   return s;
}

// positive rational row / column factors: feasible set, status and optimal value are unchanged
static void applyRatScaling(LP& lp)
{
   static const char* fac[] = {"1/3", "2/3", "3/7", "5", "1/10", "7/5", "1/9", "11/13", "3", "1/1000", "22/7", "1"};
   int m = lp.m(), n = lp.n();
   for(int i = 0; i < m; i++)
   {
      if(!P(60)) continue;
      Q f = qparse(fac[R(0, 11)]);
      if(isFin(lp.lhs[i])) lp.lhs[i] *= f;
      if(isFin(lp.rhs[i])) lp.rhs[i] *= f;
      for(int j = 0; j < n; j++) if(lp.A[i][j] != 0) lp.A[i][j] *= f;
   }
   for(int j = 0; j < n; j++)
   {
      if(!P(60)) continue;
      Q f = qparse(fac[R(0, 11)]);      // x'_j = x_j / f
      if(isFin(lp.lo[j])) lp.lo[j] /= f;
      if(isFin(lp.up[j])) lp.up[j] /= f;
      lp.obj[j] *= f;
      for(int i = 0; i < m; i++) if(lp.A[i][j] != 0) lp.A[i][j] *= f;
   }
}

// positive row / objective factors with 30 significant bits (real variants): same feasible set, optimum scaled with the
// objective factor. They make the data need 17 significant digits in a file. Applied only where every product is
// still exactly representable as a double (deterministic skip, no discard).
static void applyBitRichScaling(LP& lp, Planted& pl)
{
   auto factor = []()
   {
      return Q(Q((1L << 29) + 2L * R(0, (1 << 28) - 1) + 1) / Q(1L << 29));
   };
   auto okd = [](const Q & q)
   {
      return !isFin(q) || isDyadicDouble(q);
   };
   int m = lp.m(), n = lp.n();
   for(int i = 0; i < m; i++)
   {
      if(!P(60)) continue;
      Q f = factor();
      bool ok = okd(isFin(lp.lhs[i]) ? Q(lp.lhs[i] * f) : lp.lhs[i]) && okd(isFin(lp.rhs[i]) ? Q(lp.rhs[i] * f) : lp.rhs[i]);
      for(int j = 0; j < n && ok; j++) ok = okd(Q(lp.A[i][j] * f));
      if(!ok) continue;
      if(isFin(lp.lhs[i])) lp.lhs[i] *= f;
      if(isFin(lp.rhs[i])) lp.rhs[i] *= f;
      for(int j = 0; j < n; j++) lp.A[i][j] *= f;
   }
   if(P(50))
   {
      Q g = factor();
      bool ok = true;
      for(int j = 0; j < n && ok; j++) ok = okd(Q(lp.obj[j] * g));
      if(ok)
      {
         for(int j = 0; j < n; j++) lp.obj[j] *= g;
         pl.z = g * (pl.z - lp.offset) + lp.offset;
      }
   }
}

static void genRt(Case& c)
{
   int fmt = R(0, 1), arith = R(0, 1), wzo = R(0, 1), unscale = 0, scaler = 0;
   if(arith == 0)
   {
      unscale = R(0, 1);
      if(P(60)) scaler = R(1, 6);
   }
   c.recs.push_back(Rec("mode").add("rt"));
   c.recs.push_back(Rec("variant").add(fmt).add(arith).add(wzo).add(unscale).add(scaler));
   GenOpt g;
   g.maxM = g.maxN = (int) opts().xi("maxdim", 10);
   g.scaleExp = (arith == 0 && P(30)) ? R(1, 10) : 0;
   int cls = 1 + W({55, 15, 15, 15});
   LP& lp = c.lp;
   genPlantedLP(g, cls, lp, c.pl);
   if(arith == 1)
   {
      // exact solves report the objective value without OBJ_OFFSET (observation, not C12's business): no offset here
      c.pl.z -= lp.offset;
      lp.offset = 0;
   }
   bool noFreeRow = fmt == 1 && known("writeMPS-free-row");
   // ---- post-processing: free rows, empty rows, empty columns, zero objective (none changes status or optimum,
   //      except the zero objective whose effect on the planted class is computed below)
   if(P(35) && !noFreeRow)
   {
      lp.addRow(Q(-QINF()), QINF());
      for(int j = 0; j < lp.n(); j++) if(P(50)) lp.A[lp.m() - 1][j] = NZ(9);
   }
   if(P(30))
   {
      int k = W({20, 20, 20, 25, 15});
      if(k == 4 && noFreeRow) k = 0;
      switch(k)
      {
      case 0: lp.addRow(Q(-QINF()), Q(R(0, 9))); break;
      case 1: lp.addRow(Q(-R(0, 9)), QINF()); break;
      case 2: lp.addRow(Q(0), Q(0)); break;
      case 3: lp.addRow(Q(-R(0, 9)), Q(R(1, 9))); break;
      default: lp.addRow(Q(-QINF()), QINF());
      }
   }
   if(P(35))
   {
      switch(W({40, 10, 10, 10, 10, 10, 10}))
      {
      case 0: lp.addCol(Q(0), QINF(), Q(0)); break;            // the column that the writers drop
      case 1: lp.addCol(Q(0), Q(R(1, 9)), Q(0)); break;
      case 2: lp.addCol(Q(NZ(9)), QINF(), Q(0)); break;
      case 3: lp.addCol(Q(-QINF()), Q(R(-9, 9)), Q(0)); break;
      case 4: lp.addCol(Q(-QINF()), QINF(), Q(0)); break;
      case 5: { int x = R(-9, 9); lp.addCol(Q(x), Q(x), Q(0)); break; }
      default: { int x = R(-9, 9); lp.addCol(Q(x), Q(x + R(1, 9)), Q(0)); }
      }
   }
   if(noFreeRow)
   {
      // the MPS writer refuses free rows (known finding): remove them (a free row never changes the LP's class)
      std::vector<int> perm(lp.m());
      int k = 0, nfree = 0;
      for(int i = 0; i < lp.m(); i++)
      {
         bool fr = isNInf(lp.lhs[i]) && isPInf(lp.rhs[i]);
         perm[i] = fr ? -1 : k++;
         nfree += fr;
      }
      if(nfree)
      {
         ev().count("excluded_known.writeMPS-free-row");
         if(k == 0)
         {
            perm[0] = 0;
            lp.rhs[0] = 5;
            for(int j = 0; j < lp.n(); j++) lp.A[0][j] = 0;
         }
         lp.permuteRows(perm);
      }
   }
   if(P(15))
   {
      for(auto& v : lp.obj) v = 0;
      if(c.pl.cls == CL_OPT || c.pl.cls == CL_UNB) c.pl.cls = CL_OPT;
      else c.pl.cls = CL_INF;
      c.pl.z = lp.offset;
   }
   if(known("empty-column-bounds") && !wzo)
   {
      // known finding: a column without coefficient and cost is not written, its BOUNDS record is then ignored by the
      // readers. With the key such a column gets the default bounds (it is in no row and costs nothing: same optimum).
      for(int j = 0; j < lp.n(); j++)
      {
         bool hasCoef = false;
         for(int i = 0; i < lp.m(); i++) if(lp.A[i][j] != 0) hasCoef = true;
         if(!hasCoef && lp.obj[j] == 0 && (lp.lo[j] != 0 || !isPInf(lp.up[j])))
         {
            lp.lo[j] = 0;
            lp.up[j] = QINF();
            ev().count("excluded_known.empty-column-bounds");
         }
      }
   }
   if(arith == 1 && P(60)) applyRatScaling(lp);
   if(arith == 0 && P(40)) applyBitRichScaling(lp, c.pl);
   c.pl.x.clear();
   c.pl.y.clear();
   c.pl.d.clear();
   c.pl.ray.clear();
   c.pl.fark.clear();
   if(P(50))
   {
      std::set<std::string> used;
      for(int j = 0; j < lp.n(); j++) c.recs.push_back(Rec("cname").add(j).add(genName('v', used, false)));
      used.clear();
      for(int i = 0; i < lp.m(); i++) c.recs.push_back(Rec("rname").add(i).add(genName('r', used, true)));
   }
   if(P(40))
      for(int j = 0; j < lp.n(); j++) if(P(40))
         {
            // known finding: the real MPS writer prints "UP <1e100 with %.15f>" for an integer column with infinite upper
            // bound into an 81 byte buffer; the truncated number is read back as a finite bound ~1e69
            if(fmt == 1 && arith == 0 && known("writeMPS-huge-value") && isPInf(lp.up[j]) && !isNInf(lp.lo[j]))
            {
               ev().count("excluded_known.writeMPS-huge-value");
               continue;
            }
            c.recs.push_back(Rec("intvar").add(j));
         }
   c.recs.push_back(Rec("load").add(R(0, 1)));
}

struct RtNames
{
   bool user = false;
   std::vector<std::string> col, row;
   std::vector<char> isInt;
   bool anyInt = false;
};
static RtNames namesOf(const Case& c)
{
   RtNames nm;
   int m = c.lp.m(), n = c.lp.n();
   nm.col.resize(n);
   nm.row.resize(m);
   nm.isInt.assign(n, 0);
   // default names: the writers' own convention ("x%d" / "C%d", see getColName / LPFgetRowName / MPSgetRowName)
   for(int j = 0; j < n; j++) nm.col[j] = "x" + std::to_string(j);
   for(int i = 0; i < m; i++) nm.row[i] = "C" + std::to_string(i);
   for(auto& r : c.recs)
   {
      if(r.tag == "cname" && r.i(0) >= 0 && r.i(0) < n)
      {
         nm.col[r.i(0)] = r.s(1);
         nm.user = true;
      }
      else if(r.tag == "rname" && r.i(0) >= 0 && r.i(0) < m)
      {
         nm.row[r.i(0)] = r.s(1);
         nm.user = true;
      }
      else if(r.tag == "intvar" && r.i(0) >= 0 && r.i(0) < n)
      {
         nm.isInt[r.i(0)] = 1;
         nm.anyInt = true;
      }
   }
   return nm;
}

static int statusClass(int st)   // 1 optimal, 2 infeasible, 3 unbounded, 4 inf-or-unbd, 0 other
{
   switch(st)
   {
   case Solver::OPTIMAL: return 1;
   case Solver::INFEASIBLE: return 2;
   case Solver::UNBOUNDED: return 3;
   case Solver::INForUNBD: return 4;
   }
   return 0;
}
static bool classCompatible(int a, int b)   // two solver verdicts that can both be right for the same LP
{
   if(a == b) return true;
   if(a == 4) return b == 2 || b == 3;
   if(b == 4) return a == 2 || a == 3;
   return false;
}
static bool classMatchesPlanted(int sc, int planted)
{
   switch(planted)
   {
   case CL_OPT: return sc == 1;
   case CL_INF: return sc == 2 || sc == 4;
   case CL_UNB: return sc == 3 || sc == 4;
   case CL_INFUNB: return sc == 2 || sc == 3 || sc == 4;
   }
   return true;
}
static void setExact(SoPlex& sp)
{
   sp.setIntParam(SoPlex::SYNCMODE, SoPlex::SYNCMODE_AUTO);
   sp.setIntParam(SoPlex::READMODE, SoPlex::READMODE_RATIONAL);
   sp.setIntParam(SoPlex::SOLVEMODE, SoPlex::SOLVEMODE_RATIONAL);
   sp.setIntParam(SoPlex::CHECKMODE, SoPlex::CHECKMODE_RATIONAL);
   sp.setRealParam(SoPlex::FEASTOL, 0.0);
   sp.setRealParam(SoPlex::OPTTOL, 0.0);
}
struct SolveRes
{
   int st = 0, sc = 0;
   Q obj = 0;
   bool threw = false;
   std::string what;
};
static SolveRes solveIt(SoPlex& sp, bool exact)
{
   SolveRes r;
   try
   {
      r.st = sp.optimize();
   }
   catch(const soplex::SPxException& x)
   {
      r.threw = true;
      r.what = x.what();
      return r;
   }
   r.sc = statusClass(r.st);
   if(r.sc == 1)
   {
      if(exact) r.obj = canon(qr(sp.objValueRational()));
      else
      {
         double d = sp.objValueReal();
         r.obj = std::isfinite(d) ? Q(d) : Q(0);
      }
   }
   return r;
}

static Verdict runRt(const Case& c)
{
   Verdict v;
   Evidence& e = ev();
   const LP& lp = c.lp;
   const Rec* vr = c.find("variant");
   int fmt = vr ? (int) vr->i(0) : 0, arith = vr ? (int) vr->i(1) : 0, wzo = vr ? (int) vr->i(2) : 0,
       unscale = vr ? (int) vr->i(3) : 0, scaler = vr ? (int) vr->i(4) : 0;
   if(arith == 1)
   {
      unscale = 0;
      scaler = 0;
   }
   int m = lp.m(), n = lp.n();
   RtNames nm = namesOf(c);
   std::string tag = std::string(fmt ? "mps" : "lp") + "." + (arith ? "rational" : "real");
   e.count("rt.variant." + tag + ".wzo" + std::to_string(wzo) + (arith ? "" : (std::string(".unscale") + std::to_string(unscale) + (scaler ? ".scaled" : ".plain"))));
   e.count(std::string("rt.class.") + className(c.pl.cls));
   e.count(nm.user ? "rt.names.user" : "rt.names.default");
   if(nm.anyInt) e.count("rt.intmarkers");
   int nRanged = 0, nFree = 0, nEmptyRow = 0, nEmptyCol = 0, nNonDefBound = 0;
   bool zeroObj = true;
   for(int i = 0; i < m; i++)
   {
      if(isFin(lp.lhs[i]) && isFin(lp.rhs[i]) && lp.lhs[i] != lp.rhs[i]) nRanged++;
      if(!isFin(lp.lhs[i]) && !isFin(lp.rhs[i])) nFree++;
      bool emp = true;
      for(int j = 0; j < n; j++) if(lp.A[i][j] != 0) emp = false;
      nEmptyRow += emp;
   }
   for(int j = 0; j < n; j++)
   {
      bool emp = true;
      for(int i = 0; i < m; i++) if(lp.A[i][j] != 0) emp = false;
      nEmptyCol += emp;
      if(lp.lo[j] != 0 || !isPInf(lp.up[j])) nNonDefBound++;
      if(lp.obj[j] != 0) zeroObj = false;
   }
   if(nRanged) e.count("rt.has.ranged_row");
   if(nFree) e.count("rt.has.free_row");
   if(nEmptyRow) e.count("rt.has.empty_row");
   if(nEmptyCol) e.count("rt.has.empty_col");
   if(zeroObj) e.count("rt.has.zero_objective");
   if(lp.sense == 1) e.count("rt.has.maximize");

   // ---- the writing object
   SoPlex A;
   quiet(A);
   if(arith == 1) setExact(A);
   bool scaledInside = false;
   SolveRes origRes;
   bool haveOrig = false;
   if(arith == 0)
   {
      if(scaler)
      {
         A.setIntParam(SoPlex::SCALER, scaler);
         A.setBoolParam(SoPlex::PERSISTENTSCALING, true);
      }
      loadReal(A, lp, (int) c.geti("load"));
      if(scaler)
      {
         // one solve so that the LP held inside is really the (persistently) scaled one
         origRes = solveIt(A, false);
         haveOrig = !origRes.threw;
         scaledInside = true;
      }
   }
   else
   {
      A.setRealParam(SoPlex::OBJ_OFFSET, D(lp.offset));
      loadRational(A, lp, (int) c.geti("load"));
   }
   NameSet wrn, wcn;
   DIdxSet wiv;
   if(nm.user)
   {
      for(int j = 0; j < n; j++) wcn.add(nm.col[j].c_str());
      for(int i = 0; i < m; i++) wrn.add(nm.row[i].c_str());
   }
   for(int j = 0; j < n; j++) if(nm.isInt[j]) wiv.addIdx(j);
   std::string fname = scratchDir() + "/c12_rt" + (fmt ? ".mps" : ".lp");
   unlink(fname.c_str());
   try
   {
      bool ok;
      if(arith == 0) ok = A.writeFile(fname.c_str(), nm.user ? &wrn : nullptr, nm.user ? &wcn : nullptr, nm.anyInt ? &wiv : nullptr, unscale != 0, wzo != 0);
      else ok = A.writeFileRational(fname.c_str(), nm.user ? &wrn : nullptr, nm.user ? &wcn : nullptr, nm.anyInt ? &wiv : nullptr, wzo != 0);
      if(!ok)
      {
         v.fail("writer returned false");
         return v;
      }
   }
   catch(const soplex::SPxInternalCodeException& x)
   {
      std::string w = x.what();
      e.count("rt.refusal." + w.substr(0, w.find(' ')));
      if(fmt == 1 && nFree > 0 && w.find("XMPSWR02") != std::string::npos)
         v.fail("writeMPS refused an LP with a free row: " + w);
      return v;
   }
   catch(const soplex::SPxException& x)
   {
      std::string w = x.what();
      e.count("rt.refusal.other");
      v.fail("writer threw: " + w);
      return v;
   }

   // ---- read into a fresh object
   SoPlex B;
   quiet(B);
   if(arith == 1) setExact(B);
   else B.setIntParam(SoPlex::READMODE, SoPlex::READMODE_REAL);
   // the objective offset is not part of either file format: it is the parameter OBJ_OFFSET, which _readFileReal /
   // _readFileRational re-apply after every read ("changeObjOffset(realParam(OBJ_OFFSET))", soplex.hpp)
   B.setRealParam(SoPlex::OBJ_OFFSET, D(lp.offset));
   NameSet rn, cn;
   DIdxSet iv;
   bool rok = false;
   try
   {
      QuietCerr qc;
      rok = B.readFile(fname.c_str(), &rn, &cn, &iv);
   }
   catch(const std::exception& x)
   {
      v.fail(std::string("reader threw on a file written by the writer: ") + x.what());
      return v;
   }
   catch(const soplex::SPxException& x)
   {
      v.fail(std::string("reader threw on a file written by the writer: ") + x.what().c_str());
      return v;
   }
   if(!rok)
   {
      v.fail("reader rejected a file written by the writer (" + tag + ")");
      return v;
   }

   // ---- expected model, by name, after the documented normalisations
   // kind of numeric comparison
   enum { EXACT, MPSTOL, SCALED, PATTERN } cmp = EXACT;
   bool scaledFile = arith == 0 && scaledInside && !unscale;   // the file holds the scaled LP (documented: "unscale")
   if(scaledFile) cmp = fmt ? PATTERN : SCALED;
   // real MPS: MPSwriteRecord prints with "%.15" SOPLEX_REAL_FORMAT ("%.15lf") -> 15 decimals, then atof
   else if(arith == 0 && fmt == 1) cmp = MPSTOL;
   // real LP format: writeLPF calls SPxOut::setScientific(p_output, 16) = 17 significant digits -> atof gives the
   // identical double; rational writers print p/q -> exactly equal
   if(scaledFile) e.count("rt.file_holds_scaled_lp");
   Q eps15("1/1000000000000000");
   auto tolOf = [&](const Q & x)
   {
      return Q(eps15 + q2pow(-52) * qabs(x));
   };
   bool reallyScaled = false;
   auto same = [&](const Q & ex, const Q & got, const Q * tolOverride = nullptr) -> bool
   {
      if(isPInf(ex)) return isPInf(got);
      if(isNInf(ex)) return isNInf(got);
      if(!isFin(got)) return false;
      switch(cmp)
      {
      case EXACT: return ex == got;
      case MPSTOL: return qabs(ex - got) <= (tolOverride ? *tolOverride : tolOf(ex));
      case SCALED: if(ex != got) reallyScaled = true; return sgn(ex) == sgn(got) && isPow2Ratio(got, ex);
      default: if(ex != got) reallyScaled = true; return sgn(ex) == sgn(got);
      }
   };
   auto getQ = [&](double d) { return qd(d); };
   auto getR = [&](const Rational & r)
   {
      Q q = canon(qr(r));
      if(q >= QINF()) return Q(QINF());
      if(q <= -QINF()) return Q(-QINF());
      return q;
   };
   int nB = B.numCols(), mB = B.numRows();
   if(arith == 1 && (B.numColsRational() != nB || B.numRowsRational() != mB))
   {
      v.fail("rational and real LP sizes differ after reading");
      return v;
   }
   if(cn.num() != nB || rn.num() != mB)
   {
      v.fail("name sets returned by readFile do not match the LP size");
      return v;
   }
   // columns
   // "present": a column appears in a file iff it has a coefficient or a non-zero cost, or writeZeroObjective is set
   // (LPFwriteSVector skips zero coefficients unless writeZeroCoefficients; writeMPS writes the cost record only
   // "if(isNotZero(maxObj(i)) || writeZeroObjective)"). A column that does not appear and has default bounds 0..inf
   // ("the default bounds 0 <= x <= infinity are not written") is legitimately absent after reading.
   std::vector<int> colOf(n, -1);
   int expectCols = 0;
   // MPS: a maximisation is written as minimisation of -c ("XMPSWR03 Warning: objective function inverted when
   // writing maximization problem in MPS file format"; cost record is "-maxObj(i)", ROWS has "N MINIMIZE", no OBJSENSE
   // section), so the reader reports MINIMIZE and cost -c.
   bool flipped = fmt == 1 && lp.sense == 1;
   int gotSense = B.intParam(SoPlex::OBJSENSE) == SoPlex::OBJSENSE_MAXIMIZE ? 1 : -1;
   int expSense = fmt == 1 ? -1 : lp.sense;
   if(gotSense != expSense)
   {
      v.fail(std::string("objective sense after reading differs (") + tag + ")");
      return v;
   }
   for(int j = 0; j < n; j++)
   {
      bool hasCoef = false;
      for(int i = 0; i < m; i++) if(lp.A[i][j] != 0) hasCoef = true;
      bool present = hasCoef || lp.obj[j] != 0 || wzo;
      bool defBounds = lp.lo[j] == 0 && isPInf(lp.up[j]);
      int idx = cn.number(nm.col[j].c_str());
      if(idx < 0)
      {
         if(!present && defBounds)
         {
            e.count("rt.column_legitimately_absent");
            continue;
         }
         if(!present)
         {
            v.fail("column without coefficient and cost but with non-default bounds is missing after reading (" + tag + ")");
            return v;
         }
         v.fail("column missing after reading (" + tag + ")");
         return v;
      }
      colOf[j] = idx;
      expectCols++;
      Q lo, up, ob;
      if(arith == 0)
      {
         lo = getQ(B.lowerReal(idx));
         up = getQ(B.upperReal(idx));
         ob = getQ(B.objReal(idx));
      }
      else
      {
         lo = getR(B.lowerRational(idx));
         up = getR(B.upperRational(idx));
         ob = getR(B.objRational(idx));
      }
      Q eob = flipped ? Q(-lp.obj[j]) : lp.obj[j];
      if(!same(lp.lo[j], lo))
      {
         v.fail("lower bound differs after reading (" + tag + ")");
         return v;
      }
      if(!same(lp.up[j], up))
      {
         // real MPS: integer columns always get an UP record, also for an infinite bound (see findings)
         v.fail(std::string("upper bound differs after reading (") + tag + (nm.isInt[j] && isPInf(lp.up[j]) ? ", integer column with infinite upper bound)" : ")"));
         return v;
      }
      if(!same(eob, ob))
      {
         v.fail("objective coefficient differs after reading (" + tag + ")");
         return v;
      }
      if(cmp == SCALED && isFin(lp.lo[j]) && lp.lo[j] != 0 && lp.obj[j] != 0 && lo * ob != lp.lo[j] * eob)
      {
         v.fail("scaled file: bound and cost of a column are scaled inconsistently");
         return v;
      }
      // known finding: the MPS readers test "field1()[1] == 'I'" for the integer bound types LI/UI, which also matches MI
      bool miRecord = fmt == 1 && isNInf(lp.lo[j]) && !isPInf(lp.up[j]);
      if(miRecord && known("mps-MI-bound-integer")) e.count("excluded_known.mps-MI-bound-integer");
      else if((iv.pos(idx) >= 0) != (nm.isInt[j] != 0))
      {
         v.fail("integer marker differs after reading (" + tag + ")");
         return v;
      }
   }
   if(nB != expectCols)
   {
      v.fail("number of columns after reading differs (" + tag + ")");
      return v;
   }
   // rows. LP format has no ranged rows: LPFwriteRows ("ranged row -> write two non-ranged rows") writes
   // "<name>_1 : a x >= lhs" and "<name>_2 : a x <= rhs". MPS keeps the row: type E, RHS = lhs ("This includes ranges"),
   // RANGES value rhs - lhs > 0, which the reader turns into [rhs, rhs + range] ("E + rhs rhs + range").
   struct ERow
   {
      std::string name;
      int src;
      Q lhs, rhs;
      bool mpsRange;
   };
   std::vector<ERow> erows;
   for(int i = 0; i < m; i++)
   {
      bool ranged = isFin(lp.lhs[i]) && isFin(lp.rhs[i]) && lp.lhs[i] != lp.rhs[i];
      if(ranged && fmt == 0)
      {
         erows.push_back({nm.row[i] + "_1", i, lp.lhs[i], QINF(), false});
         erows.push_back({nm.row[i] + "_2", i, Q(-QINF()), lp.rhs[i], false});
      }
      else erows.push_back({nm.row[i], i, lp.lhs[i], lp.rhs[i], ranged});
   }
   if(mB != (int) erows.size())
   {
      v.fail("number of rows after reading differs (" + tag + ")");
      return v;
   }
   for(auto& er : erows)
   {
      int idx = rn.number(er.name.c_str());
      if(idx < 0)
      {
         v.fail("row missing after reading (" + tag + ")");
         return v;
      }
      Q lh, rh;
      if(arith == 0)
      {
         lh = getQ(B.lhsReal(idx));
         rh = getQ(B.rhsReal(idx));
      }
      else
      {
         lh = getR(B.lhsRational(idx));
         rh = getR(B.rhsRational(idx));
      }
      if(!same(er.lhs, lh))
      {
         v.fail("left-hand side differs after reading (" + tag + ")");
         return v;
      }
      // real MPS range: rhs is recomputed as printed(lhs) + printed(rhs - lhs) in double arithmetic
      Q rtol = Q(4 * eps15 + q2pow(-50) * (qabs(er.lhs) + qabs(er.rhs)));
      if(!same(er.rhs, rh, er.mpsRange ? &rtol : nullptr))
      {
         v.fail("right-hand side differs after reading (" + tag + ")");
         return v;
      }
      if(cmp == SCALED && isFin(er.lhs) && isFin(er.rhs) && er.lhs != 0 && er.rhs != 0 && lh * er.rhs != rh * er.lhs)
      {
         v.fail("scaled file: the two sides of a row are scaled inconsistently");
         return v;
      }
      int seen = 0;
      for(int j = 0; j < n; j++)
      {
         const Q& a = lp.A[er.src][j];
         if(colOf[j] < 0) continue;   // absent columns have no coefficients
         Q g;
         if(arith == 0) g = getQ(B.coefReal(idx, colOf[j]));
         else g = getR(B.rowVectorRational(idx)[colOf[j]]);
         if(g != 0) seen++;
         if(a == 0 ? g != 0 : !same(a, g))
         {
            v.fail("matrix coefficient differs after reading (" + tag + ")");
            return v;
         }
      }
      int sz = arith == 0 ? 0 : B.rowVectorRational(idx).size();
      if(arith == 1 && sz != seen)
      {
         v.fail("row has additional entries after reading (" + tag + ")");
         return v;
      }
   }

   if(reallyScaled) e.count("rt.scaled_file_differs_from_original");
   // ---- solve both
   bool exact = arith == 1;
   if(!haveOrig)
   {
      SoPlex S;
      quiet(S);
      if(exact)
      {
         setExact(S);
         S.setRealParam(SoPlex::OBJ_OFFSET, D(lp.offset));
         loadRational(S, lp, 0);
      }
      else loadReal(S, lp, 0);
      origRes = solveIt(S, exact);
   }
   SolveRes rr = solveIt(B, exact);
   if(origRes.threw || rr.threw)
   {
      e.count("rt.solve.threw");
      if(exact) v.fail("exact solve threw: " + (origRes.threw ? origRes.what : rr.what));
      return v;
   }
   e.count(std::string("rt.status.orig.") + statusName(origRes.st));
   e.count(std::string("rt.status.reread.") + statusName(rr.st));
   int planted = c.pl.cls;
   auto closeEnough = [&](const Q & a, const Q & b)
   {
      if(exact) return a == b;
      Q sc = std::max(Q(1), std::max(qabs(a), qabs(b)));
      return qabs(a - b) <= sc / 1000000;
   };
   // 0 agree, 1 unjudged status, 2 differ, 3 exact solve contradicts planted, 4 original solve wrong, 5 both off planted
   auto judge = [&](const SolveRes & o, const SolveRes & r) -> int
   {
      // optimum of the reread LP in the original LP's terms (MPS of a maximisation: min -c x + off)
      Q zr = flipped ? Q(2 * lp.offset - r.obj) : r.obj;
      if(o.sc == 0 || r.sc == 0) return 1;
      bool agree = classCompatible(o.sc, r.sc) && (o.sc != 1 || r.sc != 1 || closeEnough(o.obj, zr));
      bool rereadOk = classMatchesPlanted(r.sc, planted) && (r.sc != 1 || planted != CL_OPT || closeEnough(c.pl.z, zr));
      bool origOk = classMatchesPlanted(o.sc, planted) && (o.sc != 1 || planted != CL_OPT || closeEnough(c.pl.z, o.obj));
      if(!agree) return (rereadOk && !origOk) ? 4 : 2;
      if(!rereadOk) return exact ? 3 : 5;
      return 0;
   };
   int jd = judge(origRes, rr);
   if(!exact && (jd == 2 || jd == 5))
   {
      // floating-point solves: before blaming the files, repeat both solves without the simplifier in fresh objects;
      // a disagreement that disappears is the solver's (C01/C02), not the writers' / readers'
      SoPlex S2, B2;
      quiet(S2);
      quiet(B2);
      S2.setIntParam(SoPlex::SIMPLIFIER, SoPlex::SIMPLIFIER_OFF);
      B2.setIntParam(SoPlex::SIMPLIFIER, SoPlex::SIMPLIFIER_OFF);
      B2.setRealParam(SoPlex::OBJ_OFFSET, D(lp.offset));
      loadReal(S2, lp, 0);
      bool ok2 = false;
      {
         QuietCerr qc;
         ok2 = B2.readFile(fname.c_str(), nullptr, nullptr, nullptr);
      }
      if(ok2)
      {
         SolveRes o2 = solveIt(S2, false), r2 = solveIt(B2, false);
         if(!o2.threw && !r2.threw && judge(o2, r2) == 0)
         {
            e.count("rt.solve.solver_disagreement_gone_without_simplifier(not C12)");
            jd = 0;
         }
      }
   }
   switch(jd)
   {
   case 0: e.count("rt.solve.agree"); break;
   case 1: e.count("rt.solve.unjudged_status"); break;
   case 2:
      v.fail("solving the reread LP gives a different status class or optimum than the original (" + tag + ")");
      return v;
   case 3:
      v.fail("exact solve of the reread LP contradicts the planted optimum (" + tag + ")");
      return v;
   case 4: e.count("rt.solve.original_disagrees_with_planted(not C12)"); break;
   default: e.count("rt.solve.both_disagree_with_planted(not C12)");
   }
   dropFile(fname);
   v.nontrivial = n >= 2 && (nRanged > 0 || nNonDefBound > 0);
   return v;
}

// ============================================================================================= mode = lit
struct Lit
{
   std::string s;
   bool frac = false, hasExp = false, hasFracPart = false;
   long expv = 0;
   Q val;
};
static bool isDig(char ch)
{
   return ch >= '0' && ch <= '9';
}
// our own reading of the literal grammar:  sign? digits? (. digits)? ([eE] sign? digits)?  |  sign? digits / digits
// (at least one mantissa digit; non-zero denominator)
static bool parseLit(const std::string& s, Lit& L)
{
   L = Lit();
   L.s = s;
   size_t p = 0, n = s.size();
   int sg = 1;
   if(p < n && (s[p] == '+' || s[p] == '-'))
   {
      if(s[p] == '-') sg = -1;
      p++;
   }
   std::string ip, fp;
   while(p < n && isDig(s[p])) ip += s[p++];
   if(p < n && s[p] == '/')
   {
      p++;
      std::string dn;
      while(p < n && isDig(s[p])) dn += s[p++];
      if(p != n || ip.empty() || dn.empty()) return false;
      mpz_class a(ip, 10), b(dn, 10);
      if(b == 0) return false;
      L.frac = true;
      L.val = Q(a, b);
      L.val.canonicalize();
      if(sg < 0) L.val = -L.val;
      return true;
   }
   if(p < n && s[p] == '.')
   {
      p++;
      while(p < n && isDig(s[p])) fp += s[p++];
      if(fp.empty()) return false;
      L.hasFracPart = true;
   }
   if(ip.empty() && fp.empty()) return false;
   long ex = 0;
   if(p < n && (s[p] == 'e' || s[p] == 'E'))
   {
      p++;
      int es = 1;
      if(p < n && (s[p] == '+' || s[p] == '-'))
      {
         if(s[p] == '-') es = -1;
         p++;
      }
      std::string ed;
      while(p < n && isDig(s[p])) ed += s[p++];
      if(ed.empty() || ed.size() > 9) return false;
      ex = es * std::strtol(ed.c_str(), nullptr, 10);
      L.hasExp = true;
      L.expv = ex;
   }
   if(p != n) return false;
   mpz_class mant(ip + fp, 10);
   L.val = Q(mant) * q10pow(ex - (long) fp.size());
   L.val.canonicalize();
   if(sg < 0) L.val = -L.val;
   return true;
}

// all strings of the grammar over {+,-,0,1,7,9,.,e,E,/} with at most 7 characters, sorted
static const std::vector<std::string>& allLiterals()
{
   static std::vector<std::string> all;
   if(!all.empty()) return all;
   const int L = 7;
   std::vector<std::string> ds;      // digit strings of length 1..7
   {
      std::vector<std::string> cur = {""};
      for(int l = 1; l <= L; l++)
      {
         std::vector<std::string> nx;
         for(auto& s : cur) for(char ch : std::string("0179")) nx.push_back(s + ch);
         ds.insert(ds.end(), nx.begin(), nx.end());
         cur = nx;
      }
   }
   std::vector<std::string> mant, exps = {""};
   for(auto& a : ds) mant.push_back(a);
   for(auto& b : ds)
   {
      if(1 + b.size() <= (size_t) L) mant.push_back("." + b);
      for(auto& a : ds) if(a.size() + 1 + b.size() <= (size_t) L) mant.push_back(a + "." + b);
   }
   for(char ec : std::string("eE")) for(const char* sg : {"", "+", "-"}) for(auto& d : ds)
            if(1 + strlen(sg) + d.size() <= (size_t) L - 1) exps.push_back(std::string(1, ec) + sg + d);
   std::set<std::string> S;
   for(const char* sg : {"", "+", "-"})
   {
      size_t sl = strlen(sg);
      for(auto& mm : mant)
      {
         if(sl + mm.size() > (size_t) L) continue;
         for(auto& x : exps) if(sl + mm.size() + x.size() <= (size_t) L) S.insert(sg + mm + x);
      }
      for(auto& a : ds) for(auto& b : ds)
            if(sl + a.size() + 1 + b.size() <= (size_t) L && b.find_first_not_of('0') != std::string::npos) S.insert(sg + a + "/" + b);
   }
   all.assign(S.begin(), S.end());
   return all;
}

static void genLit(Case& c)
{
   c.recs.push_back(Rec("mode").add("lit"));
   if(opts().xi("exh", 0))
   {
      // deterministic partition of the exhaustive space: case k of this (single) shard = chunk k
      static long next = 0, last = 0;
      long chunks = std::max(1L, opts().xi("chunks", 32));
      long k = ev().failed ? last : (next++ % chunks);
      last = k;
      long T = (long) allLiterals().size();
      c.recs.push_back(Rec("litall").add(k * T / chunks).add((k + 1) * T / chunks));
      return;
   }
   int K = R(1, 24);
   auto digits = [](int len, bool any)
   {
      std::string s;
      for(int k = 0; k < len; k++) s += (char)('0' + R(0, 9));
      (void) any;
      return s;
   };
   for(int t = 0; t < K; t++)
   {
      std::string s;
      int sg = W({50, 20, 30});
      if(sg == 1) s += "+";
      if(sg == 2) s += "-";
      int kind = W({35, 45, 20});     // plain decimal, with exponent, fraction
      if(kind == 2)
      {
         std::string a = digits(R(1, 20), true), b = digits(R(0, 19), true) + (char)('1' + R(0, 8));
         s += a + "/" + b;
      }
      else
      {
         int tot = W({50, 30, 20}) == 0 ? R(1, 8) : R(1, 40);
         int il = R(0, tot), fl = tot - il;
         if(P(20)) fl = 0;
         if(il + fl == 0) il = 1;
         s += digits(il, true);
         if(fl > 0) s += "." + digits(fl, true);
         if(kind == 1)
         {
            s += P(50) ? "e" : "E";
            int es = W({40, 20, 40});
            if(es == 1) s += "+";
            if(es == 2) s += "-";
            int ev_ = W({50, 30, 20}) == 0 ? R(0, 30) : R(0, 400);
            if(P(15)) s += "0";
            s += std::to_string(ev_);
         }
      }
      c.recs.push_back(Rec("lit").add(s));
   }
}

// ratFromString in a child process: 0 value returned, 1 thrown, 2 crashed. Used where the clean tree is known to die
// (10^e overflows double -> mpq_set_d(inf) -> SIGFPE), so that the search survives it.
static int guardedRat(const std::string& s, Q& out, int& sig)
{
   int fd[2];
   if(pipe(fd) != 0) return 1;
   fflush(stdout);
   fflush(stderr);
   pid_t p = fork();
   if(p == 0)
   {
      close(fd[0]);
      std::string r;
      try
      {
         Rational x = soplex::ratFromString(s.c_str());
         r = "ok " + qr(x).get_str();
      }
      catch(...)
      {
         r = "throw";
      }
      size_t off = 0;
      while(off < r.size())
      {
         ssize_t w = write(fd[1], r.data() + off, r.size() - off);
         if(w <= 0) break;
         off += (size_t) w;
      }
      _exit(0);
   }
   close(fd[1]);
   std::string r;
   char buf[65536];
   ssize_t k;
   while((k = read(fd[0], buf, sizeof buf)) > 0) r.append(buf, (size_t) k);
   close(fd[0]);
   int st = 0;
   waitpid(p, &st, 0);
   if(WIFSIGNALED(st))
   {
      sig = WTERMSIG(st);
      return 2;
   }
   if(r.compare(0, 3, "ok ") == 0)
   {
      out = Q(r.substr(3));
      return 0;
   }
   return 1;
}

// one file with the literals of idx as coefficient, right-hand side and bound; returns false if the reader rejected it
struct ReadBack
{
   std::vector<Q> coef, side, bnd;       // rational mode
   std::vector<double> dcoef, dside, dbnd;
};
static bool readBatch(const std::vector<const Lit*>& ls, bool mps, bool rational, ReadBack& rb, unsigned what = 7)
{
   std::string fname = scratchDir() + "/c12_lit" + (rational ? "_rat" : "_real") + (mps ? ".mps" : ".lp");
   {
      std::ofstream os(fname);
      int K = (int) ls.size();
      if(!mps)
      {
         os << "Minimize\n obj: x0\nSubject To\n";
         for(int k = 0; k < K; k++)
         {
            os << " c" << k << ": " << ((what & 1) ? ls[k]->s : std::string("1")) << " x" << k << " >= " << ((what & 2) ? ls[k]->s : std::string("0")) << "\n";
         }
         os << "Bounds\n";
         if(what & 4) for(int k = 0; k < K; k++) os << " x" << k << " <= " << ls[k]->s << "\n";
         os << "End\n";
      }
      else
      {
         os << "NAME          LIT\nROWS\n N  obj\n";
         for(int k = 0; k < K; k++) os << " G  c" << k << "\n";
         os << "COLUMNS\n";
         for(int k = 0; k < K; k++) os << "    x" << k << "  c" << k << "  " << ((what & 1) ? ls[k]->s : std::string("1")) << "\n";
         os << "RHS\n";
         if(what & 2) for(int k = 0; k < K; k++) os << "    RHS  c" << k << "  " << ls[k]->s << "\n";
         os << "BOUNDS\n";
         if(what & 4) for(int k = 0; k < K; k++) os << " UP BND  x" << k << "  " << ls[k]->s << "\n";
         os << "ENDATA\n";
      }
   }
   SoPlex B;
   B.setIntParam(SoPlex::VERBOSITY, SoPlex::VERBOSITY_ERROR);
   if(rational)
   {
      B.setIntParam(SoPlex::SYNCMODE, SoPlex::SYNCMODE_AUTO);
      B.setIntParam(SoPlex::READMODE, SoPlex::READMODE_RATIONAL);
   }
   NameSet rn, cn;
   bool ok = false;
   try
   {
      QuietCerr qc;
      ok = B.readFile(fname.c_str(), &rn, &cn, nullptr);
   }
   catch(...)
   {
      ok = false;
   }
   if(!ok) return false;
   int K = (int) ls.size();
   rb = ReadBack();
   for(int k = 0; k < K; k++)
   {
      int i = rn.number(("c" + std::to_string(k)).c_str()), j = cn.number(("x" + std::to_string(k)).c_str());
      if(i < 0 || j < 0) return false;
      if(rational)
      {
         rb.coef.push_back(canon(qr(B.rowVectorRational(i)[j])));
         rb.side.push_back(canon(qr(B.lhsRational(i))));
         rb.bnd.push_back(canon(qr(B.upperRational(j))));
      }
      else
      {
         rb.dcoef.push_back(B.coefReal(i, j));
         rb.dside.push_back(B.lhsReal(i));
         rb.dbnd.push_back(B.upperReal(j));
      }
   }
   dropFile(fname);
   return true;
}

static void checkLiterals(const std::vector<std::string>& strs, Verdict& v, bool exhaustive)
{
   Evidence& e = ev();
   bool exclExp = known("ratFromString-exponent"), exclFrac = known("real-reader-fraction");
   std::vector<Lit> lits;
   for(auto& s : strs)
   {
      Lit L;
      if(!parseLit(s, L))
      {
         e.count("lit.not_in_grammar");
         continue;
      }
      lits.push_back(L);
   }
   long plainSeen = 0, plainAccepted = 0;
   std::vector<const Lit*> ratOk, realOk, realFrac;
   for(auto& L : lits)
   {
      e.count(L.frac ? "lit.kind.fraction" : (L.hasExp ? (L.hasFracPart ? "lit.kind.decimal_exponent" : "lit.kind.integer_exponent")
                                              : (L.hasFracPart ? "lit.kind.decimal" : "lit.kind.integer")));
      if(L.frac || L.hasExp || L.hasFracPart) v.nontrivial = true;
      // ---- real mode expectation
      if(!L.frac) realOk.push_back(&L);
      else realFrac.push_back(&L);
      // ---- ratFromString
      if(L.hasExp && exclExp)
      {
         e.count("excluded_known.ratFromString-exponent");
         continue;
      }
      // known finding: ratFromString throws on "-0.0" (sign, decimal point, all digits zero); the LP-format rational
      // reader swallows the exception and keeps the value 1
      if(L.val == 0 && L.s[0] == '-' && L.s.find('.') != std::string::npos && known("ratFromString-negative-zero"))
      {
         e.count("excluded_known.ratFromString-negative-zero");
         continue;
      }
      bool plain = !L.hasExp && !L.frac;
      if(plain) plainSeen++;
      Q got;
      int rc = 0, sig = 0;
      if(L.hasExp && (L.expv > 300 || L.expv < -100000))
      {
         rc = guardedRat(L.s, got, sig);
         e.count("lit.rat.guarded_calls");
      }
      else
      {
         try
         {
            got = qr(soplex::ratFromString(L.s.c_str()));
         }
         catch(...)
         {
            rc = 1;
         }
      }
      if(rc == 2)
      {
         v.fail("ratFromString crashed (signal " + std::to_string(sig) + ") on literal \"" + L.s + "\"");
         return;
      }
      if(rc == 1)
      {
         e.count("lit.rat.rejected");
         if(e.cnt["lit.rat.rejected"] <= 20) e.count("lit.rat.rejected.sample:" + L.s);
         ratOk.push_back(&L);     // the file readers must then reject it too (or read it exactly)
         continue;
      }
      if(plain) plainAccepted++;
      if(got.get_den() == 0)
      {
         v.fail("ratFromString(\"" + L.s + "\") has a zero denominator");
         return;
      }
      if(canon(got) != got) e.count("lit.rat.noncanonical_result(observation)");
      if(canon(got) != L.val)
      {
         std::string g = canon(got).get_str(), x = L.val.get_str();
         if(g.size() > 60) g = g.substr(0, 60) + "...";
         if(x.size() > 60) x = x.substr(0, 60) + "...";
         v.fail("ratFromString(\"" + L.s + "\") = " + g + ", the literal denotes " + x);
         return;
      }
      e.count("lit.rat.exact");
      ratOk.push_back(&L);
   }
   if(plainSeen >= 5 && plainAccepted == 0)
   {
      v.fail("ratFromString rejected every plain integer / decimal literal");
      return;
   }
   // ---- the same literals inside files
   const size_t BATCH = 200;
   for(int rational = 1; rational >= 0; rational--)
   {
      const std::vector<const Lit*>& pool = rational ? ratOk : realOk;
      for(int mps = 0; mps <= 1; mps++)
      {
         std::string tg = std::string("lit.file.") + (mps ? "mps." : "lp.") + (rational ? "rational" : "real");
         for(size_t b = 0; b < pool.size(); b += BATCH)
         {
            std::vector<const Lit*> ls;
            for(size_t k = b; k < std::min(pool.size(), b + BATCH); k++)
            {
               // real mode: a literal whose correctly rounded double is infinite is not put into an LP
               if(!rational && !std::isfinite(correctlyRounded(pool[k]->val)))
               {
                  e.count("lit.real.overflow_not_embedded");
                  continue;
               }
               ls.push_back(pool[k]);
            }
            if(ls.empty()) continue;
            // one file for the batch; if some literal makes the reader reject it: one file per literal
            std::vector<std::vector<const Lit*>> work;
            ReadBack rb0;
            bool batchOk = readBatch(ls, mps, rational, rb0);
            if(batchOk) work.push_back(ls);
            else
            {
               e.count(tg + ".batch_rejected");
               for(auto* L : ls) work.push_back({L});
            }
            for(auto& w : work)
            {
               ReadBack rb1;
               if(!batchOk && !readBatch(w, mps, rational, rb1))
               {
                  e.count(tg + ".rejected");
                  continue;
               }
               const ReadBack& rb = batchOk ? rb0 : rb1;
               for(size_t k = 0; k < w.size(); k++)
               {
                  const Lit& L = *w[k];
                  if(rational)
                  {
                     const char* where = rb.coef[k] != L.val ? "coefficient" : (rb.side[k] != L.val ? "right-hand side" : (rb.bnd[k] != L.val ? "bound" : nullptr));
                     if(where)
                     {
                        v.fail(std::string(mps ? "MPS" : "LP-format") + " file read in rational mode: literal \"" + L.s + "\" as " + where + " is not read exactly");
                        return;
                     }
                  }
                  else
                  {
                     double x = correctlyRounded(L.val);
                     const char* where = rb.dcoef[k] != x ? "coefficient" : (rb.dside[k] != x ? "right-hand side" : (rb.dbnd[k] != x ? "bound" : nullptr));
                     if(where)
                     {
                        v.fail(std::string(mps ? "MPS" : "LP-format") + " file read in real mode: literal \"" + L.s + "\" as " + where + " is not the correctly rounded double");
                        return;
                     }
                  }
                  e.count(tg + ".ok");
               }
            }
         }
      }
   }
   // ---- fractions p/q in real mode (sample): rejected, or the correctly rounded quotient
   if(exclFrac) e.count("excluded_known.real-reader-fraction", (long) realFrac.size());
   else
   {
      size_t step = std::max((size_t) 1, realFrac.size() / 6);
      for(size_t k = 0; k < realFrac.size(); k += step)
      {
         const Lit& L = *realFrac[k];
         double x = correctlyRounded(L.val);
         for(int mps = 0; mps <= 1; mps++)
            for(unsigned what = 1; what <= 4; what <<= 1)
            {
               ReadBack rb;
               std::vector<const Lit*> one = {&L};
               if(!readBatch(one, mps, false, rb, what))
               {
                  e.count("lit.real.fraction_rejected");
                  continue;
               }
               double g = what == 1 ? rb.dcoef[0] : (what == 2 ? rb.dside[0] : rb.dbnd[0]);
               if(g != x)
               {
                  v.fail(std::string(mps ? "MPS" : "LP-format") + " file read in real mode: fraction literal \"" + L.s + "\" as "
                         + (what == 1 ? "coefficient" : (what == 2 ? "right-hand side" : "bound")) + " is accepted with a different value");
                  return;
               }
               e.count("lit.real.fraction_ok");
            }
      }
   }
   if(exhaustive) e.count("exhaustive_literals", (long) lits.size());
   e.count("literals_checked", (long) lits.size());
   if(!e.failed && !lits.empty()) e.evaluations += (long) lits.size() - 1;   // evaluations count literals
}

static Verdict runLit(const Case& c)
{
   Verdict v;
   std::vector<std::string> strs;
   bool exhaustive = false;
   for(auto& r : c.recs)
   {
      if(r.tag == "lit" && r.n()) strs.push_back(r.s(0));
      else if(r.tag == "litall")
      {
         const auto& all = allLiterals();
         long from = std::max(0L, r.i(0)), to = std::min((long) all.size(), r.i(1));
         for(long k = from; k < to; k++) strs.push_back(all[k]);
         exhaustive = true;
      }
   }
   checkLiterals(strs, v, exhaustive);
   return v;
}

// ============================================================================================= mode = dual
// recs: dual <fmt> <wzo> ; cname / rname as in rt
static void genDual(Case& c)
{
   c.recs.push_back(Rec("mode").add("dual"));
   int dfmt = R(0, 1), dwzo = R(0, 1);
   if(dfmt == 1 && known("writeDual-mps-segv"))
   {
      // known finding: writeDualFileReal to an .mps file dereferences the null tolerances of its local dual LP
      ev().count("excluded_known.writeDual-mps-segv");
      dfmt = 0;
   }
   c.recs.push_back(Rec("dual").add(dfmt).add(dwzo));
   GenOpt g;
   g.maxM = g.maxN = (int) opts().xi("maxdim", 8);
   g.minM = g.minN = P(85) ? 2 : 1;
   g.scaleExp = P(20) ? R(1, 4) : 0;
   genPlantedLP(g, CL_OPT, c.lp, c.pl);
   LP& lp = c.lp;
   // buildDualProblem gives the dual variable of a free primal row the cost -infinity (-1e100) as a number; the real MPS
   // writer cannot print such a number (known finding writeMPS-huge-value): there the free rows are replaced by slack
   // one-sided rows (x* stays optimal)
   for(int i = 0; i < lp.m(); i++)
      if(isNInf(lp.lhs[i]) && isPInf(lp.rhs[i]) && dfmt == 1 && known("writeMPS-huge-value"))
      {
         ev().count("excluded_known.writeMPS-huge-value");
         lp.rhs[i] = lp.act(i, c.pl.x) + R(1, 9);
      }
   if(P(30))
   {
      // known finding: writeDualFileReal hands the primal row names to the dual's columns, but the dual has additional
      // columns (one per finite non-zero bound, two per ranged row): NameSet::has(DataKey) reads out of bounds
      if(known("writeDual-names-oob")) ev().count("excluded_known.writeDual-names-oob");
      else
      {
         std::set<std::string> used;
         for(int j = 0; j < lp.n(); j++) c.recs.push_back(Rec("cname").add(j).add(genName('v', used, false)));
         used.clear();
         for(int i = 0; i < lp.m(); i++) c.recs.push_back(Rec("rname").add(i).add(genName('r', used, true)));
      }
   }
   c.pl.x.clear();
   c.pl.y.clear();
   c.pl.d.clear();
}

static Verdict runDual(const Case& c)
{
   Verdict v;
   Evidence& e = ev();
   const LP& lp = c.lp;
   const Rec* dr = c.find("dual");
   int fmt = dr ? (int) dr->i(0) : 0, wzo = dr ? (int) dr->i(1) : 0;
   RtNames nm = namesOf(c);
   int m = lp.m(), n = lp.n();
   e.count(std::string("dual.variant.") + (fmt ? "mps" : "lp") + ".wzo" + std::to_string(wzo));
   e.count(lp.sense == 1 ? "dual.primal_max" : "dual.primal_min");
   {
      bool fr = false, rg = false, bx = false, fx = false;
      for(int i = 0; i < m; i++)
      {
         if(!isFin(lp.lhs[i]) && !isFin(lp.rhs[i])) fr = true;
         if(isFin(lp.lhs[i]) && isFin(lp.rhs[i]) && lp.lhs[i] != lp.rhs[i]) rg = true;
      }
      for(int j = 0; j < n; j++)
      {
         if(isFin(lp.lo[j]) && isFin(lp.up[j])) (lp.lo[j] == lp.up[j] ? fx : bx) = true;
      }
      if(fr) e.count("dual.has.free_row");
      if(rg) e.count("dual.has.ranged_row");
      if(bx) e.count("dual.has.boxed_column");
      if(fx) e.count("dual.has.fixed_column");
   }
   SoPlex A;
   quiet(A);
   loadReal(A, lp, 0);
   NameSet wrn, wcn;
   if(nm.user)
   {
      for(int j = 0; j < n; j++) wcn.add(nm.col[j].c_str());
      for(int i = 0; i < m; i++) wrn.add(nm.row[i].c_str());
   }
   std::string fname = scratchDir() + "/c12_dual" + (fmt ? ".mps" : ".lp");
   unlink(fname.c_str());
   try
   {
      if(!A.writeDualFileReal(fname.c_str(), nm.user ? &wrn : nullptr, nm.user ? &wcn : nullptr, nullptr, wzo != 0))
      {
         v.fail("writeDualFileReal returned false");
         return v;
      }
   }
   catch(const soplex::SPxException& x)
   {
      std::string w = x.what();
      e.count("dual.refusal." + w.substr(0, w.find(' ')));
      v.fail("writeDualFileReal threw: " + w);
      return v;
   }
   SoPlex B;
   quiet(B);
   NameSet rn, cn;
   bool ok = false;
   try
   {
      QuietCerr qc;
      ok = B.readFile(fname.c_str(), &rn, &cn, nullptr);
   }
   catch(...)
   {
      ok = false;
   }
   if(!ok)
   {
      v.fail("reader rejected the dual file");
      return v;
   }
   // buildDualProblem: "setting the sense of the dual LP": MINIMIZE -> MAXIMIZE and vice versa; the MPS writer then
   // writes a maximisation as minimisation of -c (XMPSWR03)
   int dualSense = -lp.sense;
   int gotSense = B.intParam(SoPlex::OBJSENSE) == SoPlex::OBJSENSE_MAXIMIZE ? 1 : -1;
   if(gotSense != (fmt == 1 ? -1 : dualSense))
   {
      v.fail("dual file: objective sense is not the opposite of the primal's");
      return v;
   }
   bool flipped = fmt == 1 && dualSense == 1;
   auto closeEnough = [&](const Q & a, const Q & b)
   {
      Q sc = std::max(Q(1), std::max(qabs(a), qabs(b)));
      return qabs(a - b) <= sc / 1000000;
   };
   std::string why;
   // 0 agree, 1 unjudged / primal solve off the planted optimum, 2 violation (why)
   auto judge = [&](const SolveRes & pr, const SolveRes & du) -> int
   {
      if(pr.threw || du.threw || du.sc == 0 || pr.sc == 0) return 1;
      if(!(pr.sc == 1 && closeEnough(pr.obj, c.pl.z))) return 1;
      if(du.sc != 1)
      {
         why = std::string("dual LP of an LP with finite optimum is not solved to optimality: ") + statusName(du.st);
         return 2;
      }
      Q zd = (flipped ? Q(-du.obj) : du.obj) + lp.offset;   // the dual LP carries no objective offset
      if(!closeEnough(zd, c.pl.z) || !closeEnough(zd, pr.obj))
      {
         why = "optimal value of the written dual LP differs from the primal optimum";
         return 2;
      }
      return 0;
   };
   SolveRes pr = solveIt(A, false), du = solveIt(B, false);
   if(!pr.threw) e.count(std::string("dual.status.primal.") + statusName(pr.st));
   if(!du.threw) e.count(std::string("dual.status.dual.") + statusName(du.st));
   int jd = judge(pr, du);
   if(jd == 2)
   {
      // repeat without the simplifier in fresh objects: a disagreement that disappears is the solver's (C01/C02)
      SoPlex S2, B2;
      quiet(S2);
      quiet(B2);
      S2.setIntParam(SoPlex::SIMPLIFIER, SoPlex::SIMPLIFIER_OFF);
      B2.setIntParam(SoPlex::SIMPLIFIER, SoPlex::SIMPLIFIER_OFF);
      loadReal(S2, lp, 0);
      bool ok2 = false;
      {
         QuietCerr qc;
         ok2 = B2.readFile(fname.c_str(), nullptr, nullptr, nullptr);
      }
      if(ok2)
      {
         SolveRes p2 = solveIt(S2, false), d2 = solveIt(B2, false);
         std::string keep = why;
         if(judge(p2, d2) == 0)
         {
            e.count("dual.solver_disagreement_gone_without_simplifier(not C12)");
            jd = 0;
         }
         why = keep;
      }
   }
   if(jd == 1)
   {
      e.count("dual.unjudged(status or primal solve off planted)");
      return v;
   }
   if(jd == 2)
   {
      v.fail(why);
      return v;
   }
   e.count("dual.values_agree");
   dropFile(fname);
   v.nontrivial = m >= 2 && n >= 2;
   return v;
}

// =============================================================================================
static void gen(Case& c)
{
   std::string md = modeOf();
   if(md == "lit") genLit(c);
   else if(md == "dual") genDual(c);
   else genRt(c);
}
static Verdict run(const Case& c)
{
   std::string md = modeOf(&c);
   if(md == "lit") return runLit(c);
   if(md == "dual") return runDual(c);
   return runRt(c);
}
int main(int argc, char** argv)
{
   return vfMain(argc, argv, "C12", gen, run);
}
