// hist.cpp - API-history harness (shared by C06, C04, C09d, C17):  --x prop=C06|C04|C09|C17
//   a history = a start LP + a list of operations over the real modification interface interleaved with
//   optimize / getBasis / setBasis / clearBasis / copies; a reference model (vf::LP, exact) mirrors every step.
#include "spx.hpp"
#include "gen_lp.hpp"
#include "certs.hpp"
#include "z3ref.hpp"
#include "hist_common.hpp"

using namespace vf;
using namespace soplex;

static std::string propId = "C06";

// ------------------------------------------------------------------ generation (tracks dimensions only)
// allowInf: 0 never, -1 only -inf (lower bounds, left-hand sides), +1 only +inf (upper bounds, right-hand sides)
static Q genVal(int allowInf)
{
   int k = W({60, 25, 15});
   if(k == 2 && allowInf != 0) return allowInf > 0 ? QINF() : Q(-QINF());
   Q v = R(-9, 9);
   if(k == 1) v *= q2pow(R(-3, 3));
   return v;
}
static void genSparse(Rec& r, int dim, int maxExtra, bool noZero = true)
{
   // k distinct indices in [0, dim + extra)
   int lim = dim + maxExtra;
   if(lim <= 0)
   {
      r.add(0);
      return;
   }
   int k = R(0, std::min(lim, 5));
   std::set<int> used;
   std::vector<std::pair<int, Q>> ent;
   for(int t = 0; t < k; t++)
   {
      int j = R(0, lim - 1);
      if(used.count(j)) continue;
      used.insert(j);
      Q v = genVal(0);
      if(v == 0 && noZero) v = 1;
      ent.push_back({j, v});
   }
   r.add((int) ent.size());
   for(auto& e : ent) r.add(e.first).addq(e.second);
}
static void genSides(Rec& r)
{
   // lhs <= rhs, any may be infinite
   Q a = genVal(0), b = a + R(0, 6);
   int k = W({30, 25, 20, 15, 10});
   if(k == 1) b = QINF();
   else if(k == 2) a = -QINF();
   else if(k == 3) b = a;
   else if(k == 4)
   {
      a = -QINF();
      b = QINF();
   }
   r.addq(a).addq(b);
}

static void gen(Case& c)
{
   bool thorough = opts().tier == "thorough";
   GenOpt g;
   g.maxM = g.maxN = thorough ? 14 : 8;
   int cls = 1 + W({70, 12, 12, 6});
   if(P(10))
   {
      c.lp = LP();     // empty start
      c.pl = Planted();
   }
   else genPlantedLP(g, cls, c.lp, c.pl);
   c.pl = Planted();   // the planted data is irrelevant once the LP is modified
   genHistCfg(c, propId);
   int m = c.lp.m(), n = c.lp.n();
   int steps = R(1, std::max(3, std::min(thorough ? 60 : 30, 4 + curSize() / 2)));
   bool solvedOnce = false;
   for(int s = 0; s < steps; s++)
   {
      int w = W({6, 3, 6, 3, 3, 3,  3, 2, 3, 2, 3, 2,  3, 2, 3, 2, 3, 2, 3, 2, 5,  4, 2, 2, 2, 4, 2, 2, 2,  1, 2, 2, 12, 2, 1});
      Rec r("op");
      switch(w)
      {
      case 0:
         r.add("addrow");
         genSides(r);
         genSparse(r, n, P(10) ? 2 : 0);
         {
            int mx = -1;
            for(size_t t = 4; t + 1 < r.a.size(); t += 2) mx = std::max(mx, (int) r.i(t));
            if(mx >= n) n = mx + 1;
         }
         m++;
         break;
      case 1:
      {
         int k = R(1, 3);
         r.add("addrows").add(k);
         for(int t = 0; t < k; t++)
         {
            genSides(r);
            genSparse(r, n, 0);
         }
         m += k;
         break;
      }
      case 2:
         r.add("addcol").addq(genVal(0));
         genSides(r);
         genSparse(r, m, P(10) ? 2 : 0);
         {
            int mx = -1;
            for(size_t t = 5; t + 1 < r.a.size(); t += 2) mx = std::max(mx, (int) r.i(t));
            if(mx >= m) m = mx + 1;
         }
         n++;
         break;
      case 3:
      {
         int k = R(1, 3);
         r.add("addcols").add(k);
         for(int t = 0; t < k; t++)
         {
            r.addq(genVal(0));
            genSides(r);
            genSparse(r, m, 0);
         }
         n += k;
         break;
      }
      case 4:
         if(m == 0) continue;
         r.add("chgrow").add(R(0, m - 1));
         genSides(r);
         genSparse(r, n, 0);
         break;
      case 5:
         if(n == 0) continue;
         r.add("chgcol").add(R(0, n - 1)).addq(genVal(0));
         genSides(r);
         genSparse(r, m, 0);
         break;
      case 6:
         if(m == 0) continue;
         r.add("chglhs").add(R(0, m - 1)).addq(genVal(-1));
         break;
      case 7:
         if(m == 0) continue;
         r.add("chglhsvec");
         for(int i = 0; i < m; i++) r.addq(genVal(-1));
         break;
      case 8:
         if(m == 0) continue;
         r.add("chgrhs").add(R(0, m - 1)).addq(genVal(1));
         break;
      case 9:
         if(m == 0) continue;
         r.add("chgrhsvec");
         for(int i = 0; i < m; i++) r.addq(genVal(1));
         break;
      case 10:
         if(m == 0) continue;
         r.add("chgrange").add(R(0, m - 1));
         genSides(r);
         break;
      case 11:
         if(m == 0) continue;
         r.add("chgrangevec");
         for(int i = 0; i < m; i++) genSides(r);
         break;
      case 12:
         if(n == 0) continue;
         r.add("chglo").add(R(0, n - 1)).addq(genVal(-1));
         break;
      case 13:
         if(n == 0) continue;
         r.add("chglovec");
         for(int j = 0; j < n; j++) r.addq(genVal(-1));
         break;
      case 14:
         if(n == 0) continue;
         r.add("chgup").add(R(0, n - 1)).addq(genVal(1));
         break;
      case 15:
         if(n == 0) continue;
         r.add("chgupvec");
         for(int j = 0; j < n; j++) r.addq(genVal(1));
         break;
      case 16:
         if(n == 0) continue;
         r.add("chgbnd").add(R(0, n - 1));
         genSides(r);
         break;
      case 17:
         if(n == 0) continue;
         r.add("chgbndvec");
         for(int j = 0; j < n; j++) genSides(r);
         break;
      case 18:
         if(n == 0) continue;
         r.add("chgobj").add(R(0, n - 1)).addq(genVal(0));
         break;
      case 19:
         if(n == 0) continue;
         r.add("chgobjvec");
         for(int j = 0; j < n; j++) r.addq(genVal(0));
         break;
      case 20:
         if(n == 0 || m == 0) continue;
         r.add("chgel").add(R(0, m - 1)).add(R(0, n - 1)).addq(P(25) ? Q(0) : genVal(0));
         break;
      case 21:
         if(m == 0) continue;
         r.add("rmrow").add(R(0, m - 1));
         m--;
         break;
      case 22:
      {
         if(m == 0) continue;
         r.add("rmrowsperm");
         int cnt = 0;
         for(int i = 0; i < m; i++)
         {
            int x = P(30) ? 1 : 0;
            r.add(x);
            cnt += x;
         }
         m -= cnt;
         break;
      }
      case 23:
      {
         if(m == 0) continue;
         r.add("rmrowsidx").add(R(0, 1));
         std::set<int> ids;
         int k = R(1, std::min(m, 3));
         for(int t = 0; t < k; t++) ids.insert(R(0, m - 1));
         r.add((int) ids.size());
         for(int i : ids) r.add(i);
         m -= (int) ids.size();
         break;
      }
      case 24:
      {
         if(m == 0) continue;
         int a = R(0, m - 1), b = R(a, std::min(m - 1, a + 3));
         r.add("rmrowrange").add(R(0, 1)).add(a).add(b);
         m -= b - a + 1;
         break;
      }
      case 25:
         if(n == 0) continue;
         r.add("rmcol").add(R(0, n - 1));
         n--;
         break;
      case 26:
      {
         if(n == 0) continue;
         r.add("rmcolsperm");
         int cnt = 0;
         for(int j = 0; j < n; j++)
         {
            int x = P(30) ? 1 : 0;
            r.add(x);
            cnt += x;
         }
         n -= cnt;
         break;
      }
      case 27:
      {
         if(n == 0) continue;
         r.add("rmcolsidx").add(R(0, 1));
         std::set<int> ids;
         int k = R(1, std::min(n, 3));
         for(int t = 0; t < k; t++) ids.insert(R(0, n - 1));
         r.add((int) ids.size());
         for(int j : ids) r.add(j);
         n -= (int) ids.size();
         break;
      }
      case 28:
      {
         if(n == 0) continue;
         int a = R(0, n - 1), b = R(a, std::min(n - 1, a + 3));
         r.add("rmcolrange").add(R(0, 1)).add(a).add(b);
         n -= b - a + 1;
         break;
      }
      case 29:
         r.add("clearlp");
         m = n = 0;
         break;
      case 30:
         r.add("sense").add(P(50) ? 1 : -1);
         break;
      case 31:
         r.add("offset").addq(Q(R(-20, 20)));
         break;
      case 32:
         r.add("solve");
         solvedOnce = true;
         break;
      case 33:
         r.add("basisrt");
         break;
      default:
         r.add("clearbasis");
      }
      c.recs.push_back(r);
   }
   (void) solvedOnce;
   c.recs.push_back(Rec("op").add("solve"));
}

static Verdict run(const Case& c)
{
   if(!c.prop.empty()) propId = c.prop;
   HistRunner h(c, propId);
   return h.run();
}

int main(int argc, char** argv)
{
   for(int i = 1; i + 1 < argc; i++) if(std::string(argv[i]) == "--x" && std::string(argv[i + 1]).rfind("prop=", 0) == 0) propId = argv[i + 1] + 5;
   return vfMain(argc, argv, propId.c_str(), gen, run);
}
