// c11s.cpp - C11 (second part): the rational basis queries of SoPlex on solver bases.
// A small LP with rational data is loaded through the rational interface and solved with SOLVEMODE_RATIONAL
// (SYNCMODE_AUTO, FEASTOL = OPTTOL = 0); after the solve and after every modification / setBasis / clearBasis / re-solve
// the identities   B * getBasisInverseColRational(c) == e_c,   getBasisInverseRowRational(r) * B == e_r^T,
// B * getBasisInverseTimesVecRational(v) == v   are checked with `==`, where B is assembled from THIS harness's exact
// model of the (updated) LP in the order of getBasisIndRational (index >= 0: column; index < 0: unit vector of row
// -1-index, as documented at SoPlexBase::getBasisIndRational), and the set named by getBasisIndRational is compared
// with the BASIC set of getBasis.
//
// recs: load <how>; then operations (one query after each):  solve | chel i j q | chbnd j lo up | chrng i lhs rhs |
//   chobj j q | addrow lhs rhs VEC | addcol obj lo up VEC | setbasis <kind> <a> <b> | clearbasis
//   rec rhs VEC...  right-hand sides used by getBasisInverseTimesVecRational (indices taken modulo the current m)
#include "spx.hpp"
#include "gen_lp.hpp"

using namespace vf;
typedef soplex::Rational Rat;
typedef soplex::SSVectorBase<Rat> SSV;
typedef soplex::DSVectorBase<Rat> DSV;
typedef std::vector<std::pair<int, Q>> SpQ;
typedef std::vector<std::vector<Q>> MatQ;

static bool g_staleSinceSolve = false;   // see the known finding basis__rational_lu_stale_after_basis_replaced_without_pivots
static bool knownHas(const std::string& key)
{
   auto it = opts().x.find("known");
   if(it == opts().x.end()) return false;
   std::string s = "," + it->second + ",";
   return s.find("," + key + ",") != std::string::npos;
}
static void putVec(Rec& r, const SpQ& v)
{
   r.add((int) v.size());
   for(auto& p : v)
   {
      r.add(p.first);
      r.addq(p.second);
   }
}
static bool getVec(const Rec& r, size_t& pos, SpQ& v)
{
   v.clear();
   if(pos >= r.n()) return false;
   long k = r.i(pos++);
   if(k < 0) return false;
   for(long t = 0; t < k; t++)
   {
      if(pos + 2 > r.n()) return false;
      v.push_back({(int) r.i(pos), r.q(pos + 1)});
      pos += 2;
   }
   return true;
}

// ------------------------------------------------------------------ generator
static Q bigOdd(int bits)
{
   Q r = 0;
   int left = bits;
   while(left > 0)
   {
      int b = std::min(left, 20);
      r = r * q2pow(b) + R(0, (1 << b) - 1);
      left -= b;
   }
   return r * 2 + 1;
}
static Q genFactor()   // positive rational factor, mostly with a denominator that is not a power of two
{
   switch(W({25, 35, 15, 15, 10}))
   {
   case 0: return Q(1);
   case 1: return Q(R(1, 9)) / R(1, 9);
   case 2: return Q(R(1, 5)) / bigOdd(R(20, 59));
   case 3: return bigOdd(R(10, 40)) / R(1, 7);
   default: return q2pow(R(-8, 8));
   }
}
static Q genVal()
{
   Q v;
   switch(W({40, 35, 15, 10}))
   {
   case 0: v = NZ(9); break;
   case 1: v = Q(NZ(20)) / R(2, 12); break;
   case 2: v = Q(NZ(9)) / bigOdd(R(10, 59)); break;
   default: v = Q(NZ(99)) * q2pow(-R(1, 30)); break;
   }
   v.canonicalize();
   return v;
}
static SpQ genSparse(int dim, int maxk)
{
   SpQ v;
   if(dim <= 0) return v;
   std::vector<char> used(dim, 0);
   int k = R(1, std::min(dim, maxk));
   for(int t = 0; t < k; t++)
   {
      int i = R(0, dim - 1);
      while(used[i]) i = (i + 1) % dim;
      used[i] = 1;
      v.push_back({i, genVal()});
   }
   return v;
}

static void gen(Case& c)
{
   GenOpt g;
   bool thorough = opts().tier == "thorough";
   g.maxM = g.maxN = (int) opts().xi("maxdim", thorough ? 12 : 8);
   g.minM = 1;
   g.scaleExp = 0;
   int cls = 1 + W({70, 10, 15, 5});
   genPlantedLP(g, cls, c.lp, c.pl);
   c.pl = Planted();   // the planted certificate is not used (and not valid after the rational rescaling below)
   LP& lp = c.lp;
   int m = lp.m(), n = lp.n();
   // equivalent LP with rational data: row i times lambda_i > 0, column j substituted x_j = mu_j x'_j, mu_j > 0
   for(int i = 0; i < m; i++)
   {
      Q f = genFactor();
      for(int j = 0; j < n; j++) lp.A[i][j] *= f;
      if(isFin(lp.lhs[i])) lp.lhs[i] *= f;
      if(isFin(lp.rhs[i])) lp.rhs[i] *= f;
   }
   for(int j = 0; j < n; j++)
   {
      Q f = genFactor();
      for(int i = 0; i < m; i++) lp.A[i][j] *= f;
      lp.obj[j] *= f;
      if(isFin(lp.lo[j])) lp.lo[j] /= f;
      if(isFin(lp.up[j])) lp.up[j] /= f;
   }
   lp.offset = 0;
   c.recs.push_back(Rec("load").add(R(0, 1)));
   Rec rr("rhs");
   int nr = R(1, 3);
   rr.add(nr);
   for(int t = 0; t < nr; t++) putVec(rr, genSparse(std::max(m, 1), 4));
   c.recs.push_back(rr);
   c.recs.push_back(Rec("solve"));
   // the operations are applied to lp while they are drawn (current dimensions are needed); the case carries the
   // INITIAL LP, run() replays the operations on its own copy
   const LP initial = lp;
   int nops = R(1, 5);
   for(int t = 0; t < nops; t++)
   {
      switch(W({25, 22, 10, 8, 5, 8, 6, 10, 6}))
      {
      case 0: c.recs.push_back(Rec("solve")); break;
      case 1:
         if(m > 0 && n > 0)
         {
            int i = R(0, m - 1), j = R(0, n - 1);
            // changeElementRational treats |val| <= epsilon (1e-16) as zero even in the rational LP (reported as an
            // observation, it concerns another property): keep modified entries well above it
            Q q = P(15) ? Q(0) : genVal();
            if(q != 0 && qabs(q) < Q(1, 1000000000)) q = Q(NZ(9)) / R(2, 97);
            lp.A[i][j] = q;
            c.recs.push_back(Rec("chel").add(i).add(j).addq(q));
         }
         break;
      case 2:
         if(n > 0)
         {
            int j = R(0, n - 1);
            Q lo = P(30) ? Q(-QINF()) : genVal(), up = P(30) ? QINF() : genVal();
            if(isFin(lo) && isFin(up) && lo > up) std::swap(lo, up);
            lp.lo[j] = lo;
            lp.up[j] = up;
            c.recs.push_back(Rec("chbnd").add(j).addq(lo).addq(up));
         }
         break;
      case 3:
         if(m > 0)
         {
            int i = R(0, m - 1);
            Q lo = P(30) ? Q(-QINF()) : genVal(), up = P(30) ? QINF() : genVal();
            if(isFin(lo) && isFin(up) && lo > up) std::swap(lo, up);
            lp.lhs[i] = lo;
            lp.rhs[i] = up;
            c.recs.push_back(Rec("chrng").add(i).addq(lo).addq(up));
         }
         break;
      case 4:
         if(n > 0)
         {
            int j = R(0, n - 1);
            Q q = genVal();
            lp.obj[j] = q;
            c.recs.push_back(Rec("chobj").add(j).addq(q));
         }
         break;
      case 5:
         if(n > 0)
         {
            SpQ row = genSparse(n, 4);
            Q lo = P(50) ? Q(-QINF()) : genVal(), up = P(50) ? QINF() : genVal();
            if(isFin(lo) && isFin(up) && lo > up) std::swap(lo, up);
            lp.addRow(lo, up);
            for(auto& p : row) lp.A[lp.m() - 1][p.first] = p.second;
            m = lp.m();
            Rec r("addrow");
            r.addq(lo).addq(up);
            putVec(r, row);
            c.recs.push_back(r);
         }
         break;
      case 6:
         if(m > 0)
         {
            SpQ col = genSparse(m, 4);
            Q lo = P(30) ? Q(-QINF()) : Q(0), up = P(60) ? QINF() : Q(R(1, 9));
            Q ob = genVal();
            lp.addCol(lo, up, ob);
            for(auto& p : col) lp.A[p.first][lp.n() - 1] = p.second;
            n = lp.n();
            Rec r("addcol");
            r.addq(ob).addq(lo).addq(up);
            putVec(r, col);
            c.recs.push_back(r);
         }
         break;
      case 7: c.recs.push_back(Rec("setbasis").add(R(0, 1)).add(R(0, 99)).add(R(0, 99))); break;
      default: c.recs.push_back(Rec("clearbasis")); break;
      }
   }
   c.lp = initial;
}

// ------------------------------------------------------------------ run
static std::string ssvConsistent(const SSV& x, int n)
{
   if(!x.isSetup()) return "";
   int sz = x.size();
   if(sz < 0 || sz > n) return "size out of range";
   std::vector<char> seen(n, 0);
   for(int k = 0; k < sz; k++)
   {
      int i = x.index(k);
      if(i < 0 || i >= n) return "index out of range";
      if(seen[i]) return "index listed twice";
      seen[i] = 1;
   }
   for(int i = 0; i < n; i++) if(!seen[i] && x[i] != 0) return "nonzero entry not listed in the index set";
   return "";
}
static int rankQ(MatQ a)
{
   int n = (int) a.size(), rk = 0;
   std::vector<char> usedRow(n, 0);
   for(int j = 0; j < n; j++)
   {
      int pr = -1;
      for(int i = 0; i < n; i++) if(!usedRow[i] && a[i][j] != 0)
         {
            pr = i;
            break;
         }
      if(pr < 0) continue;
      usedRow[pr] = 1;
      rk++;
      for(int i = 0; i < n; i++)
      {
         if(usedRow[i] || a[i][j] == 0) continue;
         Q f = a[i][j] / a[pr][j];
         for(int k = j; k < n; k++) if(a[pr][k] != 0) a[i][k] -= f * a[pr][k];
      }
   }
   return rk;
}

struct Ctx
{
   SoPlex* sp;
   LP lp;                       // the harness's own exact model, updated by every operation
   std::vector<SpQ> rhs;
   Verdict* v;
   int queriesOk = 0;
   bool nonDyadic = false;
};

static bool query(Ctx& cx, const std::string& after)
{
   SoPlex& sp = *cx.sp;
   Evidence& e = ev();
   Verdict& v = *cx.v;
   int m = cx.lp.m(), n = cx.lp.n();
   if(sp.numRowsRational() != m || sp.numColsRational() != n)
   {
      v.fail("after " + after + ": dimensions of the rational LP differ from the model");
      return false;
   }
   if(sp.numRows() != m || sp.numCols() != n)
   {
      // the floating-point LP lost or gained rows/columns relative to the rational LP (seen after UNBOUNDED rational
      // solves): getBasis/getBasisInd then leave entries unwritten and getBasisIndRational dereferences garbage
      if(knownHas("basis__rational_solve_real_lp_out_of_sync"))
      {
         e.count("excluded_known.basis__rational_solve_real_lp_out_of_sync");
         return false;
      }
      v.fail("after " + after + ": numRows()/numCols() of the floating-point LP differ from the rational LP");
      return false;
   }
   if(!sp.hasBasis())
   {
      e.count("query.no_basis.after_" + after);
      return true;
   }
   std::vector<VarStatus> rs(std::max(m, 1)), cs(std::max(n, 1));
   sp.getBasis(rs.data(), cs.data());
   std::set<int> basicSet;
   for(int i = 0; i < m; i++) if(rs[i] == Solver::BASIC) basicSet.insert(-1 - i);
   for(int j = 0; j < n; j++) if(cs[j] == Solver::BASIC) basicSet.insert(j);
   if((int) basicSet.size() != m)
   {
      v.fail("after " + after + ": hasBasis() but getBasis() does not name numRows basic variables");
      return false;
   }
   soplex::DataArray<int> bind;
   bool ok;
   try
   {
      ok = sp.getBasisIndRational(bind);
   }
   catch(const soplex::SPxException& x)
   {
      v.fail("after " + after + ": getBasisIndRational threw");
      return false;
   }
   if(!ok)
   {
      // nothing is exposed; measure whether the basis named by getBasis is exactly singular
      bool sing = true;
      if((int) basicSet.size() == m)
      {
         MatQ B(m, std::vector<Q>(m, Q(0)));
         int k = 0;
         for(int id : basicSet)
         {
            if(id >= 0) for(int i = 0; i < m; i++) B[i][k] = cx.lp.A[i][id];
            else B[-1 - id][k] = 1;
            k++;
         }
         sing = rankQ(B) < m;
      }
      e.count(std::string("query.unavailable.") + (sing ? "singular_or_invalid_basis" : "regular_basis") + ".after_" + after);
      return true;
   }
   if(bind.size() != m)
   {
      v.fail("after " + after + ": getBasisIndRational returned the wrong number of indices");
      return false;
   }
   std::set<int> bset;
   for(int k = 0; k < m; k++)
   {
      int id = bind[k];
      if(id >= n || id < -m || !bset.insert(id).second)
      {
         v.fail("after " + after + ": getBasisIndRational index out of range or repeated");
         return false;
      }
   }
   // the stale cached factorisation of that known finding stays in place until the next solve that pivots; operations that
   // do not touch the basis (objective / side / bound changes) observe the same stale state
   if(after == "solve") g_staleSinceSolve = false;
   if(bset != basicSet && ((after == "solve" && sp.numIterations() == 0) || g_staleSinceSolve)
         && knownHas("basis__rational_lu_stale_after_basis_replaced_without_pivots"))
   {
      g_staleSinceSolve = true;
      e.count("excluded_known.basis__rational_lu_stale_after_basis_replaced_without_pivots");
      return true;
   }
   if(bset != basicSet)
   {
      std::string a, b;
      for(int id : bset) a += " " + std::to_string(id);
      for(int id : basicSet) b += " " + std::to_string(id);
      v.fail("after " + after + ": getBasisIndRational names a different set than the BASIC statuses of getBasis (ind:" + a +
             "; BASIC:" + b + ")");
      return false;
   }
   MatQ B(m, std::vector<Q>(m, Q(0)));
   for(int k = 0; k < m; k++)
   {
      int id = bind[k];
      if(id >= 0) for(int i = 0; i < m; i++) B[i][k] = cx.lp.A[i][id];
      else B[-1 - id][k] = 1;
   }
   auto fetch = [&](SSV & x, std::vector<Q>& out) -> std::string
   {
      if(x.dim() != m) return "result has the wrong dimension";
      std::string s = ssvConsistent(x, m);
      if(!s.empty()) return "SSVector result inconsistent: " + s;
      out.resize(m);
      for(int i = 0; i < m; i++) out[i] = qr(x[i]);
      return "";
   };
   std::string where = "after " + after + ": ";
   bool excludeRow = knownHas("lu__rational_sparse_left_duplicate_heap");
   try
   {
      for(int c = 0; c < m; c++)
      {
         SSV x(0);
         std::vector<Q> col;
         if(!sp.getBasisInverseColRational(c, x))
         {
            v.fail(where + "getBasisInverseColRational refused although a factorisation is available");
            return false;
         }
         std::string s = fetch(x, col);
         if(!s.empty())
         {
            v.fail(where + "getBasisInverseColRational: " + s);
            return false;
         }
         for(int i = 0; i < m; i++)
         {
            Q t = 0;
            for(int k = 0; k < m; k++) if(B[i][k] != 0 && col[k] != 0) t += B[i][k] * col[k];
            if(t != (i == c ? 1 : 0))
            {
               v.fail(where + "B * getBasisInverseColRational(c) != e_c");
               return false;
            }
         }
         e.count("checked.inverse_col");
      }
      for(int r = 0; r < m; r++)
      {
         if(excludeRow)
         {
            e.count("excluded_known.lu__rational_sparse_left_duplicate_heap");
            break;
         }
         SSV x(0);
         std::vector<Q> row;
         if(!sp.getBasisInverseRowRational(r, x))
         {
            v.fail(where + "getBasisInverseRowRational refused although a factorisation is available");
            return false;
         }
         std::string s = fetch(x, row);
         if(!s.empty())
         {
            v.fail(where + "getBasisInverseRowRational: " + s);
            return false;
         }
         for(int k = 0; k < m; k++)
         {
            Q t = 0;
            for(int i = 0; i < m; i++) if(B[i][k] != 0 && row[i] != 0) t += row[i] * B[i][k];
            if(t != (k == r ? 1 : 0))
            {
               v.fail(where + "getBasisInverseRowRational(r) * B != e_r^T");
               return false;
            }
         }
         e.count("checked.inverse_row");
      }
      for(auto& b0 : cx.rhs)
      {
         if(m == 0) break;
         std::vector<Q> b(m, Q(0));
         DSV sv((int) b0.size() + 1);
         std::vector<char> seen(m, 0);
         for(auto& p : b0)
         {
            int i = ((p.first % m) + m) % m;
            if(seen[i] || p.second == 0) continue;
            seen[i] = 1;
            b[i] = p.second;
            sv.add(i, rq(p.second));
         }
         SSV x(0);
         std::vector<Q> sol;
         if(!sp.getBasisInverseTimesVecRational(sv, x))
         {
            v.fail(where + "getBasisInverseTimesVecRational refused although a factorisation is available");
            return false;
         }
         std::string s = fetch(x, sol);
         if(!s.empty())
         {
            v.fail(where + "getBasisInverseTimesVecRational: " + s);
            return false;
         }
         for(int i = 0; i < m; i++)
         {
            Q t = 0;
            for(int k = 0; k < m; k++) if(B[i][k] != 0 && sol[k] != 0) t += B[i][k] * sol[k];
            if(t != b[i])
            {
               v.fail(where + "B * getBasisInverseTimesVecRational(v) != v");
               return false;
            }
         }
         e.count("checked.inverse_times_vec");
      }
   }
   catch(const soplex::SPxException& x)
   {
      v.fail(where + "a rational basis query threw");
      return false;
   }
   e.count("query.ok.after_" + after);
   e.count("query.ok.dim" + std::string(m < 4 ? "<4" : m < 8 ? "4-7" : "8+"));
   if(m >= 4) cx.queriesOk++;
   return true;
}

static Verdict run(const Case& c)
{
   g_staleSinceSolve = false;
   Verdict v;
   Evidence& e = ev();
   SoPlex sp;
   quiet(sp);
   sp.setIntParam(SoPlex::SOLVEMODE, SoPlex::SOLVEMODE_RATIONAL);
   sp.setIntParam(SoPlex::SYNCMODE, (int) opts().xi("syncmode", SoPlex::SYNCMODE_AUTO));
   sp.setIntParam(SoPlex::CHECKMODE, SoPlex::CHECKMODE_RATIONAL);
   sp.setRealParam(SoPlex::FEASTOL, 0.0);
   sp.setRealParam(SoPlex::OPTTOL, 0.0);
   sp.setIntParam(SoPlex::ITERLIMIT, 20000);
   // the refinement loop has no finite termination criterion with zero tolerances; whether every LP is decided is C03's
   // claim, here an undecided solve is just an unusable basis source
   sp.setIntParam(SoPlex::REFLIMIT, 200);
   std::string perr;
   if(!applyParams(sp, c, &perr))   // optional `rec int|bool|real <id> <v>` records
   {
      v.fail(perr);
      return v;
   }
   Ctx cx;
   cx.sp = &sp;
   cx.lp = c.lp;
   cx.v = &v;
   for(auto& row : cx.lp.A) for(auto& q : row) if(q != 0 && mpz_popcount(q.get_den_mpz_t()) != 1) cx.nonDyadic = true;
   loadRational(sp, cx.lp, (int) c.geti("load"));
   if(const Rec* rr = c.find("rhs"))
   {
      size_t pos = 1;
      for(long t = 0; t < rr->i(0); t++)
      {
         SpQ b;
         if(!getVec(*rr, pos, b)) break;
         cx.rhs.push_back(b);
      }
   }
   for(auto& r : c.recs)
   {
      if(!v.ok) break;
      LP& lp = cx.lp;
      int m = lp.m(), n = lp.n();
      bool isop = true;
      try
      {
         if(r.tag == "solve")
         {
            Status st = sp.optimize();
            e.count(std::string("solve.status.") + statusName(st));
         }
         else if(r.tag == "chel")
         {
            int i = (int) r.i(0), j = (int) r.i(1);
            if(i < 0 || i >= m || j < 0 || j >= n) continue;
            lp.A[i][j] = r.q(2);
            sp.changeElementRational(i, j, rq(r.q(2)));
            if(mpz_popcount(r.q(2).get_den_mpz_t()) != 1) cx.nonDyadic = true;
         }
         else if(r.tag == "chbnd")
         {
            int j = (int) r.i(0);
            if(j < 0 || j >= n) continue;
            lp.lo[j] = r.q(1);
            lp.up[j] = r.q(2);
            sp.changeBoundsRational(j, rq(r.q(1)), rq(r.q(2)));
         }
         else if(r.tag == "chrng")
         {
            int i = (int) r.i(0);
            if(i < 0 || i >= m) continue;
            lp.lhs[i] = r.q(1);
            lp.rhs[i] = r.q(2);
            sp.changeRangeRational(i, rq(r.q(1)), rq(r.q(2)));
         }
         else if(r.tag == "chobj")
         {
            int j = (int) r.i(0);
            if(j < 0 || j >= n) continue;
            lp.obj[j] = r.q(1);
            sp.changeObjRational(j, rq(r.q(1)));
         }
         else if(r.tag == "addrow")
         {
            size_t pos = 2;
            SpQ row;
            if(!getVec(r, pos, row)) continue;
            lp.addRow(r.q(0), r.q(1));
            soplex::DSVectorRational sv((int) row.size() + 1);
            std::set<int> seen;
            for(auto& p : row) if(p.first >= 0 && p.first < n && p.second != 0 && seen.insert(p.first).second)
               {
                  lp.A[lp.m() - 1][p.first] = p.second;
                  sv.add(p.first, rq(p.second));
               }
            sp.addRowRational(soplex::LPRowRational(rq(r.q(0)), sv, rq(r.q(1))));
         }
         else if(r.tag == "addcol")
         {
            size_t pos = 3;
            SpQ col;
            if(!getVec(r, pos, col)) continue;
            lp.addCol(r.q(1), r.q(2), r.q(0));
            soplex::DSVectorRational sv((int) col.size() + 1);
            std::set<int> seen;
            for(auto& p : col) if(p.first >= 0 && p.first < m && p.second != 0 && seen.insert(p.first).second)
               {
                  lp.A[p.first][lp.n() - 1] = p.second;
                  sv.add(p.first, rq(p.second));
               }
            sp.addColRational(soplex::LPColRational(rq(r.q(0)), sv, rq(r.q(2)), rq(r.q(1))));
         }
         else if(r.tag == "setbasis")
         {
            std::vector<VarStatus> rs(std::max(m, 1)), cs(std::max(n, 1));
            auto nonbasicRow = [&](int i)
            {
               return lp.lhs[i] == lp.rhs[i] && isFin(lp.lhs[i]) ? Solver::FIXED : isFin(lp.lhs[i]) ? Solver::ON_LOWER :
                      isFin(lp.rhs[i]) ? Solver::ON_UPPER : Solver::ZERO;
            };
            auto nonbasicCol = [&](int j)
            {
               return lp.lo[j] == lp.up[j] && isFin(lp.lo[j]) ? Solver::FIXED : isFin(lp.lo[j]) ? Solver::ON_LOWER :
                      isFin(lp.up[j]) ? Solver::ON_UPPER : Solver::ZERO;
            };
            bool have = sp.hasBasis() && r.i(0) == 1;
            if(have) sp.getBasis(rs.data(), cs.data());
            else
            {
               for(int i = 0; i < m; i++) rs[i] = Solver::BASIC;
               for(int j = 0; j < n; j++) cs[j] = nonbasicCol(j);
            }
            if(r.i(0) == 1)
            {
               // exchange one basic row slack against one nonbasic column (may give a singular basis: then nothing is exposed)
               std::vector<int> br, nc;
               for(int i = 0; i < m; i++) if(rs[i] == Solver::BASIC) br.push_back(i);
               for(int j = 0; j < n; j++) if(cs[j] != Solver::BASIC) nc.push_back(j);
               if(!br.empty() && !nc.empty())
               {
                  int i = br[r.i(1) % br.size()], j = nc[r.i(2) % nc.size()];
                  rs[i] = nonbasicRow(i);
                  cs[j] = Solver::BASIC;
               }
            }
            sp.setBasis(rs.data(), cs.data());
         }
         else if(r.tag == "clearbasis") sp.clearBasis();
         else isop = false;
      }
      catch(const soplex::SPxException& x)
      {
         v.fail("operation " + r.tag + " threw: " + x.what());
         break;
      }
      if(!isop) continue;
      e.count("op." + r.tag);
      if(!query(cx, r.tag)) break;
   }
   v.nontrivial = cx.queriesOk > 0 && cx.nonDyadic;
   return v;
}

int main(int argc, char** argv)
{
   return vfMain(argc, argv, "C11", gen, run);
}
