// exact.cpp - C03: exact (rational) solves of LPs with planted certificates and non-dyadic rational data,
// judged with all tolerances zero.
#include "spx.hpp"
#include "gen_lp.hpp"
#include "certs.hpp"

using namespace vf;
using namespace soplex;

// exact rational row / column factors (the planted class and optimum transform exactly)
static Q ratFactor(bool huge)
{
   static const int nums[] = {1, 1, 2, 3, 5, 7};
   static const int dens[] = {1, 3, 7, 10, 9, 1000};
   Q f(nums[R(0, 5)], dens[R(0, 5)]);
   if(huge)
   {
      int e = R(6, 12);
      Q p = 1;
      for(int k = 0; k < e; k++) p *= 10;
      f = P(50) ? Q(f * p) : Q(f / p);
   }
   return f;
}
static void rationalise(LP& lp, Planted& pl, bool huge)
{
   int m = lp.m(), n = lp.n();
   for(int i = 0; i < m; i++)
   {
      if(!P(60)) continue;
      Q f = ratFactor(huge && P(30));
      if(isFin(lp.lhs[i])) lp.lhs[i] *= f;
      if(isFin(lp.rhs[i])) lp.rhs[i] *= f;
      for(int j = 0; j < n; j++) if(lp.A[i][j] != 0) lp.A[i][j] *= f;
      if((int) pl.y.size() == m) pl.y[i] /= f;
   }
   for(int j = 0; j < n; j++)
   {
      if(!P(60)) continue;
      Q f = ratFactor(huge && P(30));   // x'_j = x_j / f
      if(isFin(lp.lo[j])) lp.lo[j] /= f;
      if(isFin(lp.up[j])) lp.up[j] /= f;
      lp.obj[j] *= f;
      for(int i = 0; i < m; i++) if(lp.A[i][j] != 0) lp.A[i][j] *= f;
      if((int) pl.x.size() == n) pl.x[j] /= f;
      if((int) pl.d.size() == n) pl.d[j] *= f;
      if((int) pl.ray.size() == n) pl.ray[j] /= f;
   }
   if(P(40)) lp.offset += Q(R(-9, 9), R(1, 7));
   if(pl.cls == CL_OPT) pl.z = lp.objval(pl.x);
}

static const int exactBools[] = {SoPlex::LIFTING, SoPlex::EQTRANS, SoPlex::TESTDUALINF, SoPlex::RATFAC, SoPlex::RATREC,
                                 SoPlex::POWERSCALING, SoPlex::RATFACJUMP, SoPlex::FORCEBASIC, SoPlex::ITERATIVE_REFINEMENT,
                                 SoPlex::ADAPT_TOLS_TO_MULTIPRECISION, SoPlex::PRECISION_BOOSTING, SoPlex::BOOSTED_WARM_START,
                                 SoPlex::RECOVERY_MECHANISM
                                };

static void gen(Case& c)
{
   bool thorough = opts().tier == "thorough";
   GenOpt g;
   g.maxM = g.maxN = (int) opts().xi("maxdim", thorough ? 24 : 10);
   int cls = 1 + W({55, 20, 17, 8});
   genPlantedLP(g, cls, c.lp, c.pl);
   int entry = W({45, 35, 20});         // 0 rational interface AUTO, 1 rational interface MANUAL, 2 real interface ONLYREAL
   c.recs.push_back(Rec("entry").add(entry).add(R(0, 1)));
   if(entry != 2) rationalise(c.lp, c.pl, P(15));
   // exact-solver options: 30% defaults, 10% shipped exact.set, 10% shipped exact-pure-boosting.set, 25% 1-3 deviations, 25% uniform
   int mode = W({30, 25, 25, 10, 10});
   if(mode == 3) c.recs.push_back(Rec("shipped").add("exact"));
   if(mode == 4) c.recs.push_back(Rec("shipped").add("exact-pure-boosting"));
   if(mode == 1)
   {
      int k = R(1, 3);
      for(int t = 0; t < k; t++) c.recs.push_back(Rec("bool").add(exactBools[R(0, 12)]).add(R(0, 1)));
   }
   else if(mode == 2)
      for(int b : exactBools) c.recs.push_back(Rec("bool").add(b).add(R(0, 1)));
   bool c04 = opts().x.count("prop") && opts().x["prop"] == "C04";
   // stage exactbasis of C04: the claim is made for FORCEBASIC = true
   if(c04) c.recs.push_back(Rec("bool").add((int) SoPlex::FORCEBASIC).add(1));
   // known finding C03/lifting-corrupts-lp: exclude exactly LIFTING = true (under the C04 stage always: LIFTING changes the
   // LP itself, which is recorded under C03 / C20 and would only be re-reported here)
   if(knownKey("lifting-corrupts-lp") || c04)
      for(auto& r : c.recs)
         if(r.tag == "bool" && r.i(0) == SoPlex::LIFTING && r.i(1) != 0)
         {
            r.a[1] = "0";
            ev().count("excluded_known.lifting-corrupts-lp");
         }
   // documented precondition (solverational.hpp): at least one of iterative refinement / precision boosting is on
   {
      int ir = 1, pb = 1;
      for(auto& r : c.recs) if(r.tag == "bool")
         {
            if(r.i(0) == SoPlex::ITERATIVE_REFINEMENT) ir = (int) r.i(1);
            if(r.i(0) == SoPlex::PRECISION_BOOSTING) pb = (int) r.i(1);
         }
      if(!ir && !pb) c.recs.push_back(Rec("bool").add((int) SoPlex::ITERATIVE_REFINEMENT).add(1));
   }
   if(P(50)) c.recs.push_back(Rec("int").add((int) SoPlex::SIMPLIFIER).add(W({1, 1, 1}) == 0 ? 0 : (P(50) ? 1 : 3)));
   if(P(50)) c.recs.push_back(Rec("int").add((int) SoPlex::SCALER).add(R(0, 6)));
   if(P(30)) c.recs.push_back(Rec("int").add((int) SoPlex::REPRESENTATION).add(R(0, 2)));
   if(P(30)) c.recs.push_back(Rec("int").add((int) SoPlex::ALGORITHM).add(R(0, 1)));
}

static std::vector<Q> toQr(const VectorRational& v)
{
   std::vector<Q> r(v.dim());
   for(int i = 0; i < v.dim(); i++) r[i] = qr(v[i]);
   return r;
}

static Verdict runInner(const Case& c)
{
   bool basisMode = opts().x.count("prop") && opts().x["prop"] == "C04";
   Verdict v;
   Evidence& e = ev();
   SoPlex sp;
   quiet(sp);
   const Rec* en = c.find("entry");
   int entry = en ? (int) en->i(0) : 0, how = en ? (int) en->i(1) : 0;
   sp.setIntParam(SoPlex::SOLVEMODE, SoPlex::SOLVEMODE_RATIONAL);
   sp.setIntParam(SoPlex::CHECKMODE, SoPlex::CHECKMODE_RATIONAL);
   sp.setRealParam(SoPlex::FEASTOL, 0.0);
   sp.setRealParam(SoPlex::OPTTOL, 0.0);
   sp.setIntParam(SoPlex::SYNCMODE, entry == 0 ? SoPlex::SYNCMODE_AUTO : (entry == 1 ? SoPlex::SYNCMODE_MANUAL : SoPlex::SYNCMODE_ONLYREAL));
   std::string err;
   if(!applyParams(sp, c, &err))
   {
      v.fail(err);
      return v;
   }
   const Rec* shipped = c.find("shipped");
   if(shipped)
   {
      // the shipped settings file, except for the read mode (the LP is entered through the API)
      std::string f = std::string(getenv("VERIF_REPO") ? getenv("VERIF_REPO") : "/repo") + "/settings/" + shipped->s(0) + ".set";
      if(!sp.loadSettingsFile(f.c_str()))
      {
         v.fail("cannot load shipped settings file " + f);
         return v;
      }
      quiet(sp);
      sp.setIntParam(SoPlex::SYNCMODE, entry == 0 ? SoPlex::SYNCMODE_AUTO : (entry == 1 ? SoPlex::SYNCMODE_MANUAL : SoPlex::SYNCMODE_ONLYREAL));
   }
   bool ratrec = sp.boolParam(SoPlex::RATREC), ratfac = sp.boolParam(SoPlex::RATFAC);
   bool defaultsOnly = true;
   for(auto& r : c.recs) if(r.tag == "bool") defaultsOnly = false;
   // certificate claims: option sets that can reach an exact solution at all
   bool mustDecide = (ratrec || ratfac) && (sp.boolParam(SoPlex::ITERATIVE_REFINEMENT) || shipped);
   // known finding C03/exact-nondefault-options-undecided: 'always decides' is judged for default exact options and
   // the shipped settings files only; other option sets are judged on whatever verdict they return
   bool judgeDecides = mustDecide && (!knownKey("exact-nondefault-options-undecided") || defaultsOnly || shipped);
   // known finding C03/exact-default-options-undecided: the feasibility/optimality refinement loop can run forever on
   // degenerate small-integer LPs even with default options, so the 'always decides' sub-claim is counted, not judged
   if(knownKey("exact-default-options-undecided")) judgeDecides = false;
   // deterministic budgets instead of a wall clock: LPs <= 30x30 need a handful of refinement rounds
   sp.setIntParam(SoPlex::REFLIMIT, mustDecide ? 100 : 30);
   sp.setIntParam(SoPlex::ITERLIMIT, 5000);
   // wall-clock watchdog only (some non-default option sets loop without touching the deterministic limits);
   // ABORT_TIME is always counted as inconclusive, never judged
   sp.setRealParam(SoPlex::TIMELIMIT, 20.0);
   LP md = c.lp;
   if(entry == 2)
   {
      loadReal(sp, md, how);
   }
   else
   {
      loadRational(sp, md, how);
      sp.setRealParam(SoPlex::OBJ_OFFSET, 0.0);
      if(entry == 1) sp.syncLPReal();
   }
   // the objective offset is a real parameter: for rational entry use an offset that is a double
   if(entry != 2)
   {
      md.offset = qd(dq(c.lp.offset));
      sp.setRealParam(SoPlex::OBJ_OFFSET, dq(md.offset));
   }
   Q zstar = c.pl.cls == CL_OPT ? Q(c.pl.z - c.lp.offset + md.offset) : Q(0);
   Status st;
   try
   {
      st = sp.optimize();
   }
   catch(const SPxException& x)
   {
      v.fail(std::string("optimize threw: ") + x.what().c_str());
      return v;
   }
   int cls = c.pl.cls;
   e.count(std::string("status.") + className(cls) + "." + statusName(st));
   e.count(std::string("entry.") + std::to_string(entry));
   if(sp.numRefinements() > 0) e.count("with_refinements");
   if(sp.numPrecisionBoosts() > 0) e.count("with_precision_boosts");
   int m = md.m(), n = md.n();
   Tol t = Tol::zero();
   bool nonDyadic = false;
   for(int i = 0; i < m && !nonDyadic; i++) for(int j = 0; j < n; j++) if(md.A[i][j] != 0 && !isDyadicDouble(md.A[i][j])) nonDyadic = true;
   if(st == Solver::OPTIMAL)
   {
      if(cls != CL_OPT)
      {
         v.fail(std::string("exact solve returned OPTIMAL for an LP without finite optimum (planted ") + className(cls) + ")");
         return v;
      }
      if(!mustDecide)
      {
         // reconstruction and factorization both off: the refinement loop cannot reach an exact solution, only the
         // verdict is claimed for such option sets (property quantifier)
         e.count("verdict_only");
         v.nontrivial = false;
         return v;
      }
      VectorRational x(n), y(m), s(m), d(n);
      if(!sp.getPrimalRational(x) || !sp.getDualRational(y) || !sp.getSlacksRational(s) || !sp.getRedCostRational(d))
      {
         v.fail("OPTIMAL but a rational solution getter refused");
         return v;
      }
      Q obj = qr(sp.objValueRational());
      Planted pl = c.pl;
      pl.z = zstar;
      std::string msg = checkOptimalCert(md, toQr(x), toQr(s), toQr(y), toQr(d), obj, t, nullptr, &zstar);
      if(!msg.empty())
      {
         if(basisMode) e.count("c04.cert_failure_left_to_C03");
         else
         {
            v.fail("exact OPTIMAL certificate: " + msg);
            return v;
         }
      }
      // C04 (stage exactbasis): the rational vectors are exactly the basic solution of the returned basis - every nonbasic
      // variable sits exactly on the bound its status names, basic columns have zero reduced cost, basic rows zero dual
      if(sp.hasBasis() && sp.boolParam(SoPlex::FORCEBASIC))
      {
         std::vector<VarStatus> rs(m + 1), cs(n + 1);
         sp.getBasis(rs.data(), cs.data());
         std::vector<Q> X = toQr(x), S = toQr(s), Y = toQr(y), Dv = toQr(d);
         std::ostringstream be;
         int basic = 0;
         auto chk = [&](const char* kind, int idx, VarStatus st, const Q & val, const Q & lo, const Q & up, const Q & dualv)
         {
            switch(st)
            {
            case Solver::BASIC:
               basic++;
               if(dualv != 0) be << kind << " " << idx << " BASIC with nonzero dual value " << fmtd(dualv) << "; ";
               break;
            case Solver::ON_LOWER:
               if(!isFin(lo) || val != lo) be << kind << " " << idx << " ON_LOWER but value " << fmtd(val) << " != lower " << fmtd(lo) << "; ";
               break;
            case Solver::ON_UPPER:
               if(!isFin(up) || val != up) be << kind << " " << idx << " ON_UPPER but value " << fmtd(val) << " != upper " << fmtd(up) << "; ";
               break;
            case Solver::FIXED:
               if(lo != up || val != lo) be << kind << " " << idx << " FIXED but value/bounds differ; ";
               break;
            case Solver::ZERO:
               if(val != 0) be << kind << " " << idx << " ZERO but value " << fmtd(val) << "; ";
               break;
            default:
               be << kind << " " << idx << " has an undefined status; ";
            }
         };
         for(int j = 0; j < n; j++) chk("col", j, cs[j], X[j], md.lo[j], md.up[j], Dv[j]);
         for(int i = 0; i < m; i++) chk("row", i, rs[i], S[i], md.lhs[i], md.rhs[i], Y[i]);
         if(basic != m) be << basic << " basic variables for " << m << " rows; ";
         e.count(be.str().empty() ? "exact_basis.consistent" : "exact_basis.inconsistent");
         // known finding C04/forcebasic-not-enforced: the rational factorization that makes the solution basic is only
         // performed when a refinement round found a violation (solverational.hpp: performRatfac && maxViolation > 0); a
         // floating-point solution that is already exactly optimal is returned as it is, basic or not
         if(basisMode && !be.str().empty() && knownKey("forcebasic-not-enforced") && sp.numRefinements() == 0)
         {
            e.count("excluded_known.forcebasic-not-enforced");
            be.str("");
         }
         if(basisMode && !be.str().empty())
         {
            v.fail("exact solve: rational solution is not the basic solution of the returned basis: " + be.str());
            return v;
         }
      }
   }
   else if(st == Solver::INFEASIBLE)
   {
      if(cls == CL_OPT || cls == CL_UNB)
      {
         v.fail(std::string("exact solve returned INFEASIBLE for a feasible LP (planted ") + className(cls) + ")");
         return v;
      }
      if(sp.hasDualFarkas())
      {
         VectorRational f(m);
         if(!sp.getDualFarkasRational(f))
         {
            v.fail("hasDualFarkas() but getDualFarkasRational refused");
            return v;
         }
         std::string msg = checkFarkas(md, toQr(f), true);
         if(!msg.empty())
         {
            v.fail("exact Farkas: " + msg);
            return v;
         }
         e.count("farkas_checked");
      }
      else
      {
         v.fail("exact solve returned INFEASIBLE without a Farkas proof");
         return v;
      }
   }
   else if(st == Solver::UNBOUNDED)
   {
      if(cls != CL_UNB)
      {
         v.fail(std::string("exact solve returned UNBOUNDED but the LP is planted ") + className(cls));
         return v;
      }
      if(sp.hasPrimalRay())
      {
         VectorRational r(n);
         if(!sp.getPrimalRayRational(r))
         {
            v.fail("hasPrimalRay() but getPrimalRayRational refused");
            return v;
         }
         std::string msg = checkRay(md, toQr(r), true);
         if(!msg.empty())
         {
            v.fail("exact ray: " + msg);
            return v;
         }
         e.count("ray_checked");
      }
      else
      {
         v.fail("exact solve returned UNBOUNDED without an improving ray");
         return v;
      }
   }
   else if(st == Solver::ABORT_TIME)
   {
      e.count("inconclusive.ABORT_TIME");
   }
   else
   {
      bool defaults = true;
      for(auto& r : c.recs) if(r.tag == "bool") defaults = false;
      if(judgeDecides)
      {
         v.fail(std::string("exact solve did not decide the LP: ") + statusName(st) + (defaults ? " (default exact options)" : ""));
         return v;
      }
      if(mustDecide) e.count((defaultsOnly || shipped) ? "excluded_known.exact-default-options-undecided" : "excluded_known.exact-nondefault-options-undecided");
      e.count(std::string("undecided_allowed.") + statusName(st));
   }
   v.nontrivial = nonDyadic && m >= 2 && n >= 2 && (st == Solver::OPTIMAL || st == Solver::INFEASIBLE || st == Solver::UNBOUNDED);
   return v;
}

static Verdict run(const Case& c)
{
   Verdict v = runInner(c);
   // stage exactbasis (C04) judges the basis clause only; everything else this harness finds belongs to C03
   if(opts().x.count("prop") && opts().x["prop"] == "C04" && !v.ok && v.msg.find("not the basic solution of the returned basis") == std::string::npos)
   {
      ev().count("c04.other_failure_left_to_C03");
      Verdict w;
      w.nontrivial = false;
      return w;
   }
   return v;
}

int main(int argc, char** argv)
{
   return vfMain(argc, argv, "C03", gen, run);
}
