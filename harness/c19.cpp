// c19.cpp - C19: containers and sparse vectors behave as their abstract data types.
// One case = a container kind (rec "kind <name> <init...>") + a sequence of operations (rec "op <name> <args>").
// run() interprets the ops on the real SoPlex container and on a std:: model and compares after EVERY op.
// All ops are total: arguments are reduced modulo the current state, so removing recs keeps a case valid.
// Light target (no soplex.h).
#include "vf.hpp"

#include "soplex/spxdefines.h"
#include "soplex/rational.h"
#include "soplex/datakey.h"
#include "soplex/dataset.h"
#include "soplex/classset.h"
#include "soplex/dataarray.h"
#include "soplex/array.h"
#include "soplex/classarray.h"
#include "soplex/idxset.h"
#include "soplex/didxset.h"
#include "soplex/nameset.h"
#include "soplex/datahashtable.h"
#include "soplex/idlist.h"
#include "soplex/islist.h"
#include "soplex/sorter.h"
#include "soplex/stablesum.h"
#include "soplex/basevectors.h"
#include "soplex/svsetbase.h"
#include "soplex/lprowsetbase.h"
#include "soplex/lpcolsetbase.h"

#include <memory>
#include <unordered_map>

using namespace vf;
namespace sp = soplex;
typedef sp::Rational Rat;
using sp::DataKey;

// ------------------------------------------------------------------------------------------------ numbers
static Q qr(const Rat& r)
{
   return Q(mpq_class(r.backend().data()));
}
static Rat rq(const Q& q)
{
   Rat r;
   mpq_set(r.backend().data(), q.get_mpq_t());
   return r;
}
template <class R> struct Num;
template <> struct Num<double>
{
   static double from(const Q& q)
   {
      return q.get_d();
   }
   static Q to(double d)
   {
      return Q(d);
   }
   static const char* tag()
   {
      return "d";
   }
   static const bool exact = false;
};
template <> struct Num<Rat>
{
   static Rat from(const Q& q)
   {
      return rq(q);
   }
   static Q to(const Rat& r)
   {
      return qr(r);
   }
   static const char* tag()
   {
      return "q";
   }
   static const bool exact = true;
};
// double data: n / 2^10 with |value| < 2^12, so products (< 2^24, 20 fractional bits) and sums of a few dozen
// products are exact in binary64 in any order (also inside StableSum). Rational data: anything of moderate size.
template <class R> static bool okVal(const Q& q)
{
   if(Num<R>::exact)
      return mpz_sizeinbase(q.get_num_mpz_t(), 2) < 400 && mpz_sizeinbase(q.get_den_mpz_t(), 2) < 400;
   if(qabs(q) >= 4096) return false;
   Q s = q * 1024;
   return s.get_den() == 1;
}

// deterministic expansion of a seed stored in the case file (splitmix64); no hidden state
struct Rng
{
   uint64_t s;
   explicit Rng(uint64_t x) : s(x * 0x9E3779B97F4A7C15ULL + 0x632BE59BD9B4E019ULL) {}
   uint64_t next()
   {
      s += 0x9E3779B97F4A7C15ULL;
      uint64_t z = s;
      z = (z ^ (z >> 30)) * 0xBF58476D1CE4E5B9ULL;
      z = (z ^ (z >> 27)) * 0x94D049BB133111EBULL;
      return z ^ (z >> 31);
   }
   int r(int lo, int hi)
   {
      return hi <= lo ? lo : lo + (int)(next() % (uint64_t)(hi - lo + 1));
   }
};
// nonzero value: small integer times power of two (double kinds) / additionally divided by 1,3,7 (rational kinds)
template <class R> static Q rval(Rng& g)
{
   int n = g.r(1, 9);
   if(g.r(0, 1)) n = -n;
   Q q = Q(n) * q2pow(g.r(-3, 3));
   if(Num<R>::exact)
   {
      static const int den[] = {1, 1, 3, 7};
      q /= den[g.r(0, 3)];
   }
   return q;
}
// k distinct indices in [0,dim)
static std::vector<int> ridx(Rng& g, int k, int dim)
{
   std::vector<int> all(dim);
   for(int i = 0; i < dim; i++) all[i] = i;
   for(int i = 0; i < dim - 1; i++) std::swap(all[i], all[g.r(i, dim - 1)]);
   all.resize(std::min(k, dim));
   return all;
}
static bool delPred(int i, long seed, int m)
{
   uint64_t z = Rng((uint64_t) seed * 1315423911ULL + (uint64_t) i).next();
   return (int)(z % (uint64_t)(m < 1 ? 1 : m)) == 0;
}

// ------------------------------------------------------------------------------------------------ run context
static std::set<std::string> knownKeys()
{
   std::set<std::string> k;
   auto it = opts().x.find("known");
   if(it == opts().x.end()) return k;
   std::stringstream ss(it->second);
   std::string t;
   while(std::getline(ss, t, ',')) if(!t.empty()) k.insert(t);
   return k;
}
struct Ctx
{
   Verdict& v;
   std::string kind, op;
   bool sawRemove = false, reuse = false, growthLive = false, mixedOverlap = false;
   int executed = 0;
   std::set<std::string> known;
   Ctx(Verdict& vv) : v(vv), known(knownKeys()) {}
   void fail(const std::string& m)
   {
      v.fail(kind + "." + op + ": " + m);
   }
   bool ok() const
   {
      return v.ok;
   }
   void count(const std::string& what)
   {
      ev().count(kind + "." + what);
   }
   void skipped()
   {
      ev().count(kind + "." + op + ".skipped");
   }
};
#define CHK(cond, msg) do { if(!(cond)) { cx.fail(msg); return; } } while(0)
#define CHKB(cond, msg) do { if(!(cond)) { cx.fail(msg); return false; } } while(0)

static int modn(long a, int n)
{
   if(n <= 0) return 0;
   long r = a % n;
   return (int)(r < 0 ? r + n : r);
}
static DataKey mkKey(int idx)
{
   DataKey k;
   k.idx = idx;
   k.info = 0;
   return k;
}

// ------------------------------------------------------------------------------------------------ tracked element
// element type with a registry of live instances: construction / destruction balance, no double destruction,
// no use of unconstructed or destroyed objects
struct Tr
{
   int v;
   static std::set<const Tr*>& live()
   {
      static std::set<const Tr*> s;
      return s;
   }
   static long& anomalies()
   {
      static long a = 0;
      return a;
   }
   static std::string& first()
   {
      static std::string s;
      return s;
   }
   static void anomaly(const char* m)
   {
      if(anomalies()++ == 0) first() = m;
   }
   static void reset()
   {
      live().clear();
      anomalies() = 0;
      first().clear();
   }
   void reg()
   {
      if(!live().insert(this).second) anomaly("element constructed over a live element (missing destructor call)");
   }
   void useThis() const
   {
      if(!live().count(this)) anomaly("assignment to an element that was never constructed or already destroyed");
   }
   static void useSrc(const Tr& o)
   {
      if(!live().count(&o)) anomaly("copy from an element that was never constructed or already destroyed");
   }
   Tr() : v(0)
   {
      reg();
   }
   explicit Tr(int x) : v(x)
   {
      reg();
   }
   Tr(const Tr& o) : v(o.v)
   {
      useSrc(o);
      reg();
   }
   Tr& operator=(const Tr& o)
   {
      useThis();
      useSrc(o);
      v = o.v;
      return *this;
   }
   ~Tr()
   {
      if(!live().erase(this)) anomaly("destructor called on an element that is not live (double destruction)");
   }
};
template <class T> struct El;
template <> struct El<int>
{
   static int mk(int v)
   {
      return v;
   }
   static int val(const int& x)
   {
      return x;
   }
};
template <> struct El<Tr>
{
   static Tr mk(int v)
   {
      return Tr(v);
   }
   static int val(const Tr& x)
   {
      return x.v;
   }
};
static void checkLive(Ctx& cx, const char* what)
{
   if(Tr::anomalies() > 0)
   {
      cx.fail(std::string(what) + ": element lifetime violated: " + Tr::first());
      return;
   }
   if(!Tr::live().empty())
      cx.fail(std::string(what) + ": elements still alive after the container was destroyed (destructors not run)");
}

// ------------------------------------------------------------------------------------------------ handles / permutations
// bookkeeping shared by all keyed sets: one handle per element ever inserted
struct Handles
{
   struct H
   {
      int kidx;
      bool live;
   };
   std::vector<H> hs;
   std::vector<int> order;          // handle of element number i
   int n() const
   {
      return (int) order.size();
   }
   int liveByKidx(int kidx) const
   {
      for(int h : order) if(hs[h].kidx == kidx) return h;
      return -1;
   }
   int add(int kidx)
   {
      hs.push_back(H{kidx, true});
      return (int) hs.size() - 1;
   }
   bool everDead(int kidx) const
   {
      for(auto& h : hs) if(!h.live && h.kidx == kidx) return true;
      return false;
   }
   void killAll()
   {
      for(int h : order) hs[h].live = false;
      order.clear();
   }
   void removeLastIntoHole(int i)     // documented renumbering of remove(int)
   {
      hs[order[i]].live = false;
      order[i] = order.back();
      order.pop_back();
   }
};
// checks the permutation reported by a removal and applies it to the model order
static bool applyPerm(Ctx& cx, Handles& H, const std::vector<char>& del, const std::vector<int>& perm)
{
   int n = H.n(), left = 0;
   for(int i = 0; i < n; i++) if(!del[i]) left++;
   std::vector<int> no(left, -1);
   for(int i = 0; i < n; i++)
   {
      if(del[i])
      {
         CHKB(perm[i] < 0, "perm[i] >= 0 for a removed element");
         H.hs[H.order[i]].live = false;
      }
      else
      {
         CHKB(perm[i] >= 0, "perm[i] < 0 for a surviving element");
         CHKB(perm[i] < left, "perm[i] out of the new range 0..n'-1");
         CHKB(no[perm[i]] < 0, "perm maps two survivors to the same number");
         no[perm[i]] = H.order[i];
      }
   }
   H.order = no;
   return true;
}
static void pickDel(int n, int m, long seed, int atMost, std::vector<char>& del, std::vector<int>& nums)
{
   del.assign(n, 0);
   nums.clear();
   for(int i = 0; i < n && (int) nums.size() < atMost; i++)
      if(delPred(i, seed, m))
      {
         del[i] = 1;
         nums.push_back(i);
      }
   // removal lists are given in a seed dependent order (not necessarily ascending)
   Rng g((uint64_t) seed + 77);
   for(int i = 0; i + 1 < (int) nums.size(); i++) std::swap(nums[i], nums[g.r(i, (int) nums.size() - 1)]);
}

// ================================================================================================ DataSet / ClassSet
template <class SET, class T>
struct SetRunner
{
   Ctx& cx;
   SET* s;
   Handles H;
   std::vector<int> val;            // per handle
   int serial = 0;
   SetRunner(Ctx& c, int pmax) : cx(c), s(new SET(pmax)) {}
   ~SetRunner()
   {
      delete s;
   }
   int fresh(long a)
   {
      return (++serial) * 128 + (int)(a & 127);
   }
   int newHandle(int kidx, int v)
   {
      int h = H.add(kidx);
      val.push_back(v);
      H.order.push_back(h);
      if(cx.sawRemove) cx.reuse = true;
      if(H.everDead(kidx)) cx.count("slot_reused");
      return h;
   }
   void doRemax(int newmax)
   {
      int om = s->max(), osz = s->size();
      const T* before = H.n() > 0 ? &(*s)[0] : nullptr;
      ptrdiff_t d = s->reMax(newmax);
      int want = newmax < osz ? osz : newmax;
      CHK(s->max() == want, "max() after reMax(newmax) is not max(newmax, size())");
      if(before)
      {
         const T* after = &(*s)[0];
         CHK(reinterpret_cast<const char*>(after) - reinterpret_cast<const char*>(before) == d,
             "reMax() return value is not the byte offset the elements moved by");
      }
      if(s->max() > om && H.n() > 0)
      {
         cx.growthLive = true;
         cx.count("growth_with_live_keys");
      }
   }
   void ensure(int k)
   {
      if(s->num() + k > s->max()) doRemax(s->num() + k + (s->num() & 3));
   }
   bool sync(SET& c, std::vector<int>& no)
   {
      CHKB(c.num() == H.n(), "num() differs from the model");
      no.assign(H.n(), -1);
      std::set<int> seen;
      for(int i = 0; i < H.n(); i++)
      {
         int kidx = c.key(i).idx;
         CHKB(seen.insert(kidx).second, "two element numbers share one key");
         int h = H.liveByKidx(kidx);
         CHKB(h >= 0, "key(i) is not the key of any live element");
         no[i] = h;
      }
      return true;
   }
   void check(bool orderKnown, SET* t = nullptr)
   {
      SET& c = t ? *t : *s;
      if(!cx.ok()) return;
      if(!orderKnown)
      {
         std::vector<int> no;
         if(!sync(c, no)) return;
         H.order = no;     // a copy that is continued on replaces the original, so adopting its numbering is fine
      }
      int n = H.n();
      CHK(c.num() == n, "num() differs from the model");
      CHK(c.size() >= n && c.max() >= c.size(), "num() <= size() <= max() violated");
      CHK(!c.has(n) && !c.has(-1), "has(int) true outside 0..num()-1");
      std::set<int> liveK;
      for(int i = 0; i < n; i++)
      {
         int h = H.order[i];
         DataKey k = c.key(i);
         CHK(k.idx == H.hs[h].kidx, "element numbering differs from the documented / reported renumbering");
         liveK.insert(k.idx);
         CHK(k.idx >= 0 && k.idx < c.size(), "key index outside 0..size()-1");
         CHK(c.has(i), "has(i) false for a valid number");
         CHK(c.has(k), "has(key) false for a live element");
         CHK(c.number(k) == i, "number(key(i)) != i");
         CHK(El<T>::val(c[i]) == val[h], "element value by number differs from the model");
         CHK(El<T>::val(c[k]) == val[h], "element value by key differs from the model");
         CHK(c.number(&c[i]) == i && c.has(&c[i]), "number(&elem) / has(&elem) wrong for a live element");
      }
      for(size_t h = 0; h < H.hs.size(); h++)
      {
         if(H.hs[h].live || liveK.count(H.hs[h].kidx)) continue;
         DataKey k = mkKey(H.hs[h].kidx);
         if(k.idx < c.size())
            CHK(!c.has(k), "has(key) true for a removed element");
         int num = -1;
         try
         {
            num = c.number(k);
         }
         catch(const sp::SPxException&)
         {
            num = -1;
         }
         CHK(num < 0, "number(key) >= 0 for a removed element");
      }
      CHK(c.isConsistent(), "isConsistent() false");
   }
   void step(const Rec& r)
   {
      const std::string& o = cx.op;
      int n = H.n();
      if(o == "add" || o == "create")
      {
         ensure(1);
         int v = fresh(r.i(1));
         DataKey k;
         if(o == "add") s->add(k, El<T>::mk(v));
         else
         {
            T* p = s->create(k);
            *p = El<T>::mk(v);
         }
         CHK(H.liveByKidx(k.idx) < 0, "add returned a key that is already in use");
         newHandle(k.idx, v);
         if(s->num() > 0 && s->key(s->num() - 1).idx == k.idx) cx.count("new_element_is_last");
         check(false);
      }
      else if(o == "add_nokey" || o == "addmany" || o == "addset" || o == "addmany_nokey" || o == "addset_nokey")
      {
         int k = o == "add_nokey" ? 1 : 1 + modn(r.i(1), 5);
         bool nokey = o.find("nokey") != std::string::npos;
         ensure(k);
         std::vector<int> vs;
         std::vector<T> items;
         for(int j = 0; j < k; j++)
         {
            vs.push_back(fresh(r.i(2) + j));
            items.push_back(El<T>::mk(vs.back()));
         }
         std::vector<DataKey> ks(k);
         if(o == "add_nokey") s->add(items[0]);
         else if(o == "addmany") s->add(ks.data(), items.data(), k);
         else if(o == "addmany_nokey") s->add(items.data(), k);
         else
         {
            SET other(k + modn(r.i(3), 3));
            for(int j = 0; j < k; j++) other.add(items[j]);
            if(nokey) s->add(other);
            else s->add(ks.data(), other);
         }
         CHK(s->num() == n + k, "num() after adding k elements is not n+k");
         if(nokey)
         {
            // identify the new keys by their (unique) values
            for(int j = 0; j < k; j++)
            {
               int found = -1;
               for(int i = 0; i < s->num(); i++)
                  if(El<T>::val((*s)[i]) == vs[j] && H.liveByKidx(s->key(i).idx) < 0) found = s->key(i).idx;
               CHK(found >= 0, "added element not found under a fresh key");
               newHandle(found, vs[j]);
            }
         }
         else
            for(int j = 0; j < k; j++)
            {
               CHK(H.liveByKidx(ks[j].idx) < 0, "add returned a key that is already in use");
               newHandle(ks[j].idx, vs[j]);
            }
         check(false);
      }
      else if(o == "remove_num" || o == "remove_key")
      {
         if(n == 0) return cx.skipped();
         int i = modn(r.i(1), n);
         if(o == "remove_num") s->remove(i);
         else s->remove(mkKey(H.hs[H.order[i]].kidx));
         H.removeLastIntoHole(i);
         cx.sawRemove = true;
         check(true);   // documented: the last element moves into the hole
      }
      else if(o == "remove_oob")
      {
         s->remove(n + modn(r.i(1), 3));
         s->remove(-1 - modn(r.i(1), 3));
         check(true);
      }
      else if(o == "remove_perm" || o == "remove_nums" || o == "remove_keys")
      {
         std::vector<char> del;
         std::vector<int> nums;
         bool isPerm = o == "remove_perm";
         pickDel(n, 1 + modn(r.i(1), 4), r.i(2), isPerm ? n : 1 + modn(r.i(3), 4), del, nums);
         bool withPerm = isPerm || modn(r.i(4), 2) == 1;
         std::vector<int> perm(n + 1, 12345);
         if(isPerm)
         {
            for(int i = 0; i < n; i++) perm[i] = del[i] ? -1 - (i & 1) : i;
            s->remove(perm.data());
         }
         else if(o == "remove_nums")
         {
            if(withPerm) s->remove(nums.data(), (int) nums.size(), perm.data());
            else s->remove(nums.data(), (int) nums.size());
         }
         else
         {
            std::vector<DataKey> ks;
            for(int i : nums) ks.push_back(mkKey(H.hs[H.order[i]].kidx));
            if(withPerm) s->remove(ks.data(), (int) ks.size(), perm.data());
            else s->remove(ks.data(), (int) ks.size());
         }
         CHK(perm[n] == 12345, "removal wrote past perm[num()-1]");
         if(!nums.empty()) cx.sawRemove = true;
         if(withPerm)
         {
            if(!applyPerm(cx, H, del, perm)) return;
            check(true);
         }
         else
         {
            std::vector<int> no;
            for(int i = 0; i < n; i++)
               if(del[i]) H.hs[H.order[i]].live = false;
               else no.push_back(H.order[i]);
            H.order = no;
            check(false);
         }
      }
      else if(o == "clear")
      {
         s->clear();
         if(n > 0) cx.sawRemove = true;
         H.killAll();
         CHK(s->size() == 0, "size() != 0 after clear()");
         check(true);
      }
      else if(o == "remax_grow")
      {
         doRemax(s->max() + 1 + modn(r.i(1), 10));
         check(true);
      }
      else if(o == "remax_any")
      {
         doRemax(s->num() - 2 + modn(r.i(1), 12));
         check(true);
      }
      else if(o == "copy")
      {
         SET* t = new SET(*s);
         std::vector<int> keep = H.order;
         check(false, t);
         if(modn(r.i(1), 2) && cx.ok())
         {
            delete s;
            s = t;
            check(true);
         }
         else
         {
            delete t;
            H.order = keep;
         }
      }
      else if(o == "assign")
      {
         SET* t = new SET(1 + modn(r.i(1), 12));
         int k = modn(r.i(2), 4);
         for(int j = 0; j < k && t->num() < t->max(); j++) t->add(El<T>::mk(-j - 1));
         if(modn(r.i(2), 8) >= 4 && t->num() > 0) t->remove(0);
         *t = *s;
         std::vector<int> keep = H.order;
         check(false, t);
         if(modn(r.i(3), 2) && cx.ok())
         {
            delete s;
            s = t;
            check(true);
         }
         else
         {
            delete t;
            H.order = keep;
         }
      }
      else cx.fail("unknown op");
   }
};

// ================================================================================================ SVSet / LPRowSet / LPColSet
typedef std::map<int, Q> SpVec;     // index -> value (model of one sparse vector)

template <class R> static bool sameVec(const sp::SVectorBase<R>& v, const SpVec& m, std::string& why)
{
   if(v.size() != (int) m.size())
   {
      why = "number of nonzeros differs from the model";
      return false;
   }
   if(v.max() < v.size())
   {
      why = "max() < size()";
      return false;
   }
   std::set<int> seen;
   for(int j = 0; j < v.size(); j++)
   {
      if(!seen.insert(v.index(j)).second)
      {
         why = "duplicate index in a sparse vector";
         return false;
      }
      auto it = m.find(v.index(j));
      if(it == m.end() || Num<R>::to(v.value(j)) != it->second)
      {
         why = "nonzero (index,value) differs from the model";
         return false;
      }
   }
   return true;
}
// a DSVector with the given content (insertion order = seed dependent)
template <class R> static void fillDS(sp::DSVectorBase<R>& d, const std::vector<int>& idx, const std::vector<Q>& vals)
{
   d.clear();
   for(size_t j = 0; j < idx.size(); j++) d.add(idx[j], Num<R>::from(vals[j]));
}
template <class R> static SpVec genVec(Rng& g, int nnz, int dim, std::vector<int>& idx, std::vector<Q>& vals)
{
   idx = ridx(g, nnz, dim);
   vals.clear();
   SpVec m;
   for(int i : idx)
   {
      vals.push_back(rval<R>(g));
      m[i] = vals.back();
   }
   return m;
}

static const int SVDIM = 24;

template <class R> struct Other;
template <> struct Other<double>
{
   typedef Rat T;
};
template <> struct Other<Rat>
{
   typedef double T;
};
template <class R> struct AdSV
{
   typedef sp::SVSetBase<R> S;
   typedef AdSV<typename Other<R>::T> X;
   static const int NSIDE = 0;
   static const bool full = true;
   static S* make(int pmax, int pmem)
   {
      return new S(pmax, pmem);
   }
   static const sp::SVectorBase<R>& vec(const S& s, int i)
   {
      return s[i];
   }
   static sp::SVectorBase<R>& vecw(S& s, int i)
   {
      return s[i];
   }
   static const sp::SVectorBase<R>& veck(const S& s, const DataKey& k)
   {
      return s[k];
   }
   static void add(S& s, DataKey& k, const sp::SVectorBase<R>& v, const R*)
   {
      s.add(k, v);
   }
   static void addNoKey(S& s, const sp::SVectorBase<R>& v, const R*)
   {
      s.add(v);
   }
   static void addSet(S& s, DataKey* ks, const S& o)
   {
      s.add(ks, o);
   }
   static void addSetNoKey(S& s, const S& o)
   {
      s.add(o);
   }
   static Q side(const S&, int, int)
   {
      return Q(0);
   }
   static Q sidek(const S&, const DataKey&, int)
   {
      return Q(0);
   }
   static void setSide(S&, int, int, const R&) {}
   static void xtend(S& s, int i, int nm)
   {
      s.xtend(s[i], nm);
   }
   static void add2n(S& s, int i, int n, const int* idx, const R* val)
   {
      s.add2(s[i], n, idx, val);
   }
   static void removeNums(S& s, const int* nums, int n, int* perm)
   {
      if(perm) s.remove(nums, n, perm);
      else s.remove(nums, n);
   }
   // ---- only the plain SVSet offers these
   static bool extraChecks(const S& s, int i, std::string& why)
   {
      const sp::SVectorBase<R>* p = &s[i];
      if(!s.has(i) || !s.has(p) || s.number(p) != i || s.key(p).idx != s.key(i).idx)
      {
         why = "has(i) / has(&vec) / number(&vec) / key(&vec) wrong for a live vector";
         return false;
      }
      if(s.has(s.num()) || s.has(-1))
      {
         why = "has(int) true outside 0..num()-1";
         return false;
      }
      if(s.memSize() > s.memMax())
      {
         why = "memSize() > memMax()";
         return false;
      }
      return true;
   }
   static sp::SVectorBase<R>* create(S& s, DataKey& k, int idxmax)
   {
      return s.create(k, idxmax);
   }
   static void addArr(S& s, DataKey& k, const R* vals, const int* idx, int n)
   {
      s.add(k, vals, idx, n);
   }
   static void addMany(S& s, DataKey* ks, const sp::SVectorBase<R>* v, int n)
   {
      if(ks) s.add(ks, v, n);
      else s.add(v, n);
   }
   static void add2(S& s, int i, int idx, const R& val)
   {
      s.add2(s[i], idx, val);
   }
   static void removePtr(S& s, int i)
   {
      s.remove(&s[i]);
   }
   static void removeKeys(S& s, const DataKey* ks, int n, int* perm)
   {
      if(perm) s.remove(ks, n, perm);
      else s.remove(ks, n);
   }
};
template <class R> struct AdRow
{
   typedef sp::LPRowSetBase<R> S;
   typedef AdRow<typename Other<R>::T> X;
   static const int NSIDE = 3;
   static const bool full = false;
   static S* make(int pmax, int pmem)
   {
      return new S(pmax, pmem);
   }
   static const sp::SVectorBase<R>& vec(const S& s, int i)
   {
      return s.rowVector(i);
   }
   static sp::SVectorBase<R>& vecw(S& s, int i)
   {
      return s.rowVector_w(i);
   }
   static const sp::SVectorBase<R>& veck(const S& s, const DataKey& k)
   {
      return s.rowVector(k);
   }
   static void add(S& s, DataKey& k, const sp::SVectorBase<R>& v, const R* sd)
   {
      s.add(k, sd[0], v, sd[1], sd[2]);
   }
   static void addNoKey(S& s, const sp::SVectorBase<R>& v, const R* sd)
   {
      s.add(sd[0], v, sd[1], sd[2]);
   }
   static void addSet(S& s, DataKey* ks, const S& o)
   {
      s.add(ks, o);
   }
   static void addSetNoKey(S& s, const S& o)
   {
      s.add(o);
   }
   static Q side(const S& s, int i, int k)
   {
      return Num<R>::to(k == 0 ? s.lhs(i) : k == 1 ? s.rhs(i) : s.obj(i));
   }
   static Q sidek(const S& s, const DataKey& key, int k)
   {
      return Num<R>::to(k == 0 ? s.lhs(key) : k == 1 ? s.rhs(key) : s.obj(key));
   }
   static void setSide(S& s, int i, int k, const R& v)
   {
      if(k == 0) s.lhs_w(i) = v;
      else if(k == 1) s.rhs_w(i) = v;
      else s.obj_w(i) = v;
   }
   static void xtend(S& s, int i, int nm)
   {
      if(nm & 1) s.xtend(i, nm);
      else s.xtend(s.key(i), nm);
   }
   static void add2n(S& s, int i, int n, const int* idx, const R* val)
   {
      if(n & 1) s.add2(i, n, idx, val);
      else s.add2(s.key(i), n, idx, val);
   }
   static void removeNums(S& s, const int* nums, int n, int* perm)
   {
      if(perm) s.remove(nums, n, perm);
      else s.remove(nums, n);
   }
   static bool extraChecks(const S&, int, std::string&)
   {
      return true;
   }
   static sp::SVectorBase<R>* create(S&, DataKey&, int)
   {
      return nullptr;
   }
   static void addArr(S&, DataKey&, const R*, const int*, int) {}
   static void addMany(S&, DataKey*, const sp::SVectorBase<R>*, int) {}
   static void add2(S&, int, int, const R&) {}
   static void removePtr(S&, int) {}
   static void removeKeys(S&, const DataKey*, int, int*) {}
};
template <class R> struct AdCol
{
   typedef sp::LPColSetBase<R> S;
   typedef AdCol<typename Other<R>::T> X;
   static const int NSIDE = 3;
   static const bool full = false;
   static S* make(int pmax, int pmem)
   {
      return new S(pmax, pmem);
   }
   static const sp::SVectorBase<R>& vec(const S& s, int i)
   {
      return s.colVector(i);
   }
   static sp::SVectorBase<R>& vecw(S& s, int i)
   {
      return s.colVector_w(i);
   }
   static const sp::SVectorBase<R>& veck(const S& s, const DataKey& k)
   {
      return s.colVector(k);
   }
   static void add(S& s, DataKey& k, const sp::SVectorBase<R>& v, const R* sd)
   {
      s.add(k, sd[0], sd[1], v, sd[2]);
   }
   static void addNoKey(S& s, const sp::SVectorBase<R>& v, const R* sd)
   {
      s.add(sd[0], sd[1], v, sd[2]);
   }
   static void addSet(S& s, DataKey* ks, const S& o)
   {
      s.add(ks, o);
   }
   static void addSetNoKey(S& s, const S& o)
   {
      s.add(o);
   }
   static Q side(const S& s, int i, int k)
   {
      return Num<R>::to(k == 0 ? s.maxObj(i) : k == 1 ? s.lower(i) : s.upper(i));
   }
   static Q sidek(const S& s, const DataKey& key, int k)
   {
      return Num<R>::to(k == 0 ? s.maxObj(key) : k == 1 ? s.lower(key) : s.upper(key));
   }
   static void setSide(S& s, int i, int k, const R& v)
   {
      if(k == 0) s.maxObj_w(i) = v;
      else if(k == 1) s.lower_w(i) = v;
      else s.upper_w(i) = v;
   }
   static void xtend(S& s, int i, int nm)
   {
      if(nm & 1) s.xtend(i, nm);
      else s.xtend(s.key(i), nm);
   }
   static void add2n(S& s, int i, int n, const int* idx, const R* val)
   {
      if(n & 1) s.add2(i, n, idx, val);
      else s.add2(s.key(i), n, idx, val);
   }
   static void removeNums(S& s, const int* nums, int n, int* perm)
   {
      if(perm) s.remove(nums, n, perm);
      else s.remove(nums, n);
   }
   static bool extraChecks(const S&, int, std::string&)
   {
      return true;
   }
   static sp::SVectorBase<R>* create(S&, DataKey&, int)
   {
      return nullptr;
   }
   static void addArr(S&, DataKey&, const R*, const int*, int) {}
   static void addMany(S&, DataKey*, const sp::SVectorBase<R>*, int) {}
   static void add2(S&, int, int, const R&) {}
   static void removePtr(S&, int) {}
   static void removeKeys(S&, const DataKey*, int, int*) {}
};

template <class R, class A>
struct VSetRunner
{
   typedef typename A::S S;
   Ctx& cx;
   S* s;
   Handles H;
   std::vector<SpVec> vec;              // per handle
   std::vector<std::vector<Q>> side;    // per handle
   VSetRunner(Ctx& c, int pmax, int pmem) : cx(c), s(A::make(pmax, pmem)) {}
   ~VSetRunner()
   {
      delete s;
   }
   int newHandle(int kidx, const SpVec& m, const std::vector<Q>& sd)
   {
      int h = H.add(kidx);
      vec.push_back(m);
      side.push_back(sd);
      H.order.push_back(h);
      if(cx.sawRemove) cx.reuse = true;
      if(H.everDead(kidx)) cx.count("slot_reused");
      return h;
   }
   struct Cap
   {
      int mx, mm, n;
   };
   Cap cap() const
   {
      return Cap{s->max(), s->memMax(), H.n()};
   }
   void grown(const Cap& b)
   {
      if(b.n > 0 && (s->max() > b.mx || s->memMax() > b.mm))
      {
         cx.growthLive = true;
         cx.count(s->max() > b.mx ? "growth_with_live_keys" : "mem_growth_with_live_keys");
      }
   }
   std::vector<Q> genSide(Rng& g)
   {
      std::vector<Q> sd;
      for(int k = 0; k < 3; k++) sd.push_back(rval<R>(g));
      return sd;
   }
   bool sync(S& c, std::vector<int>& no)
   {
      CHKB(c.num() == H.n(), "num() differs from the model");
      no.assign(H.n(), -1);
      std::set<int> seen;
      for(int i = 0; i < H.n(); i++)
      {
         int kidx = c.key(i).idx;
         CHKB(seen.insert(kidx).second, "two vector numbers share one key");
         int h = H.liveByKidx(kidx);
         CHKB(h >= 0, "key(i) is not the key of any live vector");
         no[i] = h;
      }
      return true;
   }
   void check(bool orderKnown, S* t = nullptr)
   {
      S& c = t ? *t : *s;
      if(!cx.ok()) return;
      if(!orderKnown)
      {
         std::vector<int> no;
         if(!sync(c, no)) return;
         H.order = no;
      }
      int n = H.n(), maxK = -1;
      CHK(c.num() == n, "num() differs from the model");
      CHK(c.max() >= n, "max() < num()");
      std::set<int> liveK;
      std::vector<std::pair<const char*, const char*>> regions;
      std::string why;
      for(int i = 0; i < n; i++)
      {
         int h = H.order[i];
         DataKey k = c.key(i);
         CHK(k.idx == H.hs[h].kidx, "vector numbering differs from the documented / reported renumbering");
         liveK.insert(k.idx);
         maxK = std::max(maxK, k.idx);
         CHK(c.has(k), "has(key) false for a live vector");
         CHK(c.number(k) == i, "number(key(i)) != i");
         const sp::SVectorBase<R>& v = A::vec(c, i);
         CHK(&A::veck(c, k) == &v, "access by key and by number give different vectors");
         CHK(sameVec<R>(v, vec[h], why), why);
         CHK(A::extraChecks(c, i, why), why);
         for(int q = 0; q < A::NSIDE; q++)
         {
            CHK(A::side(c, i, q) == side[h][q], "row/column side value by number differs from the model");
            CHK(A::sidek(c, k, q) == side[h][q], "row/column side value by key differs from the model");
         }
         if(v.max() > 0)
            regions.push_back(std::make_pair(reinterpret_cast<const char*>(v.mem()),
                                             reinterpret_cast<const char*>(v.mem() + v.max())));
      }
      std::sort(regions.begin(), regions.end());
      for(size_t q = 1; q < regions.size(); q++)
         CHK(regions[q - 1].second <= regions[q].first, "nonzero memory of two vectors overlaps");
      for(size_t h = 0; h < H.hs.size(); h++)
      {
         if(H.hs[h].live || liveK.count(H.hs[h].kidx)) continue;
         DataKey k = mkKey(H.hs[h].kidx);
         if(k.idx < maxK)
            CHK(!c.has(k), "has(key) true for a removed vector");
         int num = -1;
         try
         {
            num = c.number(k);
         }
         catch(const sp::SPxException&)
         {
            num = -1;
         }
         CHK(num < 0, "number(key) >= 0 for a removed vector");
      }
      CHK(c.isConsistent(), "isConsistent() false");
   }
   // known finding svset-xtend-last-mempack: xtend() of the vector that lies last in the nonzero memory, when the
   // memory is exhausted, may run memPack() and then reallocates without fixing the vectors' pointers. With the key
   // listed, the nonzero memory is enlarged first (what a careful caller can do), so the search continues behind it.
   void guardXtend(int i, int newmax)
   {
      if(!cx.known.count("svset-xtend-last-mempack")) return;
      const sp::SVectorBase<R>& v = A::vec(*s, i);
      if(v.max() >= newmax) return;
      for(int j = 0; j < s->num(); j++) if(A::vec(*s, j).mem() > v.mem()) return;
      if(s->memSize() + newmax - v.max() <= s->memMax()) return;
      s->memRemax(s->memSize() + newmax - v.max() + 1);
      ev().count("excluded_known.svset-xtend-last-mempack");
   }
   // content of a set as a multiset of serialised vectors (keys and numbering ignored)
   template <class R2, class A2> std::multiset<std::string> contentOf(const typename A2::S& t)
   {
      std::multiset<std::string> c;
      for(int i = 0; i < t.num(); i++)
      {
         std::map<int, Q> m;
         const sp::SVectorBase<R2>& v = A2::vec(t, i);
         for(int j = 0; j < v.size(); j++) m[v.index(j)] += Num<R2>::to(v.value(j));
         std::string z = std::to_string(v.size()) + ":";
         for(auto& kv : m) z += std::to_string(kv.first) + "=" + kv.second.get_str() + ",";
         for(int q = 0; q < A2::NSIDE; q++) z += "|" + A2::side(t, i, q).get_str();
         c.insert(z);
      }
      return c;
   }
   std::multiset<std::string> contentOfModel()
   {
      std::multiset<std::string> c;
      for(int h : H.order)
      {
         std::string z = std::to_string(vec[h].size()) + ":";
         for(auto& kv : vec[h]) z += std::to_string(kv.first) + "=" + kv.second.get_str() + ",";
         for(int q = 0; q < A::NSIDE; q++) z += "|" + side[h][q].get_str();
         c.insert(z);
      }
      return c;
   }
   void removedPrefixCheck(const std::vector<int>& before, int firstRemoved)
   {
      // svsetbase.h: "all SVectorBase with a smaller number than the lowest number of the removed ones remain unchanged"
      for(int i = 0; i < firstRemoved && i < H.n(); i++)
         CHK(H.order[i] == before[i], "a vector with a smaller number than the lowest removed number was renumbered");
   }
   void step(const Rec& r)
   {
      const std::string& o = cx.op;
      int n = H.n();
      Rng g((uint64_t) r.i(2) * 1000003ULL + (uint64_t) r.i(1));
      std::vector<int> idx;
      std::vector<Q> vals;
      Cap before = cap();
      if(o == "add" || o == "add_nokey" || o == "add_arr" || o == "create")
      {
         if(!A::full && (o == "add_arr" || o == "create")) return cx.skipped();
         int nnz = modn(r.i(1), 7);
         SpVec m = genVec<R>(g, nnz, SVDIM, idx, vals);
         std::vector<Q> sd = genSide(g);
         R sdr[3] = {Num<R>::from(sd[0]), Num<R>::from(sd[1]), Num<R>::from(sd[2])};
         sp::DSVectorBase<R> d(1);
         fillDS<R>(d, idx, vals);
         DataKey k;
         if(o == "add") A::add(*s, k, d, sdr);
         else if(o == "add_nokey")
         {
            A::addNoKey(*s, d, sdr);
            CHK(s->num() == n + 1, "num() after add is not n+1");
            std::vector<int> fresh;
            for(int i = 0; i < s->num(); i++) if(H.liveByKidx(s->key(i).idx) < 0) fresh.push_back(s->key(i).idx);
            CHK(fresh.size() == 1, "add did not create exactly one new key");
            k = mkKey(fresh[0]);
         }
         else if(o == "add_arr")
         {
            std::vector<R> rv;
            for(auto& q : vals) rv.push_back(Num<R>::from(q));
            A::addArr(*s, k, rv.data(), idx.data(), (int) idx.size());
         }
         else
         {
            int idxmax = nnz + modn(r.i(3), 4) - 1;     // may be -1 / 0: create() documents "at least idxmax"
            sp::SVectorBase<R>* p = A::create(*s, k, idxmax);
            CHK(p->size() == 0, "create() returned a non-empty vector");
            CHK(p->max() >= idxmax, "create(idxmax) returned a vector with max() < idxmax");
            int fill = std::min(nnz, p->max());
            m.clear();
            for(int j = 0; j < fill; j++)
            {
               p->add(idx[j], Num<R>::from(vals[j]));
               m[idx[j]] = vals[j];
            }
         }
         CHK(H.liveByKidx(k.idx) < 0, "add returned a key that is already in use");
         newHandle(k.idx, m, sd);
         if(s->num() > 0 && s->key(s->num() - 1).idx == k.idx) cx.count("new_element_is_last");
         grown(before);
         check(false);
      }
      else if(o == "addmany" || o == "addmany_nokey" || o == "addset" || o == "addset_nokey")
      {
         bool many = o.find("addmany") == 0, nokey = o.find("nokey") != std::string::npos;
         if(many && !A::full) return cx.skipped();
         int k = 1 + modn(r.i(1), 4);
         std::vector<SpVec> ms;
         std::vector<std::vector<Q>> sds;
         std::vector<std::vector<sp::Nonzero<R>>> bufs(k);
         std::vector<sp::SVectorBase<R>> svs(k);
         S* other = A::make(1 + modn(r.i(3), 4), -1);
         for(int j = 0; j < k; j++)
         {
            int nnz = g.r(0, 5);
            ms.push_back(genVec<R>(g, nnz, SVDIM, idx, vals));
            sds.push_back(genSide(g));
            bufs[j].resize(nnz + 1);
            svs[j].setMem(nnz + 1, bufs[j].data());
            for(size_t q = 0; q < idx.size(); q++) svs[j].add(idx[q], Num<R>::from(vals[q]));
            R sdr[3] = {Num<R>::from(sds[j][0]), Num<R>::from(sds[j][1]), Num<R>::from(sds[j][2])};
            A::addNoKey(*other, svs[j], sdr);
         }
         std::vector<DataKey> ks(k);
         if(many) A::addMany(*s, nokey ? nullptr : ks.data(), svs.data(), k);
         else if(nokey) A::addSetNoKey(*s, *other);
         else A::addSet(*s, ks.data(), *other);
         delete other;
         CHK(s->num() == n + k, "num() after adding k vectors is not n+k");
         if(nokey)
         {
            // new vectors are identified by their content being appended in order is NOT assumed: match fresh keys
            // to models by content (side values are unique with overwhelming probability; fall back to order)
            std::vector<int> fresh;
            for(int i = 0; i < s->num(); i++) if(H.liveByKidx(s->key(i).idx) < 0) fresh.push_back(i);
            CHK((int) fresh.size() == k, "add did not create exactly k new keys");
            std::vector<char> used(k, 0);
            for(int j = 0; j < k; j++)
            {
               int hit = -1;
               std::string why;
               for(int q = 0; q < k && hit < 0; q++)
                  if(!used[q] && sameVec<R>(A::vec(*s, fresh[q]), ms[j], why))
                  {
                     bool sameSide = true;
                     for(int t = 0; t < A::NSIDE; t++) if(A::side(*s, fresh[q], t) != sds[j][t]) sameSide = false;
                     if(sameSide) hit = q;
                  }
               CHK(hit >= 0, "an added vector is not found under any fresh key");
               used[hit] = 1;
               newHandle(s->key(fresh[hit]).idx, ms[j], sds[j]);
            }
         }
         else
            for(int j = 0; j < k; j++)
            {
               CHK(ks[j].idx >= 0, "key array entry not filled in by add(keys[], ...)");
               CHK(H.liveByKidx(ks[j].idx) < 0, "add returned a key that is already in use");
               newHandle(ks[j].idx, ms[j], sds[j]);
            }
         grown(before);
         check(false);
      }
      else if(o == "xtend")
      {
         if(n == 0) return cx.skipped();
         int i = modn(r.i(1), n);
         int nm = A::vec(*s, i).max() + modn(r.i(2), 6) - 1;
         guardXtend(i, nm);
         A::xtend(*s, i, nm);
         CHK(A::vec(*s, i).max() >= nm, "max() of the vector < newmax after xtend()");
         grown(before);
         check(true);
      }
      else if(o == "add2" || o == "add2n")
      {
         if(n == 0 || (!A::full && o == "add2")) return cx.skipped();
         int i = modn(r.i(1), n), h = H.order[i];
         int cnt = o == "add2" ? 1 : modn(r.i(3), 4);
         std::vector<int> ni;
         std::vector<R> nv;
         for(int c : ridx(g, SVDIM, SVDIM))
            if((int) ni.size() < cnt && !vec[h].count(c))
            {
               ni.push_back(c);
               Q q = rval<R>(g);
               nv.push_back(Num<R>::from(q));
               vec[h][c] = q;
            }
         guardXtend(i, A::vec(*s, i).size() + (int) ni.size());
         if(o == "add2")
         {
            if(ni.empty()) return cx.skipped();
            A::add2(*s, i, ni[0], nv[0]);
         }
         else
         {
            if(!A::full && (int) ni.size() != cnt) { /* parity of n selects the overload: keep as is */ }
            A::add2n(*s, i, (int) ni.size(), ni.data(), nv.data());
         }
         const sp::SVectorBase<R>& v = A::vec(*s, i);
         if(!ni.empty())
            CHK(v.size() > 0 && v.index(v.size() - 1) == ni.back(), "add2 did not append the new nonzero as the last one");
         grown(before);
         check(true);
      }
      else if(o == "edit_val" || o == "edit_rm" || o == "edit_sort" || o == "set_side")
      {
         if(n == 0) return cx.skipped();
         int i = modn(r.i(1), n), h = H.order[i];
         sp::SVectorBase<R>& v = A::vecw(*s, i);
         if(o == "set_side")
         {
            if(A::NSIDE == 0) return cx.skipped();
            int q = modn(r.i(3), 3);
            side[h][q] = rval<R>(g);
            A::setSide(*s, i, q, Num<R>::from(side[h][q]));
         }
         else if(o == "edit_sort")
         {
            v.sort();
            for(int j = 1; j < v.size(); j++) CHK(v.index(j - 1) < v.index(j), "sort() did not sort the indices increasingly");
         }
         else
         {
            if(v.size() == 0) return cx.skipped();
            int j = modn(r.i(3), v.size());
            if(o == "edit_val")
            {
               Q q = rval<R>(g);
               vec[h][v.index(j)] = q;
               v.value(j) = Num<R>::from(q);
            }
            else
            {
               vec[h].erase(v.index(j));
               v.remove(j);
            }
         }
         check(true);
      }
      else if(o == "remove_num" || o == "remove_key" || o == "remove_ptr")
      {
         if(n == 0 || (!A::full && o == "remove_ptr")) return cx.skipped();
         int i = modn(r.i(1), n);
         std::vector<int> was = H.order;
         if(o == "remove_num") s->remove(i);
         else if(o == "remove_key") s->remove(mkKey(H.hs[H.order[i]].kidx));
         else A::removePtr(*s, i);
         H.removeLastIntoHole(i);     // dataset.h: the last element moves into the hole (LP sets rely on it)
         cx.sawRemove = true;
         check(true);
         removedPrefixCheck(was, i);
      }
      else if(o == "remove_perm" || o == "remove_nums" || o == "remove_keys")
      {
         if(!A::full && o == "remove_keys") return cx.skipped();
         std::vector<char> del;
         std::vector<int> nums;
         bool isPerm = o == "remove_perm";
         pickDel(n, 1 + modn(r.i(1), 4), r.i(2), isPerm ? n : 1 + modn(r.i(3), 4), del, nums);
         bool withPerm = isPerm || modn(r.i(4), 2) == 1;
         std::vector<int> perm(n + 1, 12345), was = H.order;
         if(isPerm)
         {
            for(int i = 0; i < n; i++) perm[i] = del[i] ? -1 - (i & 1) : i;
            s->remove(perm.data());
         }
         else if(o == "remove_nums") A::removeNums(*s, nums.data(), (int) nums.size(), withPerm ? perm.data() : nullptr);
         else
         {
            std::vector<DataKey> ks;
            for(int i : nums) ks.push_back(mkKey(H.hs[H.order[i]].kidx));
            A::removeKeys(*s, ks.data(), (int) ks.size(), withPerm ? perm.data() : nullptr);
         }
         CHK(perm[n] == 12345, "removal wrote past perm[num()-1]");
         if(!nums.empty()) cx.sawRemove = true;
         int firstRemoved = n;
         for(int i = n - 1; i >= 0; i--) if(del[i]) firstRemoved = i;
         if(withPerm)
         {
            if(!applyPerm(cx, H, del, perm)) return;
            check(true);
         }
         else
         {
            std::vector<int> no;
            for(int i = 0; i < n; i++)
               if(del[i]) H.hs[H.order[i]].live = false;
               else no.push_back(H.order[i]);
            H.order = no;
            check(false);
         }
         if(cx.ok()) removedPrefixCheck(was, firstRemoved);
      }
      else if(o == "clear")
      {
         s->clear();
         if(n > 0) cx.sawRemove = true;
         H.killAll();
         check(true);
      }
      else if(o == "remax_grow" || o == "remax_any")
      {
         int nm = o == "remax_grow" ? s->max() + 1 + modn(r.i(1), 10) : s->num() - 2 + modn(r.i(1), 12);
         s->reMax(nm);
         CHK(s->max() >= nm && s->max() >= s->num(), "max() too small after reMax()");
         grown(before);
         check(true);
      }
      else if(o == "memremax")
      {
         int nm = s->memSize() - 3 + modn(r.i(1), 24);
         s->memRemax(nm);
         CHK(s->memMax() >= nm && s->memMax() >= s->memSize(), "memMax() too small after memRemax()");
         grown(before);
         check(true);
      }
      else if(o == "mempack")
      {
         s->memPack();
         for(int i = 0; i < n; i++)
            CHK(A::vec(*s, i).max() == A::vec(*s, i).size(), "max() != size() for a vector after memPack()");
         check(true);
      }
      else if(o == "xcopy")
      {
         // conversion to the set over the other number type and back (exact for dyadic double data only); the
         // templated copy/assignment re-adds the vectors, so keys and numbering are not compared, only the contents
         if(Num<R>::exact) return cx.skipped();
         typedef typename Other<R>::T R2;
         typedef typename A::X A2;
         typename A2::S t(*s);
         CHK(t.num() == n, "num() of the converted copy differs");
         CHK((contentOf<R2, A2>(t)) == contentOfModel(), "contents of the converted copy (other number type) differ");
         S* back = A::make(1 + modn(r.i(1), 6), 1 + modn(r.i(3), 20));
         *back = t;
         CHK(back->num() == n, "num() after assignment from the other number type differs");
         CHK((contentOf<R, A>(*back)) == contentOfModel(), "contents after assignment from the other number type differ");
         delete back;
         check(true);
      }
      else if(o == "copy" || o == "assign")
      {
         S* t;
         if(o == "copy") t = new S(*s);
         else
         {
            t = A::make(1 + modn(r.i(1), 10), 1 + modn(r.i(2), 30));
            int k = modn(r.i(2), 3);
            for(int j = 0; j < k; j++)
            {
               genVec<R>(g, g.r(0, 4), SVDIM, idx, vals);
               sp::DSVectorBase<R> d(1);
               fillDS<R>(d, idx, vals);
               R sdr[3] = {R(0), R(0), R(0)};
               A::addNoKey(*t, d, sdr);
            }
            *t = *s;
         }
         std::vector<int> keep = H.order;
         check(false, t);
         // the original must be unchanged by being copied from
         H.order = keep;
         check(true);
         if(modn(r.i(3), 2) && cx.ok())
         {
            delete s;
            s = t;
            check(false);
         }
         else delete t;
      }
      else cx.fail("unknown op");
   }
};

// ================================================================================================ NameSet
static std::string nameOf(int id)
{
   return "r" + std::to_string(id) + std::string((size_t)(id % 7), '_') + (id % 3 == 0 ? "x" : "");
}
static const int NAMEIDS = 40;
struct NameRunner
{
   Ctx& cx;
   sp::NameSet* s;
   Handles H;
   std::vector<int> id;      // per handle: name id
   NameRunner(Ctx& c, int pmax, int mmax) : cx(c), s(new sp::NameSet(pmax, mmax, 2, 2)) {}
   ~NameRunner()
   {
      delete s;
   }
   int liveById(int nid) const
   {
      for(int h : H.order) if(id[h] == nid) return h;
      return -1;
   }
   void newHandle(int kidx, int nid)
   {
      int h = H.add(kidx);
      id.push_back(nid);
      H.order.push_back(h);
      if(cx.sawRemove) cx.reuse = true;
      if(H.everDead(kidx)) cx.count("slot_reused");
   }
   struct Cap
   {
      int mx, mm, n;
   };
   void grown(const Cap& b)
   {
      if(b.n > 0 && (s->max() > b.mx || s->memMax() > b.mm))
      {
         cx.growthLive = true;
         cx.count(s->max() > b.mx ? "growth_with_live_keys" : "mem_growth_with_live_keys");
      }
   }
   bool sync()
   {
      CHKB(s->num() == H.n(), "num() differs from the model");
      std::vector<int> no(H.n());
      std::set<int> seen;
      for(int i = 0; i < H.n(); i++)
      {
         int kidx = s->key(i).idx;
         CHKB(seen.insert(kidx).second, "two name numbers share one key");
         int h = H.liveByKidx(kidx);
         CHKB(h >= 0, "key(i) is not the key of any live name");
         no[i] = h;
      }
      H.order = no;
      return true;
   }
   void check(bool orderKnown)
   {
      if(!cx.ok()) return;
      if(!orderKnown && !sync()) return;
      int n = H.n();
      CHK(s->num() == n, "num() differs from the model");
      CHK(s->size() >= n && s->max() >= s->size(), "num() <= size() <= max() violated");
      CHK(s->memSize() <= s->memMax(), "memSize() > memMax()");
      CHK(!s->has(n) && !s->has(-1), "has(int) true outside 0..num()-1");
      std::set<int> liveK;
      for(int i = 0; i < n; i++)
      {
         int h = H.order[i];
         DataKey k = s->key(i);
         CHK(k.idx == H.hs[h].kidx, "name numbering differs from the documented / reported renumbering");
         liveK.insert(k.idx);
         std::string nm = nameOf(id[h]);
         CHK(s->has(i) && s->has(k), "has(i) / has(key) false for a live name");
         CHK(s->number(k) == i, "number(key(i)) != i");
         CHK(nm == (*s)[i], "name by number differs from the model");
         CHK(nm == (*s)[k], "name by key differs from the model");
         CHK(s->has(nm.c_str()), "has(name) false for a registered name");
         CHK(s->number(nm.c_str()) == i, "number(name) is not the number the name is registered under");
         CHK(s->key(nm.c_str()).idx == k.idx, "key(name) is not the key the name was registered under");
      }
      for(int nid = 0; nid < NAMEIDS + 2; nid++)
      {
         if(liveById(nid) >= 0) continue;
         std::string nm = nameOf(nid);
         CHK(!s->has(nm.c_str()), "has(name) true for a removed / never added name");
         CHK(s->number(nm.c_str()) == -1, "number(name) != -1 for a removed / never added name");
         CHK(!s->key(nm.c_str()).isValid(), "key(name) valid for a removed / never added name");
      }
      for(size_t h = 0; h < H.hs.size(); h++)
      {
         if(H.hs[h].live || liveK.count(H.hs[h].kidx)) continue;
         DataKey k = mkKey(H.hs[h].kidx);
         if(k.idx < s->size())
            CHK(!s->has(k), "has(key) true for a removed name");
      }
      CHK(s->isConsistent(), "isConsistent() false");
   }
   void step(const Rec& r)
   {
      const std::string& o = cx.op;
      int n = H.n();
      Cap before{s->max(), s->memMax(), n};
      if(o == "add" || o == "add_nokey")
      {
         int nid = modn(r.i(1), NAMEIDS);
         std::string nm = nameOf(nid);
         bool dup = liveById(nid) >= 0;
         DataKey k = mkKey(-7);
         if(o == "add") s->add(k, nm.c_str());
         else s->add(nm.c_str());
         if(dup)
         {
            cx.count("add_duplicate");
            CHK(s->num() == n, "adding an existing name changed num()");
         }
         else
         {
            CHK(s->num() == n + 1, "num() after add is not n+1");
            if(o == "add_nokey") k = s->key(nm.c_str());
            CHK(k.idx >= 0 && H.liveByKidx(k.idx) < 0, "add returned an invalid key or a key already in use");
            newHandle(k.idx, nid);
         }
         grown(before);
         check(false);
      }
      else if(o == "addset")
      {
         int k = 1 + modn(r.i(1), 5);
         Rng g((uint64_t) r.i(2));
         sp::NameSet other(1 + modn(r.i(3), 4), -1, 2, 2);
         std::vector<int> ids;
         for(int j = 0; j < k; j++)
         {
            int nid = g.r(0, NAMEIDS - 1);
            if(std::find(ids.begin(), ids.end(), nid) == ids.end())
            {
               ids.push_back(nid);
               other.add(nameOf(nid).c_str());
            }
         }
         CHK(other.num() == (int) ids.size(), "helper NameSet lost a name");
         std::vector<DataKey> ks(ids.size() + 1, mkKey(-7));
         bool withKeys = modn(r.i(3), 2) == 0;
         if(withKeys) s->add(ks.data(), other);
         else s->add(other);
         for(size_t j = 0; j < ids.size(); j++)
         {
            // other[j] is the j'th name of the helper set (numbering of pure insertion = insertion order is not
            // assumed: look the name up instead)
            int pos = other.number(nameOf(ids[j]).c_str());
            CHK(pos >= 0, "helper NameSet lookup failed");
            if(liveById(ids[j]) >= 0) continue;
            DataKey k2 = withKeys ? ks[pos] : s->key(nameOf(ids[j]).c_str());
            CHK(k2.idx >= 0 && H.liveByKidx(k2.idx) < 0, "add(keys[], NameSet) returned an invalid key or a key in use");
            newHandle(k2.idx, ids[j]);
         }
         grown(before);
         check(false);
      }
      else if(o == "remove_num" || o == "remove_key" || o == "remove_name")
      {
         if(n == 0) return cx.skipped();
         int i = modn(r.i(1), n), h = H.order[i];
         if(o == "remove_num") s->remove(i);
         else if(o == "remove_key") s->remove(mkKey(H.hs[h].kidx));
         else s->remove(nameOf(id[h]).c_str());
         H.removeLastIntoHole(i);
         cx.sawRemove = true;
         check(true);
      }
      else if(o == "remove_absent")
      {
         int nid = modn(r.i(1), NAMEIDS);
         if(liveById(nid) >= 0) nid = NAMEIDS + 1;
         s->remove(nameOf(nid).c_str());     // documented as conditional on has(name)
         check(true);
      }
      else if(o == "remove_perm" || o == "remove_nums" || o == "remove_keys")
      {
         std::vector<char> del;
         std::vector<int> nums;
         bool isPerm = o == "remove_perm";
         pickDel(n, 1 + modn(r.i(1), 4), r.i(2), isPerm ? n : 1 + modn(r.i(3), 4), del, nums);
         std::vector<int> perm(n + 1, 12345);
         if(isPerm)
         {
            for(int i = 0; i < n; i++) perm[i] = del[i] ? -1 : i;
            s->remove(perm.data());
            CHK(perm[n] == 12345, "removal wrote past dstat[num()-1]");
            if(!applyPerm(cx, H, del, perm)) return;
            if(!nums.empty()) cx.sawRemove = true;
            check(true);
         }
         else
         {
            if(o == "remove_nums")
            {
               // numbers in a seed dependent (not necessarily monotone) order
               s->remove(nums.data(), (int) nums.size());
            }
            else
            {
               std::vector<DataKey> ks;
               for(int i : nums) ks.push_back(mkKey(H.hs[H.order[i]].kidx));
               s->remove(ks.data(), (int) ks.size());
            }
            std::vector<int> no;
            for(int i = 0; i < n; i++)
               if(del[i]) H.hs[H.order[i]].live = false;
               else no.push_back(H.order[i]);
            H.order = no;
            if(!nums.empty()) cx.sawRemove = true;
            check(false);
         }
      }
      else if(o == "clear")
      {
         s->clear();
         if(n > 0) cx.sawRemove = true;
         H.killAll();
         CHK(s->memSize() == 0, "memSize() != 0 after clear()");
         check(true);
      }
      else if(o == "remax_any")
      {
         int nm = s->num() - 2 + modn(r.i(1), 14);
         s->reMax(nm);
         CHK(s->max() >= nm && s->max() >= s->size(), "max() too small after reMax()");
         grown(before);
         check(true);
      }
      else if(o == "memremax")
      {
         int nm = s->memSize() - 4 + modn(r.i(1), 40);
         s->memRemax(nm);
         CHK(s->memMax() >= nm && s->memMax() >= s->memSize(), "memMax() too small after memRemax()");
         grown(before);
         check(true);
      }
      else if(o == "mempack")
      {
         s->memPack();
         int used = 0;
         for(int h : H.order) used += (int) nameOf(id[h]).size() + 1;
         CHK(s->memSize() == used, "memSize() after memPack() is not the total length of the live names");
         check(true);
      }
      else cx.fail("unknown op");
   }
};

// ================================================================================================ DataHashTable
struct HItem
{
   int v;
   friend bool operator==(const HItem& a, const HItem& b)
   {
      return a.v == b.v;
   }
};
static int g_hashMod = 5;
static int hashFun(const HItem* h)
{
   return (h->v % g_hashMod) * 3;     // deliberately colliding, non-negative
}
static const int HKEYS = 48;
struct HashRunner
{
   typedef sp::DataHashTable<HItem, int> T;
   Ctx& cx;
   T* t;
   std::map<int, int> m;
   bool everRemoved = false;
   size_t capEst;
   HashRunner(Ctx& c, int maxsize) : cx(c), t(new T(hashFun, maxsize, 0, 2.0)), capEst((size_t) maxsize) {}
   ~HashRunner()
   {
      delete t;
   }
   void check(T* c = nullptr)
   {
      T& h = c ? *c : *t;
      if(!cx.ok()) return;
      for(int k = 0; k < HKEYS; k++)
      {
         HItem it{k};
         auto f = m.find(k);
         if(f == m.end())
         {
            CHK(!h.has(it), "has() true for a key that is not in the table");
            CHK(h.get(it) == nullptr, "get() non-null for a key that is not in the table");
         }
         else
         {
            CHK(h.has(it), "has() false for a key that was added and not removed");
            const int* p = h.get(it);
            CHK(p != nullptr && *p == f->second, "get() does not return the info stored with the key");
            CHK(h[it] == f->second, "operator[] does not return the info stored with the key");
         }
      }
      CHK(h.isConsistent(), "isConsistent() false");
   }
   void step(const Rec& r)
   {
      const std::string& o = cx.op;
      if(o == "add")
      {
         int k = modn(r.i(1), HKEYS);
         HItem it{k};
         if(m.count(k))
         {
            // precondition of add(): key not present -> replace = remove + add
            t->remove(it);
            everRemoved = true;
            cx.count("add_replace");
         }
         size_t nb = m.size();
         t->add(it, (int) r.i(2));
         m[k] = (int) r.i(2);
         if(everRemoved) cx.reuse = true;
         if(nb > 0 && m.size() > capEst)
         {
            // more entries than the initial element array: the table has grown with live keys
            cx.growthLive = true;
            cx.count("growth_with_live_keys");
            capEst = 1000000;
         }
         check();
      }
      else if(o == "remove")
      {
         if(m.empty()) return cx.skipped();
         auto f = m.begin();
         std::advance(f, modn(r.i(1), (int) m.size()));
         t->remove(HItem{f->first});
         m.erase(f);
         everRemoved = cx.sawRemove = true;
         check();
      }
      else if(o == "remove_absent")
      {
         int k = modn(r.i(1), HKEYS);
         if(m.count(k)) k = HKEYS + 5;
         t->remove(HItem{k});
         check();
      }
      else if(o == "clear")
      {
         t->clear();
         if(!m.empty()) cx.sawRemove = everRemoved = true;
         m.clear();
         check();
      }
      else if(o == "remax")
      {
         int nm = (int) m.size() - 2 + modn(r.i(1), 40);
         if(!m.empty() && nm > (int) m.size())
         {
            cx.growthLive = true;
            cx.count("growth_with_live_keys");
         }
         t->reMax(nm);
         check();
      }
      else if(o == "copy" || o == "assign")
      {
         T* c;
         if(o == "copy") c = new T(*t);
         else
         {
            c = new T(hashFun, 1 + modn(r.i(1), 9), 0, 2.0);
            for(int j = 0; j < modn(r.i(2), 4); j++) c->add(HItem{HKEYS + 10 + j}, j);
            *c = *t;
         }
         check(c);
         check();
         if(modn(r.i(3), 2) && cx.ok())
         {
            delete t;
            t = c;
         }
         else delete c;
      }
      else cx.fail("unknown op");
   }
};

// ================================================================================================ IdxSet / DIdxSet
struct IdxRunner
{
   Ctx& cx;
   bool dyn;
   std::vector<int> buf;          // memory of the static IdxSet
   sp::IdxSet* s = nullptr;       // static
   sp::DIdxSet* d = nullptr;      // dynamic
   std::vector<int> m;            // model: sequence of indices
   static const int UNI = 40;
   IdxRunner(Ctx& c, bool dynamic, int len) : cx(c), dyn(dynamic), buf((size_t) std::max(1, len) + 1, -99)
   {
      if(dyn) d = new sp::DIdxSet(len);
      else s = new sp::IdxSet(len, buf.data());
   }
   ~IdxRunner()
   {
      delete s;
      delete d;
   }
   sp::IdxSet& I()
   {
      return dyn ? *d : *s;
   }
   void check(bool prefixOf = false, const std::vector<int>* was = nullptr, int firstRemoved = 0, sp::IdxSet* other = nullptr)
   {
      sp::IdxSet& x = other ? *other : I();
      if(!cx.ok()) return;
      CHK(x.size() == (int) m.size(), "size() differs from the model");
      CHK(x.max() >= x.size(), "max() < size()");
      std::set<int> seen, want(m.begin(), m.end());
      int dm = -1;
      for(int i = 0; i < x.size(); i++)
      {
         CHK(seen.insert(x.index(i)).second, "duplicate index in the index set");
         CHK(want.count(x.index(i)), "index set contains an index that is not in the model");
         CHK(x.pos(x.index(i)) == i, "pos(index(i)) != i");
         dm = std::max(dm, x.index(i));
      }
      CHK(x.dim() == dm, "dim() is not the maximal index");
      for(int k = 0; k < UNI; k++) if(!want.count(k)) CHK(x.pos(k) == -1, "pos() >= 0 for an index that is not in the set");
      if(prefixOf && was)
         for(int i = 0; i < firstRemoved && i < x.size(); i++)
            CHK(x.index(i) == (*was)[i], "an index before the first removed position changed its number");
      if(!dyn && !other) CHK(buf.back() == -99, "IdxSet wrote past its index memory");
      CHK(x.isConsistent(), "isConsistent() false");
   }
   void resync()
   {
      m.clear();
      for(int i = 0; i < I().size(); i++) m.push_back(I().index(i));
   }
   void step(const Rec& r)
   {
      const std::string& o = cx.op;
      int n = (int) m.size();
      Rng g((uint64_t) r.i(2));
      auto absent = [&](int cnt)
      {
         std::vector<int> out;
         for(int c : ridx(g, UNI, UNI)) if((int) out.size() < cnt && std::find(m.begin(), m.end(), c) == m.end()) out.push_back(c);
         return out;
      };
      if(o == "addidx" || o == "addn" || o == "addset")
      {
         int cnt = o == "addidx" ? 1 : modn(r.i(1), 5);
         std::vector<int> ni = absent(cnt);
         if(!dyn && n + (int) ni.size() > s->max()) ni.resize((size_t) std::max(0, s->max() - n));
         if(o == "addidx" && ni.empty()) return cx.skipped();
         int om = I().max();
         if(o == "addidx")
         {
            if(dyn) d->addIdx(ni[0]);
            else s->addIdx(ni[0]);
         }
         else if(o == "addn")
         {
            if(dyn) d->add((int) ni.size(), ni.data());
            else s->add((int) ni.size(), ni.data());
         }
         else
         {
            std::vector<int> ob(ni.size() + 1);
            sp::IdxSet other((int) ni.size() + 1, ob.data());
            other.add((int) ni.size(), ni.data());
            if(dyn) d->add(other);
            else s->add(other);
         }
         if(I().max() > om && n > 0)
         {
            cx.growthLive = true;
            cx.count("growth_with_live_keys");
         }
         if(cx.sawRemove && !ni.empty()) cx.reuse = true;
         for(int c : ni) m.push_back(c);
         // idxset.h: indices are appended
         for(int i = 0; i < (int) m.size() && cx.ok(); i++) CHK(I().size() == (int) m.size() && I().index(i) == m[i], "indices were not appended in order");
         check();
      }
      else if(o == "remove")
      {
         if(n == 0) return cx.skipped();
         int i = modn(r.i(1), n);
         std::vector<int> was = m;
         I().remove(i);
         m.erase(m.begin() + i);
         cx.sawRemove = true;
         check(true, &was, i);
         resync();
      }
      else if(o == "remove_range" || o == "remove_tail")
      {
         if(n == 0) return cx.skipped();
         int a = modn(r.i(1), n), b = a + modn(r.i(3), n - a);
         if(o == "remove_tail") b = n - 1;
         else if(b == n - 1) b--;
         if(b < a) return cx.skipped();
         std::vector<int> was = m;
         I().remove(a, b);
         m.erase(m.begin() + a, m.begin() + b + 1);
         cx.sawRemove = true;
         check(true, &was, a);
         resync();
      }
      else if(o == "clear")
      {
         I().clear();
         if(n) cx.sawRemove = true;
         m.clear();
         check();
      }
      else if(o == "setmax")
      {
         if(!dyn) return cx.skipped();
         int nm = n - 2 + modn(r.i(1), 14);
         d->setMax(nm);
         CHK(d->max() >= nm && d->max() >= n, "max() too small after setMax()");
         if(n > 0 && nm > n)
         {
            cx.growthLive = true;
            cx.count("growth_with_live_keys");
         }
         check();
      }
      else if(o == "copy")
      {
         if(dyn)
         {
            sp::DIdxSet c1(*d);
            check(false, nullptr, 0, &c1);
            sp::DIdxSet c2(static_cast<const sp::IdxSet&>(*d));
            check(false, nullptr, 0, &c2);
         }
         else
         {
            sp::IdxSet c1(*s);
            check(false, nullptr, 0, &c1);
         }
         check();
      }
      else if(o == "assign")
      {
         // left side with enough index memory (documented requirement of IdxSet::operator=)
         std::vector<int> ob((size_t) n + 1 + (size_t) modn(r.i(1), 4));
         sp::IdxSet a((int) ob.size(), ob.data());
         std::vector<int> pre = absent(modn(r.i(3), 3));
         a.add((int) std::min(pre.size(), ob.size()), pre.data());
         a = I();
         check(false, nullptr, 0, &a);
         sp::DIdxSet b(1 + modn(r.i(1), 5));
         b = I();
         check(false, nullptr, 0, &b);
         if(dyn && modn(r.i(3), 2))
         {
            *d = b;     // round trip through another DIdxSet
            check();
         }
         check();
      }
      else cx.fail("unknown op");
   }
};

// ================================================================================================ DataArray / ClassArray / Array
template <class ARR> struct ArrTraits;
template <> struct ArrTraits<sp::DataArray<int>>
{
   typedef int T;
   static const int kind = 0;
};
template <> struct ArrTraits<sp::ClassArray<Tr>>
{
   typedef Tr T;
   static const int kind = 1;
};
template <> struct ArrTraits<sp::Array<Tr>>
{
   typedef Tr T;
   static const int kind = 2;
};
// operations that exist only for some of the three array classes
static void arrRemoveLast(sp::DataArray<int>& a, int k)
{
   a.removeLast(k);
}
static void arrRemoveLast(sp::ClassArray<Tr>& a, int k)
{
   a.removeLast(k);
}
static void arrRemoveLast(sp::Array<Tr>&, int) {}
static void arrReMax(sp::DataArray<int>& a, int nm, int ns)
{
   a.reMax(nm, ns);
}
static void arrReMax(sp::ClassArray<Tr>& a, int nm, int ns)
{
   a.reMax(nm, ns);
}
static void arrReMax(sp::Array<Tr>&, int, int) {}
static int arrMax(const sp::DataArray<int>& a)
{
   return a.max();
}
static int arrMax(const sp::ClassArray<Tr>& a)
{
   return a.max();
}
static int arrMax(const sp::Array<Tr>& a)
{
   return a.size();
}
static void arrInsertVal(sp::DataArray<int>& a, int i, int k, const int& v)
{
   a.insert(i, k, v);
}
static void arrInsertVal(sp::ClassArray<Tr>&, int, int, const Tr&) {}
static void arrInsertVal(sp::Array<Tr>& a, int i, int k, const Tr& v)
{
   a.insert(i, k, v);
}
static sp::DataArray<int>* arrMake(sp::DataArray<int>*, int sz, int mx)
{
   return new sp::DataArray<int>(sz, mx, 1.2);
}
static sp::ClassArray<Tr>* arrMake(sp::ClassArray<Tr>*, int sz, int mx)
{
   return new sp::ClassArray<Tr>(sz, mx, 1.2);
}
static sp::Array<Tr>* arrMake(sp::Array<Tr>*, int sz, int)
{
   return new sp::Array<Tr>(sz);
}

template <class ARR>
struct ArrRunner
{
   typedef typename ArrTraits<ARR>::T T;
   static const int K = ArrTraits<ARR>::kind;
   Ctx& cx;
   ARR* a;
   std::vector<int> m;
   int serial = 0;
   ArrRunner(Ctx& c, int sz, int mx) : cx(c), a(arrMake((ARR*) nullptr, sz, mx))
   {
      // the initial elements are "uninitialized" by documentation: give them values
      for(int i = 0; i < sz; i++)
      {
         m.push_back(fresh());
         (*a)[i] = El<T>::mk(m.back());
      }
   }
   ~ArrRunner()
   {
      delete a;
   }
   int fresh()
   {
      return ++serial;
   }
   void check(ARR* o = nullptr)
   {
      ARR& x = o ? *o : *a;
      if(!cx.ok()) return;
      CHK(x.size() == (int) m.size(), "size() differs from the model");
      CHK(arrMax(x) >= x.size(), "max() < size()");
      for(int i = 0; i < x.size(); i++) CHK(El<T>::val(x[i]) == m[i], "array element differs from the model");
      if(x.size() > 0) CHK(El<T>::val(x.get_const_ptr()[x.size() - 1]) == m.back(), "get_const_ptr() does not address the elements");
      CHK(x.isConsistent(), "isConsistent() false");
      if(K != 0 && Tr::anomalies() > 0) cx.fail("element lifetime violated: " + Tr::first());
   }
   void fill(int from, int cnt)      // give values to elements documented as uninitialized
   {
      for(int j = 0; j < cnt; j++)
      {
         m[from + j] = fresh();
         (*a)[from + j] = El<T>::mk(m[from + j]);
      }
   }
   void step(const Rec& r)
   {
      const std::string& o = cx.op;
      int n = (int) m.size(), om = arrMax(*a);
      auto newvals = [&](int k)
      {
         std::vector<int> v;
         for(int j = 0; j < k; j++) v.push_back(fresh());
         return v;
      };
      auto items = [&](const std::vector<int>& v)
      {
         std::vector<T> t;
         t.reserve(v.size());
         for(int x : v) t.push_back(El<T>::mk(x));
         return t;
      };
      auto grown = [&]()
      {
         if(n > 0 && arrMax(*a) > om && K != 2)
         {
            cx.growthLive = true;
            cx.count("growth_with_live_elements");
         }
         if(K == 2 && n > 0 && (int) m.size() > n) cx.growthLive = true;
         if(cx.sawRemove && (int) m.size() > n) cx.reuse = true;
      };
      if(o == "append" || o == "appendn" || o == "append_arr")
      {
         int k = o == "append" ? 1 : modn(r.i(1), 5);
         std::vector<int> v = newvals(k);
         std::vector<T> t = items(v);
         if(o == "append") a->append(t[0]);
         else if(o == "appendn") a->append(k, t.data());
         else
         {
            ARR* b = arrMake((ARR*) nullptr, 0, 1 + modn(r.i(2), 3));
            for(int j = 0; j < k; j++) b->append(t[j]);
            a->append(*b);
            delete b;
         }
         m.insert(m.end(), v.begin(), v.end());
         grown();
         check();
      }
      else if(o == "insert" || o == "insert_gap" || o == "insert_arr" || o == "insert_val")
      {
         if(o == "insert_val" && K == 1) return cx.skipped();
         int i = modn(r.i(1), n + 1), k = modn(r.i(2), 4);
         std::vector<int> v = newvals(k);
         if(o == "insert_val") for(auto& x : v) x = v.empty() ? 0 : v[0];
         std::vector<T> t = items(v);
         if(o == "insert") a->insert(i, k, t.data());
         else if(o == "insert_val")
         {
            if(k > 0) arrInsertVal(*a, i, k, t[0]);
         }
         else if(o == "insert_arr")
         {
            ARR* b = arrMake((ARR*) nullptr, 0, 1);
            for(int j = 0; j < k; j++) b->append(t[j]);
            a->insert(i, *b);
            delete b;
         }
         else a->insert(i, k);
         m.insert(m.begin() + i, v.begin(), v.end());
         if(o == "insert_gap")
         {
            CHK(a->size() == (int) m.size(), "size() after insert(i, n) is not size+n");
            fill(i, k);
         }
         grown();
         check();
      }
      else if(o == "remove")
      {
         if(n == 0) return cx.skipped();
         int i = modn(r.i(1), n), k = modn(r.i(2), n - i + 1);
         if(K == 0 && modn(r.i(3), 4) == 0) k = k + 3;       // DataArray::remove documents clamping of m
         a->remove(i, k);
         m.erase(m.begin() + i, m.begin() + std::min(n, i + k));
         if(k > 0) cx.sawRemove = true;
         check();
      }
      else if(o == "removelast")
      {
         if(K == 2) return cx.skipped();
         int k = modn(r.i(1), n + 1);
         arrRemoveLast(*a, k);
         m.resize((size_t)(n - k));
         if(k > 0) cx.sawRemove = true;
         check();
      }
      else if(o == "clear")
      {
         a->clear();
         m.clear();
         if(n) cx.sawRemove = true;
         check();
      }
      else if(o == "resize")
      {
         int ns = modn(r.i(1), 2 * n + 4);
         a->reSize(ns);
         m.resize((size_t) ns, 0);
         CHK(a->size() == ns, "size() after reSize(n) is not n");
         if(ns > n) fill(n, ns - n);
         else if(ns < n) cx.sawRemove = true;
         grown();
         check();
      }
      else if(o == "remax" || o == "remax_below")
      {
         if(K == 2) return cx.skipped();
         // remax: newMax >= size() (or an explicit newSize); remax_below: newMax < size() with default newSize
         int nm, ns = -1;
         if(o == "remax")
         {
            nm = n + modn(r.i(1), 8);
            if(modn(r.i(2), 3) == 0) ns = modn(r.i(3), n + 4);
            if(modn(r.i(2), 3) == 1 && ns < 0) nm = std::max(nm, 1);
         }
         else
         {
            if(n < 2) return cx.skipped();
            nm = modn(r.i(1), n);
         }
         arrReMax(*a, nm, ns);
         if(ns >= 0)
         {
            m.resize((size_t) ns, 0);
            CHK(a->size() == ns, "size() after reMax(newMax, newSize) is not newSize");
            if(ns > n) fill(n, ns - n);
            else if(ns < n) cx.sawRemove = true;
         }
         else
            CHK(a->size() == n, "reMax(newMax) with default newSize changed size()");
         CHK(arrMax(*a) >= a->size() && arrMax(*a) >= 1, "max() after reMax() is < size() or < 1");
         grown();
         check();
      }
      else if(o == "set")
      {
         if(n == 0) return cx.skipped();
         int i = modn(r.i(1), n);
         m[i] = fresh();
         (*a)[i] = El<T>::mk(m[i]);
         if(i == n - 1) CHK(El<T>::val(a->get_ptr()[n - 1]) == m[i], "get_ptr() does not address the elements");
         check();
      }
      else if(o == "copy" || o == "assign")
      {
         ARR* b;
         if(o == "copy") b = new ARR(*a);
         else
         {
            b = arrMake((ARR*) nullptr, modn(r.i(1), 6), modn(r.i(2), 9));
            *b = *a;
         }
         check(b);
         check();
         if(modn(r.i(3), 2) && cx.ok())
         {
            delete a;
            a = b;
         }
         else delete b;
      }
      else cx.fail("unknown op");
   }
};

// ================================================================================================ IdList / IsList
struct Payload
{
   int tag;
};
template <class L, class E> struct ListTraits;
typedef sp::IdElement<Payload> IdE;
typedef sp::IsElement<Payload> IsE;
static void listInsertAfter(sp::IdList<IdE>& l, IdE* e, IdE* after)
{
   l.insert(e, after);
}
static void listInsertAfter(sp::IsList<IsE>& l, IsE* e, IsE* after)
{
   l.insert(e, after);
}
static IdE* listPrev(const sp::IdList<IdE>& l, const IdE* e)
{
   return l.prev(e);
}
static IsE* listPrev(const sp::IsList<IsE>&, const IsE*)
{
   return nullptr;
}
template <class L, class E, bool DOUBLY>
struct ListRunner
{
   Ctx& cx;
   static const int POOL = 14;
   E* pool;                       // malloc'ed array, moved by op "move"
   L* l;
   std::vector<int> m;            // model: pool indices in list order
   ListRunner(Ctx& c) : cx(c)
   {
      pool = static_cast<E*>(malloc(sizeof(E) * POOL));
      for(int i = 0; i < POOL; i++)
      {
         new(&pool[i]) E();
         pool[i].tag = i;
         pool[i].next() = nullptr;
      }
      l = new L();
   }
   ~ListRunner()
   {
      delete l;
      free(pool);
   }
   bool inList(int e) const
   {
      return std::find(m.begin(), m.end(), e) != m.end();
   }
   std::vector<int> freeElems() const
   {
      std::vector<int> f;
      for(int i = 0; i < POOL; i++) if(!inList(i)) f.push_back(i);
      return f;
   }
   void check()
   {
      if(!cx.ok()) return;
      CHK(l->length() == (int) m.size(), "length() differs from the model");
      if(m.empty())
      {
         CHK(l->first() == nullptr && l->last() == nullptr, "first()/last() not null for an empty list");
         return;
      }
      CHK(l->first() == &pool[m.front()], "first() is not the first element of the model");
      CHK(l->last() == &pool[m.back()], "last() is not the last element of the model");
      const E* e = l->first();
      for(size_t i = 0; i < m.size(); i++)
      {
         CHK(e == &pool[m[i]], "forward traversal differs from the model");
         CHK(e->tag == m[i], "element payload changed");
         CHK(l->find(e), "find() false for a member");
         e = l->next(e);
      }
      CHK(e == nullptr, "next(last()) is not null");
      if(DOUBLY)
      {
         e = l->last();
         for(size_t i = m.size(); i-- > 0;)
         {
            CHK(e == &pool[m[i]], "backward traversal differs from the model");
            e = listPrev(*l, e);
         }
         CHK(e == nullptr, "prev(first()) is not null");
      }
      for(int i : freeElems()) CHK(!l->find(&pool[i]), "find() true for a non-member");
      CHK(l->isConsistent(), "isConsistent() false");
   }
   void step(const Rec& r)
   {
      const std::string& o = cx.op;
      int n = (int) m.size();
      std::vector<int> fr = freeElems();
      if(o == "append" || o == "prepend" || o == "insert")
      {
         if(fr.empty() || (o == "insert" && n == 0)) return cx.skipped();
         int e = fr[modn(r.i(1), (int) fr.size())];
         if(cx.sawRemove) cx.reuse = true;
         if(o == "append")
         {
            l->append(&pool[e]);
            m.push_back(e);
         }
         else if(o == "prepend")
         {
            l->prepend(&pool[e]);
            m.insert(m.begin(), e);
         }
         else
         {
            int p = modn(r.i(2), n);
            listInsertAfter(*l, &pool[e], &pool[m[p]]);
            m.insert(m.begin() + p + 1, e);
         }
         check();
      }
      else if(o == "remove")
      {
         if(n == 0) return cx.skipped();
         int p = modn(r.i(1), n);
         l->remove(&pool[m[p]]);
         m.erase(m.begin() + p);
         cx.sawRemove = true;
         check();
      }
      else if(o == "remove_next")
      {
         if(n < 2) return cx.skipped();
         int p = modn(r.i(1), n - 1);      // an element that has a successor
         l->remove_next(&pool[m[p]]);
         m.erase(m.begin() + p + 1);
         cx.sawRemove = true;
         check();
      }
      else if(o == "append_list" || o == "prepend_list" || o == "insert_list")
      {
         int k = std::min((int) fr.size(), 1 + modn(r.i(1), 3));
         if(k == 0 || (o == "insert_list" && n == 0)) return cx.skipped();
         L sub;
         std::vector<int> es(fr.begin(), fr.begin() + k);
         for(int e : es) sub.append(&pool[e]);
         if(o == "append_list")
         {
            l->append(sub);
            m.insert(m.end(), es.begin(), es.end());
         }
         else if(o == "prepend_list")
         {
            l->prepend(sub);
            m.insert(m.begin(), es.begin(), es.end());
         }
         else
         {
            int p = modn(r.i(2), n);
            l->insert(sub, &pool[m[p]]);
            m.insert(m.begin() + p + 1, es.begin(), es.end());
         }
         if(cx.sawRemove) cx.reuse = true;
         sub.clear();
         check();
      }
      else if(o == "remove_sublist" || o == "remove_prefix")
      {
         if(n == 0) return cx.skipped();
         int a = o == "remove_prefix" ? 0 : modn(r.i(1), n), b = a + modn(r.i(2), n - a);
         L sub(&pool[m[a]], &pool[m[b]]);
         l->remove(sub);
         sub.clear();
         m.erase(m.begin() + a, m.begin() + b + 1);
         cx.sawRemove = true;
         check();
      }
      else if(o == "clear")
      {
         l->clear();
         if(n) cx.sawRemove = true;
         m.clear();
         check();
      }
      else if(o == "move")
      {
         // all elements move by a constant offset (what ClassSet::reMax + IdList::move do inside SVSetBase)
         E* np = static_cast<E*>(malloc(sizeof(E) * POOL));
         memcpy(static_cast<void*>(np), static_cast<const void*>(pool), sizeof(E) * POOL);
         ptrdiff_t delta = reinterpret_cast<char*>(np) - reinterpret_cast<char*>(pool);
         l->move(delta);
         memset(static_cast<void*>(pool), 0x5a, sizeof(E) * POOL);
         free(pool);
         pool = np;
         if(n > 0)
         {
            cx.growthLive = true;
            cx.count("move_with_live_elements");
         }
         check();
      }
      else cx.fail("unknown op");
   }
};

// ================================================================================================ Sorter
struct IntCmp
{
   long calls = 0;
   int operator()(int a, int b)
   {
      calls++;
      return a < b ? -1 : (a > b ? 1 : 0);
   }
};
struct PairCmp      // compares the first component only: equal keys "can appear in any order"
{
   int operator()(const std::pair<int, int>& a, const std::pair<int, int>& b) const
   {
      return a.first < b.first ? -1 : (a.first > b.first ? 1 : 0);
   }
};
static void sorterStep(Ctx& cx, const Rec& r)
{
   const std::string& o = cx.op;
   int n = (int) r.i(1) * (1 + modn(r.i(4) / 4, 4)), range = 1 + (int) r.i(3) * (1 + modn(r.i(5), 3));
   Rng g((uint64_t) r.i(2));
   std::vector<std::pair<int, int>> a((size_t) n);
   for(int i = 0; i < n; i++) a[i] = std::make_pair(g.r(0, range), i);
   int pattern = modn(r.i(4), 4);
   if(pattern == 1) std::sort(a.begin(), a.end());
   if(pattern == 2) std::sort(a.begin(), a.end(), std::greater<std::pair<int, int>>());
   std::vector<std::pair<int, int>> b = a, ref = a;
   PairCmp cmp;
   std::stable_sort(ref.begin(), ref.end(), [](const std::pair<int, int>& x, const std::pair<int, int>& y)
   {
      return x.first < y.first;
   });
   auto isPermutation = [&]()
   {
      std::vector<std::pair<int, int>> x = b, y = a;
      std::sort(x.begin(), x.end());
      std::sort(y.begin(), y.end());
      return x == y;
   };
   b.push_back(std::make_pair(-777, -777));     // sentinel behind the sorted range
   if(o == "sort")
   {
      sp::SPxQuicksort(b.data(), n, cmp);
      CHK(b.back().first == -777, "SPxQuicksort wrote behind the array");
      b.pop_back();
      CHK(isPermutation(), "SPxQuicksort result is not a permutation of the input");
      for(int i = 0; i + 1 < n; i++) CHK(b[i].first <= b[i + 1].first, "SPxQuicksort result is not sorted");
      if(n >= SOPLEX_SHELLSORTMAX + 1) cx.count("sort.quick_path");
   }
   else if(o == "sortpart")
   {
      int size = 1 + modn(r.i(5), n + 2);
      int ret = sp::SPxQuicksortPart(b.data(), cmp, 0, n, size);
      CHK(b.back().first == -777, "SPxQuicksortPart wrote behind the array");
      b.pop_back();
      CHK(isPermutation(), "SPxQuicksortPart result is not a permutation of the input");
      if(n >= 2)
      {
         // sorter.h: "ensures that the size smallest elements are sorted to the front"; callers use the return
         // value as the index of the last sorted element
         int need = std::min(size, n);
         CHK(ret >= need - 1 && ret <= n - 1, "SPxQuicksortPart returned an index outside [size-1, n-1]");
         for(int i = 0; i <= ret; i++) CHK(b[i].first == ref[i].first, "SPxQuicksortPart: sorted front differs from the sorted input");
         for(int i = ret + 1; i < n; i++) CHK(b[i].first >= b[ret].first, "SPxQuicksortPart: element behind the sorted front is smaller than the front");
      }
   }
   else if(o == "shell")
   {
      int m2 = std::min(n, SOPLEX_SHELLSORTMAX);
      if(m2 >= 1) sp::SPxShellsort(b.data(), m2 - 1, cmp);
      b.pop_back();
      CHK(isPermutation(), "SPxShellsort result is not a permutation of the input");
      for(int i = 0; i + 1 < m2; i++) CHK(b[i].first <= b[i + 1].first, "SPxShellsort result is not sorted");
   }
   else cx.fail("unknown op");
}

// ================================================================================================ vectors
typedef std::vector<Q> Dense;
template <class R>
struct VecRunner
{
   Ctx& cx;
   int D;
   std::shared_ptr<sp::Tolerances> tol;
   sp::VectorBase<R> V[2];
   sp::SSVectorBase<R>* S[3];
   sp::DSVectorBase<R> DS[2];
   std::vector<sp::Nonzero<R>> pbuf;
   sp::SVectorBase<R> P;
   sp::UnitVectorBase<R> U;
   sp::SVSetBase<R> A;
   Dense mv[2], ms[3], msp[4];
   std::vector<Dense> mA;
   bool unit;      // cancellation-friendly mode: all data +-1 / +-2, matrix columns restricted to the first three

   Q rv(Rng& g)
   {
      if(!unit) return rval<R>(g);
      return Q((g.r(0, 3) == 0 ? 2 : 1) * (g.r(0, 1) ? 1 : -1));
   }
   VecRunner(Ctx& c, int dim, long matSeed) : cx(c), D(dim), tol(std::make_shared<sp::Tolerances>()), pbuf((size_t) dim + 3), U(0),
      unit(matSeed % 3 == 0)
   {
      for(int k = 0; k < 2; k++)
      {
         V[k].reDim(D);
         mv[k].assign(D, Q(0));
      }
      for(int k = 0; k < 3; k++)
      {
         S[k] = new sp::SSVectorBase<R>(D, tol);
         ms[k].assign(D, Q(0));
      }
      for(int k = 0; k < 4; k++) msp[k].assign(D, Q(0));
      msp[3][0] = 1;
      P.setMem(D + 2, pbuf.data());
      Rng g((uint64_t) matSeed);
      mA.assign(D, Dense(D, Q(0)));
      for(int i = 0; i < D; i++)
      {
         std::vector<int> idx = ridx(g, g.r(0, std::min(D, 3)), unit ? std::min(D, 3) : D);
         sp::DSVectorBase<R> d(1);
         for(int j : idx)
         {
            Q q = unit ? Q(g.r(0, 1) ? 1 : -1) : Q(g.r(1, 2) * (g.r(0, 1) ? 1 : -1)) * q2pow(g.r(-1, 0));
            mA[i][j] = q;
            d.add(j, Num<R>::from(q));
         }
         A.add(d);
      }
      // every operand starts with some content (derived from the seed in the kind rec)
      for(int k = 0; k < 2; k++)
      {
         mv[k] = genDense(g, g.r(1, D));
         for(int i = 0; i < D; i++) V[k][i] = Num<R>::from(mv[k][i]);
      }
      for(int k = 0; k < 3; k++)
      {
         ms[k] = genDense(g, g.r(1, D));
         sp::VectorBase<R> t(D);
         for(int i = 0; i < D; i++) t[i] = Num<R>::from(ms[k][i]);
         *S[k] = t;
         if(g.r(0, 1)) S[k]->setup();
      }
      for(int k = 0; k < 3; k++) setSparse(k, genDense(g, g.r(1, std::min(D, 6))), g);
   }
   ~VecRunner()
   {
      for(int k = 0; k < 3; k++) delete S[k];
   }
   sp::SVectorBase<R>& spw(int id)
   {
      return id == 0 ? static_cast<sp::SVectorBase<R>&>(DS[0]) : id == 1 ? static_cast<sp::SVectorBase<R>&>(DS[1]) :
             id == 2 ? P : static_cast<sp::SVectorBase<R>&>(U);
   }
   static int spKind(int id)
   {
      return id < 2 ? 2 : id == 2 ? 3 : 4;
   }
   static bool overlap(const Dense& a, const Dense& b)
   {
      for(size_t i = 0; i < a.size(); i++) if(a[i] != 0 && b[i] != 0) return true;
      return false;
   }
   void mixed(int k1, int k2, const Dense& a, const Dense& b)
   {
      if(k1 != k2 && overlap(a, b))
      {
         cx.mixedOverlap = true;
         cx.count("mixed_kinds_overlapping");
      }
   }
   bool allOk(const Dense& d) const
   {
      for(auto& q : d) if(!okVal<R>(q)) return false;
      return true;
   }
   static Q dot(const Dense& a, const Dense& b)
   {
      Q s = 0;
      for(size_t i = 0; i < a.size(); i++) s += a[i] * b[i];
      return s;
   }
   static Q maxAbsQ(const Dense& a)
   {
      Q m = 0;
      for(auto& q : a) if(qabs(q) > m) m = qabs(q);
      return m;
   }
   bool explicitZeroInIdx(int k) const      // setup SSVector whose index set holds an index of a zero value
   {
      if(!S[k]->isSetup()) return false;
      for(int j = 0; j < S[k]->size(); j++) if(ms[k][S[k]->index(j)] == 0) return true;
      return false;
   }
   // ---- comparison of everything with the models
   bool cmpSparse(const sp::SVectorBase<R>& v, const Dense& m, const char* what)
   {
      std::set<int> seen;
      Dense d(D, Q(0));
      CHKB(v.size() <= v.max(), std::string(what) + ": size() > max()");
      for(int j = 0; j < v.size(); j++)
      {
         int i = v.index(j);
         CHKB(i >= 0 && i < D, std::string(what) + ": index out of range");
         CHKB(seen.insert(i).second, std::string(what) + ": duplicate index");
         d[i] = Num<R>::to(v.value(j));
      }
      CHKB(d == m, std::string(what) + ": values differ from dense arithmetic");
      return true;
   }
   bool cmpSS(const sp::SSVectorBase<R>& v, const Dense& m, const char* what)
   {
      CHKB(v.dim() == D, std::string(what) + ": dim() changed");
      for(int i = 0; i < D; i++) CHKB(Num<R>::to(v[i]) == m[i], std::string(what) + ": values differ from dense arithmetic");
      if(v.isSetup())
      {
         std::set<int> seen;
         CHKB(v.size() <= D, std::string(what) + ": more indices than the dimension");
         for(int j = 0; j < v.size(); j++)
         {
            int i = v.index(j);
            CHKB(i >= 0 && i < D, std::string(what) + ": index out of range");
            CHKB(seen.insert(i).second, std::string(what) + ": duplicate index in the index set");
            CHKB(Num<R>::to(v.value(j)) == m[i], std::string(what) + ": value(n) differs from the value at index(n)");
         }
         for(int i = 0; i < D; i++)
            if(m[i] != 0) CHKB(seen.count(i), std::string(what) + ": set up but a nonzero is missing from the index set");
      }
      return true;
   }
   void check()
   {
      if(!cx.ok()) return;
      for(int k = 0; k < 2; k++)
      {
         CHK(V[k].dim() == D, "Vector: dim() changed");
         for(int i = 0; i < D; i++) CHK(Num<R>::to(V[k][i]) == mv[k][i], "Vector: values differ from dense arithmetic");
      }
      for(int k = 0; k < 3; k++) if(!cmpSS(*S[k], ms[k], "SSVector")) return;
      if(!cmpSparse(DS[0], msp[0], "DSVector") || !cmpSparse(DS[1], msp[1], "DSVector")) return;
      if(!cmpSparse(P, msp[2], "SVector")) return;
      if(!cmpSparse(U, msp[3], "UnitVector")) return;
      CHK(static_cast<const sp::SVectorBase<R>&>(U).size() == 1 && static_cast<const sp::SVectorBase<R>&>(U).max() == 1, "UnitVector: size()/max() != 1");
      for(int k = 0; k < 3; k++) CHK(S[k]->isConsistent(), "isConsistent() false");
   }
   Dense genDense(Rng& g, int nnz)
   {
      Dense d(D, Q(0));
      for(int i : ridx(g, nnz, D)) d[i] = rv(g);
      return d;
   }
   void setSparse(int id, const Dense& d, Rng& g)
   {
      std::vector<int> order;
      for(int i = 0; i < D; i++) if(d[i] != 0) order.push_back(i);
      for(int i = 0; i + 1 < (int) order.size(); i++) std::swap(order[i], order[g.r(i, (int) order.size() - 1)]);
      spw(id).clear();
      for(int i : order)
      {
         if(id < 2) DS[id].add(i, Num<R>::from(d[i]));
         else P.add(i, Num<R>::from(d[i]));
      }
      msp[id] = d;
   }
   // scaleAssign: dst = src * 2^e (one exponent, or one exponent per index, optionally negated)
   bool scaleAssign(bool dense, int a2, int sa, int sb, int e, long i4);
   void scalarCheck(const Q& got, const Q& want, const char* what)
   {
      CHK(got == want, std::string(what) + " differs from dense arithmetic");
   }
   void step(const Rec& r)
   {
      int a2 = modn(r.i(1), 2), b2 = modn(r.i(2), 2), a3 = modn(r.i(1), 3), b3 = modn(r.i(2), 3);
      int sa = modn(r.i(1), 3), sb = modn(r.i(2), 4);       // sparse destination (writable) / sparse source
      const std::string& o = cx.op;
      // operations on two operands of the same kind take two different objects
      if(o == "v_set_v") b2 = 1 - a2;
      if(o.find("ssv") != std::string::npos && o.rfind("ssv") != o.find("ssv") && b3 == a3) b3 = (a3 + 1) % 3;
      if((o == "a2p" || o == "a2p4setup" || o == "a2pandsetup" || o == "ssv_setup_and_assign") && b3 == a3) b3 = (a3 + 1) % 3;
      if(o == "sv_set_sv" && sb == sa) sb = (sa + 1) % 4;
      Q x = r.q(3);
      if(x == 0) x = 1;
      long i4 = r.i(4);
      Rng g((uint64_t) r.i(4) * 7919ULL + (uint64_t) r.i(1) * 31ULL + (uint64_t) r.i(2));
      R xr = Num<R>::from(x);
      Dense nv;
      auto lin = [&](const Dense & p, const Q & f, const Dense & q)      // p + f*q
      {
         Dense z(p);
         for(int i = 0; i < D; i++) z[i] += f * q[i];
         return z;
      };
      // ------------------------------------------------------------------ fills
      if(o == "v_fill")
      {
         nv = genDense(g, modn(i4, D + 1));
         for(int i = 0; i < D; i++) V[a2][i] = Num<R>::from(nv[i]);
         mv[a2] = nv;
      }
      else if(o == "sv_fill")
         setSparse(sa, genDense(g, modn(i4, std::min(D, 6) + 1)), g);
      else if(o == "ssv_fill")
      {
         nv = genDense(g, modn(i4, (i4 & 1 ? D : D / 3) + 1));
         if(modn(r.i(2), 2))
         {
            // through the set-up interface: clear() + add(i, x) in seed order (index set not sorted)
            S[a3]->clear();
            std::vector<int> order;
            for(int i = 0; i < D; i++) if(nv[i] != 0) order.push_back(i);
            for(int i = 0; i + 1 < (int) order.size(); i++) std::swap(order[i], order[g.r(i, (int) order.size() - 1)]);
            for(int i : order) S[a3]->add(i, Num<R>::from(nv[i]));
            CHK(S[a3]->isSetup(), "SSVector not set up after clear() and add()");
         }
         else
         {
            sp::VectorBase<R> t(D);
            for(int i = 0; i < D; i++) t[i] = Num<R>::from(nv[i]);
            *S[a3] = t;
            CHK(!S[a3]->isSetup(), "SSVector still set up after assignment of a dense vector");
         }
         ms[a3] = nv;
      }
      else if(o == "u_set")
      {
         int i = modn(i4, D);
         U = sp::UnitVectorBase<R>(i);
         msp[3].assign(D, Q(0));
         msp[3][i] = 1;
         CHK(Num<R>::to(U.value(0)) == 1, "UnitVector::value(0) != 1");
      }
      // ------------------------------------------------------------------ dense destination
      else if(o == "v_set_v")
      {
         if(a2 == b2) return cx.skipped();
         V[a2] = V[b2];
         mv[a2] = mv[b2];
      }
      else if(o == "v_set_sv" || o == "v_assign_sv")
      {
         if(o == "v_set_sv") V[a2] = spw(sb);
         else V[a2].assign(spw(sb));
         // operator= zeroes everything else, assign() leaves the other entries alone
         for(int i = 0; i < D; i++) if(o == "v_set_sv" || msp[sb][i] != 0) mv[a2][i] = msp[sb][i];
         mixed(0, spKind(sb), mv[a2], msp[sb]);
      }
      else if(o == "v_set_ssv" || o == "v_assign_ssv")
      {
         if(o == "v_assign_ssv" && explicitZeroInIdx(b3)) return cx.skipped();
         bool wasSetup = S[b3]->isSetup();
         if(o == "v_set_ssv") V[a2] = *S[b3];
         else V[a2].assign(*S[b3]);
         for(int i = 0; i < D; i++) if(o == "v_set_ssv" || !wasSetup || ms[b3][i] != 0) mv[a2][i] = ms[b3][i];
         mixed(0, 1, mv[a2], ms[b3]);
      }
      else if(o == "v_add_v" || o == "v_sub_v" || o == "v_multadd_v" || o == "v_plus" || o == "v_minus" || o == "v_neg")
      {
         Q f = o == "v_add_v" || o == "v_plus" ? Q(1) : o == "v_sub_v" || o == "v_minus" ? Q(-1) : x;
         nv = o == "v_neg" ? lin(Dense(D, Q(0)), Q(-1), mv[b2]) : lin(mv[a2], f, mv[b2]);
         if(!allOk(nv)) return cx.skipped();
         if(o == "v_add_v") V[a2] += V[b2];
         else if(o == "v_sub_v") V[a2] -= V[b2];
         else if(o == "v_multadd_v") V[a2].multAdd(xr, V[b2]);
         else if(o == "v_plus") V[a2] = V[a2] + V[b2];
         else if(o == "v_minus") V[a2] = V[a2] - V[b2];
         else V[a2] = -V[b2];
         mv[a2] = nv;
      }
      else if(o == "v_add_sv" || o == "v_sub_sv" || o == "v_multadd_sv" || o == "v_multsub_sv" || o == "sv_minus_v")
      {
         Q f = o == "v_add_sv" ? Q(1) : o == "v_sub_sv" ? Q(-1) : o == "v_multadd_sv" ? x : Q(-x);
         nv = o == "sv_minus_v" ? lin(msp[sb], Q(-1), mv[a2]) : lin(mv[a2], f, msp[sb]);
         if(!allOk(nv)) return cx.skipped();
         mixed(0, spKind(sb), mv[a2], msp[sb]);
         if(o == "v_add_sv") V[a2] += spw(sb);
         else if(o == "v_sub_sv") V[a2] -= spw(sb);
         else if(o == "v_multadd_sv") V[a2].multAdd(xr, spw(sb));
         else if(o == "v_multsub_sv") V[a2].multSub(xr, spw(sb));
         else V[a2] = spw(sb) - V[a2];
         mv[a2] = nv;
      }
      else if(o == "v_add_ssv" || o == "v_sub_ssv" || o == "v_multadd_ssv")
      {
         Q f = o == "v_add_ssv" ? Q(1) : o == "v_sub_ssv" ? Q(-1) : x;
         nv = lin(mv[a2], f, ms[b3]);
         if(!allOk(nv)) return cx.skipped();
         mixed(0, 1, mv[a2], ms[b3]);
         if(o == "v_add_ssv") V[a2] += *S[b3];
         else if(o == "v_sub_ssv") V[a2] -= *S[b3];
         else V[a2].multAdd(xr, *S[b3]);
         mv[a2] = nv;
      }
      else if(o == "v_scale")
      {
         nv = lin(Dense(D, Q(0)), x, mv[a2]);
         if(!allOk(nv)) return cx.skipped();
         V[a2] *= xr;
         mv[a2] = nv;
      }
      else if(o == "v_scaleassign" || o == "sv_scaleassign")
      {
         if(Num<R>::exact) return cx.skipped();      // scaleAssign is declared for Real vectors only
         if(!scaleAssign(o == "v_scaleassign", a2, sa, sb, (int) modn(i4, 5) - 2, i4)) return;
      }
      else if(o == "stablesum")
      {
         sp::StableSum<R> acc;
         Q want = 0;
         int cnt = modn(i4, 30);
         for(int k = 0; k < cnt; k++)
         {
            Q q = rv(g) * (g.r(0, 3) == 0 ? 512 : 1);
            if(g.r(0, 2) == 0)
            {
               acc -= Num<R>::from(q);
               want -= q;
            }
            else
            {
               acc += Num<R>::from(q);
               want += q;
            }
         }
         R got = acc;
         scalarCheck(Num<R>::to(got), want, "StableSum");
      }
      else if(o == "v_norms")
      {
         scalarCheck(Num<R>::to(V[a2].maxAbs()), maxAbsQ(mv[a2]), "Vector::maxAbs()");
         // VectorBase::minAbs() cannot be driven: it does not compile (uses the undeclared SOPLEX_MIN_element)
         scalarCheck(Num<R>::to(V[a2].length2()), dot(mv[a2], mv[a2]), "Vector::length2()");
         CHK((V[0] == V[1]) == (mv[0] == mv[1]), "Vector operator== differs from elementwise equality");
      }
      // ------------------------------------------------------------------ scalar products
      else if(o == "v_dot_v")
         scalarCheck(Num<R>::to(V[a2] * V[b2]), dot(mv[a2], mv[b2]), "Vector * Vector");
      else if(o == "v_dot_sv" || o == "sv_dot_v")
      {
         mixed(0, spKind(sb), mv[a2], msp[sb]);
         R got = o == "v_dot_sv" ? V[a2] * spw(sb) : spw(sb) * V[a2];
         scalarCheck(Num<R>::to(got), dot(mv[a2], msp[sb]), o == "v_dot_sv" ? "Vector * SVector" : "SVector * Vector");
      }
      else if(o == "v_dot_ssv" || o == "sv_dot_ssv")
      {
         if(o == "v_dot_ssv")
         {
            mixed(0, 1, mv[a2], ms[b3]);
            scalarCheck(Num<R>::to(V[a2] * (*S[b3])), dot(mv[a2], ms[b3]), "Vector * SSVector");
         }
         else
         {
            mixed(spKind(sb), 1, msp[sb], ms[a3]);
            R got = spw(sb) * (*S[a3]);
            scalarCheck(Num<R>::to(got), dot(msp[sb], ms[a3]), "SVector * SSVector");
         }
      }
      else if(o == "sv_dot_sv")
      {
         int s1 = modn(r.i(1), 4);
         // the sparse-sparse product merges two index-sorted vectors (all in-tree operands are sorted)
         if(s1 < 3) spw(s1).sort();
         if(sb < 3) spw(sb).sort();
         mixed(spKind(s1), spKind(sb), msp[s1], msp[sb]);
         R got = spw(s1) * spw(sb);
         scalarCheck(Num<R>::to(got), dot(msp[s1], msp[sb]), "SVector * SVector");
      }
      else if(o == "ssv_dot_ssv")
      {
         if(a3 == b3) return cx.skipped();
         // both index sets ascending (fresh setup()): the product merges them from the back
         S[a3]->unSetup();
         S[a3]->setup();
         S[b3]->unSetup();
         S[b3]->setup();
         R got = (*S[a3]) * (*S[b3]);
         scalarCheck(Num<R>::to(got), dot(ms[a3], ms[b3]), "SSVector * SSVector");
      }
      // ------------------------------------------------------------------ sparse destination
      else if(o == "sv_add")
      {
         std::vector<int> fr;
         for(int i = 0; i < D; i++) if(msp[sa][i] == 0) fr.push_back(i);
         if(fr.empty() || spw(sa).size() >= D) return cx.skipped();
         int i = fr[modn(i4, (int) fr.size())];
         Q q = rv(g);
         if(sa < 2) DS[sa].add(i, Num<R>::from(q));
         else P.add(i, Num<R>::from(q));
         msp[sa][i] = q;
         CHK(spw(sa).index(spw(sa).size() - 1) == i, "add() did not append the nonzero as the last one");
      }
      else if(o == "sv_add_zero")
      {
         int n0 = spw(sa).size();
         if(sa < 2) DS[sa].add(modn(i4, D), R(0));
         else if(n0 < P.max()) P.add(modn(i4, D), R(0));
         CHK(spw(sa).size() == n0, "add(i, 0) stored an explicit zero");
      }
      else if(o == "sv_remove" || o == "sv_remove_range" || o == "sv_remove_range_long")
      {
         sp::SVectorBase<R>& v = spw(sa);
         int n = v.size();
         if(n == 0) return cx.skipped();
         int p = modn(i4, n), q = o == "sv_remove" ? p : p + modn(r.i(2), n - p);
         // _range: at least as many nonzeros behind the removed block as in it; _range_long: fewer
         if(o == "sv_remove_range") while(q > p && n - 1 - q < q - p + 1) q--;
         if(o == "sv_remove_range" && n - 1 - q < q - p + 1) return cx.skipped();
         if(o == "sv_remove_range_long")
         {
            while(q < n - 1 && n - 1 - q >= q - p + 1) q++;
            if(n - 1 - q >= q - p + 1) return cx.skipped();
         }
         std::vector<int> keepIdx;
         for(int j = 0; j < p; j++) keepIdx.push_back(v.index(j));
         for(int j = p; j <= q; j++) msp[sa][v.index(j)] = 0;
         if(o == "sv_remove") v.remove(p);
         else v.remove(p, q);
         CHK(v.size() == n - (q - p + 1), "size() after remove(n, m) is not size - (m-n+1)");
         // svectorbase.h: only the numbers greater than the number of the first removed nonzero are affected
         for(int j = 0; j < p && j < v.size(); j++) CHK(v.index(j) == keepIdx[j], "a nonzero before the first removed one was renumbered");
      }
      else if(o == "sv_sort")
      {
         sp::SVectorBase<R>& v = spw(sa);
         v.sort();
         for(int j = 1; j < v.size(); j++) CHK(v.index(j - 1) < v.index(j), "sort() did not sort the indices increasingly");
      }
      else if(o == "sv_scale")
      {
         nv = lin(Dense(D, Q(0)), x, msp[sa]);
         if(!allOk(nv)) return cx.skipped();
         spw(sa) *= xr;
         msp[sa] = nv;
      }
      else if(o == "sv_scaled_copy")
      {
         nv = lin(Dense(D, Q(0)), x, msp[sb]);
         if(!allOk(nv)) return cx.skipped();
         sp::DSVectorBase<R> t = modn(i4, 2) ? spw(sb) * xr : xr * spw(sb);
         if(!cmpSparse(t, nv, "SVector * scalar")) return;
      }
      else if(o == "sv_set_sv")
      {
         if(sa == sb) return cx.skipped();
         if(sa < 2 && sb < 2) DS[sa] = DS[sb];
         else if(sa < 2) DS[sa] = spw(sb);
         else P = spw(sb);
         msp[sa] = msp[sb];
      }
      else if(o == "sv_set_v")
      {
         if(sa < 2) DS[sa] = V[b2];
         else P = V[b2];
         msp[sa] = mv[b2];
         mixed(spKind(sa), 0, msp[sa], mv[b2]);
      }
      else if(o == "sv_set_ssv")
      {
         if(!S[b3]->isSetup()) S[b3]->setup();
         if(sa < 2) DS[sa] = *S[b3];
         else P = *S[b3];
         msp[sa] = ms[b3];
      }
      else if(o == "dsv_ctor")
      {
         int which = modn(i4, 3);
         if(which == 0)
         {
            sp::DSVectorBase<R> t(spw(sb));
            if(!cmpSparse(t, msp[sb], "DSVector(SVector)")) return;
         }
         else if(which == 1)
         {
            sp::DSVectorBase<R> t(DS[a2]);
            if(!cmpSparse(t, msp[a2], "DSVector(DSVector)")) return;
         }
         else
         {
            sp::DSVectorBase<R> t(V[a2]);
            if(!cmpSparse(t, mv[a2], "DSVector(Vector)")) return;
         }
      }
      else if(o == "dsv_ctor_ssv")
      {
         if(!S[a3]->isSetup()) S[a3]->setup();
         sp::DSVectorBase<R> t(*S[a3]);
         if(!cmpSparse(t, ms[a3], "DSVector(SSVector)")) return;
      }
      else if(o == "dsv_setmax")
      {
         int nm = DS[a2].size() - 2 + modn(i4, 12);
         DS[a2].setMax(nm);
         CHK(DS[a2].max() >= nm && DS[a2].max() >= DS[a2].size(), "DSVector: max() too small after setMax()");
      }
      else if(o == "dsv_add_sv")
      {
         // documented as "Append nonzeros of sv": only with disjoint supports (no duplicate indices)
         if(overlap(msp[a2], msp[sb]) || sb == a2) return cx.skipped();
         DS[a2].add(spw(sb));
         msp[a2] = lin(msp[a2], Q(1), msp[sb]);
      }
      else if(o == "sv_norms")
      {
         const sp::SVectorBase<R>& v = spw(sb);
         const Dense& m = msp[sb];
         scalarCheck(Num<R>::to(v.maxAbs()), maxAbsQ(m), "SVector::maxAbs()");
         Q mn = QINF();
         int dm = 0;
         for(int i = 0; i < D; i++) if(m[i] != 0)
            {
               if(qabs(m[i]) < mn) mn = qabs(m[i]);
               dm = i + 1;
            }
         scalarCheck(Num<R>::to(v.minAbs()), mn, "SVector::minAbs()");
         scalarCheck(Num<R>::to(v.length2()), dot(m, m), "SVector::length2()");
         CHK(v.dim() == dm, "SVector::dim() is not the maximal index + 1");
         for(int i = 0; i < D; i++)
         {
            CHK(Num<R>::to(v[i]) == m[i], "SVector::operator[] differs from the model");
            int p = v.pos(i);
            CHK((p >= 0) == (m[i] != 0) && (p < 0 || v.index(p) == i), "SVector::pos() wrong");
         }
      }
      // ------------------------------------------------------------------ semi-sparse destination
      else if(o == "ssv_setup")
      {
         bool was = S[a3]->isSetup();
         S[a3]->setup();
         CHK(S[a3]->isSetup(), "not set up after setup()");
         if(!was)
         {
            int nnz = 0;
            for(auto& q : ms[a3]) if(q != 0) nnz++;
            CHK(S[a3]->size() == nnz, "setup() index set is not exactly the set of nonzeros");
            for(int j = 1; j < S[a3]->size(); j++) CHK(S[a3]->index(j - 1) < S[a3]->index(j), "setup() indices not ascending");
         }
      }
      else if(o == "ssv_unsetup")
      {
         S[a3]->unSetup();
         CHK(!S[a3]->isSetup(), "still set up after unSetup()");
      }
      else if(o == "ssv_setvalue")
      {
         int i = modn(i4, D);
         Q q = modn(r.i(2), 4) == 0 ? Q(0) : rv(g);
         S[a3]->setValue(i, Num<R>::from(q));
         ms[a3][i] = q;
      }
      else if(o == "ssv_clearidx")
      {
         int i = modn(i4, D);
         S[a3]->clearIdx(i);
         ms[a3][i] = 0;
      }
      else if(o == "ssv_clearnum")
      {
         if(!S[a3]->isSetup() || S[a3]->size() == 0) return cx.skipped();
         int n = modn(i4, S[a3]->size());
         ms[a3][S[a3]->index(n)] = 0;
         S[a3]->clearNum(n);
      }
      else if(o == "ssv_add")
      {
         if(!S[a3]->isSetup()) return cx.skipped();
         std::vector<int> fr;
         for(int i = 0; i < D; i++) if(ms[a3][i] == 0 && S[a3]->pos(i) < 0) fr.push_back(i);
         if(fr.empty()) return cx.skipped();
         int i = fr[modn(i4, (int) fr.size())];
         Q q = rv(g);
         S[a3]->add(i, Num<R>::from(q));
         ms[a3][i] = q;
      }
      else if(o == "ssv_clear")
      {
         S[a3]->clear();
         ms[a3].assign(D, Q(0));
         CHK(S[a3]->isSetup() && S[a3]->size() == 0, "clear() does not leave an empty set-up vector");
      }
      else if(o == "ssv_set_ssv" || o == "ssv_setup_and_assign" || o == "ssv_copy")
      {
         if(o == "ssv_copy")
         {
            sp::SSVectorBase<R> t(*S[b3]);
            if(!cmpSS(t, ms[b3], "SSVector copy")) return;
            CHK(t.isSetup() == S[b3]->isSetup(), "copy constructor changed the setup status");
         }
         else
         {
            if(a3 == b3) return cx.skipped();
            if(o == "ssv_set_ssv") *S[a3] = *S[b3];
            else
            {
               S[a3]->setup_and_assign(*S[b3]);
               CHK(S[b3]->isSetup(), "setup_and_assign() did not set up its argument");
            }
            CHK(S[a3]->isSetup(), "assignment from an SSVector does not leave a set-up vector");
            ms[a3] = ms[b3];
         }
      }
      else if(o == "ssv_set_sv" || o == "ssv_assign_sv")
      {
         if(o == "ssv_set_sv") *S[a3] = spw(sb);
         else
         {
            S[a3]->clear();     // assign() "assigns only the elements of rhs": start from the zero vector
            S[a3]->assign(spw(sb));
         }
         CHK(S[a3]->isSetup(), "assignment from an SVector does not leave a set-up vector");
         ms[a3] = msp[sb];
      }
      else if(o == "ssv_set_v")
      {
         *S[a3] = V[b2];
         CHK(!S[a3]->isSetup(), "assignment from a dense vector leaves the vector set up");
         ms[a3] = mv[b2];
      }
      else if(o == "ssv_add_v" || o == "ssv_sub_v" || o == "ssv_multadd_v")
      {
         Q f = o == "ssv_add_v" ? Q(1) : o == "ssv_sub_v" ? Q(-1) : x;
         nv = lin(ms[a3], f, mv[b2]);
         if(!allOk(nv)) return cx.skipped();
         mixed(1, 0, ms[a3], mv[b2]);
         bool was = S[a3]->isSetup();
         if(o == "ssv_add_v") *S[a3] += V[b2];
         else if(o == "ssv_sub_v") *S[a3] -= V[b2];
         else S[a3]->multAdd(xr, V[b2]);
         CHK(S[a3]->isSetup() == was, "arithmetic changed the setup status");
         ms[a3] = nv;
      }
      else if(o == "ssv_add_sv" || o == "ssv_sub_sv" || o == "ssv_multadd_sv")
      {
         Q f = o == "ssv_add_sv" ? Q(1) : o == "ssv_sub_sv" ? Q(-1) : x;
         nv = lin(ms[a3], f, msp[sb]);
         if(!allOk(nv)) return cx.skipped();
         mixed(1, spKind(sb), ms[a3], msp[sb]);
         bool was = S[a3]->isSetup();
         if(o == "ssv_add_sv") *S[a3] += spw(sb);
         else if(o == "ssv_sub_sv") *S[a3] -= spw(sb);
         else S[a3]->multAdd(xr, spw(sb));
         CHK(S[a3]->isSetup() == was, "arithmetic changed the setup status");
         ms[a3] = nv;
      }
      else if(o == "ssv_add_ssv" || o == "ssv_sub_ssv")
      {
         if(a3 == b3) return cx.skipped();
         nv = lin(ms[a3], o == "ssv_add_ssv" ? Q(1) : Q(-1), ms[b3]);
         if(!allOk(nv)) return cx.skipped();
         if(o == "ssv_add_ssv")
         {
            if(!S[b3]->isSetup()) S[b3]->setup();     // operator+=(SSVector) requires a set-up argument
            *S[a3] += *S[b3];
         }
         else *S[a3] -= *S[b3];
         ms[a3] = nv;
      }
      else if(o == "ssv_scale")
      {
         nv = lin(Dense(D, Q(0)), x, ms[a3]);
         if(!allOk(nv)) return cx.skipped();
         if(!S[a3]->isSetup()) S[a3]->setup();         // operator*= requires a set-up vector
         *S[a3] *= xr;
         CHK(S[a3]->isSetup(), "scaling a set-up vector by a nonzero factor changed the setup status");
         ms[a3] = nv;
      }
      else if(o == "ssv_norms")
      {
         scalarCheck(Num<R>::to(S[a3]->maxAbs()), maxAbsQ(ms[a3]), "SSVector::maxAbs()");
         scalarCheck(Num<R>::to(S[a3]->length2()), dot(ms[a3], ms[a3]), "SSVector::length2()");
      }
      else if(o == "ssv_remem")
      {
         S[a3]->reMem(D + 1 + modn(i4, 20));
      }
      else if(o == "a2p" || o == "a2p4setup" || o == "a2pandsetup")
      {
         if(a3 == b3) return cx.skipped();
         nv.assign(D, Q(0));
         if(o == "a2p") for(int i = 0; i < D; i++) nv[i] = dot(mA[i], ms[b3]);
         else for(int i = 0; i < D; i++) for(int j = 0; j < D; j++) nv[j] += ms[b3][i] * mA[i][j];
         if(!allOk(nv)) return cx.skipped();
         if(o == "a2p")
         {
            S[a3]->assign2product(*S[b3], A);
            CHK(S[a3]->isSetup(), "assign2product() does not leave a set-up vector");
         }
         else if(o == "a2p4setup")
         {
            if(!S[b3]->isSetup()) S[b3]->setup();
            if(Num<R>::exact && cx.known.count("ssvector-rational-marker"))
            {
               // known finding: a partial sum that cancels to exactly 0 is replaced by the marker 1e-100, which is not
               // absorbed by a later addition in exact arithmetic. Avoid exactly the cases where a cancelled position
               // receives another contribution (in the order the product is accumulated).
               Dense part(D, Q(0));
               std::vector<char> touched(D, 0);
               bool sig = false;
               for(int k = 0; k < S[b3]->size(); k++)
               {
                  int i = S[b3]->index(k);
                  for(int j = 0; j < A[i].size(); j++)
                  {
                     int c = A[i].index(j);
                     if(touched[c] && part[c] == 0) sig = true;
                     part[c] += ms[b3][i] * mA[i][c];
                     touched[c] = 1;
                  }
               }
               if(sig)
               {
                  ev().count("excluded_known.ssvector-rational-marker");
                  return cx.skipped();
               }
            }
            int ns = 0, nf = 0;
            S[a3]->assign2product4setup(A, *S[b3], nullptr, nullptr, ns, nf);
            CHK(ns + nf == 1, "assign2product4setup() did not count exactly one call");
            cx.count(ns ? (S[b3]->size() == 1 ? "a2p4setup.single" : "a2p4setup.short") : "a2p4setup.full");
         }
         else
         {
            S[b3]->unSetup();
            S[a3]->clear();
            S[a3]->assign2productAndSetup(A, *S[b3]);
            CHK(S[b3]->isSetup(), "assign2productAndSetup() did not set up its argument");
         }
         ms[a3] = nv;
      }
      else if(o == "pwproduct")
      {
         int c3 = (a3 + 1) % 3, d3 = (a3 + 2) % 3;
         nv.assign(D, Q(0));
         for(int i = 0; i < D; i++) nv[i] = ms[c3][i] * ms[d3][i];
         if(!allOk(nv)) return cx.skipped();
         for(int k : {c3, d3})
         {
            S[k]->unSetup();
            S[k]->setup();
         }
         S[a3]->assignPWproduct4setup(*S[c3], *S[d3]);
         CHK(S[a3]->isSetup(), "assignPWproduct4setup() does not leave a set-up vector");
         ms[a3] = nv;
      }
      else return cx.fail("unknown op");
      check();
   }
};

template <> bool VecRunner<Rat>::scaleAssign(bool, int, int, int, int, long)
{
   return true;
}
template <> bool VecRunner<double>::scaleAssign(bool dense, int a2, int sa, int sb, int e, long i4)
{
   std::vector<int> exps(D);
   Rng g((uint64_t) i4 + 99);
   for(auto& x : exps) x = g.r(-2, 2);
   int mode = modn(i4 / 5, 3);       // 0: single exponent, 1: per index, 2: per index negated
   auto factor = [&](int i)
   {
      return q2pow(mode == 0 ? e : mode == 1 ? exps[i] : -exps[i]);
   };
   if(dense)
   {
      int b2 = 1 - a2;
      Dense nv(D);
      for(int i = 0; i < D; i++) nv[i] = mv[b2][i] * factor(i);
      if(!allOk(nv))
      {
         cx.skipped();
         return true;
      }
      if(mode == 0) V[a2].scaleAssign(e, V[b2]);
      else V[a2].scaleAssign(exps.data(), V[b2], mode == 2);
      mv[a2] = nv;
   }
   else
   {
      if(sb == sa) sb = (sa + 1) % 4;
      Dense nv(D);
      for(int i = 0; i < D; i++) nv[i] = msp[sb][i] * factor(i);
      if(!allOk(nv))
      {
         cx.skipped();
         return true;
      }
      if(sa < 2) DS[sa].setMax(spw(sb).size() + 1);
      sp::SVectorBase<double>& dst = spw(sa);
      if(mode == 0) dst.scaleAssign(e, spw(sb));
      else dst.scaleAssign(exps.data(), spw(sb), mode == 2);
      msp[sa] = nv;
   }
   return true;
}

// ================================================================================================ generator
struct OpSpec
{
   const char* name;
   int weight;
   const char* knownKey;     // op is not generated when this key is listed in --x known=...
};
struct KindSpec
{
   const char* name;
   int weight;
   std::vector<OpSpec> ops;
};
static const std::vector<KindSpec>& kinds()
{
   static const char* RS = "classset-remax-shrink";
   static const std::vector<OpSpec> setOps =
   {
      {"add", 10, 0}, {"add_nokey", 3, 0}, {"create", 3, 0}, {"addmany", 3, 0}, {"addset", 2, 0}, {"addmany_nokey", 1, 0},
      {"addset_nokey", 1, 0}, {"remove_num", 5, 0}, {"remove_key", 4, 0}, {"remove_oob", 1, 0}, {"remove_perm", 3, 0},
      {"remove_nums", 2, 0}, {"remove_keys", 2, 0}, {"clear", 1, 0}, {"remax_grow", 3, 0}, {"remax_any", 2, 0},
      {"copy", 2, 0}, {"assign", 2, 0}
   };
   static std::vector<OpSpec> csetOps = setOps;
   static const std::vector<OpSpec> vsetOps =
   {
      {"add", 9, 0}, {"add_nokey", 3, 0}, {"add_arr", 2, 0}, {"create", 3, 0}, {"addmany", 2, "svset-addmany-key0"},
      {"addmany_nokey", 2, 0}, {"addset", 2, 0}, {"addset_nokey", 1, 0}, {"xtend", 4, 0}, {"add2", 5, 0}, {"add2n", 3, 0},
      {"edit_val", 2, 0}, {"edit_rm", 2, 0}, {"edit_sort", 1, 0}, {"set_side", 2, 0}, {"remove_num", 4, 0},
      {"remove_key", 3, 0}, {"remove_ptr", 2, 0}, {"remove_perm", 3, 0}, {"remove_nums", 2, 0}, {"remove_keys", 2, 0},
      {"clear", 1, 0}, {"remax_grow", 2, 0}, {"remax_any", 2, RS}, {"memremax", 3, 0}, {"mempack", 3, 0}, {"copy", 3, 0},
      {"assign", 3, 0}, {"xcopy", 2, 0}
   };
   static const std::vector<OpSpec> nameOps =
   {
      {"add", 12, 0}, {"add_nokey", 4, 0}, {"addset", 3, 0}, {"remove_num", 4, 0}, {"remove_key", 3, 0}, {"remove_name", 3, 0},
      {"remove_absent", 1, 0}, {"remove_perm", 3, 0}, {"remove_nums", 2, 0}, {"remove_keys", 2, 0}, {"clear", 1, 0},
      {"remax_any", 3, 0}, {"memremax", 3, 0}, {"mempack", 3, 0}
   };
   static const std::vector<OpSpec> hashOps =
   {
      {"add", 14, 0}, {"remove", 7, 0}, {"remove_absent", 2, 0}, {"clear", 1, 0}, {"remax", 3, 0}, {"copy", 2, 0}, {"assign", 2, 0}
   };
   static const std::vector<OpSpec> idxOps =
   {
      {"addidx", 8, 0}, {"addn", 4, 0}, {"addset", 3, 0}, {"remove", 5, 0}, {"remove_range", 3, 0},
      {"remove_tail", 2, "idxset-remove-range-tail"}, {"clear", 1, 0}, {"setmax", 3, 0}, {"copy", 2, 0}, {"assign", 2, 0}
   };
   static const char* AI = "array-insert-off-by-one";
   static const std::vector<OpSpec> darrOps =
   {
      {"append", 6, 0}, {"appendn", 3, 0}, {"append_arr", 2, 0}, {"insert", 4, 0}, {"insert_gap", 3, 0}, {"insert_arr", 2, 0},
      {"insert_val", 2, 0}, {"remove", 5, 0}, {"removelast", 2, 0}, {"clear", 1, 0}, {"resize", 3, 0}, {"remax", 3, 0},
      {"remax_below", 1, "dataarray-remax-below-size"}, {"set", 2, 0}, {"copy", 2, 0}, {"assign", 2, 0}
   };
   static const std::vector<OpSpec> arrOps =
   {
      {"append", 6, 0}, {"appendn", 3, 0}, {"append_arr", 2, 0}, {"insert", 4, AI}, {"insert_gap", 3, AI}, {"insert_arr", 2, AI},
      {"insert_val", 2, AI}, {"remove", 5, 0}, {"clear", 1, 0}, {"resize", 3, 0}, {"set", 2, 0}, {"copy", 2, 0}, {"assign", 2, 0}
   };
   static const std::vector<OpSpec> idlOps =
   {
      {"append", 6, 0}, {"prepend", 4, 0}, {"insert", 5, 0}, {"remove", 6, 0}, {"remove_next", 2, 0}, {"append_list", 2, 0},
      {"prepend_list", 2, 0}, {"insert_list", 2, 0}, {"remove_sublist", 2, "idlist-remove-sublist"}, {"remove_prefix", 1, 0},
      {"clear", 1, 0}, {"move", 2, 0}
   };
   static const std::vector<OpSpec> islOps =
   {
      {"append", 6, 0}, {"prepend", 4, 0}, {"insert", 5, 0}, {"remove", 6, 0}, {"remove_next", 2, 0}, {"append_list", 2, 0},
      {"prepend_list", 2, 0}, {"insert_list", 2, 0}, {"remove_sublist", 2, 0}, {"remove_prefix", 1, 0}, {"clear", 1, 0}, {"move", 2, 0}
   };
   static const std::vector<OpSpec> sortOps = {{"sort", 5, 0}, {"sortpart", 5, 0}, {"shell", 1, 0}};
   static const char* AS = "svector-assign-ssvector-empty";
   static const std::vector<OpSpec> vecOps =
   {
      {"v_fill", 4, 0}, {"sv_fill", 5, 0}, {"ssv_fill", 5, 0}, {"u_set", 1, 0},
      {"v_set_v", 1, 0}, {"v_set_sv", 2, 0}, {"v_assign_sv", 2, 0}, {"v_set_ssv", 2, 0}, {"v_assign_ssv", 2, 0},
      {"v_add_v", 1, 0}, {"v_sub_v", 1, 0}, {"v_multadd_v", 1, 0}, {"v_plus", 1, 0}, {"v_minus", 1, 0}, {"v_neg", 1, 0},
      {"v_add_sv", 2, 0}, {"v_sub_sv", 2, 0}, {"v_multadd_sv", 2, 0}, {"v_multsub_sv", 2, 0}, {"sv_minus_v", 1, 0},
      {"v_add_ssv", 2, 0}, {"v_sub_ssv", 2, 0}, {"v_multadd_ssv", 2, 0}, {"v_scale", 1, 0}, {"v_norms", 1, 0},
      {"v_scaleassign", 1, 0}, {"sv_scaleassign", 1, "svector-scaleassign-size"}, {"stablesum", 1, 0},
      {"v_dot_v", 1, 0}, {"v_dot_sv", 2, 0}, {"sv_dot_v", 2, 0}, {"v_dot_ssv", 2, 0}, {"sv_dot_ssv", 2, 0}, {"sv_dot_sv", 3, 0},
      {"ssv_dot_ssv", 3, 0},
      {"sv_add", 3, 0}, {"sv_add_zero", 1, 0}, {"sv_remove", 2, 0}, {"sv_remove_range", 2, 0},
      {"sv_remove_range_long", 1, "svector-remove-range"}, {"sv_sort", 2, 0}, {"sv_scale", 2, 0}, {"sv_scaled_copy", 1, 0},
      {"sv_set_sv", 3, 0}, {"sv_set_v", 2, 0}, {"sv_set_ssv", 2, AS}, {"dsv_ctor", 2, 0}, {"dsv_ctor_ssv", 1, AS},
      {"dsv_setmax", 1, 0}, {"dsv_add_sv", 1, "dsvector-add-sv-clears"}, {"sv_norms", 2, 0},
      {"ssv_setup", 3, 0}, {"ssv_unsetup", 2, 0}, {"ssv_setvalue", 3, 0}, {"ssv_clearidx", 2, 0}, {"ssv_clearnum", 2, 0},
      {"ssv_add", 2, 0}, {"ssv_clear", 1, 0}, {"ssv_set_ssv", 3, 0}, {"ssv_setup_and_assign", 2, 0}, {"ssv_copy", 1, 0},
      {"ssv_set_sv", 3, 0}, {"ssv_assign_sv", 2, 0}, {"ssv_set_v", 2, 0}, {"ssv_add_v", 2, 0}, {"ssv_sub_v", 2, 0},
      {"ssv_multadd_v", 2, 0}, {"ssv_add_sv", 3, 0}, {"ssv_sub_sv", 3, 0}, {"ssv_multadd_sv", 3, 0}, {"ssv_add_ssv", 2, 0},
      {"ssv_sub_ssv", 2, 0}, {"ssv_scale", 2, 0}, {"ssv_norms", 2, 0}, {"ssv_remem", 1, 0}, {"a2p", 2, 0}, {"a2p4setup", 3, 0},
      {"a2pandsetup", 2, 0}, {"pwproduct", 2, 0}
   };
   static bool init = false;
   if(!init)
   {
      init = true;
      for(auto& o : csetOps) if(std::string(o.name) == "remax_any") o.knownKey = RS;
   }
   static const std::vector<KindSpec> k =
   {
      {"dataset", 10, setOps}, {"classset", 9, csetOps}, {"svset_d", 10, vsetOps}, {"svset_q", 8, vsetOps},
      {"nameset", 8, nameOps}, {"hashtable", 7, hashOps}, {"idxset", 3, idxOps}, {"didxset", 4, idxOps},
      {"darray", 4, darrOps}, {"carray", 4, darrOps}, {"array", 3, arrOps}, {"vec_d", 12, vecOps}, {"vec_q", 9, vecOps},
      {"lprow_d", 3, vsetOps}, {"lprow_q", 2, vsetOps}, {"lpcol_d", 3, vsetOps}, {"lpcol_q", 2, vsetOps},
      {"idlist", 3, idlOps}, {"islist", 2, islOps}, {"sorter", 2, sortOps}
   };
   return k;
}
static bool lpKind(const std::string& k)
{
   return k.compare(0, 2, "lp") == 0;
}
static bool opUsable(const std::string& kind, const OpSpec& o, const std::set<std::string>& known)
{
   if(o.knownKey && known.count(o.knownKey)) return false;
   std::string n = o.name;
   if(lpKind(kind) && (n == "add_arr" || n == "create" || n == "addmany" || n == "addmany_nokey" || n == "add2" ||
                       n == "remove_ptr" || n == "remove_keys")) return false;
   if(!lpKind(kind) && n == "set_side") return false;
   if(lpKind(kind) && n == "remove_nums" && known.count("lpset-remove-nums-sides")) return false;
   if(kind == "carray" && n == "insert_val") return false;
   if(kind == "idxset" && n == "setmax") return false;
   return true;
}
static void pushOp(Case& c, const char* name, bool vecKind, bool rational)
{
   Rec r("op");
   r.add(name).add(R(0, 63)).add(R(0, 999999));
   if(vecKind)
   {
      static const char* xs[] = {"1", "-1", "2", "-2", "1/2", "-1/2", "3", "1/4", "-3/2", "4", "1/3", "-2/7", "5/3"};
      r.add(xs[R(0, rational ? 12 : 9)]);
   }
   else r.add(R(0, 63));
   r.add(R(0, 999)).add(R(0, 63));
   c.recs.push_back(r);
}
static void gen(Case& c)
{
   std::set<std::string> known = knownKeys();
   const std::vector<KindSpec>& ks = kinds();
   int tot = 0;
   std::string only = opts().x.count("kind") ? opts().x["kind"] : "";
   for(auto& k : ks) if(only.empty() || only == k.name) tot += k.weight;
   int pick = R(0, std::max(0, tot - 1));
   const KindSpec* K = &ks[0];
   for(auto& k : ks)
   {
      if(!only.empty() && only != k.name) continue;
      K = &k;
      if(pick < k.weight) break;
      pick -= k.weight;
   }
   std::string kind = K->name;
   bool vecKind = kind.compare(0, 4, "vec_") == 0, rational = kind.size() > 2 && kind.substr(kind.size() - 2) == "_q";
   // initial capacities are small so that growth happens while elements are live
   c.recs.push_back(Rec("kind").add(kind).add(R(1, 9)).add(R(1, 24)).add(R(0, 99999)));
   int maxOps = std::max(1, 60 * std::max(1, curSize()) / 100);
   if(opts().tier == "thorough") maxOps = std::max(maxOps, 60 * curSize() / 100);
   int nops = R(1, maxOps);
   std::vector<const OpSpec*> usable;
   int wtot = 0;
   for(auto& o : K->ops) if(opUsable(kind, o, known))
      {
         usable.push_back(&o);
         wtot += o.weight;
      }
   bool mayHoles = false;
   for(int t = 0; t < nops; t++)
   {
      int p = R(0, wtot - 1);
      const OpSpec* o = usable[0];
      // growth phase: the first few operations of a container case are mostly plain insertions (first table entry)
      if(!vecKind && kind != "sorter" && t < std::min(5, nops / 3) && P(70)) p = 0;
      for(auto* u : usable)
      {
         o = u;
         if(p < u->weight) break;
         p -= u->weight;
      }
      std::string n = o->name;
      if(kind == "classset")
      {
         // known finding classset-copy-holes: the copy constructor is only generated while no slot can be free
         if(n.compare(0, 6, "remove") == 0 && n != "remove_oob") mayHoles = true;
         if(n == "clear" || n == "assign") mayHoles = n == "assign" ? mayHoles : false;
         if(n == "copy" && mayHoles && known.count("classset-copy-holes"))
         {
            ev().count("excluded_known.classset-copy-holes");
            continue;
         }
      }
      if(n == "xcopy" && rational) continue;
      if((n == "copy" || n == "assign" || n == "xcopy") && (kind.compare(0, 5, "svset") == 0 || lpKind(kind)) && known.count("svset-assign-empty-mem"))
      {
         // known finding svset-assign-empty-mem: make sure the nonzero memory is not empty when the set is copied
         Rec r("op");
         r.add("add").add(R(1, 6)).add(R(0, 999999)).add(R(0, 63)).add(R(0, 999)).add(R(0, 63));
         c.recs.push_back(r);
         ev().count("excluded_known.svset-assign-empty-mem");
      }
      pushOp(c, o->name, vecKind, rational);
   }
   for(auto& o : K->ops) if(o.knownKey && known.count(o.knownKey)) ev().count(std::string("excluded_known.") + o.knownKey);
   if(kind == "classset")
   {
      if(known.count("classset-lifetime")) ev().count("excluded_known.classset-lifetime");
      else c.recs.push_back(Rec("op").add("checklive"));
   }
   if(kind == "carray" || kind == "array") c.recs.push_back(Rec("op").add("checklive"));
}

// ================================================================================================ run
template <class RUNNER> static void drive(Ctx& cx, const Case& c, RUNNER& rn)
{
   for(auto& r : c.recs)
   {
      if(r.tag != "op" || !cx.ok()) continue;
      cx.op = r.s(0);
      if(cx.op == "checklive") continue;
      cx.count(cx.op);
      cx.executed++;
      rn.step(r);
   }
}
static bool wantsCheckLive(const Case& c)
{
   for(auto& r : c.recs) if(r.tag == "op" && r.s(0) == "checklive") return true;
   return false;
}
static Verdict run(const Case& c)
{
   Verdict v;
   Ctx cx(v);
   const Rec* kr = c.find("kind");
   if(!kr)
   {
      v.fail("case without kind");
      return v;
   }
   std::string kind = kr->s(0);
   cx.kind = kind;
   int p1 = (int) std::max(1L, kr->i(1)), p2 = (int) std::max(1L, kr->i(2));
   long p3 = kr->i(3);
   ev().count("kind." + kind);
   Tr::reset();
   bool vec = false, nt = false;
   try
   {
      if(kind == "dataset")
      {
         SetRunner<sp::DataSet<int>, int> rn(cx, p1);
         rn.check(true);
         drive(cx, c, rn);
      }
      else if(kind == "classset")
      {
         {
            SetRunner<sp::ClassSet<Tr>, Tr> rn(cx, p1);
            rn.check(true);
            drive(cx, c, rn);
         }
         cx.op = "checklive";
         if(cx.ok() && wantsCheckLive(c)) checkLive(cx, "ClassSet");
      }
      else if(kind == "svset_d")
      {
         VSetRunner<double, AdSV<double>> rn(cx, p1, p2);
         drive(cx, c, rn);
      }
      else if(kind == "svset_q")
      {
         VSetRunner<Rat, AdSV<Rat>> rn(cx, p1, p2);
         drive(cx, c, rn);
      }
      else if(kind == "lprow_d")
      {
         VSetRunner<double, AdRow<double>> rn(cx, p1, p2);
         drive(cx, c, rn);
      }
      else if(kind == "lprow_q")
      {
         VSetRunner<Rat, AdRow<Rat>> rn(cx, p1, p2);
         drive(cx, c, rn);
      }
      else if(kind == "lpcol_d")
      {
         VSetRunner<double, AdCol<double>> rn(cx, p1, p2);
         drive(cx, c, rn);
      }
      else if(kind == "lpcol_q")
      {
         VSetRunner<Rat, AdCol<Rat>> rn(cx, p1, p2);
         drive(cx, c, rn);
      }
      else if(kind == "nameset")
      {
         NameRunner rn(cx, p1, p2);
         rn.check(true);
         drive(cx, c, rn);
      }
      else if(kind == "hashtable")
      {
         g_hashMod = 2 + (int)(p3 % 6);
         HashRunner rn(cx, p1);
         rn.check();
         drive(cx, c, rn);
      }
      else if(kind == "idxset" || kind == "didxset")
      {
         IdxRunner rn(cx, kind == "didxset", kind == "didxset" ? p1 : p2);
         rn.check();
         drive(cx, c, rn);
      }
      else if(kind == "darray")
      {
         ArrRunner<sp::DataArray<int>> rn(cx, p1 % 4, p2 % 7);
         rn.check();
         drive(cx, c, rn);
      }
      else if(kind == "carray" || kind == "array")
      {
         if(kind == "carray")
         {
            ArrRunner<sp::ClassArray<Tr>> rn(cx, p1 % 4, p2 % 7);
            rn.check();
            drive(cx, c, rn);
         }
         else
         {
            ArrRunner<sp::Array<Tr>> rn(cx, p1 % 4, p2 % 7);
            rn.check();
            drive(cx, c, rn);
         }
         cx.op = "checklive";
         if(cx.ok() && wantsCheckLive(c)) checkLive(cx, kind == "carray" ? "ClassArray" : "Array");
      }
      else if(kind == "idlist")
      {
         ListRunner<sp::IdList<IdE>, IdE, true> rn(cx);
         drive(cx, c, rn);
      }
      else if(kind == "islist")
      {
         ListRunner<sp::IsList<IsE>, IsE, false> rn(cx);
         drive(cx, c, rn);
      }
      else if(kind == "sorter")
      {
         for(auto& r : c.recs)
         {
            if(r.tag != "op" || !cx.ok()) continue;
            cx.op = r.s(0);
            cx.count(cx.op);
            cx.executed++;
            sorterStep(cx, r);
            if(r.i(1) * (1 + modn(r.i(4) / 4, 4)) > SOPLEX_SHELLSORTMAX) nt = true;
         }
      }
      else if(kind == "vec_d")
      {
         vec = true;
         VecRunner<double> rn(cx, 3 + p2 % 14, p3);
         rn.check();
         drive(cx, c, rn);
      }
      else if(kind == "vec_q")
      {
         vec = true;
         VecRunner<Rat> rn(cx, 3 + p2 % 14, p3);
         rn.check();
         drive(cx, c, rn);
      }
      else v.fail("unknown kind " + kind);
   }
   catch(const sp::SPxException& x)
   {
      cx.fail(std::string("unexpected SPxException: ") + x.what().c_str());
   }
   if(kind == "sorter") v.nontrivial = nt;
   else if(vec) v.nontrivial = cx.mixedOverlap;
   else v.nontrivial = cx.reuse && cx.growthLive;
   if(v.nontrivial) ev().count("nontrivial." + kind);
   ev().count("ops_executed", cx.executed);
   return v;
}

int main(int argc, char** argv)
{
   return vfMain(argc, argv, "C19", gen, run);
}
