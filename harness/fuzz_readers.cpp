// fuzz_readers.cpp - C13/T1: libFuzzer target for the LP-format and MPS-format readers of SPxLPBase<R>.
//
// input  = selector byte + file content.
//   selector bit 0: 0 = LP format (readLPF), 1 = MPS format (readMPS)
//            bit 1: 0 = double, 1 = Rational
//            bit 2: 0 = caller supplies NameSets, 1 = nullptr (reader allocates and frees its own)
//            bit 3: 0 = caller supplies a DIdxSet for integer variables, 1 = nullptr
//            bit 4: 1 = go through SPxLPBase<R>::read (format auto-detection) instead of the direct reader
// oracle = (a) sanitizers (ASan, UBSan, LSan), libFuzzer's timeout, any abort / signal;
//          (b) after a read that returned true, or returned false (the readers promise an empty LP then):
//              own re-computation of the storage invariants - see checkLP();
//          (c) after every call (true, false or exception): the same object must read a known good LP.
// Nothing is asserted about *what* was read ("may read something", spxlpbase_real.hpp).
#include <cmath>
#include <sstream>
#include <algorithm>
#include "soplex/spxdefines.h"
#include "soplex/spxout.h"
#include "soplex/nameset.h"
#include "soplex/didxset.h"
#include "soplex/rational.h"
#include "soplex/spxlpbase.h"
#include "soplex/spxlp.h"
#include "fuzz_c13.hpp"

using namespace soplex;

namespace
{
const char* GOOD_LP =
   "Minimize\n obj: 2 x + 3 y + 4 z\nSubject To\n c1: x + y + z >= 6\n c2: x - y <= 2\n c3: y + z <= 10\n"
   "Bounds\n 0 <= x <= 4\nEnd\n";

inline bool isNaN(double v)
{
   return v != v;
}
inline bool isNaN(const Rational&)
{
   return false;
}
template <class R> struct Entry
{
   int i, j;
   R v;
};
// total orders (doubles by bit pattern: NaN-safe; both copies of an entry must be the same number bit for bit)
inline bool valLess(double a, double b)
{
   uint64_t x, y;
   memcpy(&x, &a, 8);
   memcpy(&y, &b, 8);
   return x < y;
}
inline bool valLess(const Rational& a, const Rational& b)
{
   return a < b;
}
template <class R> bool entryLess(const Entry<R>& a, const Entry<R>& b)
{
   if(a.i != b.i) return a.i < b.i;
   if(a.j != b.j) return a.j < b.j;
   return valLess(a.v, b.v);
}
template <class R> bool same(const R& a, const R& b)
{
   return !valLess(a, b) && !valLess(b, a);
}

// storage invariants of an SPxLPBase<R>, recomputed from the public accessors only
template <class R>
void checkLP(const SPxLPBase<R>& lp, const NameSet* rn, const NameSet* cn, const DIdxSet* iv, const char* what,
             bool fmtLP)
{
   std::string w = std::string(what) + ": ";
   int m = lp.nRows(), n = lp.nCols();
   if(m < 0 || n < 0) vfz::fail(w + "negative dimension");
   std::vector<Entry<R>> byRow, byCol;
   long rs = 0, cs = 0;
   for(int i = 0; i < m; i++)
   {
      const SVectorBase<R>& v = lp.rowVector(i);
      rs += v.size();
      for(int k = 0; k < v.size(); k++)
      {
         if(v.index(k) < 0 || v.index(k) >= n) vfz::fail(w + "row vector holds a column index outside [0,nCols)");
         if(isNaN(v.value(k))) vfz::nanStored(w, !fmtLP);
         byRow.push_back(Entry<R> {i, v.index(k), v.value(k)});
      }
      if(isNaN(lp.lhs(i)) || isNaN(lp.rhs(i))) vfz::nanStored(w, !fmtLP);
      if(lp.lhs(i) > lp.rhs(i)) vfz::count("obs.lhs_gt_rhs");
   }
   for(int j = 0; j < n; j++)
   {
      const SVectorBase<R>& v = lp.colVector(j);
      cs += v.size();
      for(int k = 0; k < v.size(); k++)
      {
         if(v.index(k) < 0 || v.index(k) >= m) vfz::fail(w + "column vector holds a row index outside [0,nRows)");
         if(isNaN(v.value(k))) vfz::nanStored(w, !fmtLP);
         byCol.push_back(Entry<R> {v.index(k), j, v.value(k)});
      }
      if(isNaN(lp.lower(j)) || isNaN(lp.upper(j)) || isNaN(lp.maxObj(j))) vfz::nanStored(w, !fmtLP);
      if(lp.lower(j) > lp.upper(j)) vfz::count("obs.lower_gt_upper");
   }
   if(rs != cs) vfz::fail(w + "row-wise and column-wise storage hold different numbers of entries");
   if(lp.nNzos() != rs) vfz::fail(w + "nNzos differs from the number of stored entries");
   std::sort(byRow.begin(), byRow.end(), entryLess<R>);
   std::sort(byCol.begin(), byCol.end(), entryLess<R>);
   for(size_t k = 0; k < byRow.size(); k++)
      if(byRow[k].i != byCol[k].i || byRow[k].j != byCol[k].j || !same(byRow[k].v, byCol[k].v))
         vfz::fail(w + "row-wise and column-wise storage do not mirror each other");
   for(size_t k = 1; k < byRow.size(); k++)
      if(byRow[k].i == byRow[k - 1].i && byRow[k].j == byRow[k - 1].j)
      {
         // SVectorBase::isConsistent forbids it. Known finding mps-duplicate-entry: MPSreadCols appends a repeated
         // (column,row) coefficient instead of rejecting or adding it up
         if(!fmtLP && vfz::known("mps-duplicate-entry"))
         {
            vfz::count("excluded_known.mps-duplicate-entry");
            break;
         }
         vfz::fail(w + "a sparse vector holds the same index twice");
      }
   if(isNaN(lp.objOffset())) vfz::nanStored(w, !fmtLP);
   if(rn)
   {
      if(rn->num() != m)
      {
         // known finding lpf-rowname-desync: the LP-format reader stores row labels independently of the rows it
         // completes (a repeated label or one colliding with a generated C<k> is dropped, a label on a
         // continuation line is added), so the name set and the rows get out of step
         if(fmtLP && vfz::known("lpf-rowname-desync")) vfz::count("excluded_known.lpf-rowname-desync");
         else vfz::fail(w + "row NameSet size differs from nRows");
      }
      for(int i = 0; i < rn->num(); i++)
      {
         if(!rn->has(i)) vfz::fail(w + "row NameSet has a hole");
         if(rn->number((*rn)[i]) != i)
         {
            if(strlen((*rn)[i]) >= SPX_MAXSTRLEN - 1 && vfz::known("nameset-long-name")) vfz::count("excluded_known.nameset-long-name");
            else vfz::fail(w + "row name does not resolve back to its index");
         }
      }
   }
   if(cn)
   {
      if(cn->num() != n) vfz::fail(w + "column NameSet size differs from nCols");
      for(int j = 0; j < n; j++)
      {
         if(!cn->has(j)) vfz::fail(w + "column NameSet has a hole");
         if(cn->number((*cn)[j]) != j)
         {
            if(strlen((*cn)[j]) >= SPX_MAXSTRLEN - 1 && vfz::known("nameset-long-name")) vfz::count("excluded_known.nameset-long-name");
            else vfz::fail(w + "column name does not resolve back to its index");
         }
      }
   }
   if(iv)
      for(int k = 0; k < iv->size(); k++)
         if(iv->index(k) < 0 || iv->index(k) >= n) vfz::fail(w + "integer-variable index outside [0,nCols)");
}

template <class R>
void one(int sel, const std::string& content, const char* tag)
{
   bool mps = sel & 1, noNames = sel & 4, noInt = sel & 8, autodetect = sel & 16;
   bool parsedAsMps = mps;
   if(autodetect) parsedAsMps = !content.empty() && (content[0] == '*' || content[0] == 'N');
   std::string text = content;
   if(autodetect && text.empty())
   {
      vfz::count("skip.autodetect_empty");   // read() inspects a character it never got: only seen by valgrind (T2)
      return;
   }
   if(parsedAsMps) vfz::completeMps(text);
   if(parsedAsMps && std::is_same<R, Rational>::value && vfz::known("mps-rational-rows-null")
         && vfz::mpsRowsLineWithoutName(text))
   {
      vfz::count("excluded_known.mps-rational-rows-null");
      return;
   }
   if(std::is_same<R, Rational>::value && vfz::known("rat-exponent-unbounded") && vfz::hasHugeExponent(text))
   {
      vfz::count("excluded_known.rat-exponent-unbounded");
      return;
   }
   if(std::is_same<R, Rational>::value && vfz::known("rat-denominator-unchecked") && vfz::hasBadDenominator(text))
   {
      vfz::count("excluded_known.rat-denominator-unchecked");
      return;
   }
   if(!parsedAsMps && vfz::known("lpf-long-token-overflow") && vfz::hasLongLpToken(text))
   {
      vfz::count("excluded_known.lpf-long-token-overflow");
      return;
   }
   if(!parsedAsMps && vfz::known("lpf-keyword-bracket-overread") && vfz::hasClosingBracket(text))
   {
      vfz::count("excluded_known.lpf-keyword-bracket-overread");
      return;
   }
   if(!parsedAsMps && noNames && vfz::known("lpf-noname-leak"))
   {
      // known finding: readLPF frees its private NameSets without running their destructors
      noNames = false;
      vfz::count("excluded_known.lpf-noname-leak");
   }
   SPxOut out;
   out.setVerbosity(SPxOut::ERROR);
   std::shared_ptr<Tolerances> tol = std::make_shared<Tolerances>();
   SPxLPBase<R> lp;
   lp.setOutstream(out);
   lp.setTolerances(tol);
   NameSet rn(16, 256), cn(16, 256);   // small: exercises the growth paths, and 10x faster under ASan
   DIdxSet iv;
   NameSet* prn = noNames ? nullptr : &rn;
   NameSet* pcn = noNames ? nullptr : &cn;
   DIdxSet* piv = noInt ? nullptr : &iv;
   std::string k = std::string(tag) + (parsedAsMps ? ".mps" : ".lp");
   int outcome = 0;   // 1 true, 0 false, -1 exception
   try
   {
      std::istringstream in(text);
      vfz::LeakScope ls(noNames);
      bool ok = autodetect ? lp.read(in, prn, pcn, piv) : (mps ? lp.readMPS(in, prn, pcn, piv) : lp.readLPF(in, prn, pcn, piv));
      outcome = ok ? 1 : 0;
   }
   catch(const SPxException& x)
   {
      outcome = -1;
      vfz::count(k + ".spxexception");
   }
   catch(const std::exception& x)
   {
      outcome = -1;
      vfz::count(k + ".stdexception");
   }
   if(outcome == 1)
   {
      vfz::count(k + ".ok");
      if(lp.nRows() >= 2 && lp.nCols() >= 2) vfz::count(k + ".ok_2x2");
      checkLP(lp, prn, pcn, piv, "after successful read", !parsedAsMps);
   }
   else if(outcome == 0)
   {
      vfz::count(k + ".false");
      checkLP<R>(lp, nullptr, nullptr, nullptr, "after failed read", !parsedAsMps);
   }
   // usable afterwards: the same object reads a good LP
   bool ok2 = false;
   DIdxSet iv2;   // the readers only add to the caller's index set, they never clear it
   try
   {
      std::istringstream in(GOOD_LP);
      ok2 = lp.readLPF(in, &rn, &cn, &iv2);
   }
   catch(...)
   {
      vfz::fail("object unusable after the read: re-reading a good LP threw");
   }
   if(!ok2) vfz::fail("object unusable after the read: re-reading a good LP failed");
   if(lp.nRows() != 3 || lp.nCols() != 3 || lp.nNzos() != 7) vfz::fail("object unusable after the read: good LP has wrong dimensions");
   checkLP(lp, &rn, &cn, &iv2, "good LP after the read", true);
}
} // namespace

extern "C" int LLVMFuzzerTestOneInput(const uint8_t* data, size_t size)
{
   vfz::initOnce();
   if(size < 1) return 0;
   int sel = data[0];
   std::string content((const char*) data + 1, size - 1);
   if(sel & 2) one<Rational>(sel, content, "rat");
   else one<double>(sel, content, "dbl");
   return 0;
}
