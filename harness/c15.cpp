// c15.cpp - C15 "Parameters: what is set is what is used; invalid values rejected atomically".
//
// case  = optional small planted LP (or `rec nolp`) + a sequence of parameter operations (one rec each):
//   setb <id> <0/1> | seti <id> <int> | setr <id> <real|nan|inf|-inf>          typed setters on the object under test (A)
//   parse <b|i|r|u> <id> <value> <spelling> <fmt>                                 parseSettingsString("type:name = value")
//   seed <n> | save <onlyChanged> | load | reset | copysettings                   copysettings = A.setSettings(C.settings())
//   osetb/oseti/osetr <id> <v> | oseed <n>                                        typed setters on the second object C
//   final <0/1>                                                                   observe sense/offset through one default solve
//   sweep <b|i|r> <id> <value>                                                    one point on a FRESH object (sweep stage)
// oracle = a model table built from the library's static tables Settings::{bool,int,real}Param (names, ranges, defaults)
//   + the enumerator sets of soplex.h + the build exceptions the source documents (no PaPILO / MPFR / Boost).
//   After every operation: return value as predicted, every getter == model, the five component names are the names
//   the same parameter value gives on a fresh object, seed == model, stored LP == the case's LP with sense/offset as
//   set through OBJSENSE/OBJ_OFFSET.  A rejected set leaves the whole snapshot identical.  A twin object B receives
//   the *typed* equivalent of every text/file/bulk operation and must have an identical snapshot.  Saved files are
//   read by an own 40-line parser: bool/int/seed exact, reals to the printed precision (9 significant digits).
#include "spx.hpp"
#include "gen_lp.hpp"
#include <cfloat>
#include <climits>
#include <memory>

using namespace vf;

namespace
{
typedef SoPlex::Settings ST;
const int NB = SoPlex::BOOLPARAM_COUNT, NI = SoPlex::INTPARAM_COUNT, NR = SoPlex::REALPARAM_COUNT;
const unsigned DEFSEED = SOPLEX_DEFAULT_RANDOM_SEED;

#ifdef SOPLEX_WITH_PAPILO
const bool HAVE_PAPILO = true;
#else
const bool HAVE_PAPILO = false;
#endif
#ifdef SOPLEX_WITH_MPFR
const bool HAVE_MPFR = true;
#else
const bool HAVE_MPFR = false;
#endif
#ifdef SOPLEX_WITH_BOOST
const bool HAVE_BOOST = true;
#else
const bool HAVE_BOOST = false;
#endif

const char* KEY_NAN = "setRealParam-NaN";
const char* KEY_PAPILO = "simplifier-papilo-side-effect";
const char* KEY_RESETSEED = "reset-keeps-seed";
const char* KEY_SUBNORMAL = "load-subnormal-real-throws";
const char* KEY_SYNCCOPY = "setsettings-syncmode-auto-null-rational";

// ------------------------------------------------------------------ documented value sets
// enumerated int parameters: the value sets are the enumerators of soplex.h (minus what this build documents to reject)
const std::map<int, std::set<int>>& enumSets()
{
   static std::map<int, std::set<int>> e;
   if(e.empty())
   {
      e[SoPlex::OBJSENSE] = {SoPlex::OBJSENSE_MINIMIZE, SoPlex::OBJSENSE_MAXIMIZE};
      e[SoPlex::REPRESENTATION] = {SoPlex::REPRESENTATION_AUTO, SoPlex::REPRESENTATION_COLUMN, SoPlex::REPRESENTATION_ROW};
      e[SoPlex::ALGORITHM] = {SoPlex::ALGORITHM_PRIMAL, SoPlex::ALGORITHM_DUAL};
      e[SoPlex::FACTOR_UPDATE_TYPE] = {SoPlex::FACTOR_UPDATE_TYPE_ETA, SoPlex::FACTOR_UPDATE_TYPE_FT};
      e[SoPlex::VERBOSITY] = {SoPlex::VERBOSITY_ERROR, SoPlex::VERBOSITY_WARNING, SoPlex::VERBOSITY_DEBUG, SoPlex::VERBOSITY_NORMAL, SoPlex::VERBOSITY_HIGH, SoPlex::VERBOSITY_FULL};
      e[SoPlex::SIMPLIFIER] = {SoPlex::SIMPLIFIER_OFF, SoPlex::SIMPLIFIER_AUTO, SoPlex::SIMPLIFIER_INTERNAL};
      if(HAVE_PAPILO) e[SoPlex::SIMPLIFIER].insert(SoPlex::SIMPLIFIER_PAPILO);
      e[SoPlex::SCALER] = {SoPlex::SCALER_OFF, SoPlex::SCALER_UNIEQUI, SoPlex::SCALER_BIEQUI, SoPlex::SCALER_GEO1, SoPlex::SCALER_GEO8, SoPlex::SCALER_LEASTSQ, SoPlex::SCALER_GEOEQUI};
      e[SoPlex::STARTER] = {SoPlex::STARTER_OFF, SoPlex::STARTER_WEIGHT, SoPlex::STARTER_SUM, SoPlex::STARTER_VECTOR};
      e[SoPlex::PRICER] = {SoPlex::PRICER_AUTO, SoPlex::PRICER_DANTZIG, SoPlex::PRICER_PARMULT, SoPlex::PRICER_DEVEX, SoPlex::PRICER_QUICKSTEEP, SoPlex::PRICER_STEEP};
      e[SoPlex::RATIOTESTER] = {SoPlex::RATIOTESTER_TEXTBOOK, SoPlex::RATIOTESTER_HARRIS, SoPlex::RATIOTESTER_FAST, SoPlex::RATIOTESTER_BOUNDFLIPPING};
      e[SoPlex::SYNCMODE] = {SoPlex::SYNCMODE_ONLYREAL, SoPlex::SYNCMODE_AUTO, SoPlex::SYNCMODE_MANUAL};
      e[SoPlex::READMODE] = {SoPlex::READMODE_REAL};
      if(HAVE_BOOST) e[SoPlex::READMODE].insert(SoPlex::READMODE_RATIONAL);
      e[SoPlex::SOLVEMODE] = {SoPlex::SOLVEMODE_REAL, SoPlex::SOLVEMODE_AUTO};
      if(HAVE_BOOST) e[SoPlex::SOLVEMODE].insert(SoPlex::SOLVEMODE_RATIONAL);
      e[SoPlex::CHECKMODE] = {SoPlex::CHECKMODE_REAL, SoPlex::CHECKMODE_AUTO, SoPlex::CHECKMODE_RATIONAL};
      e[SoPlex::TIMER] = {SoPlex::TIMER_OFF, SoPlex::TIMER_CPU, SoPlex::TIMER_WALLCLOCK};
      e[SoPlex::HYPER_PRICING] = {SoPlex::HYPER_PRICING_OFF, SoPlex::HYPER_PRICING_AUTO, SoPlex::HYPER_PRICING_ON};
      e[SoPlex::SOLUTION_POLISHING] = {SoPlex::POLISHING_OFF, SoPlex::POLISHING_INTEGRALITY, SoPlex::POLISHING_FRACTIONALITY};
   }
   return e;
}
bool papiloBool(int id)
{
   return id >= SoPlex::SIMPLIFIER_SINGLETONCOLS && id <= SoPlex::SIMPLIFIER_DOMINATEDCOLS;
}
// in-range values of an int parameter that are not among its enumerated choices
std::vector<int> holes(int id)
{
   std::vector<int> h;
   auto it = enumSets().find(id);
   if(it == enumSets().end()) return h;
   for(long v = ST::intParam.lower[id]; v <= ST::intParam.upper[id] && v <= ST::intParam.lower[id] + 64; v++)
      if(!it->second.count((int) v)) h.push_back((int) v);
   return h;
}
bool sameD(double a, double b)
{
   return a == b || (std::isnan(a) && std::isnan(b));
}

// ------------------------------------------------------------------ the model
struct Model
{
   bool b[NB];
   int i[NI];
   double r[NR];
   unsigned long seed;
   bool ratSynced = false;   // SYNCMODE_AUTO entered from SYNCMODE_ONLYREAL: the rational copy was built from the real LP
   std::string why;          // reason of the last rejection (for counters)
   Model()
   {
      defaults();
   }
   void defaults()
   {
      for(int k = 0; k < NB; k++) b[k] = ST::boolParam.defaultValue[k];
      for(int k = 0; k < NI; k++) i[k] = ST::intParam.defaultValue[k];
      for(int k = 0; k < NR; k++) r[k] = ST::realParam.defaultValue[k];
      seed = DEFSEED;
      ratSynced = false;
   }
   bool okB(int id, bool v)
   {
      if(v == b[id]) return true;                               // the current value is always a valid value
      if(papiloBool(id) && !HAVE_PAPILO) return why = "papilo", false;
      if(id == SoPlex::PRECISION_BOOSTING && !HAVE_MPFR) return why = "mpfr", false;
      return true;
   }
   bool okI(int id, int v)
   {
      if(v == i[id]) return true;
      if(v < ST::intParam.lower[id] || v > ST::intParam.upper[id]) return why = "range", false;
      auto it = enumSets().find(id);
      if(it != enumSets().end() && !it->second.count(v))
         return why = (id == SoPlex::SIMPLIFIER && v == SoPlex::SIMPLIFIER_PAPILO) ? "papilo" : (id == SoPlex::OBJSENSE ? "enum" : "build"), false;
      return true;
   }
   bool okR(int id, double v)
   {
      if(std::isnan(v)) return why = "nan", false;              // NaN is in no range
      if(v == r[id]) return true;
      if(v < ST::realParam.lower[id] || v > ST::realParam.upper[id]) return why = "range", false;
      if(id == SoPlex::SIMPLIFIER_MODIFYROWFAC && !HAVE_PAPILO) return why = "papilo", false;
      return true;
   }
   bool setB(int id, bool v)
   {
      if(!okB(id, v)) return false;
      b[id] = v;
      return true;
   }
   bool setI(int id, int v)
   {
      if(!okI(id, v)) return false;
      if(id == SoPlex::SYNCMODE && v != i[id]) ratSynced = v == SoPlex::SYNCMODE_AUTO && i[id] == SoPlex::SYNCMODE_ONLYREAL;
      i[id] = v;
      return true;
   }
   bool setR(int id, double v)
   {
      if(!okR(id, v)) return false;
      r[id] = v;
      return true;
   }
   void copyValues(const Model& o)   // setSettings: every value (each is valid: the other object holds it), not the seed
   {
      for(int k = 0; k < NB; k++) b[k] = o.b[k];
      for(int k = 0; k < NI; k++) if(!setI(k, o.i[k])) i[k] = o.i[k];
      for(int k = 0; k < NR; k++) r[k] = o.r[k];
   }
};

// ------------------------------------------------------------------ real <-> token, text spellings
std::string realTok(double v)
{
   if(std::isnan(v)) return "nan";
   if(std::isinf(v)) return v > 0 ? "inf" : "-inf";
   char buf[64];
   snprintf(buf, sizeof buf, "%.17g", v);
   return buf;
}
double tokReal(const std::string& s)
{
   if(s == "nan") return std::numeric_limits<double>::quiet_NaN();
   if(s == "inf") return std::numeric_limits<double>::infinity();
   if(s == "-inf") return -std::numeric_limits<double>::infinity();
   return strtod(s.c_str(), nullptr);
}
// can this value be written as a plain decimal / scientific literal that std::stod reads back exactly?
bool textable(double v)
{
   return std::isfinite(v) && (v == 0 || std::fabs(v) >= DBL_MIN);
}
std::string spellBool(bool v, int k)
{
   static const char* T[] = {"true", "TRUE", "t", "T", "1", "True"};
   static const char* F[] = {"false", "FALSE", "f", "F", "0", "False"};
   return v ? T[k % 6] : F[k % 6];
}
std::string spellInt(long v, int k)
{
   char buf[32];
   snprintf(buf, sizeof buf, (k % 2 == 1 && v >= 0) ? "+%ld" : "%ld", v);
   return buf;
}
std::string spellReal(double v, int k)
{
   char buf[400];
   switch(k % 4)
   {
   case 0:
      snprintf(buf, sizeof buf, "%.17g", v);
      break;
   case 1:
      snprintf(buf, sizeof buf, "%.16e", v);
      break;
   case 2:
   {
      snprintf(buf, sizeof buf, v >= 0 ? "+%.17g" : "%.17g", v);
      for(char* p = buf; *p; p++) if(*p == 'e') *p = 'E';
      break;
   }
   default:
      if(v == std::floor(v) && std::fabs(v) < 1e15) snprintf(buf, sizeof buf, "%.1f", v);
      else snprintf(buf, sizeof buf, "%.17g", v);
   }
   return buf;
}
std::string formatLine(const std::string& type, const std::string& name, const std::string& val, int fmt)
{
   switch(fmt % 7)
   {
   case 0:
      return type + ":" + name + " = " + val;
   case 1:
      return type + ":" + name + "=" + val;
   case 2:
      return "  " + type + " : " + name + "  =  " + val + "  ";
   case 3:
      return type + ":" + name + " = " + val + " # a comment = 7";
   case 4:
      return "\t" + type + ":" + name + "\t=\t" + val + "\t#c";
   case 5:
      return type + ":" + name + " = " + val + "\n";
   default:
      return type + ":\t" + name + " =" + val + "\r";
   }
}

// ------------------------------------------------------------------ observation
std::ostream& devnull()
{
   static std::ofstream s("/dev/null");
   return s;
}
std::unique_ptr<SoPlex> fresh()
{
   std::unique_ptr<SoPlex> p(new SoPlex());
   // messages of every level go to /dev/null: VERBOSITY is a parameter under test and must stay free to change
   for(int l = 0; l <= 5; l++) p->spxout.setStream((soplex::SPxOut::Verbosity) l, devnull());
   return p;
}
struct Snap
{
   std::vector<int> b, i;
   std::vector<double> r;
   unsigned long seed = 0;
   std::string nm[5];
   int m = 0, n = 0, rm = -1, rn = -1;
   std::vector<double> lhs, rhs, lo, up, obj, mobj, coef;   // coef dense m*n
};
const char* NMNAME[5] = {"simplifier", "scaler", "starter", "pricer", "ratiotester"};
const int NMPARAM[5] = {SoPlex::SIMPLIFIER, SoPlex::SCALER, SoPlex::STARTER, SoPlex::PRICER, SoPlex::RATIOTESTER};

Snap snap(SoPlex& sp)
{
   Snap s;
   for(int k = 0; k < NB; k++) s.b.push_back(sp.boolParam((SoPlex::BoolParam) k));
   for(int k = 0; k < NI; k++) s.i.push_back(sp.intParam((SoPlex::IntParam) k));
   for(int k = 0; k < NR; k++) s.r.push_back(sp.realParam((SoPlex::RealParam) k));
   s.seed = sp.randomSeed();
   s.nm[0] = sp.getSimplifierName();
   s.nm[1] = sp.getScalerName();
   s.nm[2] = sp.getStarterName();
   s.nm[3] = sp.getPricerName();
   s.nm[4] = sp.getRatiotesterName();
   s.m = sp.numRows();
   s.n = sp.numCols();
   s.coef.assign((size_t) s.m * s.n, 0.0);
   for(int i = 0; i < s.m; i++)
   {
      s.lhs.push_back(sp.lhsReal(i));
      s.rhs.push_back(sp.rhsReal(i));
      soplex::DSVectorReal v;
      sp.getRowVectorReal(i, v);
      for(int k = 0; k < v.size(); k++) if(v.index(k) >= 0 && v.index(k) < s.n) s.coef[(size_t) i * s.n + v.index(k)] += v.value(k);
   }
   for(int j = 0; j < s.n; j++)
   {
      s.lo.push_back(sp.lowerReal(j));
      s.up.push_back(sp.upperReal(j));
      s.obj.push_back(sp.objReal(j));
      s.mobj.push_back(sp.maxObjReal(j));
   }
   // SYNCMODE_AUTO documents a rational copy kept in sync with the real LP: observe its dimensions
   if(s.i[SoPlex::SYNCMODE] == SoPlex::SYNCMODE_AUTO)
   {
      s.rm = sp.numRowsRational();
      s.rn = sp.numColsRational();
   }
   return s;
}
bool sameVec(const std::vector<double>& a, const std::vector<double>& b)
{
   if(a.size() != b.size()) return false;
   for(size_t k = 0; k < a.size(); k++) if(!sameD(a[k], b[k])) return false;
   return true;
}
// "" if identical, else the first differing observable
std::string diff(const Snap& a, const Snap& b)
{
   for(int k = 0; k < NB; k++) if(a.b[k] != b.b[k]) return "bool:" + ST::boolParam.name[k];
   for(int k = 0; k < NI; k++) if(a.i[k] != b.i[k]) return "int:" + ST::intParam.name[k];
   for(int k = 0; k < NR; k++) if(!sameD(a.r[k], b.r[k])) return "real:" + ST::realParam.name[k];
   if(a.seed != b.seed) return "random seed";
   for(int k = 0; k < 5; k++) if(a.nm[k] != b.nm[k]) return std::string("active ") + NMNAME[k] + " name";
   if(a.m != b.m || a.n != b.n) return "LP dimensions";
   if(!sameVec(a.lhs, b.lhs) || !sameVec(a.rhs, b.rhs)) return "LP sides";
   if(!sameVec(a.lo, b.lo) || !sameVec(a.up, b.up)) return "LP bounds";
   if(!sameVec(a.coef, b.coef)) return "LP coefficients";
   if(!sameVec(a.obj, b.obj)) return "LP objective";
   if(!sameVec(a.mobj, b.mobj)) return "LP objective sense";
   if(a.rm != b.rm || a.rn != b.rn) return "rational LP dimensions";
   return "";
}
// names of the components a parameter value selects, recorded once on a fresh object
const std::map<int, std::string>& nameTable(int which)
{
   static std::map<int, std::string> t[5];
   static bool done = false;
   if(!done)
   {
      done = true;
      for(int w = 0; w < 5; w++)
         for(int v : enumSets().at(NMPARAM[w]))
         {
            auto sp = fresh();
            sp->setIntParam((SoPlex::IntParam) NMPARAM[w], v);
            Snap s = snap(*sp);
            t[w][v] = s.nm[w];
         }
   }
   return t[which];
}
// "" if the object shows exactly the model state and the case's LP, else what differs
std::string vsModel(const Snap& s, const Model& M, const LP* lp)
{
   for(int k = 0; k < NB; k++) if(s.b[k] != (int) M.b[k]) return "bool:" + ST::boolParam.name[k];
   for(int k = 0; k < NI; k++) if(s.i[k] != M.i[k]) return "int:" + ST::intParam.name[k];
   for(int k = 0; k < NR; k++) if(!sameD(s.r[k], M.r[k])) return "real:" + ST::realParam.name[k];
   if(s.seed != M.seed) return "random seed";
   for(int w = 0; w < 5; w++)
   {
      auto& t = nameTable(w);
      auto it = t.find(M.i[NMPARAM[w]]);
      if(it != t.end() && it->second != s.nm[w]) return std::string("active ") + NMNAME[w] + " name";
   }
   int m = lp ? lp->m() : 0, n = lp ? lp->n() : 0;
   if(s.m != m || s.n != n) return "LP dimensions";
   double sense = M.i[SoPlex::OBJSENSE];
   for(int i = 0; i < m; i++)
   {
      if(s.lhs[i] != D(lp->lhs[i]) || s.rhs[i] != D(lp->rhs[i])) return "LP sides";
      for(int j = 0; j < n; j++) if(s.coef[(size_t) i * n + j] != D(lp->A[i][j])) return "LP coefficients";
   }
   for(int j = 0; j < n; j++)
   {
      if(s.lo[j] != D(lp->lo[j]) || s.up[j] != D(lp->up[j])) return "LP bounds";
      if(s.obj[j] != D(lp->obj[j])) return "LP objective";
      if(s.mobj[j] != sense * D(lp->obj[j])) return "LP objective sense";
   }
   if(M.i[SoPlex::SYNCMODE] == SoPlex::SYNCMODE_AUTO && M.ratSynced && (s.rm != m || s.rn != n)) return "rational LP dimensions";
   return "";
}

// ------------------------------------------------------------------ own reader of a saved settings file
struct Entry
{
   char t;          // b i r u
   int id;
   std::string text;
   long iv;
   double rv;
};
std::string trim(const std::string& s)
{
   size_t a = s.find_first_not_of(" \t\r\n"), b = s.find_last_not_of(" \t\r\n");
   return a == std::string::npos ? "" : s.substr(a, b - a + 1);
}
// returns "" or an error; lines: "# comment" | "" | "type:name = value"
std::string readSettings(const std::string& path, std::vector<Entry>& out)
{
   std::ifstream is(path);
   if(!is) return "cannot be opened";
   std::string line;
   while(std::getline(is, line))
   {
      size_t h = line.find('#');
      if(h != std::string::npos) line = line.substr(0, h);
      line = trim(line);
      if(line.empty()) continue;
      size_t c = line.find(':'), e = line.find('=');
      if(c == std::string::npos || e == std::string::npos || e < c) return "has a line that is not type:name = value";
      std::string type = trim(line.substr(0, c)), name = trim(line.substr(c + 1, e - c - 1)), val = trim(line.substr(e + 1));
      Entry en;
      en.id = -1;
      en.text = val;
      en.iv = 0;
      en.rv = 0;
      if(type == "bool")
      {
         en.t = 'b';
         for(int k = 0; k < NB; k++) if(ST::boolParam.name[k] == name) en.id = k;
         if(val != "true" && val != "false") return "has a bool value that is neither true nor false";
         en.iv = val == "true";
      }
      else if(type == "int")
      {
         en.t = 'i';
         for(int k = 0; k < NI; k++) if(ST::intParam.name[k] == name) en.id = k;
         char* end;
         en.iv = strtol(val.c_str(), &end, 10);
         if(*end) return "has a malformed int value";
      }
      else if(type == "real")
      {
         en.t = 'r';
         for(int k = 0; k < NR; k++) if(ST::realParam.name[k] == name) en.id = k;
         char* end;
         en.rv = strtod(val.c_str(), &end);
         if(*end) return "has a malformed real value";
      }
      else if(type == "uint")
      {
         en.t = 'u';
         en.id = name == "random_seed" ? 0 : -1;
         char* end;
         en.iv = (long) strtoul(val.c_str(), &end, 10);
         if(*end) return "has a malformed uint value";
      }
      else return "has an unknown parameter type";
      if(en.id < 0) return "has an unknown parameter name";
      out.push_back(en);
   }
   return "";
}
// printed precision of saveSettingsFile: scientific with 8 digits after the point = 9 significant digits,
// i.e. a relative rounding error of at most 5e-9 (+ one correctly rounded decimal->binary conversion)
bool withinPrinted(double fileVal, double x)
{
   if(x == 0) return fileVal == 0;
   return std::fabs(fileVal - x) <= 5e-9 * (1 + 1e-6) * std::fabs(x);
}
double round9(double x)
{
   char buf[64];
   snprintf(buf, sizeof buf, "%.8e", x);
   return strtod(buf, nullptr);
}

std::set<std::string> knownKeys()
{
   std::set<std::string> k;
   auto it = opts().x.find("known");
   if(it == opts().x.end()) return k;
   std::stringstream ss(it->second);
   std::string t;
   while(std::getline(ss, t, ',')) if(!t.empty()) k.insert(t);
   return k;
}

// ================================================================== generator
struct GenCtx
{
   Model MA, MC;
   bool hasSaved = false, savedOc = false;
   Model saved;
   std::set<std::string> known;
};
int pickInt0(GenCtx& g, Model& M, int id, std::string& cls);
int pickInt(GenCtx& g, Model& M, int id, std::string& cls)
{
   int v = pickInt0(g, M, id, cls);
   if(id == SoPlex::SIMPLIFIER && !HAVE_PAPILO && v == SoPlex::SIMPLIFIER_PAPILO && M.i[id] == SoPlex::SIMPLIFIER_OFF && g.known.count(KEY_PAPILO))
   {
      // signature of the known finding: SIMPLIFIER_PAPILO requested while the simplifier is off
      ev().count(std::string("excluded_known.") + KEY_PAPILO);
      v = SoPlex::SIMPLIFIER_INTERNAL;
   }
   return v;
}
int pickInt0(GenCtx& g, Model& M, int id, std::string& cls)
{
   long lo = ST::intParam.lower[id], up = ST::intParam.upper[id];
   int def = ST::intParam.defaultValue[id];
   std::vector<int> h = holes(id);
   switch(W({30, 8, 8, 6, 10, 10, 5, 5, 10, 4, 4}))
   {
   case 0:
      cls = "inside";
      return (int)(lo + R(0, (int) std::min<long>(up - lo, 12)));
   case 1:
      cls = "lower";
      return (int) lo;
   case 2:
      cls = "upper";
      return (int) up;
   case 3:
      cls = "default";
      return def;
   case 4:
      cls = "lower-1";
      return (int)(lo - 1);
   case 5:
      cls = up < INT_MAX ? "upper+1" : "upper";
      return up < INT_MAX ? (int)(up + 1) : INT_MAX;
   case 6:
      cls = "INT_MIN";
      return INT_MIN;
   case 7:
      cls = "INT_MAX";
      return INT_MAX;
   case 8:
      if(!h.empty())
      {
         cls = "hole";
         return h[R(0, (int) h.size() - 1)];
      }
      cls = "upper+k";
      return up < INT_MAX - 5 ? (int)(up + R(1, 5)) : INT_MAX;
   case 9:
      cls = "current";
      return M.i[id];
   default:
      cls = "inside-big";
      return (int) std::min<long>(up, lo + 1000 * (long) R(1, 2000) + R(0, 9));
   }
}
double pickReal(GenCtx& g, Model& M, int id, bool text, std::string& cls)
{
   double lo = ST::realParam.lower[id], up = ST::realParam.upper[id], def = ST::realParam.defaultValue[id];
   const double inf = std::numeric_limits<double>::infinity();
   static const double frac[] = {0.5, 0.25, 0.0625, 0.6180339887498949, 0.123456789012345, 1e-9, 0.999999999, 0.3333333333333333};
   static const double pal[] = {0.0, 1.0, -1.0, 12345.678901234567, -98765.4321, 1.23456789e20, 2.5e50, -2.5e50, 1e99, 1e10, 1.00000001e10,
                                1e-12, 9.87654321e-7, 3.0000000001, 99.5, 1e-300, 0.1, 7.0
                               };
   int c = W({28, 7, 7, 5, 9, 9, 5, 5, 4, 4, 5, 10, 4});
   if(c == 10 && g.known.count(KEY_NAN))
   {
      ev().count(std::string("excluded_known.") + KEY_NAN);
      c = 0;
   }
   double v;
   switch(c)
   {
   case 0:
      cls = "inside";
      if(up - lo <= 1e6) v = lo + (up - lo) * frac[R(0, 7)];
      else
      {
         v = pal[R(0, 17)];
         if(v < lo || v > up) v = lo >= 0 ? lo * (1 + frac[R(0, 7)]) + frac[R(0, 7)] : frac[R(0, 7)] * 1e5;
      }
      break;
   case 1:
      cls = "lower";
      v = lo;
      break;
   case 2:
      cls = "upper";
      v = up;
      break;
   case 3:
      cls = "default";
      v = def;
      break;
   case 4:
      cls = "below-lower";
      v = std::nextafter(lo, -inf);
      break;
   case 5:
      cls = "above-upper";
      v = std::nextafter(up, inf);
      break;
   case 6:
      cls = "just-above-lower";
      v = std::nextafter(lo, inf);
      break;
   case 7:
      cls = "just-below-upper";
      v = std::nextafter(up, -inf);
      break;
   case 8:
      cls = "+inf";
      v = inf;
      break;
   case 9:
      cls = "-inf";
      v = -inf;
      break;
   case 10:
      cls = "nan";
      v = std::numeric_limits<double>::quiet_NaN();
      break;
   case 11:
      cls = "palette";
      v = pal[R(0, 17)];
      break;
   default:
      cls = "far-outside";
      v = P(50) ? lo - 1 - std::fabs(lo) : up + 1 + std::fabs(up);
   }
   if(g.known.count(KEY_SUBNORMAL) && v > 0 && v < DBL_MIN)
   {
      // signature of the proposed finding: a subnormal value is stored (it is saved as a literal std::stod refuses)
      ev().count(std::string("excluded_known.") + KEY_SUBNORMAL);
      v = DBL_MIN;
   }
   if(text && !textable(v))   // the text forms carry decimal / scientific literals only
   {
      cls = "palette";
      v = pal[R(0, 17)];
   }
   (void) M;
   return v;
}
// one set operation (typed or text) on A (other=false) or a typed one on C (other=true); updates the gen model
void genSet(GenCtx& g, Case& c, bool other, int form)   // form: 0 typed, 1 parse, 2 line of a hand-written file
{
   bool text = form != 0;
   const char* ttag = form == 2 ? "line" : "parse";
   Model& M = other ? g.MC : g.MA;
   int type = W({20, 45, 35});
   static const int hotI[] = {SoPlex::OBJSENSE, SoPlex::SIMPLIFIER, SoPlex::SYNCMODE, SoPlex::SCALER, SoPlex::PRICER, SoPlex::RATIOTESTER, SoPlex::STARTER, SoPlex::VERBOSITY};
   static const int hotR[] = {SoPlex::OBJ_OFFSET, SoPlex::FEASTOL, SoPlex::OPTTOL, SoPlex::INFTY, SoPlex::MIN_MARKOWITZ, SoPlex::SIMPLIFIER_MODIFYROWFAC};
   std::string cls;
   Rec r;
   if(type == 0)
   {
      int id = R(0, NB - 1);
      bool v = R(0, 1) == 1;
      M.setB(id, v);
      if(text) r = Rec(ttag).add("b").add(id).add((int) v).add(R(0, 5)).add(R(0, 6));
      else r = Rec(other ? "osetb" : "setb").add(id).add((int) v);
   }
   else if(type == 1)
   {
      int id = P(30) ? hotI[R(0, 7)] : R(0, NI - 1);
      int v = pickInt(g, M, id, cls);
      M.setI(id, v);
      if(text) r = Rec(ttag).add("i").add(id).add(v).add(R(0, 1)).add(R(0, 6));
      else r = Rec(other ? "oseti" : "seti").add(id).add(v);
   }
   else
   {
      int id = P(30) ? hotR[R(0, 5)] : R(0, NR - 1);
      double v = pickReal(g, M, id, text, cls);
      M.setR(id, v);
      if(text) r = Rec(ttag).add("r").add(id).add(realTok(v)).add(R(0, 3)).add(R(0, 6));
      else r = Rec(other ? "osetr" : "setr").add(id).add(realTok(v));
   }
   c.recs.push_back(r);
}
void genSweep(Case& c, const std::set<std::string>& known)
{
   const double inf = std::numeric_limits<double>::infinity();
   for(int id = 0; id < NB; id++)
      for(int v = 0; v <= 1; v++) c.recs.push_back(Rec("sweep").add("b").add(id).add(v));
   for(int id = 0; id < NI; id++)
   {
      long lo = ST::intParam.lower[id], up = ST::intParam.upper[id];
      std::set<long> vs = {lo - 1, lo, ST::intParam.defaultValue[id], up, up + 1, INT_MIN, INT_MAX};
      for(int h : holes(id)) vs.insert(h);
      for(long v : vs) if(v >= INT_MIN && v <= INT_MAX) c.recs.push_back(Rec("sweep").add("i").add(id).add(v));
   }
   for(int id = 0; id < NR; id++)
   {
      double lo = ST::realParam.lower[id], up = ST::realParam.upper[id];
      std::vector<double> vs = {std::nextafter(lo, -inf), lo, ST::realParam.defaultValue[id], up, std::nextafter(up, inf), lo - 1, up + 1, inf, -inf};
      if(known.count(KEY_NAN)) ev().count(std::string("excluded_known.") + KEY_NAN);
      else vs.push_back(std::numeric_limits<double>::quiet_NaN());
      std::set<std::string> seen;
      for(double v : vs) if(seen.insert(realTok(v)).second) c.recs.push_back(Rec("sweep").add("r").add(id).add(realTok(v)));
   }
}
void gen(Case& c)
{
   GenCtx g;
   g.known = knownKeys();
   bool sweep = opts().xi("sweep", 0) != 0;
   if(P(sweep ? 50 : 70))
   {
      GenOpt go;
      go.maxM = go.maxN = 5;
      genPlantedLP(go, CL_OPT, c.lp, c.pl);
      g.MA.i[SoPlex::OBJSENSE] = c.lp.sense;
      g.MA.r[SoPlex::OBJ_OFFSET] = D(c.lp.offset);
   }
   else c.recs.push_back(Rec("nolp"));
   if(sweep)
   {
      genSweep(c, g.known);
      return;
   }
   int maxOps = (int) opts().xi("maxops", 40);
   int cap = std::max(1, std::min(maxOps, 4 + curSize() * maxOps / 60));
   int nops = R(1, cap);
   for(int k = 0; k < nops; k++)
   {
      switch(W({34, 26, 8, 8, 6, 6, 6, 4, 6}))
      {
      case 8:
      {
         int nl = R(1, 5);
         c.recs.push_back(Rec("loadtext").add(nl));
         for(int t = 0; t < nl; t++) genSet(g, c, false, 2);
         break;
      }
      case 0:
         genSet(g, c, false, 0);
         break;
      case 1:
         genSet(g, c, false, 1);
         break;
      case 2:
      {
         int oc = R(0, 1);
         c.recs.push_back(Rec("save").add(oc));
         g.hasSaved = true;
         g.savedOc = oc != 0;
         g.saved = g.MA;
         break;
      }
      case 3:
         if(!g.hasSaved)
         {
            genSet(g, c, false, 1);
            break;
         }
         c.recs.push_back(Rec("load"));
         for(int id = 0; id < NB; id++) if(!g.savedOc || g.saved.b[id] != ST::boolParam.defaultValue[id]) g.MA.setB(id, g.saved.b[id]);
         for(int id = 0; id < NI; id++) if(!g.savedOc || g.saved.i[id] != ST::intParam.defaultValue[id]) g.MA.setI(id, g.saved.i[id]);
         for(int id = 0; id < NR; id++) if(!g.savedOc || g.saved.r[id] != ST::realParam.defaultValue[id]) g.MA.setR(id, round9(g.saved.r[id]));
         if(!g.savedOc || g.saved.seed != DEFSEED) g.MA.seed = g.saved.seed;
         break;
      case 4:
         if(g.known.count(KEY_RESETSEED) && g.MA.seed != DEFSEED)
         {
            // signature of the proposed finding: resetSettings() while the seed is not the default seed
            ev().count(std::string("excluded_known.") + KEY_RESETSEED);
            genSet(g, c, false, 0);
            break;
         }
         c.recs.push_back(Rec("reset"));
         g.MA.defaults();
         break;
      case 5:
      {
         int k2 = R(0, 4);
         for(int t = 0; t < k2; t++) genSet(g, c, true, 0);
         if(P(25))
         {
            long s = R(0, 1000);
            c.recs.push_back(Rec("oseed").add(s));
            g.MC.seed = (unsigned long) s;
         }
         if(g.known.count(KEY_SYNCCOPY) && g.MC.i[SoPlex::SYNCMODE] == SoPlex::SYNCMODE_AUTO && g.MA.i[SoPlex::SYNCMODE] == SoPlex::SYNCMODE_ONLYREAL)
         {
            // signature of the proposed finding: setSettings(SYNCMODE_AUTO) on an object that stores only the real LP
            ev().count(std::string("excluded_known.") + KEY_SYNCCOPY);
            int to = P(50) ? SoPlex::SYNCMODE_ONLYREAL : SoPlex::SYNCMODE_MANUAL;
            c.recs.push_back(Rec("oseti").add((int) SoPlex::SYNCMODE).add(to));
            g.MC.setI(SoPlex::SYNCMODE, to);
         }
         c.recs.push_back(Rec("copysettings"));
         g.MA.copyValues(g.MC);
         break;
      }
      case 6:
      {
         long s = W({3, 1, 1}) == 0 ? R(0, 1000) : (P(50) ? 4294967295L : 2147483648L + R(0, 1000));
         c.recs.push_back(Rec("seed").add(s));
         g.MA.seed = (unsigned long) s;
         break;
      }
      default:
      {
         long s = P(80) ? R(0, 100000) : 4294967295L;
         c.recs.push_back(Rec("parse").add("u").add(0).add(s).add(R(0, 1)).add(R(0, 6)));
         g.MA.seed = (unsigned long) s;
      }
      }
   }
   c.recs.push_back(Rec("final").add(c.lp.n() > 0 && P(70) ? 1 : 0));
}

// ================================================================== interpreter + oracle
struct Runner
{
   const Case& c;
   Verdict& v;
   const LP* lp = nullptr;
   std::unique_ptr<SoPlex> A, B, C;
   Model MA, MC;
   Snap prev;
   std::string dir;
   std::vector<std::string> files;
   bool hasSaved = false;
   std::string lastPath;
   std::vector<Entry> lastEntries;
   int nRejected = 0, nText = 0, nSaveLoadReset = 0, nSave = 0;
   std::string curOp = "setup";

   Runner(const Case& c_, Verdict& v_) : c(c_), v(v_) {}

   std::unique_ptr<SoPlex> freshLoaded(Model& M)
   {
      auto p = fresh();
      M.defaults();
      if(lp)
      {
         loadReal(*p, *lp, 0);
         M.i[SoPlex::OBJSENSE] = lp->sense;
         M.r[SoPlex::OBJ_OFFSET] = D(lp->offset);
      }
      return p;
   }
   bool typedSet(SoPlex& sp, char t, int id, long iv, double rv)
   {
      if(t == 'b') return sp.setBoolParam((SoPlex::BoolParam) id, iv != 0);
      if(t == 'i') return sp.setIntParam((SoPlex::IntParam) id, (int) iv);
      if(t == 'r') return sp.setRealParam((SoPlex::RealParam) id, rv);
      sp.setRandomSeed((unsigned int) iv);
      return true;
   }
   bool modelSet(Model& M, char t, int id, long iv, double rv)
   {
      if(t == 'b') return M.setB(id, iv != 0);
      if(t == 'i') return M.setI(id, (int) iv);
      if(t == 'r') return M.setR(id, rv);
      M.seed = (unsigned long) iv;
      return true;
   }
   static std::string pname(char t, int id)
   {
      if(t == 'b') return "bool:" + ST::boolParam.name[id];
      if(t == 'i') return "int:" + ST::intParam.name[id];
      if(t == 'r') return "real:" + ST::realParam.name[id];
      return "uint:random_seed";
   }
   static std::string valueClass(char t, int id, long iv, double rv)
   {
      if(t == 'b') return iv ? "bool.true" : "bool.false";
      if(t == 'u') return "seed";
      if(t == 'i')
      {
         long lo = ST::intParam.lower[id], up = ST::intParam.upper[id];
         if(iv == INT_MIN) return "int.INT_MIN";
         if(iv == INT_MAX && up < INT_MAX) return "int.INT_MAX";
         if(iv == lo - 1) return "int.lower-1";
         if(iv == up + 1) return "int.upper+1";
         if(iv < lo) return "int.below";
         if(iv > up) return "int.above";
         auto it = enumSets().find(id);
         if(it != enumSets().end() && !it->second.count((int) iv)) return "int.hole";
         if(iv == lo) return "int.lower";
         if(iv == up) return "int.upper";
         if(iv == ST::intParam.defaultValue[id]) return "int.default";
         return "int.inside";
      }
      double lo = ST::realParam.lower[id], up = ST::realParam.upper[id];
      const double inf = std::numeric_limits<double>::infinity();
      if(std::isnan(rv)) return "real.nan";
      if(std::isinf(rv)) return rv > 0 ? "real.+inf" : "real.-inf";
      if(rv == std::nextafter(lo, -inf)) return "real.nextafter-below-lower";
      if(rv == std::nextafter(up, inf)) return "real.nextafter-above-upper";
      if(rv < lo) return "real.below";
      if(rv > up) return "real.above";
      if(rv == lo) return "real.lower";
      if(rv == up) return "real.upper";
      if(rv == std::nextafter(lo, inf)) return "real.just-above-lower";
      if(rv == std::nextafter(up, -inf)) return "real.just-below-upper";
      if(rv == ST::realParam.defaultValue[id]) return "real.default";
      return "real.inside";
   }
   bool idOk(char t, int id)
   {
      return id >= 0 && ((t == 'b' && id < NB) || (t == 'i' && id < NI) || (t == 'r' && id < NR) || (t == 'u' && id == 0));
   }
   // checks after an operation on A; `what` names the operation
   bool settle(const std::string& what, bool rejected)
   {
      Snap now = snap(*A);
      std::string d;
      if(rejected && !(d = diff(prev, now)).empty())
      {
         v.fail(what + ": rejected value changed the state: " + d);
         return false;
      }
      if(!(d = vsModel(now, MA, lp)).empty())
      {
         v.fail(what + ": state after the operation differs from what was set: " + d);
         return false;
      }
      Snap tw = snap(*B);
      if(!(d = diff(now, tw)).empty())
      {
         v.fail(what + ": differs from the twin object that received the typed calls: " + d);
         return false;
      }
      prev = now;
      return true;
   }
   // decodes a text-form record (parse / line): value + the string "type:name = value" in the recorded spelling
   bool decodeText(const Rec& r, char& t, int& id, long& iv, double& rv, std::string& line)
   {
      t = r.s(0).empty() ? '?' : r.s(0)[0];
      id = (int) r.i(1);
      iv = 0;
      rv = 0;
      if(!idOk(t, id)) return false;
      int sp = (int) r.i(3), fmt = (int) r.i(4);
      if(t == 'b')
      {
         iv = r.i(2) != 0;
         line = formatLine("bool", ST::boolParam.name[id], spellBool(iv != 0, sp), fmt);
      }
      else if(t == 'i')
      {
         iv = r.i(2);
         line = formatLine("int", ST::intParam.name[id], spellInt(iv, sp), fmt);
      }
      else if(t == 'r')
      {
         rv = tokReal(r.s(2));
         if(!textable(rv)) return false;
         line = formatLine("real", ST::realParam.name[id], spellReal(rv, sp), fmt);
      }
      else
      {
         iv = (long) strtoul(r.s(2).c_str(), nullptr, 10);
         line = formatLine("uint", "random_seed", spellInt(iv, sp), fmt);
      }
      return true;
   }
   void countText(const Rec& r, char t, long iv)
   {
      ev().count(std::string("text.type.") + t);
      ev().count("text.fmt." + std::to_string(r.i(4) % 7));
      if(t == 'b') ev().count("text.boolspelling." + spellBool(iv != 0, (int) r.i(3)));
      if(t == 'r') ev().count("text.realspelling." + std::to_string(r.i(3) % 4));
   }
   // a hand-written settings file: the following n `line` records, with comment and blank lines in between
   bool doLoadText(const std::vector<const Rec*>& lines)
   {
      std::string path = dir + "/c15-text-" + std::to_string(nSave++) + ".set";
      files.push_back(path);
      std::string text = "# settings written by the C15 harness\n";
      struct Tv
      {
         char t;
         int id;
         long iv;
         double rv;
      };
      std::vector<Tv> tv;
      int k = 0;
      for(const Rec* r : lines)
      {
         Tv x;
         std::string line;
         if(!decodeText(*r, x.t, x.id, x.iv, x.rv, line)) continue;
         if((r->i(4) + k) % 3 == 0) text += "# bool:lifting = true\n";
         if((r->i(4) + k) % 3 == 1) text += "\n  \t\n";
         text += line + "\n";
         tv.push_back(x);
         countText(*r, x.t, x.iv);
         k++;
      }
      {
         std::ofstream os(path);
         os << text;
      }
      bool got = A->loadSettingsFile(path.c_str());
      ev().count("op.loadtext");
      ev().count("loadtext.lines", (long) tv.size());
      if(!got)
      {
         v.fail("loadSettingsFile returned false on a well-formed hand-written file");
         return false;
      }
      bool anyRejected = false;
      for(auto& x : tv)
      {
         bool exp = modelSet(MA, x.t, x.id, x.iv, x.rv);   // a line with a rejected value is skipped, the others apply
         bool gotB = typedSet(*B, x.t, x.id, x.iv, x.rv);
         nText++;
         ev().count(std::string(exp ? "accepted." : "rejected.") + x.t);
         ev().count("param." + pname(x.t, x.id));
         ev().count("value." + valueClass(x.t, x.id, x.iv, x.rv));
         if(!exp)
         {
            nRejected++;
            anyRejected = true;
            ev().count("rejected.reason." + MA.why);
         }
         if(gotB != exp)
         {
            v.fail("loadSettingsFile (hand-written): twin typed call returned an unexpected result: " + pname(x.t, x.id));
            return false;
         }
      }
      (void) anyRejected;
      return settle("loadSettingsFile (hand-written)", false);
   }
   bool doSet(const Rec& r, bool text)
   {
      char t;
      int id;
      long iv = 0;
      double rv = 0;
      std::string line;
      if(text)
      {
         if(!decodeText(r, t, id, iv, rv, line)) return true;
      }
      else
      {
         t = r.tag[3];
         id = (int) r.i(0);
         if(!idOk(t, id)) return true;
         if(t == 'r') rv = tokReal(r.s(1));
         else iv = r.i(1);
      }
      bool exp = modelSet(MA, t, id, iv, rv);
      bool got;
      if(text)
      {
         std::vector<char> buf(line.begin(), line.end());
         buf.push_back('\0');
         got = A->parseSettingsString(buf.data());
         nText++;
         ev().count("op.parse");
         countText(r, t, iv);
      }
      else
      {
         got = typedSet(*A, t, id, iv, rv);
         ev().count(std::string("op.set") + t);
      }
      bool gotB = typedSet(*B, t, id, iv, rv);
      ev().count(std::string(exp ? "accepted." : "rejected.") + t);
      if(!exp)
      {
         nRejected++;
         ev().count("rejected.reason." + MA.why);
      }
      ev().count("param." + pname(t, id));
      ev().count("value." + valueClass(t, id, iv, rv));
      std::string what = std::string(text ? "parseSettingsString " : "typed set ") + pname(t, id);
      if(got != exp)
      {
         if(t == 'r' && std::isnan(rv)) v.fail(what + ": NaN was accepted (returned true)");
         else v.fail(what + (exp ? ": valid value rejected (returned false)" : ": invalid value accepted (returned true)"));
         return false;
      }
      if(gotB != exp)
      {
         v.fail(what + ": twin typed call returned a different result");
         return false;
      }
      return settle(what, !exp);
   }
   bool doOther(const Rec& r)
   {
      char t = r.tag == "oseed" ? 'u' : r.tag[4];
      int id = t == 'u' ? 0 : (int) r.i(0);
      if(!idOk(t, id)) return true;
      long iv = t == 'u' ? r.i(0) : r.i(1);
      double rv = t == 'r' ? tokReal(r.s(1)) : 0;
      bool exp = modelSet(MC, t, id, iv, rv);
      Snap before = snap(*C);
      bool got = typedSet(*C, t, id, iv, rv);
      ev().count("op.other-set");
      std::string what = "typed set on second object " + pname(t, id);
      if(got != exp)
      {
         if(t == 'r' && std::isnan(rv)) v.fail(what + ": NaN was accepted (returned true)");
         else v.fail(what + (exp ? ": valid value rejected (returned false)" : ": invalid value accepted (returned true)"));
         return false;
      }
      Snap now = snap(*C);
      std::string d;
      if(!exp && !(d = diff(before, now)).empty())
      {
         v.fail(what + ": rejected value changed the state: " + d);
         return false;
      }
      if(!(d = vsModel(now, MC, nullptr)).empty())
      {
         v.fail(what + ": state after the operation differs from what was set: " + d);
         return false;
      }
      if(!exp) nRejected++;
      return true;
   }
   bool doSave(const Rec& r)
   {
      bool oc = r.i(0) != 0;
      std::string path = dir + "/c15-" + std::to_string(nSave++) + ".set";
      files.push_back(path);
      unlink(path.c_str());
      bool got = A->saveSettingsFile(path.c_str(), oc);
      ev().count(oc ? "op.save.onlychanged" : "op.save.all");
      nSaveLoadReset++;
      if(!got)
      {
         v.fail("saveSettingsFile returned false");
         return false;
      }
      std::vector<Entry> es;
      std::string err = readSettings(path, es);
      if(!err.empty())
      {
         v.fail("saved settings file " + err);
         return false;
      }
      // expected content: every (or every non-default) parameter once, with the current value
      std::set<std::string> seen;
      for(auto& e : es)
      {
         std::string nm = pname(e.t, e.id);
         if(!seen.insert(nm).second)
         {
            v.fail("saved settings file lists a parameter twice: " + nm);
            return false;
         }
         bool okv = true, isdef = false;
         if(e.t == 'b')
         {
            okv = (e.iv != 0) == MA.b[e.id];
            isdef = MA.b[e.id] == ST::boolParam.defaultValue[e.id];
         }
         else if(e.t == 'i')
         {
            okv = e.iv == MA.i[e.id];
            isdef = MA.i[e.id] == ST::intParam.defaultValue[e.id];
         }
         else if(e.t == 'r')
         {
            okv = withinPrinted(e.rv, MA.r[e.id]);
            isdef = MA.r[e.id] == ST::realParam.defaultValue[e.id];
         }
         else
         {
            okv = (unsigned long) e.iv == MA.seed;
            isdef = MA.seed == DEFSEED;
         }
         if(!okv)
         {
            v.fail(std::string("saved settings file has a value that is not the current value") + (e.t == 'r' ? " to 9 significant digits: " : ": ") + nm);
            return false;
         }
         if(oc && isdef)
         {
            v.fail("saved settings file (only changed) lists a parameter that has its default value: " + nm);
            return false;
         }
      }
      auto need = [&](char t, int id, bool isdef)
      {
         if((!oc || !isdef) && !seen.count(pname(t, id)))
         {
            v.fail("saved settings file misses a parameter: " + pname(t, id));
            return false;
         }
         return true;
      };
      for(int k = 0; k < NB; k++) if(!need('b', k, MA.b[k] == ST::boolParam.defaultValue[k])) return false;
      for(int k = 0; k < NI; k++) if(!need('i', k, MA.i[k] == ST::intParam.defaultValue[k])) return false;
      for(int k = 0; k < NR; k++) if(!need('r', k, MA.r[k] == ST::realParam.defaultValue[k])) return false;
      if(!need('u', 0, MA.seed == DEFSEED)) return false;
      ev().count("save.entries", (long) es.size());
      hasSaved = true;
      lastPath = path;
      lastEntries = es;
      return settle("saveSettingsFile", true);   // saving is const: nothing may change
   }
   bool doLoad()
   {
      if(!hasSaved)
      {
         ev().count("op.load.nofile");
         return true;
      }
      bool got = A->loadSettingsFile(lastPath.c_str());
      ev().count("op.load");
      nSaveLoadReset++;
      if(!got)
      {
         v.fail("loadSettingsFile returned false on a file written by saveSettingsFile");
         return false;
      }
      // exactly the effect of the typed calls, one per line of the file, in file order
      for(auto& e : lastEntries)
      {
         bool exp = modelSet(MA, e.t, e.id, e.iv, e.rv);
         bool gotB = typedSet(*B, e.t, e.id, e.iv, e.rv);
         if(gotB != exp)
         {
            v.fail("loadSettingsFile: typed call for a saved value returned an unexpected result: " + pname(e.t, e.id));
            return false;
         }
         if(!exp) ev().count("load.entry-rejected");
      }
      return settle("loadSettingsFile", false);
   }
   bool doReset()
   {
      A->resetSettings();
      ev().count("op.reset");
      nSaveLoadReset++;
      MA.defaults();   // documented defaults, including the documented default seed of the settings file format
      for(int k = 0; k < NB; k++) B->setBoolParam((SoPlex::BoolParam) k, ST::boolParam.defaultValue[k]);
      for(int k = 0; k < NI; k++) B->setIntParam((SoPlex::IntParam) k, ST::intParam.defaultValue[k]);
      for(int k = 0; k < NR; k++) B->setRealParam((SoPlex::RealParam) k, ST::realParam.defaultValue[k]);
      B->setRandomSeed(DEFSEED);
      return settle("resetSettings", false);
   }
   bool doCopy()
   {
      bool got = A->setSettings(C->settings());
      ev().count("op.copysettings");
      MA.copyValues(MC);
      if(!got)
      {
         v.fail("setSettings returned false for the settings of another object");
         return false;
      }
      for(int k = 0; k < NB; k++) if(!B->setBoolParam((SoPlex::BoolParam) k, MC.b[k]))
         {
            v.fail("setSettings: twin typed call rejected a value the other object holds: bool:" + ST::boolParam.name[k]);
            return false;
         }
      for(int k = 0; k < NI; k++) if(!B->setIntParam((SoPlex::IntParam) k, MC.i[k]))
         {
            v.fail("setSettings: twin typed call rejected a value the other object holds: int:" + ST::intParam.name[k]);
            return false;
         }
      for(int k = 0; k < NR; k++) if(!B->setRealParam((SoPlex::RealParam) k, MC.r[k]))
         {
            v.fail("setSettings: twin typed call rejected a value the other object holds: real:" + ST::realParam.name[k]);
            return false;
         }
      return settle("setSettings", false);
   }
   // sense and offset are only observable through a solve: restore every other parameter to its default with typed
   // calls (which the oracle above has shown to change nothing else), solve, compare with the planted optimum
   bool doFinal()
   {
      if(!lp || lp->n() == 0 || c.pl.cls != CL_OPT) return true;
      for(int k = 0; k < NB; k++) if(!A->setBoolParam((SoPlex::BoolParam) k, ST::boolParam.defaultValue[k]))
         {
            v.fail("final: default value rejected: bool:" + ST::boolParam.name[k]);
            return false;
         }
      for(int k = 0; k < NI; k++)
      {
         int val = k == SoPlex::OBJSENSE ? lp->sense : ST::intParam.defaultValue[k];
         if(!A->setIntParam((SoPlex::IntParam) k, val))
         {
            v.fail("final: default value rejected: int:" + ST::intParam.name[k]);
            return false;
         }
         MA.i[k] = val;
      }
      for(int k = 0; k < NR; k++)
      {
         if(k == SoPlex::OBJ_OFFSET) continue;
         if(!A->setRealParam((SoPlex::RealParam) k, ST::realParam.defaultValue[k]))
         {
            v.fail("final: default value rejected: real:" + ST::realParam.name[k]);
            return false;
         }
         MA.r[k] = ST::realParam.defaultValue[k];
      }
      for(int k = 0; k < NB; k++) MA.b[k] = ST::boolParam.defaultValue[k];
      Snap now = snap(*A);
      std::string d = vsModel(now, MA, lp);
      if(!d.empty())
      {
         v.fail("final: state after typed defaults differs from what was set: " + d);
         return false;
      }
      Status st = A->optimize();
      ev().count(std::string("final.status.") + statusName(st));
      if(st != Solver::OPTIMAL) return true;   // completeness of the solve is C01's claim
      double off = MA.r[SoPlex::OBJ_OFFSET];
      Q z0 = c.pl.z - lp->offset;
      double expct = z0.get_d() + off, got = A->objValueReal();
      double tol = 1e-5 * (1 + std::fabs(z0.get_d())) + 8 * DBL_EPSILON * std::fabs(off);
      if(!(std::fabs(got - expct) <= tol))
      {
         v.fail("final: objective value of the default solve is not planted optimum + the offset that was set");
         return false;
      }
      ev().count("final.offset-observed");
      if(off != D(lp->offset)) ev().count("final.offset-changed-observed");
      return true;
   }
   bool sweepPoint(const Rec& r)
   {
      char t = r.s(0).empty() ? '?' : r.s(0)[0];
      int id = (int) r.i(1);
      if(!idOk(t, id) || t == 'u') return true;
      long iv = t == 'r' ? 0 : r.i(2);
      double rv = t == 'r' ? tokReal(r.s(2)) : 0;
      curOp = "sweep";
      A = freshLoaded(MA);
      B = freshLoaded(MC);
      prev = snap(*A);
      std::string what = "sweep " + pname(t, id);
      std::string d = vsModel(prev, MA, lp);
      if(!d.empty())
      {
         v.fail(what + ": fresh object differs from the default table: " + d);
         return false;
      }
      bool exp = modelSet(MA, t, id, iv, rv);
      bool got = typedSet(*A, t, id, iv, rv);
      ev().count("sweep.points");
      ev().count(std::string(exp ? "sweep.accepted." : "sweep.rejected.") + t);
      if(!exp) nRejected++;
      if(got != exp)
      {
         if(t == 'r' && std::isnan(rv)) v.fail(what + ": NaN was accepted (returned true)");
         else v.fail(what + (exp ? ": valid value rejected (returned false)" : ": invalid value accepted (returned true)"));
         return false;
      }
      // twin: the text form where the value has one, else the typed call
      bool gotB;
      if(t != 'r' || textable(rv))
      {
         std::string line = t == 'b' ? formatLine("bool", ST::boolParam.name[id], spellBool(iv != 0, id), id)
                            : t == 'i' ? formatLine("int", ST::intParam.name[id], spellInt(iv, id), id)
                            : formatLine("real", ST::realParam.name[id], spellReal(rv, id), id);
         std::vector<char> buf(line.begin(), line.end());
         buf.push_back('\0');
         gotB = B->parseSettingsString(buf.data());
         nText++;
         ev().count("sweep.text");
      }
      else gotB = typedSet(*B, t, id, iv, rv);
      if(gotB != exp)
      {
         v.fail(what + ": text form returned a different result than the typed call");
         return false;
      }
      return settle(what, !exp);
   }
   void run()
   {
      Evidence& e = ev();
      bool nolp = c.find("nolp") != nullptr;
      lp = nolp ? nullptr : &c.lp;
      e.count(lp ? "lp.loaded" : "lp.none");
      bool replay = opts().mode == "replay" || opts().dir == ".";
      dir = replay ? "/var/tmp/h-c15" : opts().dir;
      mkdir(dir.c_str(), 0777);
      if(replay)
      {
         dir += "/r" + std::to_string((long) getpid());
         mkdir(dir.c_str(), 0777);
      }
      bool isSweep = c.find("sweep") != nullptr;
      int nops = 0;
      if(isSweep)
      {
         int pts = 0;
         for(auto& r : c.recs) if(r.tag == "sweep")
            {
               if(!sweepPoint(r)) break;
               pts++;
            }
         v.nontrivial = v.ok && pts >= 300 && nRejected >= 100 && nText >= 100;
      }
      else
      {
         A = freshLoaded(MA);
         B = freshLoaded(MC);
         C = fresh();
         MC.defaults();
         prev = snap(*A);
         std::string d = vsModel(prev, MA, lp);
         if(!d.empty()) v.fail("initial state differs from the default table / the loaded LP: " + d);
         for(size_t ri = 0; ri < c.recs.size(); ri++)
         {
            const Rec& r = c.recs[ri];
            if(!v.ok) break;
            bool ok = true;
            curOp = r.tag;
            if(r.tag == "loadtext")
            {
               std::vector<const Rec*> ls;
               while(ri + 1 < c.recs.size() && c.recs[ri + 1].tag == "line" && (long) ls.size() < r.i(0)) ls.push_back(&c.recs[++ri]);
               nops++;
               if(!doLoadText(ls)) break;
               continue;
            }
            if(r.tag == "setb" || r.tag == "seti" || r.tag == "setr") ok = doSet(r, false);
            else if(r.tag == "parse") ok = doSet(r, true);
            else if(r.tag == "seed")
            {
               A->setRandomSeed((unsigned int) r.i(0));
               B->setRandomSeed((unsigned int) r.i(0));
               MA.seed = (unsigned long)(unsigned int) r.i(0);
               e.count("op.seed");
               ok = settle("setRandomSeed", false);
            }
            else if(r.tag == "osetb" || r.tag == "oseti" || r.tag == "osetr" || r.tag == "oseed") ok = doOther(r);
            else if(r.tag == "save") ok = doSave(r);
            else if(r.tag == "load") ok = doLoad();
            else if(r.tag == "reset") ok = doReset();
            else if(r.tag == "copysettings") ok = doCopy();
            else if(r.tag == "final")
            {
               if(r.i(0) != 0) ok = doFinal();
               continue;
            }
            else continue;
            nops++;
            if(!ok) break;
         }
         e.count("seq.len." + std::string(nops <= 5 ? "1-5" : nops <= 15 ? "6-15" : nops <= 30 ? "16-30" : "31+"));
         v.nontrivial = v.ok && nRejected >= 1 && nText >= 1 && nSaveLoadReset >= 1;
      }
      for(auto& f : files) unlink(f.c_str());
      if(replay) rmdir(dir.c_str());
   }
};

Verdict run(const Case& c)
{
   Verdict v;
   Runner rn(c, v);
   try
   {
      rn.run();
   }
   catch(const soplex::SPxException& x)
   {
      v.fail("operation " + rn.curOp + " threw SPxException: " + x.what().c_str());
   }
   catch(const std::exception& x)
   {
      v.fail("operation " + rn.curOp + " threw: " + x.what());
   }
   return v;
}
} // namespace

int main(int argc, char** argv)
{
   return vfMain(argc, argv, "C15", gen, run);
}
