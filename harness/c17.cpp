// c17.cpp - C17: solves are deterministic; copies are equal to their source and independent of it.
//   part det : object A and object B (fresh, at different heap addresses, over differently pre-filled raw memory)
//              get the same LP / parameters / seed -> status, iteration count, basis, all solution vectors bitwise
//              equal; then A.clearBasis(); A.optimize() again -> equal to A's first solve.
//   part copy: a small API history on A (and in lockstep on a never-copied twin T), a copy B of A at a generated
//              point (copy constructor / assignment to a fresh object / assignment to a used object holding another
//              LP / self assignment), B == A in every public getter; then one side is modified, solved and possibly
//              destroyed: the other side must not change in any getter and must continue exactly like the twin T.
// The oracle is differential (object vs object, bit patterns): no SoPlex answer is judged by SoPlex.
#include "spx.hpp"
#include "gen_lp.hpp"
#include <new>

#if defined(__has_feature)
#if __has_feature(address_sanitizer)
#define C17_ASAN 1
#include <sanitizer/lsan_interface.h>
#endif
#endif

using namespace vf;
using namespace soplex;

// candidate findings of this harness (exclusion keys; active only when passed via --x known=...)
static const char* K_RNG = "rng-state-persists";        // Random never re-seeded at the start of a solve and not copied
static const char* K_UNINIT = "asan__solver-uninit-members";   // SPxSolverBase constructors leave members unwritten (instableLeave/instableEnter..., solvingForBoosted, storeBasisSimplexFreq); operator= and the copy's solve read them
static const char* K_LEAK = "asan__assign-leaks-old-lps";      // operator= drops the old separate real LP / rational LP without freeing them
static const char* K_FRESH = "fresh-object-basis-state";  // first solve of a freshly built object starts from the descriptor accumulated while the LP was built (basis status REGULAR, starter skipped); after clearBasis() the solver starts from NO_PROBLEM

static const char* K_WEIGHTS = "steep-weights-survive-clearbasis";   // SPxSolverBase::weightsAreSetup/weights survive reLoad()/loadLP(): quick-start steepest edge reuses the norms of the previous solve on the slack basis
static const char* K_SPARSE = "sparse-pricing-state-persists";       // sparsePricing*/remainingRounds* are never reset at the start of a solve

static const char* K_SCALER = "copy-shares-scaler";    // SPxLPBase::operator= copies lp_scaler: the copy's scaled LP points to the scaler object embedded in the source

static const char* K_MATRIX = "copy-shares-basis-matrix";   // SPxBasisBase::operator= copies the array of pointers to the SOURCE's column/unit vectors together with matrixIsSetup = true
static const char* K_STATUS = "assign-clears-status";       // operator= to an object holding a rational LP from a source without one: clearLPRational() resets the status copied before

static const char* K_LUASSIGN = "slufactor-assign-stale-rval";   // SLUFactor::assign tests the destination's stale l.rval instead of the source's: memcpy from nullptr when the destination had solved before
static const char* K_SCALEROFF = "copy-rederives-disabled-scaler"; // _optimize() consults _scaler, which the previous solve may have left nullptr (_disableSimplifierAndScaler); operator= re-derives it from the parameter

static const char* K_RATTOL = "copy-drops-rational-tolerances";   // _rationalFeastol/_rationalOpttol/_rationalMaxscaleincr (caches of FEASTOL/OPTTOL/MAXSCALEINCR) are not copied by operator=
static const char* K_CTOR = "copyctor-default-constructs-members"; // copy constructor default-constructs all members: _scalerGeo1/_scalerGeoequi lose their configuration (rounds, post-equilibration), counters stay unwritten

static const char* K_TOL = "copy-shares-tolerances";   // operator=: _tolerances = rhs._tolerances shares ONE Tolerances object between source and copy

static const char* K_FACTOR = "copy-drops-factorization";   // operator= copies the LU factorization and clears it again (setBasisSolver): a warm-started solve of the copy refactorizes while the source continues with its updated factors (last-bit differences)

static bool trace()
{
   static int t = getenv("VF_TRACE") ? 1 : 0;
   return t != 0;
}

// ------------------------------------------------------------------ observation of one object through public getters
typedef std::vector<std::pair<std::string, std::string>> Obs;

static std::string hx(double d)
{
   uint64_t u;
   memcpy(&u, &d, 8);
   char b[64];
   snprintf(b, sizeof b, "%016llx(%.17g)", (unsigned long long) u, d);
   return b;
}
static std::string hxv(const VectorReal& v)
{
   std::string s;
   for(int i = 0; i < v.dim(); i++) s += (i ? " " : "") + hx(v[i]);
   return s;
}
static std::string rs(const Rational& r)
{
   return qr(r).get_str();
}
static std::string rsv(const VectorRational& v)
{
   std::string s;
   for(int i = 0; i < v.dim(); i++) s += (i ? " " : "") + rs(v[i]);
   return s;
}
static void put(Obs& o, const std::string& k, const std::string& v)
{
   o.push_back({k, v});
}
static void put(Obs& o, const std::string& k, long v)
{
   o.push_back({k, std::to_string(v)});
}

static Obs observe(SoPlex& s)
{
   Obs o;
   int m = s.numRows(), n = s.numCols();
   put(o, "lp.numRows", m);
   put(o, "lp.numCols", n);
   put(o, "lp.numNonzeros", s.numNonzeros());
   {
      VectorReal lo(n), up(n), ob(n), lh(m), rh(m);
      s.getLowerReal(lo);
      s.getUpperReal(up);
      s.getObjReal(ob);
      s.getLhsReal(lh);
      s.getRhsReal(rh);
      put(o, "lp.getLowerReal", hxv(lo));
      put(o, "lp.getUpperReal", hxv(up));
      put(o, "lp.getObjReal", hxv(ob));
      put(o, "lp.getLhsReal", hxv(lh));
      put(o, "lp.getRhsReal", hxv(rh));
      for(int j = 0; j < n; j++)
      {
         std::string k = "[" + std::to_string(j) + "]";
         put(o, "lp.lowerReal" + k, hx(s.lowerReal(j)));
         put(o, "lp.upperReal" + k, hx(s.upperReal(j)));
         put(o, "lp.objReal" + k, hx(s.objReal(j)));
         put(o, "lp.maxObjReal" + k, hx(s.maxObjReal(j)));
         DSVectorReal col;
         s.getColVectorReal(j, col);
         std::string t;
         for(int e = 0; e < col.size(); e++) t += std::to_string(col.index(e)) + ":" + hx(col.value(e)) + " ";
         put(o, "lp.colVector" + k, t);
      }
      for(int i = 0; i < m; i++)
      {
         std::string k = "[" + std::to_string(i) + "]";
         put(o, "lp.lhsReal" + k, hx(s.lhsReal(i)));
         put(o, "lp.rhsReal" + k, hx(s.rhsReal(i)));
         put(o, "lp.rowTypeReal" + k, (long) s.rowTypeReal(i));
         DSVectorReal row;
         s.getRowVectorReal(i, row);
         std::string t;
         for(int e = 0; e < row.size(); e++) t += std::to_string(row.index(e)) + ":" + hx(row.value(e)) + " ";
         put(o, "lp.rowVector" + k, t);
      }
   }
   for(int p = 0; p < SoPlex::INTPARAM_COUNT; p++) put(o, "par.int[" + std::to_string(p) + "]", s.intParam((SoPlex::IntParam) p));
   for(int p = 0; p < SoPlex::BOOLPARAM_COUNT; p++) put(o, "par.bool[" + std::to_string(p) + "]", s.boolParam((SoPlex::BoolParam) p));
   for(int p = 0; p < SoPlex::REALPARAM_COUNT; p++) put(o, "par.real[" + std::to_string(p) + "]", hx(s.realParam((SoPlex::RealParam) p)));
   {
      // the tolerance object behind the parameters (public accessor tolerances())
      std::shared_ptr<Tolerances> t = s.tolerances();
      put(o, "tol.epsilon", hx(t->epsilon()));
      put(o, "tol.epsilonFactorization", hx(t->epsilonFactorization()));
      put(o, "tol.epsilonUpdate", hx(t->epsilonUpdate()));
      put(o, "tol.epsilonPivot", hx(t->epsilonPivot()));
      put(o, "tol.feastol", hx(t->feastol()));
      put(o, "tol.opttol", hx(t->opttol()));
      put(o, "tol.floatingPointFeastol", hx(t->floatingPointFeastol()));
      put(o, "tol.floatingPointOpttol", hx(t->floatingPointOpttol()));
   }
   put(o, "names.starter", s.getStarterName());
   put(o, "names.simplifier", s.getSimplifierName());
   put(o, "names.scaler", s.getScalerName());
   put(o, "names.pricer", s.getPricerName());
   put(o, "names.ratiotester", s.getRatiotesterName());
   put(o, "seed.randomSeed", (long) s.randomSeed());
   put(o, "basis.hasBasis", s.hasBasis());
   put(o, "basis.basisStatus", (long) s.basisStatus());
   {
      std::vector<VarStatus> br(m + 1), bc(n + 1);
      s.getBasis(br.data(), bc.data());
      std::string t, u;
      for(int i = 0; i < m; i++) t += std::to_string((int) br[i]) + "/" + std::to_string((int) s.basisRowStatus(i)) + " ";
      for(int j = 0; j < n; j++) u += std::to_string((int) bc[j]) + "/" + std::to_string((int) s.basisColStatus(j)) + " ";
      put(o, "basis.rows", t);
      put(o, "basis.cols", u);
   }
   put(o, "status.status", statusName(s.status()));
   put(o, "status.hasSol", s.hasSol());
   put(o, "status.isPrimalFeasible", s.isPrimalFeasible());
   put(o, "status.isDualFeasible", s.isDualFeasible());
   put(o, "status.hasPrimalRay", s.hasPrimalRay());
   put(o, "status.hasDualFarkas", s.hasDualFarkas());
   {
      VectorReal x(n), d(n), y(m), sl(m), ray(n), fk(m);
      x.clear();
      d.clear();
      y.clear();
      sl.clear();
      ray.clear();
      fk.clear();
      bool b1 = s.getPrimal(x), b2 = s.getSlacksReal(sl), b3 = s.getDual(y), b4 = s.getRedCost(d), b5 = s.getPrimalRay(ray), b6 = s.getDualFarkas(fk);
      put(o, "sol.getPrimal", std::to_string(b1) + " " + hxv(x));
      put(o, "sol.getSlacksReal", std::to_string(b2) + " " + hxv(sl));
      put(o, "sol.getDual", std::to_string(b3) + " " + hxv(y));
      put(o, "sol.getRedCost", std::to_string(b4) + " " + hxv(d));
      put(o, "sol.getPrimalRay", std::to_string(b5) + " " + hxv(ray));
      put(o, "sol.getDualFarkas", std::to_string(b6) + " " + hxv(fk));
      put(o, "sol.objValueReal", hx(s.objValueReal()));
   }
   if(s.intParam(SoPlex::SYNCMODE) != SoPlex::SYNCMODE_ONLYREAL)
   {
      int mr = s.numRowsRational(), nr = s.numColsRational();
      put(o, "ratlp.numRowsRational", mr);
      put(o, "ratlp.numColsRational", nr);
      put(o, "ratlp.numNonzerosRational", s.numNonzerosRational());
      for(int j = 0; j < nr; j++)
      {
         std::string k = "[" + std::to_string(j) + "]";
         put(o, "ratlp.col" + k, rs(s.lowerRational(j)) + " " + rs(s.upperRational(j)) + " " + rs(s.objRational(j)));
         const SVectorRational& col = s.colVectorRational(j);
         std::string t;
         for(int e = 0; e < col.size(); e++) t += std::to_string(col.index(e)) + ":" + rs(col.value(e)) + " ";
         put(o, "ratlp.colVector" + k, t);
      }
      for(int i = 0; i < mr; i++)
      {
         std::string k = "[" + std::to_string(i) + "]";
         put(o, "ratlp.row" + k, rs(s.lhsRational(i)) + " " + rs(s.rhsRational(i)) + " " + std::to_string((int) s.rowTypeRational(i)));
         const SVectorRational& row = s.rowVectorRational(i);
         std::string t;
         for(int e = 0; e < row.size(); e++) t += std::to_string(row.index(e)) + ":" + rs(row.value(e)) + " ";
         put(o, "ratlp.rowVector" + k, t);
      }
      VectorRational x(nr), d(nr), y(mr), sl(mr);
      bool b1 = s.getPrimalRational(x), b2 = s.getSlacksRational(sl), b3 = s.getDualRational(y), b4 = s.getRedCostRational(d);
      put(o, "ratsol.getPrimalRational", std::to_string(b1) + " " + (b1 ? rsv(x) : ""));
      put(o, "ratsol.getSlacksRational", std::to_string(b2) + " " + (b2 ? rsv(sl) : ""));
      put(o, "ratsol.getDualRational", std::to_string(b3) + " " + (b3 ? rsv(y) : ""));
      put(o, "ratsol.getRedCostRational", std::to_string(b4) + " " + (b4 ? rsv(d) : ""));
      put(o, "ratsol.objValueRational", rs(s.objValueRational()));
   }
   put(o, "stat.numIterations", s.numIterations());
   return o;
}

static bool inGroups(const std::string& key, const char* groups)
{
   // groups: space separated prefixes ("lp par basis"), nullptr = all
   if(!groups) return true;
   std::string g = key.substr(0, key.find('.'));
   std::string all = std::string(" ") + groups + " ";
   return all.find(" " + g + " ") != std::string::npos;
}
// first difference between two observations restricted to some key groups; "" if none
static std::string firstDiff(const Obs& a, const Obs& b, const char* groups, const char* na, const char* nb)
{
   size_t k = 0;
   for(; k < a.size() && k < b.size(); k++)
   {
      if(a[k].first != b[k].first)
      {
         if(!inGroups(a[k].first, groups) && !inGroups(b[k].first, groups)) continue;
         return "getter sequence differs (" + a[k].first + " vs " + b[k].first + "; dimensions differ)";
      }
      if(!inGroups(a[k].first, groups)) continue;
      if(a[k].second != b[k].second)
         return a[k].first + ": " + na + " = " + a[k].second.substr(0, 400) + " | " + nb + " = " + b[k].second.substr(0, 400);
   }
   if(a.size() != b.size()) return "number of observed values differs";
   return "";
}
static std::string obsGet(const Obs& o, const std::string& k)
{
   for(auto& kv : o) if(kv.first == k) return kv.second;
   return "";
}

// all numbers printed as hex(value) in the observation strings of the groups sol / ratsol agree within a relative tolerance
static bool numbersClose(const Obs& a, const Obs& b, double rel)
{
   if(a.size() != b.size()) return false;
   for(size_t k = 0; k < a.size(); k++)
   {
      if(a[k].first != b[k].first) return false;
      if(a[k].first.compare(0, 4, "sol.") != 0) continue;
      const std::string& x = a[k].second, & y = b[k].second;
      size_t i = 0, j = 0;
      while(true)
      {
         i = x.find('(', i);
         j = y.find('(', j);
         if((i == std::string::npos) != (j == std::string::npos)) return false;
         if(i == std::string::npos) break;
         double u = atof(x.c_str() + i + 1), w = atof(y.c_str() + j + 1);
         if(!(std::fabs(u - w) <= rel * (1 + std::fabs(u) + std::fabs(w)))) return false;
         i++;
         j++;
      }
   }
   return true;
}

// ------------------------------------------------------------------ objects in raw memory with a chosen fill pattern
static const unsigned char FILLS[] = {0x00, 0xA5, 0xFF, 0x01};
static SoPlex* makeAt(int fill, const SoPlex* src)
{
#ifdef C17_ASAN
   // known finding asan__solver-uninit-members (UBSan: load of an indeterminate bool in operator=): in the sanitizer
   // flavour every object is built over zeroed memory when the key is passed; the plain flavour keeps the fill patterns
   if(knownKey(K_UNINIT) && (fill & 3) != 0)
   {
      fill = 0;
      ev().count(std::string("excluded_known.") + K_UNINIT);
   }
#endif
   void* mem = ::operator new(sizeof(SoPlex));
   memset(mem, FILLS[fill & 3], sizeof(SoPlex));      // indeterminate values of members no constructor writes
   return src ? new(mem) SoPlex(*src) : new(mem) SoPlex();
}
static void destroyAt(SoPlex* p)
{
   if(!p) return;
   p->~SoPlex();
   memset((void*) p, 0xDD, sizeof(SoPlex));           // a dangling pointer into a destroyed object must not see old data
   ::operator delete((void*) p);
}

// ------------------------------------------------------------------ LP <-> recs (the second LP of a case)
static void lpToRecs(const LP& lp, const std::string& pfx, std::vector<Rec>& recs)
{
   recs.push_back(Rec(pfx + "dim").add(lp.m()).add(lp.n()).add(lp.sense).addq(lp.offset));
   for(int j = 0; j < lp.n(); j++) recs.push_back(Rec(pfx + "c").add(j).addq(lp.lo[j]).addq(lp.up[j]).addq(lp.obj[j]));
   for(int i = 0; i < lp.m(); i++)
   {
      Rec r(pfx + "r");
      int k = 0;
      for(int j = 0; j < lp.n(); j++) if(lp.A[i][j] != 0) k++;
      r.add(i).addq(lp.lhs[i]).addq(lp.rhs[i]).add(k);
      for(int j = 0; j < lp.n(); j++) if(lp.A[i][j] != 0) r.add(j).addq(lp.A[i][j]);
      recs.push_back(r);
   }
}
static bool lpFromRecs(const Case& c, const std::string& pfx, LP& lp)
{
   const Rec* d = c.find(pfx + "dim");
   if(!d) return false;
   lp = LP();
   lp.resize((int) d->i(0), (int) d->i(1));
   lp.sense = (int) d->i(2);
   lp.offset = d->q(3);
   for(auto& r : c.recs)
   {
      if(r.tag == pfx + "c" && r.i(0) < lp.n())
      {
         lp.lo[r.i(0)] = r.q(1);
         lp.up[r.i(0)] = r.q(2);
         lp.obj[r.i(0)] = r.q(3);
      }
      else if(r.tag == pfx + "r" && r.i(0) < lp.m())
      {
         int i = (int) r.i(0), k = (int) r.i(3);
         lp.lhs[i] = r.q(1);
         lp.rhs[i] = r.q(2);
         for(int e = 0; e < k; e++) if(r.i(4 + 2 * e) < lp.n()) lp.A[i][r.i(4 + 2 * e)] = r.q(5 + 2 * e);
      }
   }
   return true;
}

// ------------------------------------------------------------------ set-up of one object from the case
struct Setup
{
   bool exact = false, sync = false, ratload = false;
   int how = 0;
};
static Setup readSetup(const Case& c)
{
   Setup s;
   s.exact = c.geti("exact") != 0;
   s.sync = c.geti("sync") != 0;
   s.ratload = c.geti("ratload") != 0;
   s.how = (int) c.geti("load");
   return s;
}
static void loadLP(SoPlex& sp, const LP& lp, const Setup& su)
{
   if((su.exact || su.sync) && su.ratload)
   {
      loadRational(sp, lp, su.how);
      sp.setRealParam(SoPlex::OBJ_OFFSET, D(lp.offset));
   }
   else loadReal(sp, lp, su.how);
}
static bool setupObject(SoPlex& sp, const Case& c, const Setup& su, std::string* err)
{
   quiet(sp);
   sp.setIntParam(SoPlex::ITERLIMIT, 50000);
   if(su.exact || su.sync) sp.setIntParam(SoPlex::SYNCMODE, SoPlex::SYNCMODE_AUTO);
   if(su.exact)
   {
      sp.setIntParam(SoPlex::SOLVEMODE, SoPlex::SOLVEMODE_RATIONAL);
      sp.setRealParam(SoPlex::FEASTOL, 0.0);
      sp.setRealParam(SoPlex::OPTTOL, 0.0);
      sp.setBoolParam(SoPlex::PRECISION_BOOSTING, false);   // mpfr working precision is process-global (assumption)
   }
   else sp.setIntParam(SoPlex::SOLVEMODE, SoPlex::SOLVEMODE_REAL);
   if(!applyParams(sp, c, err)) return false;
   loadLP(sp, c.lp, su);
   return true;
}

// ------------------------------------------------------------------ operations (real modification interface, solve, basis)
static DSVectorReal sparseFrom(const Rec& r, size_t& p, int dim)
{
   int k = (int) r.i(p++);
   DSVectorReal v(k + 1);
   for(int t = 0; t < k; t++)
   {
      int j = (int) r.i(p++);
      Q val = r.q(p++);
      if(j < dim && val != 0) v.add(j, D(val));
   }
   return v;
}
static bool g_rescaler = false; // known finding copy-rederives-disabled-scaler: see doSolve
static bool g_reseed = false;   // known finding rng-state-persists: emulate "state reset at the start of each solve"
static std::string doSolve(SoPlex& s)
{
   // zero-dimensional LPs are copied, compared and modified but not solved (nothing about solving them is claimed;
   // e.g. STARTER_WEIGHT on an LP without rows reads row[0] in SPxWeightST::initPrefs and crashes)
   if(s.numRows() == 0 || s.numCols() == 0)
   {
      ev().count("unjudged.zero_dimensional_solve_skipped");
      return "skipped (zero-dimensional LP)";
   }
   if(g_reseed) s.setRandomSeed(s.randomSeed());
   if(g_rescaler && s.intParam(SoPlex::SCALER) != SoPlex::SCALER_OFF && std::string(s.getScalerName()) == "none")
   {
      // known finding copy-rederives-disabled-scaler: the previous solve left the scaler pointer null; what optimize()
      // should do itself is done here for every object alike
      s.setIntParam(SoPlex::SCALER, s.intParam(SoPlex::SCALER));
      ev().count("excluded_known.copy-rederives-disabled-scaler.rebound_before_solve");
   }
   try
   {
      Status st = s.optimize();
      return std::string("status ") + statusName(st);
   }
   catch(const SPxException& x)
   {
      return std::string("threw SPxException: ") + x.what().c_str();
   }
   catch(const std::exception& x)
   {
      return std::string("threw std::exception: ") + x.what();
   }
}
// executes r.a[b..] on s; returns a text describing the outcome (compared between lockstep twins)
static std::string applyOp(SoPlex& s, const Rec& r, size_t b)
{
   const std::string& op = r.s(b);
   int m = s.numRows(), n = s.numCols();
   try
   {
      if(op == "solve") return doSolve(s);
      if(op == "clearbasis")
      {
         s.clearBasis();
         return "ok";
      }
      if(op == "basisrt")
      {
         if(!s.hasBasis()) return "nobasis";
         std::vector<VarStatus> br(m + 1), bc(n + 1);
         s.getBasis(br.data(), bc.data());
         s.setBasis(br.data(), bc.data());
         return "ok";
      }
      if(op == "slackbasis")
      {
         std::vector<VarStatus> br(m + 1, Solver::BASIC), bc(n + 1);
         for(int j = 0; j < n; j++)
         {
            double lo = s.lowerReal(j), up = s.upperReal(j);
            bc[j] = lo <= -1e100 ? (up >= 1e100 ? Solver::ZERO : Solver::ON_UPPER) : (lo == up ? Solver::FIXED : Solver::ON_LOWER);
         }
         s.setBasis(br.data(), bc.data());
         return "ok";
      }
      if(op == "binv")
      {
         if(!s.hasBasis() || m == 0) return "nobasis";
         int row = (int)(r.i(b + 1) % m);
         VectorReal coef(m);
         coef.clear();
         // unscale = false: with unscale = true the call goes through the currently selected scaler object, which is a
         // different (never used) object after a SCALER change on a scaled LP (null dereference; not a C17 matter)
         bool ok = s.getBasisInverseRowReal(row, coef.get_ptr(), nullptr, nullptr, false);
         return std::string(ok ? "1 " : "0 ") + (ok ? hxv(coef) : "");
      }
      if(op == "setint")
      {
         bool ok = s.setIntParam((SoPlex::IntParam) r.i(b + 1), (int) r.i(b + 2));
         return ok ? "ok" : "rejected";
      }
      if(op == "setbool")
      {
         bool ok = s.setBoolParam((SoPlex::BoolParam) r.i(b + 1), r.i(b + 2) != 0);
         return ok ? "ok" : "rejected";
      }
      if(op == "setreal")
      {
         bool ok = s.setRealParam((SoPlex::RealParam) r.i(b + 1), r.q(b + 2).get_d());
         return ok ? "ok" : "rejected";
      }
      if(op == "setseed")
      {
         s.setRandomSeed((unsigned) r.i(b + 1));
         return "ok";
      }
      if(op == "sense")
      {
         s.setIntParam(SoPlex::OBJSENSE, r.i(b + 1) == 1 ? SoPlex::OBJSENSE_MAXIMIZE : SoPlex::OBJSENSE_MINIMIZE);
         return "ok";
      }
      if(op == "offset")
      {
         s.setRealParam(SoPlex::OBJ_OFFSET, D(r.q(b + 1)));
         return "ok";
      }
      if(op == "chgobj" && r.i(b + 1) < n)
      {
         s.changeObjReal((int) r.i(b + 1), D(r.q(b + 2)));
         return "ok";
      }
      if(op == "chglo" && r.i(b + 1) < n)
      {
         int j = (int) r.i(b + 1);
         double v = D(r.q(b + 2));
         s.changeLowerReal(j, std::min(v, s.upperReal(j)));
         return "ok";
      }
      if(op == "chgup" && r.i(b + 1) < n)
      {
         int j = (int) r.i(b + 1);
         double v = D(r.q(b + 2));
         s.changeUpperReal(j, std::max(v, s.lowerReal(j)));
         return "ok";
      }
      if(op == "chgbnd" && r.i(b + 1) < n)
      {
         s.changeBoundsReal((int) r.i(b + 1), D(r.q(b + 2)), D(r.q(b + 3)));
         return "ok";
      }
      // row sides: the generator never produces a free row (known finding C06/free-nonbasic-row is kept out of the way)
      if(op == "chglhs" && r.i(b + 1) < m)
      {
         int i = (int) r.i(b + 1);
         double v = D(r.q(b + 2));
         if(v <= -1e100 && s.rhsReal(i) >= 1e100) return "skipped";
         s.changeLhsReal(i, std::min(v, s.rhsReal(i)));
         return "ok";
      }
      if(op == "chgrhs" && r.i(b + 1) < m)
      {
         int i = (int) r.i(b + 1);
         double v = D(r.q(b + 2));
         if(v >= 1e100 && s.lhsReal(i) <= -1e100) return "skipped";
         s.changeRhsReal(i, std::max(v, s.lhsReal(i)));
         return "ok";
      }
      if(op == "chgrange" && r.i(b + 1) < m)
      {
         s.changeRangeReal((int) r.i(b + 1), D(r.q(b + 2)), D(r.q(b + 3)));
         return "ok";
      }
      if(op == "chgel" && r.i(b + 1) < m && r.i(b + 2) < n)
      {
         s.changeElementReal((int) r.i(b + 1), (int) r.i(b + 2), D(r.q(b + 3)));
         return "ok";
      }
      if(op == "addrow")
      {
         size_t p = b + 3;
         DSVectorReal v = sparseFrom(r, p, n);
         s.addRowReal(LPRowReal(D(r.q(b + 1)), v, D(r.q(b + 2))));
         return "ok";
      }
      if(op == "addcol")
      {
         size_t p = b + 4;
         DSVectorReal v = sparseFrom(r, p, m);
         s.addColReal(LPColReal(D(r.q(b + 1)), v, D(r.q(b + 3)), D(r.q(b + 2))));
         return "ok";
      }
      if(op == "rmrow" && r.i(b + 1) < m)
      {
         s.removeRowReal((int) r.i(b + 1));
         return "ok";
      }
      if(op == "rmcol" && r.i(b + 1) < n)
      {
         s.removeColReal((int) r.i(b + 1));
         return "ok";
      }
   }
   catch(const SPxException& x)
   {
      return std::string("threw SPxException: ") + x.what().c_str();
   }
   return "skipped";
}
static bool isSolveOp(const Rec& r, size_t b)
{
   return r.s(b) == "solve";
}
static bool isModOp(const Rec& r, size_t b)
{
   const std::string& op = r.s(b);
   return op != "solve" && op != "binv" && op != "basisrt";
}

// ------------------------------------------------------------------ generation
static Q genVal(int allowInf)
{
   int k = W({60, 25, 15});
   if(k == 2 && allowInf != 0) return allowInf > 0 ? QINF() : Q(-QINF());
   Q v = R(-9, 9);
   if(k == 1) v *= q2pow(R(-3, 3));
   return v;
}
static void genSparse(Rec& r, int dim)
{
   if(dim <= 0)
   {
      r.add(0);
      return;
   }
   int k = R(0, std::min(dim, 4));
   std::set<int> used;
   std::vector<std::pair<int, Q>> ent;
   for(int t = 0; t < k; t++)
   {
      int j = R(0, dim - 1);
      if(used.count(j)) continue;
      used.insert(j);
      Q v = genVal(0);
      if(v == 0) v = 1;
      ent.push_back({j, v});
   }
   r.add((int) ent.size());
   for(auto& e : ent) r.add(e.first).addq(e.second);
}
// sides with at least one finite side (never a free row), lhs <= rhs
static void genSidesNotFree(Rec& r)
{
   Q a = genVal(0), b = a + R(0, 6);
   int k = W({35, 25, 20, 20});
   if(k == 1) b = QINF();
   else if(k == 2) a = -QINF();
   else if(k == 3) b = a;
   r.addq(a).addq(b);
}
static void genBounds(Rec& r)
{
   Q a = genVal(0), b = a + R(0, 6);
   int k = W({30, 25, 20, 15, 10});
   if(k == 1) b = QINF();
   else if(k == 2) a = -QINF();
   else if(k == 3) b = a;
   else if(k == 4)
   {
      a = -QINF();
      b = QINF();
   }
   r.addq(a).addq(b);
}
// one modification / query operation appended to r; tracks dimensions
static void genModOp(Rec& r, int& m, int& n, bool allowParam)
{
   for(int attempt = 0; attempt < 8; attempt++)
   {
      int w = W({10, 8, 8, 5, 8, 8, 5, 6, 5, 5, 3, 3, 4, 3, 2, 2, 2, 3});
      switch(w)
      {
      case 0:
         if(n == 0) continue;
         r.add("chgobj").add(R(0, n - 1)).addq(genVal(0));
         return;
      case 1:
         if(n == 0) continue;
         r.add("chglo").add(R(0, n - 1)).addq(genVal(-1));
         return;
      case 2:
         if(n == 0) continue;
         r.add("chgup").add(R(0, n - 1)).addq(genVal(1));
         return;
      case 3:
         if(n == 0) continue;
         r.add("chgbnd").add(R(0, n - 1));
         genBounds(r);
         return;
      case 4:
         if(m == 0) continue;
         r.add("chglhs").add(R(0, m - 1)).addq(genVal(-1));
         return;
      case 5:
         if(m == 0) continue;
         r.add("chgrhs").add(R(0, m - 1)).addq(genVal(1));
         return;
      case 6:
         if(m == 0) continue;
         r.add("chgrange").add(R(0, m - 1));
         genSidesNotFree(r);
         return;
      case 7:
         if(m == 0 || n == 0) continue;
         r.add("chgel").add(R(0, m - 1)).add(R(0, n - 1)).addq(P(25) ? Q(0) : genVal(0));
         return;
      case 8:
         r.add("addrow");
         genSidesNotFree(r);
         genSparse(r, n);
         m++;
         return;
      case 9:
         r.add("addcol").addq(genVal(0));
         genBounds(r);
         genSparse(r, m);
         n++;
         return;
      case 10:
         if(m <= 1) continue;
         r.add("rmrow").add(R(0, m - 1));
         m--;
         return;
      case 11:
         if(n <= 1) continue;
         r.add("rmcol").add(R(0, n - 1));
         n--;
         return;
      case 12:
         r.add("clearbasis");
         return;
      case 13:
         r.add("basisrt");
         return;
      case 14:
         r.add("slackbasis");
         return;
      case 15:
         r.add("sense").add(P(50) ? 1 : -1);
         return;
      case 16:
         r.add("offset").addq(Q(R(-20, 20)));
         return;
      default:
         if(!allowParam) continue;
         {
            int k = W({3, 3, 3, 3, 2, 2, 2, 2, 4});
            switch(k)
            {
            case 8:
            {
               static const char* tols[] = {"1/100", "1/1000", "1/10000", "1/100000000", "1/10000000000"};
               static const int ids[] = {SoPlex::FEASTOL, SoPlex::OPTTOL, SoPlex::FEASTOL, SoPlex::OPTTOL, SoPlex::EPSILON_ZERO, SoPlex::EPSILON_PIVOT};
               int id = ids[R(0, 5)];
               r.add("setreal").add(id).add(id == SoPlex::EPSILON_ZERO || id == SoPlex::EPSILON_PIVOT ? (P(50) ? "1/1000000000000" : "1/100000000") : tols[R(0, 4)]);
               return;
            }
            case 0:
               r.add("setint").add((int) SoPlex::PRICER).add(R(0, 5));
               return;
            case 1:
               r.add("setint").add((int) SoPlex::SCALER).add(R(0, 6));
               return;
            case 2:
               r.add("setint").add((int) SoPlex::SIMPLIFIER).add(P(50) ? 0 : (P(50) ? 1 : 3));
               return;
            case 3:
               r.add("setint").add((int) SoPlex::REPRESENTATION).add(R(0, 2));
               return;
            case 4:
               r.add("setint").add((int) SoPlex::ALGORITHM).add(R(0, 1));
               return;
            case 5:
               r.add("setint").add((int) SoPlex::RATIOTESTER).add(P(50) ? 2 : 3);
               return;
            case 6:
               r.add("setbool").add((int) SoPlex::PERSISTENTSCALING).add(R(0, 1));
               return;
            default:
               r.add("setseed").add(R(0, 1000));
               return;
            }
         }
      }
   }
   r.add("clearbasis");
}

// exclusions of findings recorded for other properties, applied to the parameter records when the key is passed
static void applyKnownCfgExclusions(Case& c, const std::string& itag)
{
   bool nonfast = false, freeRow = false;
   for(auto& r : c.recs) if(r.tag == itag && r.i(0) == SoPlex::RATIOTESTER && (r.i(1) == SoPlex::RATIOTESTER_TEXTBOOK || r.i(1) == SoPlex::RATIOTESTER_HARRIS)) nonfast = true;
   for(int i = 0; i < c.lp.m(); i++) if(!isFin(c.lp.lhs[i]) && !isFin(c.lp.rhs[i])) freeRow = true;
   for(auto& r : c.recs)
   {
      if(r.tag != itag) continue;
      if(knownKey("polish-nonfast-rt") && nonfast && r.i(0) == SoPlex::SOLUTION_POLISHING && r.i(1) != 0)
      {
         r.a[1] = "0";
         ev().count("excluded_known.polish-nonfast-rt");
      }
      if(knownKey("harris-rt-singular") && r.i(0) == SoPlex::RATIOTESTER && r.i(1) == SoPlex::RATIOTESTER_HARRIS)
      {
         r.a[1] = std::to_string((int) SoPlex::RATIOTESTER_FAST);
         ev().count("excluded_known.harris-rt-singular");
      }
      if(knownKey("starter-free-row") && freeRow && r.i(0) == SoPlex::STARTER && r.i(1) != 0)
      {
         r.a[1] = "0";
         ev().count("excluded_known.starter-free-row");
      }
   }
}

static void genDegenerate(LP& lp)
{
   // many ties: zero sides / zero bounds / equal costs, so that perturbation and tie breaking are exercised
   int m = lp.m(), n = lp.n();
   int k = W({40, 30, 30});
   if(k == 0) return;
   for(int i = 0; i < m; i++)
      if(P(k == 1 ? 50 : 90))
      {
         if(isFin(lp.lhs[i])) lp.lhs[i] = 0;
         if(isFin(lp.rhs[i])) lp.rhs[i] = (isFin(lp.lhs[i]) && P(50)) ? Q(0) : Q(std::max(0, R(-2, 3)));
      }
   for(int j = 0; j < n; j++)
      if(P(k == 1 ? 40 : 80))
      {
         if(isFin(lp.lo[j])) lp.lo[j] = 0;
         if(isFin(lp.up[j])) lp.up[j] = std::max(Q(lp.lo[j]), Q(R(0, 4)));
         if(P(50)) lp.obj[j] = lp.sense == 1 ? Q(1) : Q(-1) * (P(50) ? 1 : -1);
      }
}

static void gen(Case& c)
{
   bool thorough = opts().tier == "thorough";
   int part = (int) opts().xi("part", -1);
   if(part < 0) part = W({45, 55});
   GenOpt g;
   g.degeneratePct = P(50) ? 30 : 70;
   bool exact = P(part == 0 ? 12 : 10);
   bool sync = !exact && P(part == 0 ? 10 : 25);
   if(part == 0)
   {
      g.maxM = g.maxN = (int) opts().xi("maxdim", exact ? 8 : (thorough ? 30 : 16));
      g.scaleExp = P(25) ? R(1, 5) : 0;
      int cls = 1 + W({62, 14, 14, 10});
      genPlantedLP(g, cls, c.lp, c.pl);
      if(P(45))
      {
         genDegenerate(c.lp);
         c.recs.push_back(Rec("degen").add(1));
      }
      c.pl = Planted();
      c.recs.push_back(Rec("part").add("det"));
      if(P(35)) c.recs.push_back(Rec("real").add((int) SoPlex::SPARSITY_THRESHOLD).add(0));   // sparse pricing never used
   }
   else
   {
      g.maxM = g.maxN = (int) opts().xi("maxdim", exact ? 6 : (thorough ? 14 : 9));
      int cls = 1 + W({70, 12, 12, 6});
      if(P(6)) c.lp = LP();               // never-loaded empty object
      else
      {
         genPlantedLP(g, cls, c.lp, c.pl);
         if(P(30)) genDegenerate(c.lp);
      }
      c.pl = Planted();
      c.recs.push_back(Rec("part").add("copy"));
   }
   c.recs.push_back(Rec("exact").add(exact ? 1 : 0));
   c.recs.push_back(Rec("sync").add(sync ? 1 : 0));
   c.recs.push_back(Rec("ratload").add(P(50) ? 1 : 0));
   c.recs.push_back(Rec("load").add(R(0, 1)));
   c.recs.push_back(Rec("fill").add(R(0, 3)).add(R(0, 3)).add(R(0, 3)));
   c.recs.push_back(Rec("garbage").add(R(0, 3)).add(R(1, 40)));
   if(exact)
   {
      if(P(50)) c.recs.push_back(Rec("int").add((int) SoPlex::SIMPLIFIER).add(W({1, 1, 1}) == 0 ? 0 : (P(50) ? 1 : 3)));
      if(P(50)) c.recs.push_back(Rec("int").add((int) SoPlex::SCALER).add(R(0, 6)));
      if(P(30)) c.recs.push_back(Rec("int").add((int) SoPlex::REPRESENTATION).add(R(0, 2)));
      if(P(30)) c.recs.push_back(Rec("int").add((int) SoPlex::ALGORITHM).add(R(0, 1)));
      if(P(30)) c.recs.push_back(Rec("seed").add(R(0, 1000)));
   }
   else genCfg(c);
   applyKnownCfgExclusions(c, "int");
   if(part == 0) return;

   // ---- history of the copy part
   int m = c.lp.m(), n = c.lp.n();
   // before the copy: 0..3 operations on A (and T), solves at a generated point
   int npre = W({25, 35, 25, 15});
   bool solvedPre = false;
   if(P(75) && npre == 0) npre = 1;
   for(int s = 0; s < npre; s++)
   {
      Rec r("pre");
      if(P(s == 0 ? 55 : 35) || (s == npre - 1 && !solvedPre && P(60)))
      {
         r.add("solve");
         solvedPre = true;
      }
      else if(P(10)) r.add("binv").add(R(0, 20));
      else genModOp(r, m, n, true);
      c.recs.push_back(r);
   }
   // the copy
   int kind = W({35, 20, 35, 10});       // 0 copy ctor, 1 assignment to a fresh object, 2 assignment to a used object, 3 self assignment
   int side = R(0, 1);                   // 0: the copy is mutated, the source is kept; 1: the source is mutated, the copy is kept
   int destroy = P(45) ? 1 : 0;
   int recycle = P(50) ? 1 : 0;          // after destruction, allocate and solve an unrelated object (freed blocks get reused)
   c.recs.push_back(Rec("copy").add(kind).add(side).add(destroy).add(recycle));
   if(kind == 2)
   {
      LP blp;
      Planted bp;
      GenOpt h;
      h.maxM = h.maxN = 7;
      genPlantedLP(h, 1 + W({70, 12, 12, 6}), blp, bp);
      lpToRecs(blp, "b", c.recs);
      // b's own parameters: a few deviations so that the active components differ from the source's
      int k = R(0, 4);
      for(int t = 0; t < k; t++)
      {
         int w = R(0, 6);
         switch(w)
         {
         case 0:
            c.recs.push_back(Rec("bint").add((int) SoPlex::SIMPLIFIER).add(P(50) ? 0 : 1));
            break;
         case 1:
            c.recs.push_back(Rec("bint").add((int) SoPlex::SCALER).add(R(0, 6)));
            break;
         case 2:
            c.recs.push_back(Rec("bint").add((int) SoPlex::PRICER).add(R(0, 5)));
            break;
         case 3:
            c.recs.push_back(Rec("bint").add((int) SoPlex::REPRESENTATION).add(R(0, 2)));
            break;
         case 4:
            c.recs.push_back(Rec("bint").add((int) SoPlex::STARTER).add(R(0, 3)));
            break;
         case 5:
            c.recs.push_back(Rec("bint").add((int) SoPlex::RATIOTESTER).add(P(50) ? 2 : 3));
            break;
         default:
            c.recs.push_back(Rec("bbool").add((int) SoPlex::PERSISTENTSCALING).add(R(0, 1)));
         }
      }
      // bprev: solved before being overwritten? rational LP present? own seed?
      c.recs.push_back(Rec("bprev").add(P(65) ? 1 : 0).add(P(35) ? 1 : 0).add(P(30) ? R(1, 1000) : 0));
   }
   // after the copy: operations on the mutated side
   int npost = R(1, 4);
   bool anySolve = false;
   int pm = m, pn = n;
   for(int s = 0; s < npost; s++)
   {
      Rec r("post");
      if(P(40) || (s == npost - 1 && !anySolve && P(70)))
      {
         r.add("solve");
         anySolve = true;
      }
      else if(P(8)) r.add("binv").add(R(0, 20));
      else genModOp(r, pm, pn, true);
      c.recs.push_back(r);
   }
   // finally: operations on the kept side and on the never-copied twin, ending with a solve
   int nfin = R(0, 3);
   for(int s = 0; s < nfin; s++)
   {
      Rec r("final");
      if(P(30)) r.add("solve");
      else if(P(10)) r.add("binv").add(R(0, 20));
      else genModOp(r, m, n, true);
      c.recs.push_back(r);
   }
   c.recs.push_back(Rec("final").add("solve"));
}

// ------------------------------------------------------------------ helpers of run
static void heapGarbage(int mode, int amount, std::vector<void*>& keep)
{
   // unrelated heap traffic between the construction of two objects so that their blocks land at different addresses
   std::vector<void*> tmp;
   for(int k = 0; k < amount; k++)
   {
      size_t sz = 24 + (size_t)((k * 2654435761u) % 4000);
      void* p = malloc(sz);
      memset(p, 0x5A, sz);
      (k % 3 == 0 ? keep : tmp).push_back(p);
   }
   for(void* p : tmp) free(p);
   if(mode >= 2)
   {
      // a differently sized dummy solver, solved and destroyed
      SoPlex* d = makeAt(mode, nullptr);
      quiet(*d);
      LP lp;
      lp.resize(2 + amount % 3, 3 + amount % 4);
      for(int i = 0; i < lp.m(); i++)
      {
         for(int j = 0; j < lp.n(); j++) lp.A[i][j] = 1 + ((i + 2 * j + amount) % 3);
         lp.rhs[i] = 10 + i;
      }
      for(int j = 0; j < lp.n(); j++) lp.obj[j] = -(1 + j);
      loadReal(*d, lp, 0);
      d->optimize();
      destroyAt(d);
   }
}
static void freeGarbage(std::vector<void*>& keep)
{
   for(void* p : keep) free(p);
   keep.clear();
}
static std::string leakCheck()
{
#ifdef C17_ASAN
   if(__lsan_do_recoverable_leak_check()) return "leaked";
#endif
   return "";
}

static void countStatus(const std::string& pfx, const std::string& outcome)
{
   ev().count(pfx + "." + (outcome.rfind("threw", 0) == 0 ? std::string("threw") : outcome.substr(outcome.find(' ') == std::string::npos ? 0 : outcome.find(' ') + 1)));
}

// ------------------------------------------------------------------ part det
// two objects with the same history: everything except the component names (get*Name() report the transient internal
// binding - e.g. "none" after a re-solve without preprocessing - which a copy legitimately re-derives from the parameters)
static const char* TWIN_GROUPS = "lp par tol seed basis status sol ratlp ratsol stat";
static Verdict runDet(const Case& c)
{
   Verdict v;
   Evidence& e = ev();
   Setup su = readSetup(c);
   const Rec* fr = c.find("fill");
   const Rec* gr = c.find("garbage");
   int fillA = fr ? (int) fr->i(0) : 0, fillB = fr ? (int) fr->i(1) : 1;
   std::vector<void*> keep;
   std::string err;

   SoPlex* A = makeAt(fillA, nullptr);
   if(!setupObject(*A, c, su, &err))
   {
      destroyAt(A);
      v.fail(err);
      return v;
   }
   std::string ra = doSolve(*A);
   int typeAfter1 = SoPlexVerifAccess::solverType(*A);
   Obs oa = observe(*A);
   heapGarbage(gr ? (int) gr->i(0) : 0, gr ? (int) gr->i(1) : 5, keep);
   SoPlex* B = makeAt(fillB, nullptr);
   setupObject(*B, c, su, &err);
   std::string rb = doSolve(*B);
   Obs ob = observe(*B);
   countStatus("det.first", ra);
   e.count(su.exact ? "det.exact" : (su.sync ? "det.real_with_rational_lp" : "det.real"));
   if(c.find("degen")) e.count("det.degenerate_lp");
   int itA = (int) A->numIterations(), itB = (int) B->numIterations();
   e.count(itA == 0 ? "det.iters.0" : (itA == 1 ? "det.iters.1" : (itA < 10 ? "det.iters.2-9" : "det.iters.10+")));
   if(ra != rb) v.fail("determinism: two fresh objects given the same LP, parameters and seed end differently: " + ra + " vs " + rb);
   else
   {
      std::string d = firstDiff(oa, ob, TWIN_GROUPS, "A", "B");
      if(!d.empty()) v.fail("determinism: two fresh objects given the same LP, parameters and seed differ in " + d);
   }
   if(v.ok)
   {
      // solving the same unmodified object again after clearing its basis
      bool skip = false;
      // (all pricers that keep norms / an activation state between solves: the automatic devex -> steepest-edge switch,
      // devex, quick-start and exact steepest edge; seen with the default PRICER_AUTO as 14 vs 8 iterations)
      if(knownKey(K_WEIGHTS) && A->intParam(SoPlex::PRICER) != SoPlex::PRICER_DANTZIG && A->intParam(SoPlex::PRICER) != SoPlex::PRICER_PARMULT)
      {
         skip = true;
         e.count(std::string("excluded_known.") + K_WEIGHTS);
      }
      if(knownKey(K_SPARSE) && A->realParam(SoPlex::SPARSITY_THRESHOLD) != 0.0)
      {
         skip = true;
         e.count(std::string("excluded_known.") + K_SPARSE);
      }
      A->clearBasis();
      bool sc2 = SoPlexVerifAccess::isRealLPScaled(*A);
      std::string ra2 = doSolve(*A);
      int typeAfter2 = SoPlexVerifAccess::solverType(*A);
      Obs oa2 = observe(*A);
      if(!skip)
      {
         // the second and the third solve both start from a cleared basis: no state may survive clearBasis()
         A->clearBasis();
         bool sc3 = SoPlexVerifAccess::isRealLPScaled(*A);
         std::string ra3 = doSolve(*A);
         Obs oa3 = observe(*A);
         e.count("det.second_resolve_after_clearBasis");
         if(A->numIterations() >= 2) e.count("det.second_resolve_after_clearBasis.iters2+");
         if(knownKey("algorithm-type-persists") && typeAfter1 != typeAfter2)
         {
            // known finding C17/algorithm-type-persists: the solver keeps the algorithm type (ENTER/LEAVE) it ended the
            // previous solve with. The first solve ended in another type than the second one, so exactly one of the two
            // re-solves has to switch back first (setType -> unInit) and the two take different initialisation paths
            // (seen: 6 vs 17 iterations alternating from solve to solve)
            e.count("excluded_known.algorithm-type-persists");
         }
         else if(knownKey(K_FRESH) && sc2 != sc3)
         {
            // the second solve removed the persistent scaling (violations in the original space): the third solve
            // scales again and thereby starts like the first solve of a fresh object (same root cause)
            e.count(std::string("excluded_known.") + K_FRESH + ".rescaled_between_resolves");
         }
         else if(ra3 != ra2)
         {
            // known finding resolve-numerical-state-persists: different pivoting paths of consecutive re-solves; if one of them
            // ends without a verdict (abort by cycling, singular basis) that is a completeness matter of that solve (C01/C02)
            auto verdict = [](const std::string & r)
            {
               return r == "status OPTIMAL" || r == "status INFEASIBLE" || r == "status UNBOUNDED" || r == "status INForUNBD";
            };
            if(knownKey("resolve-numerical-state-persists") && !(verdict(ra2) && verdict(ra3)))
               e.count("excluded_known.resolve-numerical-state-persists.one_side_without_verdict");
            else v.fail("determinism: third solve after clearBasis() ends differently from the second solve after clearBasis(): " + ra2 + " vs " + ra3);
         }
         else
         {
            std::string d = firstDiff(oa2, oa3, TWIN_GROUPS, "second", "third");
            // known finding C17/resolve-numerical-state-persists: adaptive numerical state survives clearBasis() by design
            // (Markowitz threshold of the LU adapted to the stability of the last factorisation, shift / cycling / instability
            // counters, ...), so consecutive re-solves may take different pivoting paths. With the key known the two re-solves
            // are compared in status and optimal value; bitwise differences beyond that are counted
            if(!d.empty() && knownKey("resolve-numerical-state-persists") && obsGet(oa2, "status.status") == obsGet(oa3, "status.status")
                  && firstDiff(oa2, oa3, "lp par tol seed", "second", "third").empty())
            {
               bool okv = true;
               if(obsGet(oa2, "status.status") == "OPTIMAL")
               {
                  double a = atof(obsGet(oa2, "sol.objValueReal").c_str() + obsGet(oa2, "sol.objValueReal").find('(') + 1);
                  double b = atof(obsGet(oa3, "sol.objValueReal").c_str() + obsGet(oa3, "sol.objValueReal").find('(') + 1);
                  okv = std::fabs(a - b) <= 1e-6 * (1 + std::fabs(a) + std::fabs(b));
               }
               if(okv)
               {
                  e.count("excluded_known.resolve-numerical-state-persists");
                  d.clear();
               }
            }
            if(!d.empty()) v.fail("determinism: third solve after clearBasis() differs from the second solve after clearBasis() in " + d);
         }
      }
      if(v.ok && !skip)
      {
         // the statement's clause: first solve of the fresh object vs. re-solve after clearBasis()
         e.count("det.resolve_after_clearBasis");
         if(knownKey(K_FRESH)) e.count(std::string("excluded_known.") + K_FRESH);
         else if(ra2 != ra) v.fail("determinism: re-solve after clearBasis() ends differently from the first solve: " + ra + " vs " + ra2);
         else
         {
            std::string d = firstDiff(oa, oa2, TWIN_GROUPS, "first", "second");
            if(!d.empty()) v.fail("determinism: re-solve after clearBasis() differs from the first solve in " + d);
         }
      }
   }
   v.nontrivial = itA >= 2 && itB >= 2;
   destroyAt(A);
   destroyAt(B);
   freeGarbage(keep);
   return v;
}

// ------------------------------------------------------------------ part copy
static const char* EQ_GROUPS = "lp par tol basis status sol ratlp ratsol";   // what a copy must share with its source (statement)

static const char* INDEP_GROUPS_NOTOL = "lp par seed names basis status sol ratlp ratsol stat";
static const char* TWIN_GROUPS_NOTOL = "lp par seed basis status sol ratlp ratsol stat";

static Verdict runCopy(const Case& c)
{
   Verdict v;
   Evidence& e = ev();
   // known finding copy-shares-tolerances: the tolerance object is common to source and copy, so it is neither compared
   // across the mutation nor changed through setRealParam on the mutated side
   const bool tolShared = knownKey(K_TOL);
   const char* indepGroups = tolShared ? INDEP_GROUPS_NOTOL : nullptr;
   const char* twinGroups = tolShared ? TWIN_GROUPS_NOTOL : TWIN_GROUPS;
   Setup su = readSetup(c);
   const Rec* fr = c.find("fill");
   const Rec* gr = c.find("garbage");
   const Rec* cr = c.find("copy");
   int fillA = fr ? (int) fr->i(0) : 0, fillT = fr ? (int) fr->i(1) : 1, fillB = fr ? (int) fr->i(2) : 2;
   int kind = cr ? (int) cr->i(0) : 0, side = cr ? (int) cr->i(1) : 0;
   bool destroy = cr && cr->i(2) != 0, recycle = cr && cr->i(3) != 0;
   std::vector<void*> keep;
   std::string err;
   SoPlex* A = makeAt(fillA, nullptr);
   SoPlex* T = makeAt(fillT, nullptr);
   SoPlex* B = nullptr;
   auto cleanup = [&]()
   {
      destroyAt(A);
      destroyAt(B);
      destroyAt(T);
      A = B = T = nullptr;
      freeGarbage(keep);
   };
   if(!setupObject(*A, c, su, &err) || !setupObject(*T, c, su, &err))
   {
      cleanup();
      v.fail(err);
      return v;
   }
   int step = 0;
   bool solvedBefore = false;
   // ---- history before the copy, A and T in lockstep
   for(auto& r : c.recs)
   {
      if(r.tag != "pre") continue;
      step++;
      std::string xa = applyOp(*A, r, 0), xt = applyOp(*T, r, 0);
      e.count("pre.op." + r.s(0));
      if(isSolveOp(r, 0))
      {
         solvedBefore = true;
         countStatus("pre.solve", xa);
      }
      if(trace()) fprintf(stderr, "pre %d %s -> %s | %s\n", step, r.s(0).c_str(), xa.c_str(), xt.c_str());
      if(xa != xt)
      {
         v.fail("determinism: two objects with the same history before any copy: operation " + r.s(0) + " ends differently: " + xa.substr(0, 300) + " vs " + xt.substr(0, 300));
         cleanup();
         return v;
      }
   }
   Obs oa = observe(*A), ot = observe(*T);
   {
      std::string d = firstDiff(oa, ot, TWIN_GROUPS, "A", "twin");
      if(!d.empty())
      {
         v.fail("determinism: two objects with the same history before any copy differ in " + d);
         cleanup();
         return v;
      }
   }
   bool hadBasis = A->hasBasis();
   bool unloaded = !SoPlexVerifAccess::isRealLPLoaded(*A);
   bool rational = SoPlexVerifAccess::hasRationalLP(*A);
   bool scaled = SoPlexVerifAccess::isRealLPScaled(*A);
   static const char* KN[] = {"ctor", "assign_fresh", "assign_used", "self"};
   e.count(std::string("copy.kind.") + KN[kind & 3]);
   e.count(std::string("copy.point.") + (solvedBefore ? "after_solve" : "before_solve") + (hadBasis ? ".basis" : ".nobasis"));
   e.count(std::string("copy.point.reallp_") + (unloaded ? "unloaded" : "loaded"));
   e.count(std::string("copy.point.rationallp_") + (rational ? "present" : "absent"));
   if(scaled) e.count("copy.point.reallp_scaled");
   if(su.exact && solvedBefore) e.count("copy.point.after_exact_solve");
   if(c.lp.m() == 0 && c.lp.n() == 0) e.count("copy.point.never_loaded_empty");
   e.count(std::string("copy.point.status.") + statusName(A->status()));

   if(knownKey(K_SCALER) && scaled && side == 1 && kind != 3)
   {
      side = 0;      // the copy of a scaled LP works through the scaler object embedded in the source: leave the source alone
      e.count(std::string("excluded_known.") + K_SCALER);
   }
   if(knownKey(K_CTOR) && kind == 0 && fillB != 0)
   {
      fillB = 0;     // _optimizeCalls / _unscaleCalls (and the precision-boosting flags) of a copy-constructed object are never written
      e.count(std::string("excluded_known.") + K_CTOR + ".zero_fill");
   }
   if(knownKey(K_CTOR) && kind == 0 && (A->intParam(SoPlex::SCALER) == SoPlex::SCALER_GEO1 || A->intParam(SoPlex::SCALER) == SoPlex::SCALER_GEOEQUI))
   {
      kind = 1;      // assignment to a default-constructed object keeps the destination's correctly configured scalers
      e.count(std::string("excluded_known.") + K_CTOR);
   }
   bool rebindBasis = false;
   if(knownKey(K_MATRIX) && !unloaded && side == 1 && kind != 3)
   {
      // the copy's basis matrix consists of pointers into the source: with a basis, setBasis(getBasis()) on all objects
      // makes the copy rebuild it; without one the source is left alone (the copy is mutated instead)
      if(hadBasis) rebindBasis = true;
      else side = 0;
      e.count(std::string("excluded_known.") + K_MATRIX + (hadBasis ? ".rebound" : ".side_swapped"));
   }
   if(knownKey(K_FACTOR) && !unloaded && side == 1 && kind != 3 && hadBasis && !rebindBasis)
   {
      // the copy has no factorization: setBasis(getBasis()) on all objects makes source and twin refactorize as well
      rebindBasis = true;
      e.count(std::string("excluded_known.") + K_FACTOR);
   }
   heapGarbage(gr ? (int) gr->i(0) : 0, gr ? (int) gr->i(1) : 5, keep);
   // ---- the copy
   const char* copyWhat = "copy constructor";
   if(kind == 0) B = makeAt(fillB, A);
   else if(kind == 1)
   {
      copyWhat = "assignment to a fresh object";
      B = makeAt(fillB, nullptr);
      *B = *A;
   }
   else if(kind == 2)
   {
      copyWhat = "assignment to a used object";
      B = makeAt(fillB, nullptr);
      quiet(*B);
      const Rec* bp = c.find("bprev");
      bool bsolve = bp && bp->i(0) != 0, bsync = bp && bp->i(1) != 0;
      if(knownKey(K_LUASSIGN) && bsolve)
      {
         bsolve = false;
         e.count(std::string("excluded_known.") + K_LUASSIGN);
      }
      if(knownKey(K_LEAK) && bsync && rational)
      {
         bsync = false;     // destination and source both hold a rational LP: the destination's is dropped without being freed
         e.count(std::string("excluded_known.") + K_LEAK + ".rational");
      }
      if(knownKey(K_STATUS) && bsync && !rational)
      {
         bsync = false;
         e.count(std::string("excluded_known.") + K_STATUS);
      }
      if(bsync) B->setIntParam(SoPlex::SYNCMODE, SoPlex::SYNCMODE_AUTO);
      for(auto& r : c.recs)
      {
         if(r.tag == "bint") B->setIntParam((SoPlex::IntParam) r.i(0), (int) r.i(1));
         else if(r.tag == "bbool") B->setBoolParam((SoPlex::BoolParam) r.i(0), r.i(1) != 0);
      }
      if(bp && bp->i(2) != 0) B->setRandomSeed((unsigned) bp->i(2));
      LP blp;
      if(lpFromRecs(c, "b", blp)) loadReal(*B, blp, 0);
      if(bsolve)
      {
         if(knownKey(K_LEAK) && (B->intParam(SoPlex::SIMPLIFIER) != SoPlex::SIMPLIFIER_OFF || B->intParam(SoPlex::SCALER) != SoPlex::SCALER_OFF))
         {
            // a destination whose real LP is kept outside the solver (after a solve with simplifier / non-persistent scaler)
            // loses that LP without freeing it: let the destination solve without them
            B->setIntParam(SoPlex::SIMPLIFIER, SoPlex::SIMPLIFIER_OFF);
            B->setIntParam(SoPlex::SCALER, SoPlex::SCALER_OFF);
            e.count(std::string("excluded_known.") + K_LEAK + ".reallp");
         }
         std::string xb = doSolve(*B);
         countStatus("copy.dest_before.solve", xb);
      }
      e.count(std::string("copy.dest_before.reallp_") + (SoPlexVerifAccess::isRealLPLoaded(*B) ? "loaded" : "unloaded"));
      e.count(std::string("copy.dest_before.rationallp_") + (SoPlexVerifAccess::hasRationalLP(*B) ? "present" : "absent"));
      e.count(std::string("copy.dest_before.") + (B->hasBasis() ? "basis" : "nobasis"));
      *B = *A;
   }
   else
   {
      copyWhat = "self assignment";
      SoPlex* alias = A;
      *A = *alias;
      Obs oa2 = observe(*A);
      observe(*T);
      std::string d = firstDiff(oa, oa2, nullptr, "before", "after");
      if(!d.empty())
      {
         v.fail("self assignment a = a changed the object in " + d);
         cleanup();
         return v;
      }
   }
   // ---- equality of copy and source
   if(B)
   {
      Obs ob = observe(*B);
      Obs oa2 = observe(*A);
      observe(*T);
      std::string d = firstDiff(oa, oa2, nullptr, "before", "after");
      if(!d.empty())
      {
         v.fail(std::string("taking a copy (") + copyWhat + ") changed the source in " + d);
         cleanup();
         return v;
      }
      d = firstDiff(oa, ob, EQ_GROUPS, "source", "copy");
      if(!d.empty())
      {
         v.fail(std::string("copy (") + copyWhat + ") differs from its source in " + d);
         cleanup();
         return v;
      }
      if(obsGet(oa, "stat.numIterations") != obsGet(ob, "stat.numIterations")) e.count("copy.unclaimed.numIterations_differs");
      if(obsGet(oa, "seed.randomSeed") != obsGet(ob, "seed.randomSeed"))
      {
         if(knownKey(K_RNG)) e.count(std::string("excluded_known.") + K_RNG + ".seed_not_copied");
         else
         {
            v.fail(std::string("copy (") + copyWhat + ") has random seed " + obsGet(ob, "seed.randomSeed") + " but its source has " + obsGet(oa, "seed.randomSeed"));
            cleanup();
            return v;
         }
         B->setRandomSeed(A->randomSeed());
      }
      e.count("copy.equal_checked");
      if(knownKey(K_RATTOL))
      {
         // re-set the three parameters with a cached rational image in all three objects (what the copy should have got)
         static const int ids[] = {SoPlex::FEASTOL, SoPlex::OPTTOL, SoPlex::MAXSCALEINCR};
         bool dev = false;
         for(int id : ids)
         {
            double val = A->realParam((SoPlex::RealParam) id);
            if(val != SoPlex::Settings::realParam.defaultValue[id]) dev = true;
            A->setRealParam((SoPlex::RealParam) id, val);
            B->setRealParam((SoPlex::RealParam) id, val);
            T->setRealParam((SoPlex::RealParam) id, val);
         }
         if(dev || kind == 0) e.count(std::string("excluded_known.") + K_RATTOL);
      }
      if(knownKey(K_SCALEROFF) && A->intParam(SoPlex::SCALER) != SoPlex::SCALER_OFF && obsGet(oa, "names.scaler") == "none")
      {
         // the source's scaler pointer is transiently null: re-derive it from the parameter in all three objects
         Rec rb("op");
         rb.add("setint").add((int) SoPlex::SCALER).add(A->intParam(SoPlex::SCALER));
         applyOp(*A, rb, 0);
         applyOp(*B, rb, 0);
         applyOp(*T, rb, 0);
         e.count(std::string("excluded_known.") + K_SCALEROFF);
      }
      if(rebindBasis)
      {
         Rec rb("op");
         rb.add("basisrt");
         applyOp(*A, rb, 0);
         applyOp(*B, rb, 0);
         applyOp(*T, rb, 0);
      }
   }
   // ---- independence: mutate one side, the other must not change
   SoPlex** X = (B && side == 0) ? &B : &A;         // mutated
   SoPlex** Y = (B && side == 0) ? &A : (B ? &B : &A);   // kept (self assignment: the object itself is mutated and judged against the twin below)
   bool selfCase = (B == nullptr);
   const char* xn = selfCase ? "object" : (side == 0 ? "copy" : "source");
   const char* yn = selfCase ? "object" : (side == 0 ? "source" : "copy");
   if(!selfCase) e.count(std::string("copy.mutated.") + xn);
   int nPostOps = 0;
   if(!selfCase)
   {
      Obs y0 = observe(**Y);
      observe(*T);
      for(auto& r : c.recs)
      {
         if(r.tag != "post") continue;
         step++;
         if(tolShared && r.s(0) == "setreal")
         {
            e.count(std::string("excluded_known.") + K_TOL + ".setreal_skipped");
            continue;
         }
         std::string xx = applyOp(**X, r, 0);
         nPostOps++;
         e.count("post.op." + r.s(0));
         if(isSolveOp(r, 0)) countStatus("post.solve", xx);
         if(trace()) fprintf(stderr, "post %d %s on %s -> %s\n", step, r.s(0).c_str(), xn, xx.substr(0, 200).c_str());
      }
      Obs x0;
      if(destroy)
      {
         destroyAt(*X);
         *X = nullptr;
         e.count(std::string("copy.destroyed.") + xn);
         if(recycle)
         {
            heapGarbage(3, 7 + (gr ? (int) gr->i(1) : 0), keep);
            e.count("copy.destroyed.memory_recycled");
         }
      }
      else x0 = observe(**X);
      Obs y1 = observe(**Y);
      observe(*T);
      std::string d = firstDiff(y0, y1, indepGroups, "before", "after");
      if(!d.empty())
      {
         v.fail(std::string("independence: operations on the ") + xn + (destroy ? " and its destruction" : "") + " changed the " + yn + " in " + d);
         cleanup();
         return v;
      }
      e.count("copy.independence_checked");
      // ---- the kept side continues exactly like the never-copied twin
      int fstep = 0;
      for(auto& r : c.recs)
      {
         if(r.tag != "final") continue;
         fstep++;
         std::string xy = applyOp(**Y, r, 0), xt = applyOp(*T, r, 0);
         e.count("final.op." + r.s(0));
         if(isSolveOp(r, 0)) countStatus(std::string("final.solve.") + yn, xy);
         if(trace()) fprintf(stderr, "final %d %s on %s -> %s | twin %s\n", fstep, r.s(0).c_str(), yn, xy.substr(0, 200).c_str(), xt.substr(0, 200).c_str());
         // The SOURCE must not be affected by having been copied: it continues bit for bit like the never-copied twin.
         // For the COPY the statement claims equality at the time of the copy and independence afterwards, not that its
         // internal pivoting state (factorisation, pricing norms) is the source's: its continuation is compared with the
         // twin in LP, parameters, status and optimal value only (a different optimal basis / last bits are legitimate).
         bool strictTwin = std::string(yn) != "copy";
         if(strictTwin && xy != xt)
         {
            v.fail(std::string("the ") + yn + " does not continue like a never-copied twin: operation " + r.s(0) + " gives " + xy.substr(0, 300) + " but the twin " + xt.substr(0, 300));
            cleanup();
            return v;
         }
         if(isSolveOp(r, 0) || r.s(0) == "binv")
         {
            Obs oy = observe(**Y), ott = observe(*T);
            std::string dd = firstDiff(oy, ott, strictTwin ? twinGroups : (tolShared ? "lp par seed ratlp" : "lp par tol seed ratlp"), yn, "twin");
            if(dd.empty() && !strictTwin)
            {
               auto verdict = [](const std::string & st)
               {
                  return st == "OPTIMAL" || st == "INFEASIBLE" || st == "UNBOUNDED" || st == "INForUNBD";
               };
               std::string sy = obsGet(oy, "status.status"), stw = obsGet(ott, "status.status");
               // an abort / singular / cycling end of one of the two is a completeness matter of that solve (C01/C02)
               if(sy != stw && !(verdict(sy) && verdict(stw))) e.count("copy.continuation_one_side_without_verdict");
               else if(sy != stw) dd = "status.status: copy = " + sy + " | twin = " + stw;
               else if(obsGet(oy, "status.status") == "OPTIMAL")
               {
                  double a = (**Y).objValueReal(), b = T->objValueReal();
                  if(!(std::fabs(a - b) <= 1e-6 * (1 + std::fabs(a) + std::fabs(b)))) dd = "optimal value: copy = " + hx(a) + " | twin = " + hx(b);
               }
               if(dd.empty() && oy != ott) e.count("copy.continuation_differs_from_twin_in_unclaimed_detail");
            }
            if(!dd.empty())
            {
               v.fail(std::string("the ") + yn + " does not continue like a never-copied twin: after " + r.s(0) + " they differ in " + dd);
               cleanup();
               return v;
            }
         }
      }
      e.count(std::string("copy.twin_checked.") + yn);
      if(!destroy)
      {
         // and the operations on the kept side did not reach the mutated side either
         Obs x1 = observe(**X);
         std::string dd = firstDiff(x0, x1, indepGroups, "before", "after");
         if(!dd.empty())
         {
            v.fail(std::string("independence: operations on the ") + yn + " changed the " + xn + " in " + dd);
            cleanup();
            return v;
         }
      }
   }
   else
   {
      for(auto& r : c.recs)
      {
         if(r.tag != "final" && r.tag != "post") continue;
         std::string xy = applyOp(*A, r, 0), xt = applyOp(*T, r, 0);
         nPostOps++;
         if(xy != xt)
         {
            v.fail("after self assignment the object does not continue like its twin: operation " + r.s(0) + " gives " + xy.substr(0, 300) + " but the twin " + xt.substr(0, 300));
            cleanup();
            return v;
         }
         if(isSolveOp(r, 0))
         {
            Obs oy = observe(*A), ott = observe(*T);
            std::string dd = firstDiff(oy, ott, TWIN_GROUPS, "object", "twin");
            if(!dd.empty())
            {
               v.fail("after self assignment the object does not continue like its twin: after " + r.s(0) + " they differ in " + dd);
               cleanup();
               return v;
            }
         }
      }
      e.count("copy.twin_checked.self");
   }
   v.nontrivial = hadBasis && nPostOps >= 1;
   cleanup();
   return v;
}

static Verdict run(const Case& c)
{
   g_reseed = knownKey(K_RNG);
   g_rescaler = knownKey(K_SCALEROFF);
   const Rec* p = c.find("part");
   Verdict v = (p && p->s(0) == "copy") ? runCopy(c) : runDet(c);
   if(v.ok)
   {
      std::string l = leakCheck();
      if(!l.empty())
      {
         v.fail("memory leaked by this case (LeakSanitizer report above)");
         if(opts().mode != "replay")
         {
            // LeakSanitizer reports the same blocks again on every later check: shrinking would be meaningless, so the
            // current case is recorded as the failing one and the shard ends here
            std::string d = opts().dir;
            writeFile(d + "/failing.case", readFileText(d + "/current.case"));
            writeFile(d + "/failing.msg", v.msg + "\n");
            ev().failed = true;
            ev().evaluations++;
            ev().flush();
            printf("FAIL %s\n", v.msg.c_str());
            fflush(stdout);
            _exit(1);
         }
      }
   }
   return v;
}

int main(int argc, char** argv)
{
   return vfMain(argc, argv, "C17", gen, run);
}
