// inst.cpp - the one heavy translation unit: explicit instantiation of SoPlexBase<double>.
// Harness TUs declare `extern template class soplex::SoPlexBase<double>;` (spx.hpp) and link this.
#include "soplex.h"
namespace soplex
{
// debug-only member that calls a protected base function; it is never called in NDEBUG builds but
// blocks explicit instantiation, so it gets an empty specialisation here.
template<> void SoPlexBase<double>::_checkBasisScaling() {}
template class SoPlexBase<double>;
}
